import StorageModel.C15.Proofs
/-
  C15 — the specification's view of the indexes (`derive`: the image of the table) answers
  every index read like the engine model's incrementally maintained indexes, in every state
  satisfying the invariant (helper lemmas for Properties/C15.lean).
-/
namespace StorageModel.C15

theorem mget_mem {K V : Type} [DecidableEq K] (m : Map K V) (k : K) (v : V) (h : mget m k = some v) :
    (k, v) ∈ m := by
  induction m with
  | nil => simp at h
  | cons p t ih =>
    obtain ⟨a, b⟩ := p
    simp only [mget] at h
    by_cases hk : a = k
    · simp only [hk, if_true, Option.some.injEq] at h
      subst hk; subst h; exact List.mem_cons_self
    · simp only [hk, if_false] at h
      exact List.mem_cons_of_mem _ (ih h)

theorem mem_mget {K V : Type} [DecidableEq K] (m : Map K V) (k : K) (v : V) (h : (k, v) ∈ m) :
    ∃ v', mget m k = some v' := by
  induction m with
  | nil => cases h
  | cons p t ih =>
    obtain ⟨a, b⟩ := p
    by_cases hk : a = k
    · exact ⟨b, by simp [mget, hk]⟩
    · simp only [mget, hk, if_false]
      rcases List.mem_cons.1 h with h' | h'
      · cases h'; exact absurd rfl hk
      · exact ih h'

/-- the unique index as the image of the table under `key` -/
def deriveUniq (ents : Ents) (key : Ent → Val) : Map Val Id :=
  (mkeys ents).filterMap fun id =>
    match mget ents id with
    | some e => if key e ≠ 0 then some (key e, id) else none
    | none => none

theorem mem_deriveUniq (ents : Ents) (key : Ent → Val) (v : Val) (j : Id) :
    (v, j) ∈ deriveUniq ents key ↔ v ≠ 0 ∧ ∃ e, mget ents j = some e ∧ key e = v := by
  simp only [deriveUniq, List.mem_filterMap, mem_mkeys]
  constructor
  · rintro ⟨id, ⟨e, he⟩, h⟩
    simp only [he] at h
    split at h
    · next hk => cases h; exact ⟨hk, e, he, rfl⟩
    · cases h
  · rintro ⟨hv, e, he, hk⟩
    refine ⟨j, ⟨e, he⟩, ?_⟩
    subst hk
    simp [he, hv]

/-- on a table whose keys are unique, the derived index mirrors the table -/
theorem deriveUniq_mirror (ents : Ents) (key : Ent → Val)
    (huniq : ∀ j j' e e', mget ents j = some e → mget ents j' = some e' → key e = key e' → key e ≠ 0 → j = j') :
    UMirror (deriveUniq ents key) ents key := by
  intro v j
  constructor
  · intro h; exact (mem_deriveUniq ents key v j).1 (mget_mem _ _ _ h)
  · intro h
    obtain ⟨j', hj'⟩ := mem_mget _ _ _ ((mem_deriveUniq ents key v j).2 h)
    obtain ⟨hv, e', he', hk'⟩ := (mem_deriveUniq ents key v j').1 (mget_mem _ _ _ hj')
    obtain ⟨_, e, he, hk⟩ := h
    have : j = j' := huniq j j' e e' he he' (hk.trans hk'.symm) (hk ▸ hv)
    rw [this]; exact hj'

theorem umirror_unique {idx : Map Val Id} {ents : Ents} {key : Ent → Val} (h : UMirror idx ents key) :
    ∀ j j' e e', mget ents j = some e → mget ents j' = some e' → key e = key e' → key e ≠ 0 → j = j' := by
  intro j j' e e' he he' hk h0
  have a := (h (key e) j).2 ⟨h0, e, he, rfl⟩
  have b := (h (key e) j').2 ⟨h0, e', he', hk.symm⟩
  rw [a] at b; exact Option.some.inj b

/-- two indexes mirroring the same table answer every read alike -/
theorem umirror_agree {idx idx' : Map Val Id} {ents : Ents} {key : Ent → Val}
    (h : UMirror idx ents key) (h' : UMirror idx' ents key) (v : Val) : mget idx v = mget idx' v := by
  cases hg : mget idx v with
  | some j => exact ((h' v j).2 ((h v j).1 hg)).symm
  | none =>
    cases hg' : mget idx' v with
    | none => rfl
    | some j => rw [(h v j).2 ((h' v j).1 hg')] at hg; cases hg

theorem derive_nameIdx (ents : Ents) : (derive ents).nameIdx = deriveUniq ents (·.name) := rfl
theorem derive_codeIdx (ents : Ents) : (derive ents).codeIdx = deriveUniq ents (·.codeKey) := rfl

theorem derive_roles_mirror (ents : Ents) : SMirror (derive ents).rolesIdx ents := by
  intro r j
  simp only [derive, List.mem_flatMap, mem_mkeys]
  constructor
  · rintro ⟨id, ⟨e, he⟩, h⟩
    simp only [he, List.mem_map, Prod.mk.injEq] at h
    obtain ⟨r', hr', rfl, rfl⟩ := h
    exact ⟨e, he, hr'⟩
  · rintro ⟨e, he, hr⟩
    exact ⟨j, ⟨e, he⟩, by simp [he, hr]⟩

end StorageModel.C15
