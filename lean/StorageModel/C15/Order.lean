import StorageModel.C15.Model
/-
  C15 — the order in which the parent's child stores are registered
  (`RegisterChildStoreStrategy`; `BaseStore.Update` and `BaseStore.DeleteById` walk
  `childStoreStrategies` in that order).

  Model.lean fixes the order A1 (plain), A2 (extended).  Here the same two functions are written
  for either order (`a2First`), and it is proved that the resulting *state* (or error) never
  depends on it: every child store that finds the entity runs its delete constraints whichever
  store is probed first, and the parent's `Update` of an entity carrying data of both child stores
  rewrites the shared fields and the parent's indexes alike through either child.  Only the order
  (and, for `Update`, the addressee) of the child stores' entity events depends on it.  So every
  theorem about `stepOp` / `run` speaks about both wirings.
-/
namespace StorageModel.C15

/-- the child stores in registration order -/
def childOrder (a2First : Bool) : Sel × Sel := if a2First then (.A2, .A1) else (.A1, .A2)

/-- the delegation step of `BaseStore.Update` for one registered child store:
    `ChildStoreUpdateHandler.HandleUpdate` — `none` = not handled -/
def handleUpdate (st : St) (c : Sel) (id : Id) (p : Payload) (chk : Option Checker) : Option (Except Err St) :=
  if isEntityPresent st c id then
    match findById st c id with
    | some (_, _, v) => some (updateChildM st c id { p with child := v } chk)
    | none => some (.error .notfound)
  else none

/-- `BaseStore.Update` through store `s`, child stores registered in the order `childOrder a2First` -/
def updateMOrd (a2First : Bool) (st : St) (s : Sel) (id : Id) (p : Payload) (chk : Option Checker) : Except Err St :=
  match s with
  | .A =>
    match handleUpdate st (childOrder a2First).1 id p chk with
    | some r => r
    | none =>
      match handleUpdate st (childOrder a2First).2 id p chk with
      | some r => r
      | none =>
        if id = 0 then .error .blank
        else
          match mget st.ents id with
          | none => .error .notfound
          | some e => indexAfter .A false st id e (persistShared e p chk)
  | s => updateChildM st s id p chk

/-- `BaseStore.DeleteById`, fan-out in registration order -/
def deleteMOrd (a2First : Bool) (st : St) (_s : Sel) (id : Id) : Except Err St :=
  match mget st.ents id with
  | none => .error .notfound
  | some _ =>
    let st1 := processDeleteConstraints st (childOrder a2First).1 id
    let st2 := processDeleteConstraints st1 (childOrder a2First).2 id
    let st3 := processDeleteConstraints st2 .A id
    .ok { st3 with ents := mdel st3.ents id }

def stepOpOrd (a2First : Bool) (cfg : Cfg) (st : St) : Op → Except Err St
  | .create s id p => createM cfg st s id p
  | .update s id p chk => updateMOrd a2First st s id p chk
  | .delete s id => deleteMOrd a2First st s id

/-- the entity events of a successful operation, in delivery order, for either registration order -/
def eventsOfOrd (a2First : Bool) (st : St) : Op → List Ev
  | .create .A id _ => [⟨.A, .created, id⟩]
  | .create s id _ => [⟨.A, .created, id⟩, ⟨s, .created, id⟩]
  | .update .A id _ _ =>
    if isEntityPresent st (childOrder a2First).1 id then [⟨.A, .updated, id⟩, ⟨(childOrder a2First).1, .updated, id⟩]
    else if isEntityPresent st (childOrder a2First).2 id then [⟨.A, .updated, id⟩, ⟨(childOrder a2First).2, .updated, id⟩]
    else [⟨.A, .updated, id⟩]
  | .update s id _ _ => [⟨.A, .updated, id⟩, ⟨s, .updated, id⟩]
  | .delete _ id =>
    [⟨.A, .deleted, id⟩] ++
      (if (bucketForLoad st (childOrder a2First).1 id).isSome then [⟨(childOrder a2First).1, .deleted, id⟩] else []) ++
      (if (bucketForLoad st (childOrder a2First).2 id).isSome then [⟨(childOrder a2First).2, .deleted, id⟩] else [])

/-! ### the order of Model.lean -/

theorem updateMOrd_false (st : St) (s : Sel) (id : Id) (p : Payload) (chk : Option Checker) :
    updateMOrd false st s id p chk = updateM st s id p chk := by
  cases s <;> simp only [updateMOrd, updateM, childOrder, handleUpdate, Bool.false_eq_true, if_false]
  cases h1 : isEntityPresent st .A1 id
  · cases h2 : isEntityPresent st .A2 id
    · simp only [Bool.false_eq_true, if_false]
      rfl
    · simp only [if_true, Bool.false_eq_true, if_false]
      cases findById st .A2 id with
      | none => rfl
      | some r => rfl
  · simp only [if_true]
    cases findById st .A1 id with
    | none => rfl
    | some r => rfl

theorem deleteMOrd_false (st : St) (s : Sel) (id : Id) : deleteMOrd false st s id = deleteM st s id := rfl

theorem eventsOfOrd_false (st : St) (op : Op) : eventsOfOrd false st op = eventsOf st op := by
  cases op with
  | create s id p => cases s <;> rfl
  | update s id p chk => cases s <;> rfl
  | delete s id => rfl

/-! ### the state does not depend on the order -/

theorem processDeleteConstraints_ents (st : St) (s : Sel) (id : Id) :
    (processDeleteConstraints st s id).ents = st.ents := by
  unfold processDeleteConstraints
  cases bucketForLoad st s id <;> rfl

theorem pdc_eq (st : St) (s : Sel) (id : Id) :
    processDeleteConstraints st s id =
      (match bucketForLoad st s id with
       | none => st
       | some e => indexBeforeDelete s st id e) := rfl

theorem bucketForLoad_congr (st st' : St) (h : st'.ents = st.ents) (s : Sel) (id : Id) :
    bucketForLoad st' s id = bucketForLoad st s id := by
  unfold bucketForLoad; rw [h]

/-- **The delete fan-out reaches every child store whichever is registered first**: the state
    after `DeleteById` is the same for both registration orders. -/
theorem deleteMOrd_order_irrelevant (a2First : Bool) (st : St) (s : Sel) (id : Id) :
    deleteMOrd a2First st s id = deleteM st s id := by
  cases a2First with
  | false => rfl
  | true =>
    unfold deleteMOrd deleteM
    cases hm : mget st.ents id with
    | none => rfl
    | some e0 =>
      simp only [childOrder, if_true]
      have e1 : bucketForLoad (processDeleteConstraints st .A2 id) .A1 id = bucketForLoad st .A1 id :=
        bucketForLoad_congr _ _ (processDeleteConstraints_ents st .A2 id) _ _
      have e2 : bucketForLoad (processDeleteConstraints st .A1 id) .A2 id = bucketForLoad st .A2 id :=
        bucketForLoad_congr _ _ (processDeleteConstraints_ents st .A1 id) _ _
      have hcomm : processDeleteConstraints (processDeleteConstraints st .A2 id) .A1 id =
          processDeleteConstraints (processDeleteConstraints st .A1 id) .A2 id := by
        rw [pdc_eq (processDeleteConstraints st .A2 id) .A1, e1, pdc_eq (processDeleteConstraints st .A1 id) .A2, e2,
          pdc_eq st .A1, pdc_eq st .A2]
        unfold bucketForLoad
        simp only [hm, Ent.hasChild, Sel.isExtended]
        by_cases h1 : e0.c1.isSome = true <;> by_cases h2 : e0.c2.isSome = true <;> simp [h1, h2, indexBeforeDelete]
      rw [hcomm]

/-- for an entity that carries data of both child stores the parent's `Update` does the same to
    the state through either child -/
theorem updateChild_both (st : St) (id : Id) (e : Ent) (hm : mget st.ents id = some e)
    (h1 : e.c1.isSome = true) (h2 : e.c2.isSome = true) (p : Payload) (chk : Option Checker) :
    updateChildM st .A2 id { p with child := e.childField .A2 } chk =
      updateChildM st .A1 id { p with child := e.childField .A1 } chk := by
  unfold updateChildM
  by_cases hid : id = 0
  · simp [hid]
  · simp only [hid, if_false, bucketForLoad, hm, Ent.hasChild, h1, h2, if_true, Bool.not_true, Bool.false_eq_true]
    obtain ⟨n, r, c1, c2⟩ := e
    cases c1 with
    | none => cases h1
    | some v1 =>
      cases c2 with
      | none => cases h2
      | some v2 =>
        have ea : persistChild (persistShared ⟨n, r, some v1, some v2⟩ { p with child := v2 } chk) .A2 { p with child := v2 } chk
            = persistShared ⟨n, r, some v1, some v2⟩ p chk := by
          cases chk with
          | none => simp [persistChild, persistShared, proceed]
          | some c => cases hc : c.child <;> simp [persistChild, persistShared, proceed, Ent.childField, hc]
        have eb : persistChild (persistShared ⟨n, r, some v1, some v2⟩ { p with child := v1 } chk) .A1 { p with child := v1 } chk
            = persistShared ⟨n, r, some v1, some v2⟩ p chk := by
          cases chk with
          | none => simp [persistChild, persistShared, proceed]
          | some c => cases hc : c.child <;> simp [persistChild, persistShared, proceed, Ent.childField, hc]
        simp only [Ent.childField]
        rw [ea, eb]
        have hk : (persistShared ⟨n, r, some v1, some v2⟩ p chk).codeKey = (⟨n, r, some v1, some v2⟩ : Ent).codeKey := by
          simp [persistShared, Ent.codeKey]
        unfold indexAfter
        simp only [hk, uniqAfter, Bool.not_false, Bool.true_and, beq_self_eq_true, if_true]
        rfl

/-- **`Update` through the parent does not depend on the registration order** (state and error) -/
theorem updateMOrd_order_irrelevant (a2First : Bool) (st : St) (s : Sel) (id : Id) (p : Payload)
    (chk : Option Checker) : updateMOrd a2First st s id p chk = updateM st s id p chk := by
  cases a2First with
  | false => exact updateMOrd_false st s id p chk
  | true =>
    rw [← updateMOrd_false]
    cases s with
    | A1 => rfl
    | A2 => rfl
    | A =>
      simp only [updateMOrd, childOrder, if_true, Bool.false_eq_true, if_false, handleUpdate]
      cases hm : mget st.ents id with
      | none => simp [isEntityPresent, hm]
      | some e =>
        cases h1 : e.c1.isSome <;> cases h2 : e.c2.isSome <;>
          simp only [isEntityPresent, hm, Ent.hasChild, h1, h2, if_true, Bool.false_eq_true, if_false]
        -- both present: A2 first vs A1 first
        simp only [findById, bucketForLoad, hm, Ent.hasChild, h1, h2, if_true]
        exact updateChild_both st id e hm h1 h2 p chk

/-- every operation, every state: same result for both registration orders -/
theorem stepOpOrd_order_irrelevant (a2First : Bool) (cfg : Cfg) (st : St) (op : Op) :
    stepOpOrd a2First cfg st op = stepOp cfg st op := by
  cases op with
  | create s id p => rfl
  | update s id p chk => exact updateMOrd_order_irrelevant a2First st s id p chk
  | delete s id => exact deleteMOrd_order_irrelevant a2First st s id

/-- the events: the same set of (store, kind, id) for a delete, in registration order -/
theorem delete_events_order (a2First : Bool) (st : St) (s : Sel) (id : Id) (ev : Ev) :
    ev ∈ eventsOfOrd a2First st (.delete s id) ↔ ev ∈ eventsOf st (.delete s id) := by
  cases a2First with
  | false => rw [eventsOfOrd_false]
  | true =>
    simp only [eventsOfOrd, eventsOf, childOrder, if_true, List.mem_append]
    constructor
    · rintro ((h | h) | h) <;> simp_all
    · rintro ((h | h) | h) <;> simp_all

end StorageModel.C15
