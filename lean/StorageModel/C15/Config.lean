import StorageModel.C15.Model
import StorageModel.Generated.C15Config
/- which variant of `BaseStore.Create` the tree under test has (see `Cfg`): regenerated from
   boltz/store_crud.go by /verif/extract (c15create.go) on every run -/
namespace StorageModel.C15.Config
def current : Cfg := Generated.c15Config
def known : Bool := Generated.c15ConfigKnown
end StorageModel.C15.Config
