import StorageModel.C15.Depth
/-
  C15 — proofs about chains of stores of any depth (C15/Depth.lean).
-/
namespace StorageModel.C15.Depth
open StorageModel.C15

/-! ### scan loop = filter by the code's ownership rule -/

/-- the rows the scan loop of store k keeps -/
def scanKeeps (lv : Chain) (st : DSt) (k : Nat) (f : Filter) (id : Id) : Prop :=
  ∃ e, mget st.ents id = some e ∧ (k = 0 ∨ e.present k = true ∨ isExt lv k = true) ∧ fevalD f e = true

theorem mem_scanLoopD (lv : Chain) (st : DSt) (k : Nat) (f : Filter) (ids : List Id) (x : Id) :
    x ∈ scanLoopD lv st k f ids ↔ x ∈ ids ∧ scanKeeps lv st k f x := by
  induction ids with
  | nil => simp [scanLoopD]
  | cons a t ih =>
    unfold scanLoopD
    by_cases hk : k = 0
    · subst hk
      cases hm : mget st.ents a with
      | none =>
        simp only [bne_self_eq_false, Bool.false_and, Bool.false_eq_true, if_false, ih, List.mem_cons]
        constructor
        · rintro ⟨h1, h2⟩; exact ⟨Or.inr h1, h2⟩
        · rintro ⟨h1 | h1, h2⟩
          · subst h1; obtain ⟨e, he, _⟩ := h2; simp [hm] at he
          · exact ⟨h1, h2⟩
      | some e =>
        by_cases hf : fevalD f e = true
        · simp only [bne_self_eq_false, Bool.false_and, Bool.false_eq_true, if_false, hf, if_true, List.mem_cons, ih]
          constructor
          · rintro (h | ⟨h1, h2⟩)
            · subst h; exact ⟨Or.inl rfl, e, hm, Or.inl rfl, hf⟩
            · exact ⟨Or.inr h1, h2⟩
          · rintro ⟨h1 | h1, h2⟩
            · exact Or.inl h1
            · exact Or.inr ⟨h1, h2⟩
        · simp only [bne_self_eq_false, Bool.false_and, Bool.false_eq_true, if_false, hf, ih, List.mem_cons]
          constructor
          · rintro ⟨h1, h2⟩; exact ⟨Or.inr h1, h2⟩
          · rintro ⟨h1 | h1, h2⟩
            · subst h1; obtain ⟨e', he', _, hf'⟩ := h2
              rw [hm] at he'; cases he'; exact absurd hf' hf
            · exact ⟨h1, h2⟩
    · have hk' : (k != 0) = true := by simp [hk]
      cases hm : mget st.ents a with
      | none =>
        have hp : isPresent st k a = false := by simp [isPresent, hm]
        by_cases hx : isExt lv k = true
        · simp only [hk', hp, hx, Bool.not_false, Bool.not_true, Bool.and_false, Bool.false_eq_true, if_false, ih, List.mem_cons]
          constructor
          · rintro ⟨h1, h2⟩; exact ⟨Or.inr h1, h2⟩
          · rintro ⟨h1 | h1, h2⟩
            · subst h1; obtain ⟨e, he, _⟩ := h2; simp [hm] at he
            · exact ⟨h1, h2⟩
        · have hx' : isExt lv k = false := by simpa using hx
          simp only [hk', hp, hx', Bool.not_false, Bool.and_self, if_true, ih, List.mem_cons]
          constructor
          · rintro ⟨h1, h2⟩; exact ⟨Or.inr h1, h2⟩
          · rintro ⟨h1 | h1, h2⟩
            · subst h1; obtain ⟨e, he, _⟩ := h2; simp [hm] at he
            · exact ⟨h1, h2⟩
      | some e =>
        have hp : isPresent st k a = e.present k := by simp [isPresent, hm]
        by_cases hskip : (!e.present k && !isExt lv k) = true
        · have h1 : e.present k = false := by
            cases h : e.present k <;> simp [h] at hskip ⊢
          have h2 : isExt lv k = false := by
            cases h : isExt lv k <;> simp [h] at hskip ⊢
          simp only [hk', hp, h1, h2, Bool.not_false, Bool.and_self, if_true, ih, List.mem_cons]
          constructor
          · rintro ⟨h3, h4⟩; exact ⟨Or.inr h3, h4⟩
          · rintro ⟨h3 | h3, h4⟩
            · subst h3; obtain ⟨e', he', hor, _⟩ := h4
              rw [hm] at he'; cases he'
              rcases hor with h | h | h
              · exact absurd h hk
              · simp [h1] at h
              · simp [h2] at h
            · exact ⟨h3, h4⟩
        · have hkeep : e.present k = true ∨ isExt lv k = true := by
            rcases Bool.eq_false_or_eq_true (e.present k) with h | h
            · exact Or.inl h
            · rcases Bool.eq_false_or_eq_true (isExt lv k) with h' | h'
              · exact Or.inr h'
              · exact absurd (by simp [h, h']) hskip
          have hcond : (k != 0 && !isPresent st k a && !isExt lv k) = false := by
            rw [hp]
            rcases hkeep with h | h
            · simp [h]
            · simp [h]
          by_cases hf : fevalD f e = true
          · simp only [hcond, Bool.false_eq_true, if_false, hf, if_true, List.mem_cons, ih]
            constructor
            · rintro (h | ⟨h1, h2⟩)
              · subst h; exact ⟨Or.inl rfl, e, hm, Or.inr hkeep, hf⟩
              · exact ⟨Or.inr h1, h2⟩
            · rintro ⟨h1 | h1, h2⟩
              · exact Or.inl h1
              · exact Or.inr ⟨h1, h2⟩
          · simp only [hcond, Bool.false_eq_true, if_false, hf, ih, List.mem_cons]
            constructor
            · rintro ⟨h1, h2⟩; exact ⟨Or.inr h1, h2⟩
            · rintro ⟨h1 | h1, h2⟩
              · subst h1; obtain ⟨e', he', _, hf'⟩ := h2
                rw [hm] at he'; cases he'; exact absurd hf' hf
              · exact ⟨h1, h2⟩

/-- `QueryIds` / `IterateIds` of store k return exactly the rows the scan rule keeps -/
theorem mem_queryIdsD (lv : Chain) (st : DSt) (k : Nat) (f : Filter) (x : Id) :
    x ∈ queryIdsD lv st k f ↔ scanKeeps lv st k f x := by
  unfold queryIdsD idsInOrderD
  rw [mem_scanLoopD, mem_canon, mem_mkeys]
  constructor
  · exact fun h => h.2
  · intro h
    obtain ⟨e, he, hr⟩ := h
    exact ⟨⟨e, he⟩, e, he, hr⟩

/-! ### delete -/

theorem pdc_ents (lv : Chain) (st : DSt) (k : Nat) (id : Id) :
    (processDeleteConstraintsD lv st k id).ents = st.ents := by
  unfold processDeleteConstraintsD
  split <;> simp [indexBeforeDeleteD]

theorem deleteD_ents (lv : Chain) (st st' : DSt) (k : Nat) (id : Id) (h : deleteD lv st k id = .ok st') :
    st'.ents = mdel st.ents id := by
  unfold deleteD at h
  split at h
  · cases h
  · by_cases hl : lv.isEmpty = true
    · simp only [hl, if_true] at h
      cases h; simp [pdc_ents]
    · simp only [hl, Bool.false_eq_true, if_false] at h
      cases h; simp [pdc_ents]

/-- the own index of store i+1 after the delete constraints of the context of store m ≤ i is what it was -/
theorem levelsBeforeDelete_getD (lv : Chain) (e : DEnt) (f : Nat) :
    ∀ (i : Nat) (l : List (Map Val Id)) (j : Nat), i + f ≤ j →
      (levelsBeforeDelete lv e i f l).getD j [] = l.getD j [] := by
  induction f with
  | zero => intro i l j _; rfl
  | succ f ih =>
    intro i l j hj
    unfold levelsBeforeDelete
    split
    · rw [ih (i + 1) _ j (by omega)]
      simp only [List.getD_eq_getElem?_getD]
      rw [List.getElem?_set_ne (by omega)]
    · exact ih (i + 1) l j (by omega)

theorem pdc_lidx_deep (lv : Chain) (st : DSt) (k : Nat) (id : Id) (j : Nat) (hj : k ≤ j) :
    (processDeleteConstraintsD lv st k id).lidx.getD j [] = st.lidx.getD j [] := by
  unfold processDeleteConstraintsD
  split
  · rfl
  · simp only [indexBeforeDeleteD]
    exact levelsBeforeDelete_getD lv _ k 0 st.lidx j (by omega)

/-- what `DeleteById` does to the own indexes of the stores at depth ≥ 2 (list index ≥ 1): nothing -/
theorem deleteD_deep_indexes_untouched (lv : Chain) (st st' : DSt) (k : Nat) (id : Id)
    (h : deleteD lv st k id = .ok st') (j : Nat) (hj : 1 ≤ j) :
    st'.lidx.getD j [] = st.lidx.getD j [] := by
  unfold deleteD at h
  split at h
  · cases h
  · by_cases hl : lv.isEmpty = true
    · simp only [hl, if_true] at h
      cases h
      exact pdc_lidx_deep lv st 0 id j (by omega)
    · simp only [hl, Bool.false_eq_true, if_false] at h
      cases h
      show (processDeleteConstraintsD lv (processDeleteConstraintsD lv st 1 id) 0 id).lidx.getD j [] = _
      rw [pdc_lidx_deep lv _ 0 id j (by omega), pdc_lidx_deep lv st 1 id j hj]

/-! ### create -/

theorem indexAfterD_ents (lv : Chain) (m : Nat) (c : Bool) (st st' : DSt) (id : Id) (old new : DEnt)
    (h : indexAfterD lv m c st id old new = .ok st') : st'.ents = mput st.ents id new := by
  unfold indexAfterD at h
  cases h1 : uniqA false c .dupName st.nameIdx old.name new.name id with
  | error e => simp [h1, bind, Except.bind] at h
  | ok n =>
    cases h2 : levelsAfter lv c id old new 0 m st.lidx with
    | error e => simp [h1, h2, bind, Except.bind] at h
    | ok l =>
      simp [h1, h2, bind, Except.bind, pure, Except.pure] at h
      cases h; rfl

theorem createD_entity (lv : Chain) (st st' : DSt) (k : Nat) (id : Id) (p : DPayload)
    (h : createD lv st k id p = .ok st') :
    mget st'.ents id = some (persistD ((mget st.ents id).getD DEnt.empty) k p none k) := by
  unfold createD at h
  split at h
  · cases h
  · split at h
    · cases h
    · rw [indexAfterD_ents _ _ _ _ _ _ _ _ h]; simp

theorem persistD_present (e : DEnt) (k : Nat) (p : DPayload) (chk : Option Checker) (m j : Nat) (hj : j ≤ m) :
    (persistD e k p chk m).present j = true := by
  simp only [DEnt.present, persistD, List.length_map, List.length_range, decide_eq_true_eq]
  omega

end StorageModel.C15.Depth
