/-
  C17 — the vocabulary of the regenerated lock table (Generated/DbLocks.lean, written by
  /verif/extract/dblocks.go from boltz/db.go) and its reading as programs of the lock model.
-/
import StorageModel.C17.Lock
namespace StorageModel.C17
open Lock

inductive LockEv where
  | rlock | runlock | wlock | wunlock   -- reloadLock.RLock / RUnlock / Lock / Unlock
  | dbtx                                -- self.db.View / Update / Batch
  | copy                                -- tx.CopyFile / tx.WriteTo
  | persist                             -- os.Create of the temporary snapshot file
  | close | rename | reopen             -- self.db.Close, os.Rename, bbolt.Open
  | fire                                -- go listener()
  deriving DecidableEq, Repr

abbrev LockTable := List (String × List LockEv)

def LockTable.get (t : LockTable) (name : String) : Option (List LockEv) :=
  match t.find? (fun e => e.1 == name) with
  | some e => some e.2
  | none => none

/-- reading of an entry point as a transaction program of the lock model: read-lock events as they
    are; a bolt transaction and a file copy are reads of the open handle; anything a transaction
    program cannot contain (write lock, close, rename, open) makes the reading fail -/
def toTxProg : List LockEv → Option (List TxAct)
  | [] => some []
  | .rlock :: r => (toTxProg r).map (.rlock :: ·)
  | .runlock :: r => (toTxProg r).map (.runlock :: ·)
  | .dbtx :: r => (toTxProg r).map (.read :: ·)
  | .copy :: r => (toTxProg r).map (.read :: ·)
  | _ :: _ => none

/-- the entry points that run a transaction against the open handle -/
def txEntryPoints : List String :=
  ["Update", "Batch", "View", "Snapshot", "StreamToWriter", "GetSnapshotId", "GetTimelineId"]

def txProg (t : LockTable) (name : String) : Option (List TxAct) :=
  match t.get name with
  | some evs => toTxProg evs
  | none => none

/-- every transaction entry point reads as a balanced program whose reads are under a read hold -/
def txProgsGuarded (t : LockTable) : Bool :=
  txEntryPoints.all fun n => match txProg t n with
    | some p => wf 0 p
    | none => false

def txProgFlat (t : LockTable) (name : String) : Bool :=
  match txProg t name with
  | some p => flat 0 p
  | none => false

/-- the sequence RestoreFromReader must show for the `RPc` steps of the model to be its reading:
    persist outside the lock; Lock; Close, Rename, Rename, Open; go listener(); deferred Unlock -/
def restoreShape : List LockEv := [.persist, .wlock, .close, .rename, .rename, .reopen, .fire, .wunlock]

def restoreModelled (t : LockTable) : Bool :=
  t.get "RestoreFromReader" == some restoreShape && t.get "RestoreSnapshot" == some restoreShape

/-- SnapshotInTx and RootBucket are called with a transaction in hand, i.e. under that
    transaction's read hold; they are re-entrant iff they take the read lock themselves -/
def takesReadLock (t : LockTable) (name : String) : Bool :=
  match t.get name with
  | some evs => evs.contains .rlock
  | none => false

/-! ### methods called from INSIDE a transaction body

  `Generated.dbInTxPrograms`: every exported DbImpl method on the path taken when it is called from inside a
  running transaction (for Update / Batch: `ctx.Tx() != nil`, no lock, `fn(ctx)`).  `Generated.dbInTxApis`: the
  methods a transaction body calls — those that take the transaction as a parameter, and those the repository
  itself calls inside a function passed to Update / View / Batch (Migrate: RootBucket, SnapshotInTx,
  GetDefaultSnapshotPath).  The caller holds the transaction's read hold, so such a method must not take the
  read lock itself.  (The other lock-taking entry points open a transaction of their own: calling them from
  inside a transaction body NESTS transactions; they take the read lock recursively by design, which is what
  the comments in RootBucket / SnapshotInTx say deadlocks with a waiting restore.) -/

/-- a transaction whose body calls the method: RLock; begin bolt tx; the method's in-transaction path; RUnlock -/
def inTxCall (api : List TxAct) : List TxAct := [.rlock, .read] ++ api ++ [.runlock]

def inTxProg (t : LockTable) (name : String) : Option (List TxAct) := (txProg t name).map inTxCall

/-- every method a transaction body calls composes to a flat (non-recursive) transaction program -/
def inTxApisFlat (apis : List (String × String)) (t : LockTable) : Bool :=
  apis.all fun a => match inTxProg t a.1 with
    | some p => flat 0 p
    | none => false

/-- helpers that take the read lock BY DESIGN although they open no transaction: `Stats()` reads the handle and
    has no transaction parameter to tell it that the caller already holds the lock.  Calling it from inside a
    transaction body is a recursive acquisition (deadlock with a waiting restore: the model says so, the staged
    run shows it); nothing in the repository does. -/
def lockByDesign : List String := ["Stats"]

def lifecycle : List String := ["Close", "Open", "RestoreSnapshot", "RestoreFromReader"]

/-- must the method return when a transaction body calls it while a restore waits?  Yes unless it opens a
    transaction of its own on that path (nesting transactions) or is in `lockByDesign` -/
def mustReturnInTx (t : LockTable) (name : String) : Bool :=
  match t.get name with
  | some evs => !evs.contains .dbtx && !lockByDesign.contains name && !lifecycle.contains name
  | none => false

/-- every such method is free of the read lock on its in-transaction path -/
def helpersLockFree (t : LockTable) : Bool :=
  t.all fun e => !mustReturnInTx t e.1 || !(e.2.contains .rlock || e.2.contains .wlock)

/-- does the method open a bolt transaction of its own? -/
def opensTx (t : LockTable) (name : String) : Bool :=
  match t.get name with
  | some evs => evs.contains .dbtx
  | none => false

/-! ### the bolt transactions of the methods working on the `meta` bucket (regenerated as
    `Generated.dbMetaOps` by /verif/extract/dbmeta.go): what each transaction reads / writes of the three
    markers, where `idF` is called, which `if` guards the acting part and on values read where -/

inductive MetaKey where
  | snapshotId | resetTimeline | timelineId
  deriving DecidableEq, Repr

inductive BoltTx where
  | view | update
  deriving DecidableEq, Repr

inductive TxEv where
  | read (k : MetaKey)           -- GetBoolWithDefault / GetString of the marker
  | write (k : MetaKey)          -- SetString / SetBool of the marker
  | guard (ks : List MetaKey)    -- an `if` around the idF call / the writes; the markers its condition depends on
                                 -- through values read IN THE SAME transaction function
  | idF                          -- the caller's id generator is invoked
  deriving DecidableEq, Repr

inductive MetaStep where
  | tx (kind : BoltTx) (evs : List TxEv)   -- one <db>.View(func) / <db>.Update(ctx, func) on the method's top level
  | decide (ks : List MetaKey)             -- an `if` OUTSIDE any transaction on values read from the markers earlier
  deriving DecidableEq, Repr

abbrev MetaOps := List (String × List MetaStep)

def MetaOps.get (t : MetaOps) (name : String) : List MetaStep :=
  match t.find? (fun e => e.1 == name) with
  | some e => e.2
  | none => []

/-- the state a DbImpl carries between calls (the fields of `type DbImpl struct`, regenerated as
    `Generated.dbImplFields`) and what stands for each field in the model:
    rootBucket — constant after Open; reloadLock — Lock.lean; db — the handle (`Sys.db` is the file it
    is open on, swapped in stage 3 of the restore); restoreListeners — `Sys.listeners`;
    txCompleteListeners — not touched by snapshot / restore (C07, C08).
    Nothing else: in particular no copy of anything read from the file (snapshot id, timeline id) that
    could survive the swap. -/
def modelledFields : List (String × String) :=
  [("rootBucket", "string"),
   ("reloadLock", "sync.RWMutex"),
   ("db", "*bbolt.DB"),
   ("restoreListeners", "concurrenz.CopyOnWriteSlice[func()]"),
   ("txCompleteListeners", "concurrenz.CopyOnWriteSlice[func(ctx MutateContext)]")]

def stateModelled (fields : List (String × String)) (packageVars : List String) : Bool :=
  fields == modelledFields && packageVars.isEmpty

/-- what SnapshotInTx does with its path strings, in source order (regenerated by extract/dbpaths.go).  A string
    variable is named with the number of assignments it has received so far (parameter = 0). -/
inductive PathEv where
  | replace (v : String) (ver : Nat) (old by_ : String)  -- v = strings.ReplaceAll(v, old, <by_>); v now has version `ver`
  | assign (v : String) (ver : Nat) (how : String)       -- any other assignment to / from a path variable
  | copy (v : String) (ver : Nat)                        -- tx.CopyFile(v, ..)
  | mark (v : String) (ver : Nat)                        -- MarkAsSnapshot(v)
  | ret (v : String) (ver : Nat)                         -- return v, ..
  deriving DecidableEq, Repr

end StorageModel.C17
