/-
  C17 — the vocabulary of the regenerated lock table (Generated/DbLocks.lean, written by
  /verif/extract/dblocks.go from boltz/db.go) and its reading as programs of the lock model.
-/
import StorageModel.C17.Lock
namespace StorageModel.C17
open Lock

inductive LockEv where
  | rlock | runlock | wlock | wunlock   -- reloadLock.RLock / RUnlock / Lock / Unlock
  | dbtx                                -- self.db.View / Update / Batch
  | copy                                -- tx.CopyFile / tx.WriteTo
  | persist                             -- os.Create of the temporary snapshot file
  | close | rename | reopen             -- self.db.Close, os.Rename, bbolt.Open
  | fire                                -- go listener()
  deriving DecidableEq, Repr

abbrev LockTable := List (String × List LockEv)

def LockTable.get (t : LockTable) (name : String) : Option (List LockEv) :=
  match t.find? (fun e => e.1 == name) with
  | some e => some e.2
  | none => none

/-- reading of an entry point as a transaction program of the lock model: read-lock events as they
    are; a bolt transaction and a file copy are reads of the open handle; anything a transaction
    program cannot contain (write lock, close, rename, open) makes the reading fail -/
def toTxProg : List LockEv → Option (List TxAct)
  | [] => some []
  | .rlock :: r => (toTxProg r).map (.rlock :: ·)
  | .runlock :: r => (toTxProg r).map (.runlock :: ·)
  | .dbtx :: r => (toTxProg r).map (.read :: ·)
  | .copy :: r => (toTxProg r).map (.read :: ·)
  | _ :: _ => none

/-- the entry points that run a transaction against the open handle -/
def txEntryPoints : List String :=
  ["Update", "Batch", "View", "Snapshot", "StreamToWriter", "GetSnapshotId", "GetTimelineId"]

def txProg (t : LockTable) (name : String) : Option (List TxAct) :=
  match t.get name with
  | some evs => toTxProg evs
  | none => none

/-- every transaction entry point reads as a balanced program whose reads are under a read hold -/
def txProgsGuarded (t : LockTable) : Bool :=
  txEntryPoints.all fun n => match txProg t n with
    | some p => wf 0 p
    | none => false

def txProgFlat (t : LockTable) (name : String) : Bool :=
  match txProg t name with
  | some p => flat 0 p
  | none => false

/-- the sequence RestoreFromReader must show for the `RPc` steps of the model to be its reading:
    persist outside the lock; Lock; Close, Rename, Rename, Open; go listener(); deferred Unlock -/
def restoreShape : List LockEv := [.persist, .wlock, .close, .rename, .rename, .reopen, .fire, .wunlock]

def restoreModelled (t : LockTable) : Bool :=
  t.get "RestoreFromReader" == some restoreShape && t.get "RestoreSnapshot" == some restoreShape

/-- SnapshotInTx and RootBucket are called with a transaction in hand, i.e. under that
    transaction's read hold; they are re-entrant iff they take the read lock themselves -/
def takesReadLock (t : LockTable) (name : String) : Bool :=
  match t.get name with
  | some evs => evs.contains .rlock
  | none => false

/-! ### the bolt transactions of the methods working on the `meta` bucket (regenerated as
    `Generated.dbMetaOps` by /verif/extract/dbmeta.go): what each transaction reads / writes of the three
    markers, where `idF` is called, which `if` guards the acting part and on values read where -/

inductive MetaKey where
  | snapshotId | resetTimeline | timelineId
  deriving DecidableEq, Repr

inductive BoltTx where
  | view | update
  deriving DecidableEq, Repr

inductive TxEv where
  | read (k : MetaKey)           -- GetBoolWithDefault / GetString of the marker
  | write (k : MetaKey)          -- SetString / SetBool of the marker
  | guard (ks : List MetaKey)    -- an `if` around the idF call / the writes; the markers its condition depends on
                                 -- through values read IN THE SAME transaction function
  | idF                          -- the caller's id generator is invoked
  deriving DecidableEq, Repr

inductive MetaStep where
  | tx (kind : BoltTx) (evs : List TxEv)   -- one <db>.View(func) / <db>.Update(ctx, func) on the method's top level
  | decide (ks : List MetaKey)             -- an `if` OUTSIDE any transaction on values read from the markers earlier
  deriving DecidableEq, Repr

abbrev MetaOps := List (String × List MetaStep)

def MetaOps.get (t : MetaOps) (name : String) : List MetaStep :=
  match t.find? (fun e => e.1 == name) with
  | some e => e.2
  | none => []

/-- the state a DbImpl carries between calls (the fields of `type DbImpl struct`, regenerated as
    `Generated.dbImplFields`) and what stands for each field in the model:
    rootBucket — constant after Open; reloadLock — Lock.lean; db — the handle (`Sys.db` is the file it
    is open on, swapped in stage 3 of the restore); restoreListeners — `Sys.listeners`;
    txCompleteListeners — not touched by snapshot / restore (C07, C08).
    Nothing else: in particular no copy of anything read from the file (snapshot id, timeline id) that
    could survive the swap. -/
def modelledFields : List (String × String) :=
  [("rootBucket", "string"),
   ("reloadLock", "sync.RWMutex"),
   ("db", "*bbolt.DB"),
   ("restoreListeners", "concurrenz.CopyOnWriteSlice[func()]"),
   ("txCompleteListeners", "concurrenz.CopyOnWriteSlice[func(ctx MutateContext)]")]

def stateModelled (fields : List (String × String)) (packageVars : List String) : Bool :=
  fields == modelledFields && packageVars.isEmpty

end StorageModel.C17
