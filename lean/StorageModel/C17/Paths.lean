import StorageModel.C17.Snapshot
/-
  C17 — the PATH argument of Snapshot / SnapshotInTx and the files it names.

  boltz/db.go, SnapshotInTx(tx, path):

      now := time.Now(); dateStr := now.Format("20060102"); timeStr := now.Format("150405")
      path = strings.ReplaceAll(path, "__DATE__", dateStr)
      path = strings.ReplaceAll(path, "__TIME__", timeStr)
      path = strings.ReplaceAll(path, "__DB_DIR__", filepath.Dir(self.db.Path()))
      path = strings.ReplaceAll(path, "__DB_FILE__", filepath.Base(self.db.Path()))
      path = strings.ReplaceAll(path, "DATE", dateStr)
      path = strings.ReplaceAll(path, "TIME", timeStr)
      path = strings.ReplaceAll(path, "DB_DIR", filepath.Dir(self.db.Path()))
      path = strings.ReplaceAll(path, "DB_FILE", filepath.Base(self.db.Path()))
      tx.CopyFile(path, 0600)              -- os.OpenFile(O_RDWR|O_CREATE|O_TRUNC): creates / overwrites
      snapshotId := MarkAsSnapshot(path)   -- bbolt.Open(path): opens, CREATING AN EMPTY DATABASE WHEN MISSING;
                                           -- one Update writes meta/snapshotId, meta/resetTimeline
      return path, snapshotId

  The slot of the sequential model (Snapshot.lean: `Op.snap k`) stands for "the file the caller
  finds under the path the call RETURNED".  Here the path is a string, the argument is a TEMPLATE,
  the directory is a map from path strings to bolt files, and the three uses of the path
  (CopyFile, MarkAsSnapshot, the returned value) are explicit, so that "the file under the
  returned path is the marked copy, and no other file was touched" is a theorem about the expansion
  and the file operations rather than an assumption of the slot abstraction.  `PSys`/`pstep` run
  whole histories at that level; `Properties/C17.lean` proves that they refine the slot model
  through any injective naming of paths, which carries every sequential theorem over.
-/
namespace StorageModel.C17

abbrev Path := List Char

/-- `strings.ReplaceAll(s, old, new)` for a non-empty `old`: leftmost, non-overlapping occurrences.
    `skip` = characters of a matched occurrence still to be dropped. -/
def replaceGo (old new : Path) : Nat → Path → Path
  | _, [] => []
  | skip + 1, _ :: r => replaceGo old new skip r
  | 0, c :: r =>
    if old.isPrefixOf (c :: r) then new ++ replaceGo old new (old.length - 1) r
    else c :: replaceGo old new 0 r

def replaceAll (old new : Path) (s : Path) : Path := replaceGo old new 0 s

/-- what the expansion reads from the clock and from the open handle -/
structure Env where
  date : Path      -- now.Format("20060102")
  time : Path      -- now.Format("150405")
  dbDir : Path     -- filepath.Dir(self.db.Path())
  dbFile : Path    -- filepath.Base(self.db.Path())
  deriving DecidableEq, Repr

/-- the eight ReplaceAll calls, in the order of the code (the `__X__` forms first, so that their
    underscores go away; a later call sees the text an earlier one put in) -/
def expand (e : Env) (p : Path) : Path :=
  let p := replaceAll "__DATE__".toList e.date p
  let p := replaceAll "__TIME__".toList e.time p
  let p := replaceAll "__DB_DIR__".toList e.dbDir p
  let p := replaceAll "__DB_FILE__".toList e.dbFile p
  let p := replaceAll "DATE".toList e.date p
  let p := replaceAll "TIME".toList e.time p
  let p := replaceAll "DB_DIR".toList e.dbDir p
  replaceAll "DB_FILE".toList e.dbFile p

/-- the directory: path ↦ bolt file -/
abbrev PFS := List (Path × Db)

def lookupP (p : Path) : PFS → Option Db
  | [] => none
  | (q, d) :: r => if p = q then some d else lookupP p r

def storeP (p : Path) (d : Db) : PFS → PFS
  | [] => [(p, d)]
  | (q, d') :: r => if p = q then (p, d) :: r else (q, d') :: storeP p d r

theorem lookupP_storeP_same (p : Path) (d : Db) (l : PFS) : lookupP p (storeP p d l) = some d := by
  induction l with
  | nil => simp [storeP, lookupP]
  | cons h t ih =>
    obtain ⟨q, d'⟩ := h
    by_cases hk : p = q <;> simp [storeP, lookupP, hk, ih]

theorem lookupP_storeP_other (p j : Path) (d : Db) (l : PFS) (h : j ≠ p) :
    lookupP j (storeP p d l) = lookupP j l := by
  induction l with
  | nil => simp [storeP, lookupP, h]
  | cons hd t ih =>
    obtain ⟨q, d'⟩ := hd
    by_cases hk : p = q
    · subst hk; simp [storeP, lookupP, h]
    · by_cases hj : j = q <;> simp [storeP, lookupP, hk, hj, ih]

/-- `tx.CopyFile(p)`: the file under `p` is created or truncated and receives the copy -/
def copyFile (p : Path) (copy : Db) (fs : PFS) : PFS := storeP p copy fs

/-- `MarkAsSnapshot(p)`: `bbolt.Open(p)` opens the file under `p` — an empty database is created when
    there is none — and one Update writes the two markers into it -/
def markAsSnapshot (p : Path) (id : Nat) (fs : PFS) : PFS :=
  storeP p (mark id ((lookupP p fs).getD {})) fs

/-- the three uses of a path in SnapshotInTx -/
structure PathUse where
  copyTo : Path
  markAt : Path
  returned : Path
  deriving DecidableEq, Repr

/-- the code: all three are the expanded template -/
def pathUseCode (e : Env) (tmpl : Path) : PathUse :=
  let path := expand e tmpl
  { copyTo := path, markAt := path, returned := path }

/-- SnapshotInTx on the directory, for a given use of paths: result = (returned path, directory) -/
def snapshotFiles (u : PathUse) (id : Nat) (copy : Db) (fs : PFS) : Path × PFS :=
  (u.returned, markAsSnapshot u.markAt id (copyFile u.copyTo copy fs))

/-- SnapshotInTx as it is -/
def snapshotInTx (e : Env) (tmpl : Path) (id : Nat) (copy : Db) (fs : PFS) : Path × PFS :=
  snapshotFiles (pathUseCode e tmpl) id copy fs

/-- the variant in which the expansion is kept in a second variable and `MarkAsSnapshot` still gets
    the argument (kept as a counter-model: see the examples in Properties/C17.lean) -/
def pathUseSplit (e : Env) (tmpl : Path) : PathUse :=
  { copyTo := expand e tmpl, markAt := tmpl, returned := expand e tmpl }

/-! ### whole histories at the level of paths -/

/-- the system with a directory instead of slots; `base.files` is not used at this level -/
structure PSys where
  base : Sys := {}
  fs : PFS := []
  deriving DecidableEq, Repr

inductive POp where
  | snapT (tmpl : Path) (inTx : Bool)             -- Snapshot(tmpl) / View{ SnapshotInTx(tx, tmpl) }
  | snapUpdT (tmpl : Path) (ws : List Write)      -- Update{ writes; SnapshotInTx(tx, tmpl) }
  | streamTo (p : Path)                           -- os.Create(p); StreamToWriter(file)
  | restoreFrom (p : Path) (rd : Reader)          -- the caller opens / reads the file under `p` and restores it
  | other (o : Op)                                -- an operation that touches no snapshot file
  deriving DecidableEq, Repr

inductive PObs where
  | snappedAt (p : Path) (id : Nat) (atTime : Db) -- returned path, returned id, dump at that time
  | plain (o : Obs)
  deriving DecidableEq, Repr

/-- operations of the sequential model that touch no snapshot file -/
def Op.fileFree : Op → Bool
  | .tx _ _ | .snapFail | .gsid | .gtl _ _ | .listen | .dump => true
  | _ => false

/-- `e` is the environment at the moment of the call (the clock moves between calls) -/
def pstep (e : Env) (s : PSys) : POp → PSys × PObs
  | .snapT tmpl _ =>
    let r := snapshotInTx e tmpl s.base.nextId s.base.db s.fs
    ({ base := { s.base with nextId := s.base.nextId + 1 }, fs := r.2 }, .snappedAt r.1 s.base.nextId s.base.db)
  | .snapUpdT tmpl ws =>
    let r := snapshotInTx e tmpl s.base.nextId s.base.db s.fs
    ({ base := { s.base with nextId := s.base.nextId + 1,
                             db := { s.base.db with content := ws.foldl applyWrite s.base.db.content } }, fs := r.2 },
     .snappedAt r.1 s.base.nextId s.base.db)
  | .streamTo p => ({ s with fs := storeP p s.base.db s.fs }, .plain (.streamed s.base.db))
  | .restoreFrom p rd =>
    match lookupP p s.fs with
    | none => (s, .plain .nofile)
    | some f =>
      match restoreVia f rd with
      | some d => ({ s with base := { s.base with db := d, prev := some s.base.db, fired := s.base.fired + s.base.listeners } },
                   .plain (.restored (s.base.fired + s.base.listeners) d))
      | none => (s, .plain .err)
  | .other o =>
    if o.fileFree then let r := step s.base o; ({ s with base := r.1 }, .plain r.2)
    else (s, .plain .err)

/-- a history: each operation with the environment (clock) at which it is made -/
def prun (s : PSys) : List (Env × POp) → PSys × List PObs
  | [] => (s, [])
  | (e, o) :: os =>
    let (s1, ob) := pstep e s o
    let (s2, obs) := prun s1 os
    (s2, ob :: obs)

/-- the slot-level operation a path-level operation stands for, under a naming `code` of paths -/
def POp.abs (code : Path → Nat) (e : Env) : POp → Op
  | .snapT tmpl inTx => .snap (code (expand e tmpl)) inTx
  | .snapUpdT tmpl ws => .snapUpd (code (expand e tmpl)) ws
  | .streamTo p => .stream (code p)
  | .restoreFrom p rd => .restore (code p) rd
  | .other o => if o.fileFree then o else .snapFail

def PObs.abs : PObs → Obs
  | .snappedAt _ id d => .snapped id d
  | .plain o => o

end StorageModel.C17
