/-
  C17 — lemmas about the staged restore (C17/Staged.lean): the persist loop issues every queued call,
  in order, and persists the whole stream, for every reader behaviour and every choice of positions;
  model ⊨ spec for the enlarged vocabulary.
-/
import StorageModel.C17.Staged
import StorageModel.C17.SnapshotProofs
namespace StorageModel.C17

/-! ### stage 1 -/

theorem issueWhile_run (due : Cb → Bool) (s : Sys) (cs : List Cb) :
    run s (cs.map Cb.act) =
      ((run (issueWhile due s cs).2.1 ((issueWhile due s cs).1.map Cb.act)).1,
       (issueWhile due s cs).2.2 ++ (run (issueWhile due s cs).2.1 ((issueWhile due s cs).1.map Cb.act)).2) := by
  induction cs generalizing s with
  | nil => simp [issueWhile, run]
  | cons c cs ih =>
    simp only [issueWhile]
    by_cases hd : due c = true
    · simp only [hd, if_true, List.map_cons, run]
      rw [ih (step s c.act).1]
      simp
    · simp [hd, run]

theorem issueWhile_true (s : Sys) (cs : List Cb) :
    issueWhile (fun _ => true) s cs = ([], (run s (cs.map Cb.act)).1, (run s (cs.map Cb.act)).2) := by
  induction cs generalizing s with
  | nil => simp [issueWhile, run]
  | cons c cs ih => simp [issueWhile, run, ih]

/-- what a persist state amounts to once its queue has been emptied -/
def Persist.outcome (p : Persist) : Sys × List Obs :=
  ((run p.sys (p.pending.map Cb.act)).1, p.obs ++ (run p.sys (p.pending.map Cb.act)).2)

theorem readLoop_spec (len : Nat) (rs : List (ReadResult Piece)) (p : Persist) :
    (readLoop len rs p).tmp = p.tmp ++ copyAll rs ∧
    (readLoop len rs p).outcome = p.outcome ∧
    ((∃ r ∈ rs, r.eof = true) → (readLoop len rs p).pending = []) := by
  induction rs generalizing p with
  | nil => simp [readLoop, copyAll]
  | cons r rs ih =>
    have hA := issueWhile_run (fun c => c.pos.due len p.delivered) p.sys p.pending
    by_cases he : r.eof = true
    · -- the call that carries io.EOF: flush, write, stop
      refine ⟨?_, ?_, fun _ => ?_⟩
      · simp [readLoop, he, copyAll]
      · simp only [readLoop, he, if_true, Persist.outcome, issueWhile_true, List.map_nil, run, List.append_nil]
        rw [hA]
      · simp [readLoop, he, issueWhile_true]
    · have he' : r.eof = false := by simpa using he
      simp only [readLoop, he', Bool.false_eq_true, if_false, copyAll]
      obtain ⟨h1, h2, h3⟩ := ih { sys := (issueWhile (fun c => c.pos.due len p.delivered) p.sys p.pending).2.1,
                                   tmp := p.tmp ++ r.data, delivered := p.delivered + r.data.length,
                                   pending := (issueWhile (fun c => c.pos.due len p.delivered) p.sys p.pending).1,
                                   obs := p.obs ++ ((issueWhile (fun c => c.pos.due len p.delivered) p.sys p.pending).2.2 ++ []) }
      refine ⟨by rw [h1]; simp [List.append_assoc], ?_, ?_⟩
      · rw [h2]
        simp only [Persist.outcome]
        rw [hA]
        simp [List.append_assoc]
      · intro ⟨x, hx, hxe⟩
        apply h3
        rcases List.mem_cons.mp hx with rfl | hx
        · rw [he'] at hxe; cases hxe
        · exact ⟨x, hx, hxe⟩

theorem finalReads_has_eof {α : Type} (data : List α) (e : Bool) : ∃ r ∈ finalReads data e, r.eof = true := by
  cases e <;> simp [finalReads]

theorem scriptChunks_has_eof {α : Type} (c : Nat) (e : Bool) (fuel : Nat) (data : List α) :
    ∃ r ∈ scriptChunks c e fuel data, r.eof = true := by
  induction fuel generalizing data with
  | zero => exact finalReads_has_eof data e
  | succ fuel ih =>
    simp only [scriptChunks]
    split
    · exact finalReads_has_eof data e
    · obtain ⟨r, hr, hre⟩ := ih (data.drop (c + 1))
      exact ⟨r, List.mem_cons_of_mem _ hr, hre⟩

theorem scriptPre_has_eof {α : Type} (c : Nat) (e : Bool) (pre : List Nat) (data : List α) :
    ∃ r ∈ scriptPre c e pre data, r.eof = true := by
  induction pre generalizing data with
  | nil => exact scriptChunks_has_eof c e data.length data
  | cons n ns ih =>
    simp only [scriptPre]
    split
    · exact finalReads_has_eof data e
    · obtain ⟨r, hr, hre⟩ := ih (data.drop n)
      exact ⟨r, List.mem_cons_of_mem _ hr, hre⟩

/-- every reader behaviour ends with a Read that reports io.EOF -/
theorem script_has_eof {α : Type} (rd : Reader) (data : List α) : ∃ r ∈ script rd data, r.eof = true :=
  scriptPre_has_eof rd.chunk rd.eofWithData rd.pre data

/-- **stage 1, for every reader behaviour, every queue of calls and every choice of positions**: the
    temporary file is the snapshot file, the queue is empty, and system and observations are those
    of the queued calls made one after the other on the state in which RestoreFromReader was entered -/
theorem stagePersist_eq (s : Sys) (f : Db) (rd : Reader) (cbs : List Cb) :
    (stagePersist s f rd cbs).tmp = encodeDb f ∧
    (stagePersist s f rd cbs).pending = [] ∧
    (stagePersist s f rd cbs).sys = (run s (cbs.map Cb.act)).1 ∧
    (stagePersist s f rd cbs).obs = (run s (cbs.map Cb.act)).2 := by
  obtain ⟨h1, h2, h3⟩ := readLoop_spec (encodeDb f).length (script rd (encodeDb f)) { sys := s, pending := cbs }
  have hp := h3 (script_has_eof rd (encodeDb f))
  refine ⟨by simpa [stagePersist, copyAll_script] using h1, hp, ?_, ?_⟩
  · have := congrArg Prod.fst h2
    simpa [Persist.outcome, stagePersist, hp, run] using this
  · have := congrArg Prod.snd h2
    simpa [Persist.outcome, stagePersist, hp, run] using this

/-- **the staged restore in closed form**: the calls made from inside the reader, as if made one after
    the other BEFORE RestoreFromReader was entered; then the file that was in the slot at entry is the
    live database, the database as the calls left it is `.previous`, and every listener registered
    by then (those added by the calls included) has been started once -/
theorem xstep_restoreCb (s : Sys) (k : Nat) (rd : Reader) (cbs : List Cb) (f : Db) (hf : lookup k s.files = some f) :
    xstep s (.restoreCb k rd cbs) =
      ({ (run s (cbs.map Cb.act)).1 with
           db := f, prev := some (run s (cbs.map Cb.act)).1.db,
           fired := (run s (cbs.map Cb.act)).1.fired + (run s (cbs.map Cb.act)).1.listeners },
       .restoredCb (run s (cbs.map Cb.act)).2
         ((run s (cbs.map Cb.act)).1.fired + (run s (cbs.map Cb.act)).1.listeners) f) := by
  obtain ⟨h1, _, h3, h4⟩ := stagePersist_eq s f rd cbs
  simp only [xstep, hf, stageSwap, h1, decodeDb_encodeDb, Option.map_some, stageFire, h3, h4]

theorem xstep_restoreCb_nofile (s : Sys) (k : Nat) (rd : Reader) (cbs : List Cb) (hf : lookup k s.files = none) :
    xstep s (.restoreCb k rd cbs) = (s, .plain .nofile) := by
  simp [xstep, hf]

/-- a reading call does not change the system -/
theorem ro_step_state (s : Sys) (a : RoAct) : (step s a.toOp).1 = s := by
  cases a <;> rfl

theorem run_ro (s : Sys) (as : List RoAct) : run s (as.map RoAct.toOp) = (s, as.map (roObs s)) := by
  induction as with
  | nil => rfl
  | cons a as ih =>
    simp only [List.map_cons, run, ro_step_state, ih]
    rfl

/-! ### slots, settledness over the enlarged vocabulary -/

def XOp.keeps (k : Nat) : XOp → Bool
  | .plain o => o.keeps k
  | .restoreCb _ _ cbs => cbs.all fun c => c.act.keeps k
  | .inTx t _ _ => t.toOp.keeps k

def XKeepsSlot (k : Nat) (h : List XOp) : Prop := ∀ o ∈ h, o.keeps k = true

theorem xstep_keeps_file (s : Sys) (o : XOp) (k : Nat) (h : o.keeps k = true) :
    lookup k (xstep s o).1.files = lookup k s.files := by
  cases o with
  | plain o => exact step_keeps_file s o k h
  | inTx t pre post => exact step_keeps_file s t.toOp k h
  | restoreCb j rd cbs =>
    cases hf : lookup j s.files with
    | none => rw [xstep_restoreCb_nofile s j rd cbs hf]
    | some f =>
      rw [xstep_restoreCb s j rd cbs f hf]
      simp only [XOp.keeps, List.all_eq_true] at h
      exact run_keeps_file s (cbs.map Cb.act) k (by
        intro o ho
        obtain ⟨c, hc, rfl⟩ := List.mem_map.mp ho
        exact h c hc)

theorem xrun_keeps_file (s : Sys) (h : List XOp) (k : Nat) (hk : XKeepsSlot k h) :
    lookup k (xrun s h).1.files = lookup k s.files := by
  induction h generalizing s with
  | nil => rfl
  | cons o os ih =>
    simp only [xrun]
    rw [ih (xstep s o).1 (fun x hx => hk x (by simp [hx]))]
    exact xstep_keeps_file s o k (hk o (by simp))

/-- operations of the enlarged vocabulary after which a settled timeline id is still the stored one -/
def XOp.quiet : XOp → Bool
  | .plain o => o.quiet
  | .restoreCb _ _ _ => false
  | .inTx _ _ _ => true

theorem xstep_quiet_settled (s : Sys) (o : XOp) (t : Nat) (hq : o.quiet = true) (hs : Settled t s) :
    Settled t (xstep s o).1 := by
  cases o with
  | plain o => exact step_quiet_settled s o t hq hs
  | restoreCb j rd cbs => simp [XOp.quiet] at hq
  | inTx tk pre post => cases tk <;> exact step_quiet_settled s _ t rfl hs

theorem xrun_quiet_settled (s : Sys) (h : List XOp) (t : Nat) (hq : ∀ o ∈ h, o.quiet = true) (hs : Settled t s) :
    Settled t (xrun s h).1 := by
  induction h generalizing s with
  | nil => exact hs
  | cons o os ih =>
    simp only [xrun]
    exact ih _ (fun x hx => hq x (by simp [hx])) (xstep_quiet_settled s o t (hq o (by simp)) hs)

/-! ### model ⊨ spec over the enlarged vocabulary -/

/-- `rel_run` with the final bookkeeping exposed -/
theorem rel_run_state (st : SpecSt) (s : Sys) (h : List Op) (hr : Rel st s) :
    ∃ st', specRun st h (run s h).2 = some st' ∧ Rel st' (run s h).1 := by
  induction h generalizing st s with
  | nil => exact ⟨st, by simp [specRun], hr⟩
  | cons o os ih =>
    obtain ⟨st1, h1, h2⟩ := rel_step st s o hr
    obtain ⟨st2, h3, h4⟩ := ih st1 _ h2
    exact ⟨st2, by simp only [run, specRun, h1, h3], h4⟩

/-- reading calls are accepted by the oracle whenever the state they read carries the expected
    snapshot id, and leave its bookkeeping unchanged -/
theorem specRun_ro (st : SpecSt) (s : Sys) (as : List RoAct)
    (h : ∀ id, st.sidExpect = some id → s.db.mt.present = true ∧ s.db.mt.sid = some id) :
    specRun st (as.map RoAct.toOp) (as.map (roObs s)) = some st := by
  induction as with
  | nil => rfl
  | cons a as ih =>
    cases a with
    | gsid =>
      cases hx : st.sidExpect with
      | none => simp [specRun, RoAct.toOp, roObs, step, specStep, hx]; simpa [RoAct.toOp, roObs] using ih
      | some id =>
        obtain ⟨hp, hs⟩ := h id hx
        simp [specRun, RoAct.toOp, roObs, step, specStep, hx, hp, hs]; simpa [RoAct.toOp, roObs] using ih
    | dump => simp [specRun, RoAct.toOp, roObs, step, specStep]; simpa [RoAct.toOp, roObs] using ih

theorem xrel_step (st : SpecSt) (s : Sys) (o : XOp) (hr : Rel st s) :
    ∃ st', xspecStep st o (xstep s o).2 = some st' ∧ Rel st' (xstep s o).1 := by
  cases o with
  | plain o =>
    obtain ⟨st', h1, h2⟩ := rel_step st s o hr
    exact ⟨st', by simpa [xstep, xspecStep] using h1, h2⟩
  | inTx t pre post =>
    -- the reading calls are judged against the committed state `s`; the copy in between is an ordinary step
    have hpre := specRun_ro st s pre hr.sid
    obtain ⟨st2, h3, h4⟩ := rel_step st s t.toOp hr
    have hsx : st2.sidExpect = st.sidExpect := by
      cases t <;> simp [TxKind.toOp, step, specStep] at h3 <;> subst h3 <;> rfl
    have hpost := specRun_ro st2 s post (by rw [hsx]; exact hr.sid)
    exact ⟨st2, by simp [xstep, xspecStep, hpre, h3, hpost], h4⟩
  | restoreCb k rd cbs =>
    have hk := hr.files k
    cases hsv : lookupS k st.saved with
    | none =>
      rw [hsv] at hk
      simp only [Option.map_none] at hk
      rw [xstep_restoreCb_nofile s k rd cbs hk]
      exact ⟨st, by simp [xspecStep, hsv], hr⟩
    | some sv =>
      rw [hsv] at hk
      simp only [Option.map_some] at hk
      rw [xstep_restoreCb s k rd cbs (toFile sv) hk]
      obtain ⟨st1, h1, h2⟩ := rel_run_state st s (cbs.map Cb.act) hr
      obtain ⟨hfiles, hl, hf, hidf, hsid, htl⟩ := h2
      have hlen : (run s (cbs.map Cb.act)).2.length = cbs.length := by simp [run_length]
      obtain ⟨i, d⟩ := sv
      cases i with
      | none =>
        refine ⟨{ st1 with fired := (run s (cbs.map Cb.act)).1.fired + (run s (cbs.map Cb.act)).1.listeners,
                           sidExpect := none, tlx := .free }, ?_, ?_⟩
        · simp [xspecStep, hsv, hlen, h1, restoreJudge, expectedAfterRestore_eq, hf, hl]
        · exact ⟨hfiles, hl, rfl, hidf, fun id hid => by simp at hid, trivial⟩
      | some id0 =>
        refine ⟨{ st1 with fired := (run s (cbs.map Cb.act)).1.fired + (run s (cbs.map Cb.act)).1.listeners,
                           sidExpect := some id0, tlx := .fresh }, ?_, ?_⟩
        · simp [xspecStep, hsv, hlen, h1, restoreJudge, expectedAfterRestore_eq, hf, hl]
        · refine ⟨hfiles, hl, rfl, hidf, ?_, by simp [TlRel, toFile, mark]⟩
          intro id hid
          simp only [Option.some.injEq] at hid
          subst hid
          simp [toFile, mark]

theorem xrel_run (st : SpecSt) (s : Sys) (h : List XOp) (hr : Rel st s) :
    (xspecRun st h (xrun s h).2).isSome = true := by
  induction h generalizing st s with
  | nil => simp [xspecRun]
  | cons o os ih =>
    obtain ⟨st', h1, h2⟩ := xrel_step st s o hr
    simp only [xrun, xspecRun, h1]
    exact ih st' _ h2

theorem xspecFirstFail_none_iff (st : SpecSt) (ops : List XOp) (obs : List XObs) (i : Nat) :
    xspecFirstFail st ops obs i = none ↔ (xspecRun st ops obs).isSome = true := by
  induction ops generalizing st obs i with
  | nil => simp [xspecFirstFail, xspecRun]
  | cons o os ih =>
    cases obs with
    | nil => simp [xspecFirstFail, xspecRun]
    | cons b bs =>
      simp only [xspecFirstFail, xspecRun]
      cases h : xspecStep st o b with
      | none => simp
      | some st' => simpa using ih st' bs (i + 1)

end StorageModel.C17
