/-
  C17 — the `reloadLock` protocol of boltz/db.go as a transition system.

  Threads:
  * a transaction thread runs a program over `rlock / runlock / read`
      View / Update / Batch / StreamToWriter / GetSnapshotId / GetTimelineId :  rlock, read, runlock
      Snapshot (= View around SnapshotInTx, which takes the read lock AGAIN)  :  rlock, rlock, read, runlock, runlock
    (`read` = one bolt transaction / file copy against the currently open handle `self.db`);
  * a restore thread follows RestoreFromReader:
      persist (no lock) ; Lock() = announce + acquire ; Close ; Rename,Rename,Open (= swap) ;
      `go listener()` (fire) ; deferred Unlock().

  The lock is Go's `sync.RWMutex`: `RLock` blocks as soon as a writer has *announced* itself
  (called `Lock`, even if it is still waiting for the active readers to leave); a writer
  acquires when the number of read holds is 0; writers exclude each other from the moment they
  announce.  A read hold is not owned by a goroutine, so a nested `RLock` is a second hold and it
  blocks behind an announced writer like any other — that is what makes re-entrant read locking
  deadlock-prone.
-/
namespace StorageModel.C17.Lock

inductive TxAct where
  | rlock | runlock | read
  deriving DecidableEq, Repr

inductive RPc where
  | persist | announce | acquire | close | swap | fire | unlock | done
  deriving DecidableEq, Repr

/-- `obs`: for every `read`, (generation pinned when the outermost read lock was taken,
    generation actually seen, `none` when the handle was closed) -/
inductive Thread where
  | tx (prog : List TxAct) (depth : Nat) (pin : Option Nat) (obs : List (Option Nat × Option Nat))
  | restore (pc : RPc)
  deriving DecidableEq, Repr

/-- globals: the open database handle and the RWMutex -/
structure G where
  gen : Nat := 0          -- which file `self.db` is (changes exactly at the swap)
  isOpen : Bool := true
  readers : Nat := 0      -- read holds
  pending : Bool := false -- a writer has called Lock() and not yet Unlock()
  held : Bool := false    -- ... and has acquired
  fired : Nat := 0
  deriving DecidableEq, Repr

def Thread.step (g : G) : Thread → Option (G × Thread)
  | .tx (.rlock :: p) d pin obs =>
    if g.pending then none
    else some ({ g with readers := g.readers + 1 }, .tx p (d + 1) (if d = 0 then some g.gen else pin) obs)
  | .tx (.runlock :: p) (d + 1) pin obs =>
    some ({ g with readers := g.readers - 1 }, .tx p d (if d = 0 then none else pin) obs)
  | .tx (.runlock :: _) 0 _ _ => none          -- RUnlock of an unlocked RWMutex: fatal error
  | .tx (.read :: p) d pin obs =>
    some (g, .tx p d pin ((pin, if g.isOpen then some g.gen else none) :: obs))
  | .tx [] _ _ _ => none
  | .restore .persist => some (g, .restore .announce)
  | .restore .announce => if g.pending then none else some ({ g with pending := true }, .restore .acquire)
  | .restore .acquire => if g.readers = 0 then some ({ g with held := true }, .restore .close) else none
  | .restore .close => some ({ g with isOpen := false }, .restore .swap)
  | .restore .swap => some ({ g with gen := g.gen + 1, isOpen := true }, .restore .fire)
  | .restore .fire => some ({ g with fired := g.fired + 1 }, .restore .unlock)
  | .restore .unlock => some ({ g with pending := false, held := false }, .restore .done)
  | .restore .done => none

structure St where
  g : G := {}
  threads : List Thread
  deriving DecidableEq, Repr

/-- thread `i` takes one step, if it can -/
def stepAt (s : St) (i : Nat) : Option St :=
  match s.threads.drop i with
  | [] => none
  | t :: post =>
    match t.step s.g with
    | none => none
    | some (g', t') => some { g := g', threads := s.threads.take i ++ t' :: post }

/-- an interleaving = a list of thread indices; a pick that is not enabled is skipped -/
def exec (s : St) : List Nat → St
  | [] => s
  | i :: is => exec ((stepAt s i).getD s) is

def Thread.finished : Thread → Bool
  | .tx [] _ _ _ => true
  | .restore .done => true
  | _ => false

def Thread.enabled (g : G) (t : Thread) : Bool := (t.step g).isSome

def allDone (s : St) : Bool := s.threads.all Thread.finished
def stuck (s : St) : Bool := !allDone s && s.threads.all (fun t => !t.enabled s.g)

/-- a read observed something else than the database the transaction started on -/
def Thread.mixed : Thread → Bool
  | .tx _ _ _ obs => obs.any (fun o => o.1.isNone || o.2 != o.1)
  | .restore _ => false

def anyMixed (s : St) : Bool := s.threads.any Thread.mixed

/-- balanced, reads only under a read hold -/
def wf : Nat → List TxAct → Bool
  | d, [] => d == 0
  | d, .rlock :: p => wf (d + 1) p
  | d + 1, .runlock :: p => wf d p
  | 0, .runlock :: _ => false
  | d, .read :: p => d != 0 && wf d p

/-- as `wf`, and the read lock is never taken while already held -/
def flat : Nat → List TxAct → Bool
  | 0, [] => true
  | 0, .rlock :: p => flat 1 p
  | 1, .read :: p => flat 1 p
  | 1, .runlock :: p => flat 0 p
  | _, _ => false

def mkTx (p : List TxAct) : Thread := .tx p 0 none []
def init (ts : List Thread) : St := { threads := ts }

/-- a thread as it is before it starts -/
def Thread.initial : Thread → Bool
  | .tx p d pin obs => d == 0 && pin.isNone && obs.isEmpty && wf 0 p
  | .restore pc => pc == .persist

def Thread.initialFlat : Thread → Bool
  | .tx p d pin obs => d == 0 && pin.isNone && obs.isEmpty && flat 0 p
  | .restore pc => pc == .persist

/-- Variant used only for a non-vacuity example: a restore that swaps WITHOUT the write lock. -/
def Thread.stepNoLock (g : G) : Thread → Option (G × Thread)
  | .restore .announce => some (g, .restore .acquire)
  | .restore .acquire => some (g, .restore .close)
  | .restore .unlock => some (g, .restore .done)
  | t => t.step g

def stepAtNoLock (s : St) (i : Nat) : Option St :=
  match s.threads.drop i with
  | [] => none
  | t :: post =>
    match t.stepNoLock s.g with
    | none => none
    | some (g', t') => some { g := g', threads := s.threads.take i ++ t' :: post }

def execNoLock (s : St) : List Nat → St
  | [] => s
  | i :: is => execNoLock ((stepAtNoLock s i).getD s) is

end StorageModel.C17.Lock
