/-
  C17 — invariants of the lock transition system (helper lemmas; the property theorems that use
  them are stated in Properties/C17.lean).
-/
import StorageModel.C17.Lock
namespace StorageModel.C17.Lock

def sumBy (f : Thread → Nat) (l : List Thread) : Nat := (l.map f).sum

@[simp] theorem sumBy_nil (f : Thread → Nat) : sumBy f [] = 0 := rfl
@[simp] theorem sumBy_cons (f : Thread → Nat) (t : Thread) (l : List Thread) :
    sumBy f (t :: l) = f t + sumBy f l := by simp [sumBy]
@[simp] theorem sumBy_append (f : Thread → Nat) (a b : List Thread) :
    sumBy f (a ++ b) = sumBy f a + sumBy f b := by simp [sumBy]

theorem sumBy_zero_of_forall {f : Thread → Nat} {l : List Thread} (h : ∀ t ∈ l, f t = 0) : sumBy f l = 0 := by
  induction l with
  | nil => rfl
  | cons a t ih =>
    simp only [sumBy_cons]
    rw [h a (by simp), ih (fun x hx => h x (by simp [hx]))]

theorem forall_zero_of_sumBy {f : Thread → Nat} {l : List Thread} (h : sumBy f l = 0) : ∀ t ∈ l, f t = 0 := by
  induction l with
  | nil => intro t ht; cases ht
  | cons a t ih =>
    simp only [sumBy_cons] at h
    intro x hx
    rcases List.mem_cons.mp hx with rfl | hx
    · omega
    · exact ih (by omega) x hx

theorem exists_pos_of_sumBy {f : Thread → Nat} {l : List Thread} (h : 0 < sumBy f l) : ∃ t ∈ l, 0 < f t := by
  induction l with
  | nil => simp at h
  | cons a t ih =>
    simp only [sumBy_cons] at h
    by_cases ha : 0 < f a
    · exact ⟨a, by simp, ha⟩
    · obtain ⟨x, hx, hp⟩ := ih (by omega)
      exact ⟨x, by simp [hx], hp⟩

theorem sumBy_le {f g : Thread → Nat} (hfg : ∀ t, f t ≤ g t) (l : List Thread) : sumBy f l ≤ sumBy g l := by
  induction l with
  | nil => simp
  | cons a t ih => simp only [sumBy_cons]; have := hfg a; omega

def depthOf : Thread → Nat
  | .tx _ d _ _ => d
  | .restore _ => 0

/-- between announce and Unlock -/
def inPending : Thread → Nat
  | .restore .acquire => 1
  | .restore .close => 1
  | .restore .swap => 1
  | .restore .fire => 1
  | .restore .unlock => 1
  | _ => 0

/-- between acquire and Unlock -/
def inHeld : Thread → Nat
  | .restore .close => 1
  | .restore .swap => 1
  | .restore .fire => 1
  | .restore .unlock => 1
  | _ => 0

/-- between Close and Open -/
def inClosed : Thread → Nat
  | .restore .swap => 1
  | _ => 0

theorem inClosed_le_inHeld (t : Thread) : inClosed t ≤ inHeld t := by
  cases t with
  | tx => simp [inClosed, inHeld]
  | restore pc => cases pc <;> simp [inClosed, inHeld]

theorem inHeld_le_inPending (t : Thread) : inHeld t ≤ inPending t := by
  cases t with
  | tx => simp [inPending, inHeld]
  | restore pc => cases pc <;> simp [inPending, inHeld]

/-- per-thread invariant: program well-formed at its depth; while a read hold exists the pinned
    generation is the open one; every read so far saw the pinned generation -/
def TOk (g : G) : Thread → Prop
  | .tx p d pin obs =>
    wf d p = true ∧ (d = 0 → pin = none) ∧ (0 < d → pin = some g.gen ∧ g.isOpen = true) ∧
      ∀ o ∈ obs, o.1.isSome = true ∧ o.2 = o.1
  | .restore _ => True

structure Inv (s : St) : Prop where
  readers : s.g.readers = sumBy depthOf s.threads
  pend : sumBy inPending s.threads = if s.g.pending then 1 else 0
  held : sumBy inHeld s.threads = if s.g.held then 1 else 0
  closed : sumBy inClosed s.threads = if s.g.isOpen then 0 else 1
  excl : s.g.held = true → s.g.readers = 0
  thr : ∀ t ∈ s.threads, TOk s.g t

theorem TOk_of_same {g g' : G} {t : Thread} (hg : g'.gen = g.gen) (ho : g'.isOpen = g.isOpen) (h : TOk g t) :
    TOk g' t := by
  cases t with
  | tx p d pin obs => simpa [TOk, hg, ho] using h
  | restore pc => trivial

theorem TOk_of_depth0 {g g' : G} {t : Thread} (hd : depthOf t = 0) (h : TOk g t) : TOk g' t := by
  cases t with
  | tx p d pin obs =>
    simp only [depthOf] at hd
    subst hd
    simp only [TOk] at h ⊢
    exact ⟨h.1, h.2.1, by intro h0; omega, h.2.2.2⟩
  | restore pc => trivial

theorem stepAt_some {s s' : St} {i : Nat} (h : stepAt s i = some s') :
    ∃ pre t post g' t', s.threads = pre ++ t :: post ∧ t.step s.g = some (g', t') ∧
      s' = { g := g', threads := pre ++ t' :: post } := by
  unfold stepAt at h
  split at h
  · cases h
  · next t post hd =>
    split at h
    · cases h
    · next g' t' hs =>
      refine ⟨s.threads.take i, t, post, g', t', ?_, hs, ?_⟩
      · rw [← hd]; exact (List.take_append_drop i s.threads).symm
      · cases h; rfl

theorem Inv_init {ts : List Thread} (h : ∀ t ∈ ts, t.initial = true) : Inv (init ts) := by
  have hd : ∀ t ∈ ts, depthOf t = 0 := by
    intro t ht
    have := h t ht
    cases t with
    | tx p d pin obs => simp [Thread.initial] at this; simp [depthOf, this.1.1.1]
    | restore pc => rfl
  have hp : ∀ t ∈ ts, inPending t = 0 := by
    intro t ht
    have := h t ht
    cases t with
    | tx p d pin obs => rfl
    | restore pc => simp [Thread.initial] at this; subst this; rfl
  have hh : ∀ t ∈ ts, inHeld t = 0 := fun t ht => by have := inHeld_le_inPending t; have := hp t ht; omega
  have hc : ∀ t ∈ ts, inClosed t = 0 := fun t ht => by have := inClosed_le_inHeld t; have := hh t ht; omega
  refine ⟨?_, ?_, ?_, ?_, ?_, ?_⟩
  · simp [init, sumBy_zero_of_forall hd]
  · simp [init, sumBy_zero_of_forall hp]
  · simp [init, sumBy_zero_of_forall hh]
  · simp [init, sumBy_zero_of_forall hc]
  · simp [init]
  · intro t ht
    have := h t ht
    cases t with
    | tx p d pin obs =>
      simp [Thread.initial] at this
      obtain ⟨⟨⟨rfl, hpin⟩, hobs⟩, hwf⟩ := this
      subst hobs
      simp only [TOk]
      refine ⟨hwf, fun _ => hpin, fun h0 => by omega, by simp⟩
    | restore pc => trivial

/-- the invariant is preserved by every step of every thread -/
theorem Inv_step {s s' : St} {i : Nat} (hi : Inv s) (h : stepAt s i = some s') : Inv s' := by
  obtain ⟨pre, t, post, g', t', hthr, hstep, rfl⟩ := stepAt_some h
  obtain ⟨g, threads⟩ := s
  simp only at hthr hstep
  subst hthr
  obtain ⟨hr, hp, hh, hc, hex, hth⟩ := hi
  dsimp only at hr hp hh hc hex hth
  simp only [sumBy_append, sumBy_cons] at hr hp hh hc
  have hothers : ∀ u, u ∈ pre ∨ u ∈ post → TOk g u := fun u hu =>
    hth u (by simp only [List.mem_append, List.mem_cons]; rcases hu with h | h <;> simp [h])
  have hme : TOk g t := hth t (by simp)
  have hcle : sumBy inClosed pre ≤ sumBy inHeld pre := sumBy_le inClosed_le_inHeld pre
  have hcle' : sumBy inClosed post ≤ sumBy inHeld post := sumBy_le inClosed_le_inHeld post
  have hhle : sumBy inHeld pre ≤ sumBy inPending pre := sumBy_le inHeld_le_inPending pre
  have hhle' : sumBy inHeld post ≤ sumBy inPending post := sumBy_le inHeld_le_inPending post
  -- when nobody holds a read lock every other thread has depth 0
  have hzero : g.readers = 0 → ∀ u, u ∈ pre ∨ u ∈ post → depthOf u = 0 := by
    intro h0 u hu
    rcases hu with hu | hu
    · exact forall_zero_of_sumBy (f := depthOf) (l := pre) (by omega) u hu
    · exact forall_zero_of_sumBy (f := depthOf) (l := post) (by omega) u hu
  cases t with
  | tx p d pin obs =>
    simp only [depthOf, inPending, inHeld, inClosed] at hr hp hh hc
    cases p with
    | nil => simp [Thread.step] at hstep
    | cons a p =>
      cases a with
      | rlock =>
        simp only [Thread.step] at hstep
        split at hstep
        · cases hstep
        · next hnp =>
          simp only [Option.some.injEq, Prod.mk.injEq] at hstep
          obtain ⟨rfl, rfl⟩ := hstep
          have hnp' : g.pending = false := by simpa using hnp
          have hheld : g.held = false := by
            cases hg : g.held with
            | false => rfl
            | true => simp [hg, hnp'] at hh hp; omega
          have hopen : g.isOpen = true := by
            cases hg : g.isOpen with
            | true => rfl
            | false => simp [hg, hnp'] at hc hp; omega
          refine ⟨?_, ?_, ?_, ?_, ?_, ?_⟩
          · simp only [sumBy_append, sumBy_cons, depthOf]; omega
          · simpa [sumBy_append, sumBy_cons, inPending] using hp
          · simpa [sumBy_append, sumBy_cons, inHeld] using hh
          · simpa [sumBy_append, sumBy_cons, inClosed] using hc
          · simp [hheld]
          · intro u hu
            simp only [List.mem_append, List.mem_cons] at hu
            rcases hu with hu | rfl | hu
            · exact TOk_of_same rfl rfl (hothers u (Or.inl hu))
            · simp only [TOk] at hme ⊢
              refine ⟨by simpa [wf] using hme.1, by intro h0; omega, ?_, hme.2.2.2⟩
              intro _
              by_cases hd0 : d = 0
              · simp [hd0, hopen]
              · simp only [hd0, if_false]
                exact ⟨(hme.2.2.1 (by omega)).1, hopen⟩
            · exact TOk_of_same rfl rfl (hothers u (Or.inr hu))
      | runlock =>
        cases d with
        | zero => simp [Thread.step] at hstep
        | succ d =>
          simp only [Thread.step, Option.some.injEq, Prod.mk.injEq] at hstep
          obtain ⟨rfl, rfl⟩ := hstep
          have hheld : g.held = false := by
            cases hg : g.held with
            | false => rfl
            | true => have := hex hg; omega
          refine ⟨?_, ?_, ?_, ?_, ?_, ?_⟩
          · simp only [sumBy_append, sumBy_cons, depthOf]; omega
          · simpa [sumBy_append, sumBy_cons, inPending] using hp
          · simpa [sumBy_append, sumBy_cons, inHeld] using hh
          · simpa [sumBy_append, sumBy_cons, inClosed] using hc
          · simp [hheld]
          · intro u hu
            simp only [List.mem_append, List.mem_cons] at hu
            rcases hu with hu | rfl | hu
            · exact TOk_of_same rfl rfl (hothers u (Or.inl hu))
            · simp only [TOk] at hme ⊢
              refine ⟨by simpa [wf] using hme.1, ?_, ?_, hme.2.2.2⟩
              · intro h0; simp [h0]
              · intro hpos
                have hd0 : d ≠ 0 := by omega
                simp only [hd0, if_false]
                exact hme.2.2.1 (by omega)
            · exact TOk_of_same rfl rfl (hothers u (Or.inr hu))
      | read =>
        simp only [Thread.step, Option.some.injEq, Prod.mk.injEq] at hstep
        obtain ⟨rfl, rfl⟩ := hstep
        refine ⟨?_, ?_, ?_, ?_, hex, ?_⟩
        · simpa [sumBy_append, sumBy_cons, depthOf] using hr
        · simpa [sumBy_append, sumBy_cons, inPending] using hp
        · simpa [sumBy_append, sumBy_cons, inHeld] using hh
        · simpa [sumBy_append, sumBy_cons, inClosed] using hc
        · intro u hu
          simp only [List.mem_append, List.mem_cons] at hu
          rcases hu with hu | rfl | hu
          · exact hothers u (Or.inl hu)
          · simp only [TOk] at hme ⊢
            have hwf := hme.1
            simp only [wf, Bool.and_eq_true, bne_iff_ne, ne_eq] at hwf
            have hdpos : 0 < d := by omega
            obtain ⟨hpin, hopen⟩ := hme.2.2.1 hdpos
            refine ⟨hwf.2, hme.2.1, hme.2.2.1, ?_⟩
            intro o ho
            rcases List.mem_cons.mp ho with rfl | ho
            · simp [hpin, hopen]
            · exact hme.2.2.2 o ho
          · exact hothers u (Or.inr hu)
  | restore pc =>
    simp only [depthOf] at hr
    cases pc with
    | persist =>
      simp only [Thread.step, Option.some.injEq, Prod.mk.injEq] at hstep
      obtain ⟨rfl, rfl⟩ := hstep
      refine ⟨?_, ?_, ?_, ?_, hex, ?_⟩
      · simpa [sumBy_append, sumBy_cons, depthOf] using hr
      · simpa [sumBy_append, sumBy_cons, inPending] using hp
      · simpa [sumBy_append, sumBy_cons, inHeld] using hh
      · simpa [sumBy_append, sumBy_cons, inClosed] using hc
      · intro u hu
        simp only [List.mem_append, List.mem_cons] at hu
        rcases hu with hu | rfl | hu
        · exact hothers u (Or.inl hu)
        · trivial
        · exact hothers u (Or.inr hu)
    | announce =>
      simp only [Thread.step] at hstep
      split at hstep
      · cases hstep
      · next hnp =>
        simp only [Option.some.injEq, Prod.mk.injEq] at hstep
        obtain ⟨rfl, rfl⟩ := hstep
        have hnp' : g.pending = false := by simpa using hnp
        simp only [inPending, inHeld, inClosed, hnp'] at hp hh hc
        have hheld : g.held = false := by
          cases hg : g.held with
          | false => rfl
          | true => rw [hg] at hh; simp at hh hp; omega
        refine ⟨?_, ?_, ?_, ?_, ?_, ?_⟩
        · simpa [sumBy_append, sumBy_cons, depthOf] using hr
        · simp only [sumBy_append, sumBy_cons, inPending]; simp at hp ⊢; omega
        · simpa [sumBy_append, sumBy_cons, inHeld] using hh
        · simpa [sumBy_append, sumBy_cons, inClosed] using hc
        · simp [hheld]
        · intro u hu
          simp only [List.mem_append, List.mem_cons] at hu
          rcases hu with hu | rfl | hu
          · exact TOk_of_same rfl rfl (hothers u (Or.inl hu))
          · trivial
          · exact TOk_of_same rfl rfl (hothers u (Or.inr hu))
    | acquire =>
      simp only [Thread.step] at hstep
      split at hstep
      · next hr0 =>
        simp only [Option.some.injEq, Prod.mk.injEq] at hstep
        obtain ⟨rfl, rfl⟩ := hstep
        simp only [inPending, inHeld, inClosed] at hp hh hc
        have hpend : g.pending = true := by
          cases hg : g.pending with
          | true => rfl
          | false => rw [hg] at hp; simp at hp
        rw [hpend] at hp
        simp only [if_true] at hp
        have hheld : g.held = false := by
          cases hg : g.held with
          | false => rfl
          | true => rw [hg] at hh; simp at hh; omega
        rw [hheld] at hh
        refine ⟨?_, ?_, ?_, ?_, ?_, ?_⟩
        · simpa [sumBy_append, sumBy_cons, depthOf] using hr
        · simp only [sumBy_append, sumBy_cons, inPending, hpend]; simp; omega
        · simp only [sumBy_append, sumBy_cons, inHeld]; simp at hh ⊢; omega
        · simpa [sumBy_append, sumBy_cons, inClosed] using hc
        · intro _; exact hr0
        · intro u hu
          simp only [List.mem_append, List.mem_cons] at hu
          rcases hu with hu | rfl | hu
          · exact TOk_of_same rfl rfl (hothers u (Or.inl hu))
          · trivial
          · exact TOk_of_same rfl rfl (hothers u (Or.inr hu))
      · cases hstep
    | close =>
      simp only [Thread.step, Option.some.injEq, Prod.mk.injEq] at hstep
      obtain ⟨rfl, rfl⟩ := hstep
      simp only [inPending, inHeld, inClosed] at hp hh hc
      have hheld : g.held = true := by
        cases hg : g.held with
        | true => rfl
        | false => rw [hg] at hh; simp at hh
      rw [hheld] at hh
      simp only [if_true] at hh
      have hr0 := hex hheld
      have hopen : g.isOpen = true := by
        cases hg : g.isOpen with
        | true => rfl
        | false => rw [hg] at hc; simp at hc; omega
      rw [hopen] at hc
      refine ⟨?_, ?_, ?_, ?_, ?_, ?_⟩
      · simpa [sumBy_append, sumBy_cons, depthOf] using hr
      · simpa [sumBy_append, sumBy_cons, inPending] using hp
      · simp only [sumBy_append, sumBy_cons, inHeld, hheld]; simp; omega
      · simp only [sumBy_append, sumBy_cons, inClosed]; simp at hc ⊢; omega
      · intro _; exact hr0
      · intro u hu
        simp only [List.mem_append, List.mem_cons] at hu
        rcases hu with hu | rfl | hu
        · exact TOk_of_depth0 (hzero hr0 u (Or.inl hu)) (hothers u (Or.inl hu))
        · trivial
        · exact TOk_of_depth0 (hzero hr0 u (Or.inr hu)) (hothers u (Or.inr hu))
    | swap =>
      simp only [Thread.step, Option.some.injEq, Prod.mk.injEq] at hstep
      obtain ⟨rfl, rfl⟩ := hstep
      simp only [inPending, inHeld, inClosed] at hp hh hc
      have hheld : g.held = true := by
        cases hg : g.held with
        | true => rfl
        | false => rw [hg] at hh; simp at hh
      rw [hheld] at hh
      simp only [if_true] at hh
      have hr0 := hex hheld
      have hopen : g.isOpen = false := by
        cases hg : g.isOpen with
        | false => rfl
        | true => rw [hg] at hc; simp at hc
      rw [hopen] at hc
      refine ⟨?_, ?_, ?_, ?_, ?_, ?_⟩
      · simpa [sumBy_append, sumBy_cons, depthOf] using hr
      · simpa [sumBy_append, sumBy_cons, inPending] using hp
      · simp only [sumBy_append, sumBy_cons, inHeld, hheld]; simp; omega
      · simp only [sumBy_append, sumBy_cons, inClosed]; simp at hc ⊢; omega
      · intro _; exact hr0
      · intro u hu
        simp only [List.mem_append, List.mem_cons] at hu
        rcases hu with hu | rfl | hu
        · exact TOk_of_depth0 (hzero hr0 u (Or.inl hu)) (hothers u (Or.inl hu))
        · trivial
        · exact TOk_of_depth0 (hzero hr0 u (Or.inr hu)) (hothers u (Or.inr hu))
    | fire =>
      simp only [Thread.step, Option.some.injEq, Prod.mk.injEq] at hstep
      obtain ⟨rfl, rfl⟩ := hstep
      refine ⟨?_, ?_, ?_, ?_, hex, ?_⟩
      · simpa [sumBy_append, sumBy_cons, depthOf] using hr
      · simpa [sumBy_append, sumBy_cons, inPending] using hp
      · simpa [sumBy_append, sumBy_cons, inHeld] using hh
      · simpa [sumBy_append, sumBy_cons, inClosed] using hc
      · intro u hu
        simp only [List.mem_append, List.mem_cons] at hu
        rcases hu with hu | rfl | hu
        · exact TOk_of_same rfl rfl (hothers u (Or.inl hu))
        · trivial
        · exact TOk_of_same rfl rfl (hothers u (Or.inr hu))
    | unlock =>
      simp only [Thread.step, Option.some.injEq, Prod.mk.injEq] at hstep
      obtain ⟨rfl, rfl⟩ := hstep
      simp only [inPending, inHeld, inClosed] at hp hh hc
      have hheld : g.held = true := by
        cases hg : g.held with
        | true => rfl
        | false => rw [hg] at hh; simp at hh
      have hpend : g.pending = true := by
        cases hg : g.pending with
        | true => rfl
        | false => rw [hg] at hp; simp at hp
      rw [hheld] at hh
      rw [hpend] at hp
      simp only [if_true] at hh hp
      refine ⟨?_, ?_, ?_, ?_, ?_, ?_⟩
      · simpa [sumBy_append, sumBy_cons, depthOf] using hr
      · simp only [sumBy_append, sumBy_cons, inPending]; simp; omega
      · simp only [sumBy_append, sumBy_cons, inHeld]; simp; omega
      · simpa [sumBy_append, sumBy_cons, inClosed] using hc
      · simp
      · intro u hu
        simp only [List.mem_append, List.mem_cons] at hu
        rcases hu with hu | rfl | hu
        · exact TOk_of_same rfl rfl (hothers u (Or.inl hu))
        · trivial
        · exact TOk_of_same rfl rfl (hothers u (Or.inr hu))
    | done => simp [Thread.step] at hstep

theorem Inv_exec {s : St} (hi : Inv s) (sched : List Nat) : Inv (exec s sched) := by
  induction sched generalizing s with
  | nil => exact hi
  | cons i is ih =>
    simp only [exec]
    cases h : stepAt s i with
    | none => simpa using ih hi
    | some s' => simpa using ih (Inv_step hi h)

theorem not_mixed_of_Inv {s : St} (hi : Inv s) : anyMixed s = false := by
  simp only [anyMixed, List.any_eq_false]
  intro t ht
  have := hi.thr t ht
  cases t with
  | tx p d pin obs =>
    simp only [TOk] at this
    simp only [Thread.mixed, Bool.not_eq_true, List.any_eq_false, Bool.or_eq_true, not_or]
    intro o ho
    obtain ⟨h1, h2⟩ := this.2.2.2 o ho
    constructor
    · cases h : o.1 with
      | none => rw [h] at h1; simp at h1
      | some v => simp
    · simp [h2]
  | restore pc => simp [Thread.mixed]

/-! ### progress for flat programs -/

def FlatOk : Thread → Prop
  | .tx p d _ _ => flat d p = true
  | .restore _ => True

theorem flat_wf : ∀ (d : Nat) (p : List TxAct), flat d p = true → wf d p = true
  | 0, [], _ => rfl
  | 0, .rlock :: p, h => by simp only [flat] at h; simpa [wf] using flat_wf 1 p h
  | 0, .runlock :: p, h => by simp [flat] at h
  | 0, .read :: p, h => by simp [flat] at h
  | 1, [], h => by simp [flat] at h
  | 1, .rlock :: p, h => by simp [flat] at h
  | 1, .runlock :: p, h => by simp only [flat] at h; simpa [wf] using flat_wf 0 p h
  | 1, .read :: p, h => by simp only [flat] at h; simpa [wf] using flat_wf 1 p h
  | d + 2, p, h => by cases p with
    | nil => simp [flat] at h
    | cons a p => cases a <;> simp [flat] at h

theorem initial_of_initialFlat {t : Thread} (h : t.initialFlat = true) : t.initial = true := by
  cases t with
  | tx p d pin obs =>
    simp only [Thread.initialFlat, Bool.and_eq_true] at h
    simp only [Thread.initial, Bool.and_eq_true]
    obtain ⟨⟨⟨hd, hp⟩, ho⟩, hf⟩ := h
    have : d = 0 := by simpa using hd
    subst this
    exact ⟨⟨⟨hd, hp⟩, ho⟩, flat_wf 0 p hf⟩
  | restore pc => exact h

theorem FlatOk_step {g g' : G} {t t' : Thread} (h : FlatOk t) (hs : t.step g = some (g', t')) : FlatOk t' := by
  cases t with
  | tx p d pin obs =>
    cases p with
    | nil => simp [Thread.step] at hs
    | cons a p =>
      simp only [FlatOk] at h
      cases a with
      | rlock =>
        simp only [Thread.step] at hs
        split at hs
        · cases hs
        · simp only [Option.some.injEq, Prod.mk.injEq] at hs
          obtain ⟨_, rfl⟩ := hs
          match d, h with
          | 0, h => simpa [flat, FlatOk] using h
          | 1, h => simp [flat] at h
          | d + 2, h => simp [flat] at h
      | runlock =>
        cases d with
        | zero => simp [Thread.step] at hs
        | succ d =>
          simp only [Thread.step, Option.some.injEq, Prod.mk.injEq] at hs
          obtain ⟨_, rfl⟩ := hs
          match d, h with
          | 0, h => simpa [flat, FlatOk] using h
          | d + 1, h => simp [flat] at h
      | read =>
        simp only [Thread.step, Option.some.injEq, Prod.mk.injEq] at hs
        obtain ⟨_, rfl⟩ := hs
        match d, h with
        | 0, h => simp [flat] at h
        | 1, h => simpa [flat, FlatOk] using h
        | d + 2, h => simp [flat] at h
  | restore pc =>
    cases pc <;> simp only [Thread.step] at hs <;> (try split at hs) <;>
      first
      | (cases hs; done)
      | (simp only [Option.some.injEq, Prod.mk.injEq] at hs; obtain ⟨_, rfl⟩ := hs; trivial)

def AllFlat (s : St) : Prop := ∀ t ∈ s.threads, FlatOk t

theorem AllFlat_step {s s' : St} {i : Nat} (hf : AllFlat s) (h : stepAt s i = some s') : AllFlat s' := by
  obtain ⟨pre, t, post, g', t', hthr, hstep, rfl⟩ := stepAt_some h
  intro u hu
  simp only [List.mem_append, List.mem_cons] at hu
  rcases hu with hu | rfl | hu
  · exact hf u (by rw [hthr]; simp [hu])
  · exact FlatOk_step (hf t (by rw [hthr]; simp)) hstep
  · exact hf u (by rw [hthr]; simp [hu])

theorem AllFlat_exec {s : St} (hf : AllFlat s) (sched : List Nat) : AllFlat (exec s sched) := by
  induction sched generalizing s with
  | nil => exact hf
  | cons i is ih =>
    simp only [exec]
    cases h : stepAt s i with
    | none => simpa using ih hf
    | some s' => simpa using ih (AllFlat_step hf h)

/-- a thread with a read hold, in a flat program, can always move -/
theorem flat_held_enabled {g : G} {p d pin obs} (hf : flat d p = true) (hd : 0 < d) :
    (Thread.tx p d pin obs).enabled g = true := by
  match d, p, hf with
  | 1, .read :: p, _ => simp [Thread.enabled, Thread.step]
  | 1, .runlock :: p, _ => simp [Thread.enabled, Thread.step]
  | 1, [], h => simp [flat] at h
  | 1, .rlock :: p, h => simp [flat] at h
  | d + 2, p, h => cases p with
    | nil => simp [flat] at h
    | cons a p => cases a <;> simp [flat] at h

/-- **no deadlock without re-entrant read locking**: in a state satisfying the invariants in which
    all transaction programs are flat, either everybody is finished or somebody can move -/
theorem not_stuck_of_Inv {s : St} (hi : Inv s) (hf : AllFlat s) : stuck s = false := by
  simp only [stuck, Bool.and_eq_false_iff, Bool.not_eq_false']
  by_cases hdone : allDone s = true
  · exact Or.inl hdone
  · right
    have hdone' : allDone s = false := by simpa using hdone
    simp only [allDone, List.all_eq_false] at hdone'
    obtain ⟨t0, ht0, hnf⟩ := hdone'
    -- it suffices to exhibit one enabled thread
    suffices h : ∃ t ∈ s.threads, t.enabled s.g = true by
      obtain ⟨t, ht, he⟩ := h
      cases hall : s.threads.all (fun t => !t.enabled s.g) with
      | false => rfl
      | true =>
        have := (List.all_eq_true.mp hall) t ht
        simp [he] at this
    by_cases hrd : 0 < sumBy depthOf s.threads
    · -- somebody holds a read lock: it can read or unlock
      obtain ⟨t, ht, hpos⟩ := exists_pos_of_sumBy hrd
      refine ⟨t, ht, ?_⟩
      cases t with
      | tx p d pin obs => exact flat_held_enabled (hf _ ht) (by simpa [depthOf] using hpos)
      | restore pc => simp [depthOf] at hpos
    · have hr0 : s.g.readers = 0 := by have := hi.readers; omega
      by_cases hheld : s.g.held = true
      · -- the writer is inside: its next step is unconditional
        have := hi.held
        rw [hheld] at this
        obtain ⟨t, ht, hpos⟩ := exists_pos_of_sumBy (f := inHeld) (l := s.threads) (by simp at this; omega)
        refine ⟨t, ht, ?_⟩
        cases t with
        | tx => simp [inHeld] at hpos
        | restore pc => cases pc <;> simp [inHeld] at hpos <;> simp [Thread.enabled, Thread.step]
      · have hheld' : s.g.held = false := by simpa using hheld
        by_cases hpend : s.g.pending = true
        · -- announced, not yet inside, no readers: it can acquire
          have hp := hi.pend
          have hh := hi.held
          rw [hpend] at hp
          rw [hheld'] at hh
          simp only [if_true] at hp
          have hh0 : sumBy inHeld s.threads = 0 := by simpa using hh
          obtain ⟨t, ht, hpos⟩ := exists_pos_of_sumBy (f := inPending) (l := s.threads) (by omega)
          have hth := forall_zero_of_sumBy hh0 t ht
          refine ⟨t, ht, ?_⟩
          cases t with
          | tx => simp [inPending] at hpos
          | restore pc =>
            cases pc <;> simp [inPending] at hpos <;> simp [inHeld] at hth
            simp [Thread.enabled, Thread.step, hr0]
        · -- no writer around: the unfinished thread t0 can move
          have hpend' : s.g.pending = false := by simpa using hpend
          refine ⟨t0, ht0, ?_⟩
          have hd0 : depthOf t0 = 0 := forall_zero_of_sumBy (f := depthOf) (by omega) t0 ht0
          cases t0 with
          | tx p d pin obs =>
            simp only [depthOf] at hd0
            subst hd0
            have hfl := hf _ ht0
            simp only [FlatOk] at hfl
            match p, hfl with
            | [], _ => simp [Thread.finished] at hnf
            | .rlock :: p, _ => simp [Thread.enabled, Thread.step, hpend']
            | .runlock :: p, h => simp [flat] at h
            | .read :: p, h => simp [flat] at h
          | restore pc =>
            cases pc <;> simp [Thread.finished] at hnf <;> simp [Thread.enabled, Thread.step, hpend', hr0]


/-! ### completion under round-robin scheduling -/

def RPc.remaining : RPc → Nat
  | .persist => 7 | .announce => 6 | .acquire => 5 | .close => 4 | .swap => 3 | .fire => 2 | .unlock => 1 | .done => 0

def Thread.remaining : Thread → Nat
  | .tx p _ _ _ => p.length
  | .restore pc => pc.remaining

/-- number of steps still to be taken by all threads together -/
def work (s : St) : Nat := sumBy Thread.remaining s.threads

theorem Thread.step_remaining {g g' : G} {t t' : Thread} (h : t.step g = some (g', t')) :
    t'.remaining + 1 = t.remaining := by
  cases t with
  | tx p d pin obs =>
    cases p with
    | nil => simp [Thread.step] at h
    | cons a p =>
      cases a with
      | rlock =>
        simp only [Thread.step] at h
        split at h
        · cases h
        · simp only [Option.some.injEq, Prod.mk.injEq] at h; obtain ⟨_, rfl⟩ := h; simp [Thread.remaining]
      | runlock =>
        cases d with
        | zero => simp [Thread.step] at h
        | succ d =>
          simp only [Thread.step, Option.some.injEq, Prod.mk.injEq] at h; obtain ⟨_, rfl⟩ := h; simp [Thread.remaining]
      | read =>
        simp only [Thread.step, Option.some.injEq, Prod.mk.injEq] at h; obtain ⟨_, rfl⟩ := h; simp [Thread.remaining]
  | restore pc =>
    cases pc <;> simp only [Thread.step] at h <;> (try split at h) <;>
      first
      | (cases h; done)
      | (simp only [Option.some.injEq, Prod.mk.injEq] at h; obtain ⟨_, rfl⟩ := h; rfl)

theorem stepAt_work {s s' : St} {i : Nat} (h : stepAt s i = some s') : work s' + 1 = work s := by
  obtain ⟨pre, t, post, g', t', hthr, hstep, rfl⟩ := stepAt_some h
  have := Thread.step_remaining hstep
  simp only [work, hthr, sumBy_append, sumBy_cons]
  omega

theorem stepAt_length {s s' : St} {i : Nat} (h : stepAt s i = some s') : s'.threads.length = s.threads.length := by
  obtain ⟨pre, t, post, g', t', hthr, _, rfl⟩ := stepAt_some h
  simp [hthr]

theorem exec_length (s : St) (l : List Nat) : (exec s l).threads.length = s.threads.length := by
  induction l generalizing s with
  | nil => rfl
  | cons i is ih =>
    simp only [exec]
    cases h : stepAt s i with
    | none => simpa using ih s
    | some s' => simp only [Option.getD_some]; rw [ih s', stepAt_length h]

theorem exec_work_le (s : St) (l : List Nat) : work (exec s l) ≤ work s := by
  induction l generalizing s with
  | nil => exact Nat.le_refl _
  | cons i is ih =>
    simp only [exec]
    cases h : stepAt s i with
    | none => simpa using ih s
    | some s' => simp only [Option.getD_some]; have := ih s'; have := stepAt_work h; omega

/-- along a schedule either nothing could move at any pick, or work was done -/
theorem exec_progress (s : St) (l : List Nat) : (∀ i ∈ l, stepAt s i = none) ∨ work (exec s l) < work s := by
  induction l generalizing s with
  | nil => left; intro i hi; cases hi
  | cons i is ih =>
    simp only [exec]
    cases h : stepAt s i with
    | none =>
      simp only [Option.getD_none]
      rcases ih s with hall | hlt
      · left; intro j hj; rcases List.mem_cons.mp hj with rfl | hj; exact h; exact hall j hj
      · right; exact hlt
    | some s' =>
      right
      simp only [Option.getD_some]
      have := exec_work_le s' is; have := stepAt_work h; omega

theorem stepAt_of_enabled {s : St} {t : Thread} (ht : t ∈ s.threads) (he : t.enabled s.g = true) :
    ∃ i, i < s.threads.length ∧ (stepAt s i).isSome = true := by
  obtain ⟨i, hi, hget⟩ := List.mem_iff_getElem.mp ht
  refine ⟨i, hi, ?_⟩
  have hd : s.threads.drop i = s.threads[i] :: s.threads.drop (i + 1) := List.drop_eq_getElem_cons hi
  simp only [stepAt, hd, hget]
  simp only [Thread.enabled] at he
  cases hs : t.step s.g with
  | none => rw [hs] at he; simp at he
  | some r => obtain ⟨g', t'⟩ := r; simp

theorem finished_iff_remaining {t : Thread} : t.finished = true ↔ t.remaining = 0 := by
  cases t with
  | tx p d pin obs => cases p <;> simp [Thread.finished, Thread.remaining]
  | restore pc => cases pc <;> simp [Thread.finished, Thread.remaining, RPc.remaining]

theorem allDone_of_work_zero {s : St} (h : work s = 0) : allDone s = true := by
  simp only [allDone, List.all_eq_true]
  intro t ht
  exact finished_iff_remaining.mpr (forall_zero_of_sumBy h t ht)

/-- one round-robin pass over all threads does work unless everybody is finished -/
theorem round_progress {s : St} (hi : Inv s) (hf : AllFlat s) (hnd : allDone s = false) :
    work (exec s (List.range s.threads.length)) < work s := by
  have hns := not_stuck_of_Inv hi hf
  simp only [stuck, hnd, Bool.not_false, Bool.true_and] at hns
  have hex : ∃ t ∈ s.threads, t.enabled s.g = true := by
    have := List.all_eq_false.mp hns
    obtain ⟨t, ht, hne⟩ := this
    exact ⟨t, ht, by simpa using hne⟩
  obtain ⟨t, ht, he⟩ := hex
  obtain ⟨i, hlt, hsome⟩ := stepAt_of_enabled ht he
  rcases exec_progress s (List.range s.threads.length) with hall | hlt'
  · have := hall i (List.mem_range.mpr hlt)
    rw [this] at hsome; simp at hsome
  · exact hlt'

/-- `k` round-robin passes over `n` threads -/
def roundRobin (n : Nat) : Nat → List Nat
  | 0 => []
  | k + 1 => List.range n ++ roundRobin n k

theorem exec_append (s : St) (a b : List Nat) : exec s (a ++ b) = exec (exec s a) b := by
  induction a generalizing s with
  | nil => rfl
  | cons i is ih => simp only [List.cons_append, exec]; exact ih _

theorem rounds_complete {s : St} (hi : Inv s) (hf : AllFlat s) (k : Nat) (hk : work s ≤ k) :
    allDone (exec s (roundRobin s.threads.length k)) = true := by
  induction k generalizing s with
  | zero => simpa [roundRobin, exec] using allDone_of_work_zero (by omega)
  | succ k ih =>
    simp only [roundRobin, exec_append]
    have hi' := Inv_exec hi (List.range s.threads.length)
    have hf' := AllFlat_exec hf (List.range s.threads.length)
    have hlen := exec_length s (List.range s.threads.length)
    cases hnd : allDone s with
    | true =>
      -- already finished: further passes change nothing relevant; work is 0
      have hw : work s = 0 := by
        simp only [allDone, List.all_eq_true] at hnd
        exact sumBy_zero_of_forall (fun t ht => finished_iff_remaining.mp (hnd t ht))
      have hle := exec_work_le s (List.range s.threads.length)
      have r := ih hi' hf' (by omega)
      rw [hlen] at r
      exact r
    | false =>
      have hlt := round_progress hi hf hnd
      have r := ih hi' hf' (by omega)
      rw [hlen] at r
      exact r

end StorageModel.C17.Lock
