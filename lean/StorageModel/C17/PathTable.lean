import StorageModel.C17.Paths
import StorageModel.C17.LockTable
/-
  C17 — reading of the regenerated table `Generated.dbSnapshotPathOps` (extract/dbpaths.go: what SnapshotInTx does
  with its path strings) as the path-level model of Paths.lean: ONE variable, rewritten by a chain of
  strings.ReplaceAll calls, and that variable — after the last rewrite — is what CopyFile receives, what
  MarkAsSnapshot receives and what is returned.
-/
namespace StorageModel.C17

/-- `some replacements` when the table has that shape (`PathUse`: all three uses are the same variable at the same
    version), `none` otherwise (a second variable, a use of an earlier version, an assignment of another kind) -/
def readPathProgram (evs : List PathEv) : Option (List (String × String)) :=
  match evs with
  | .replace v _ _ _ :: _ =>
    let reps := evs.filterMap fun ev => match ev with
      | .replace _ _ o b => some (o, b)
      | _ => none
    let n := reps.length
    let expected := (reps.zipIdx.map fun obi => PathEv.replace v (obi.2 + 1) obi.1.1 obi.1.2) ++ [.copy v n, .mark v n, .ret v n]
    if evs = expected then some reps else none
  | [.copy v 0, .mark v' 0, .ret v'' 0] => if v = v' ∧ v' = v'' then some [] else none
  | _ => none

def Env.field (e : Env) : String → Option Path
  | "date" => some e.date
  | "time" => some e.time
  | "dbDir" => some e.dbDir
  | "dbFile" => some e.dbFile
  | _ => none

/-- the chain of ReplaceAll calls of a table -/
def expandTable (e : Env) : List (String × String) → Path → Option Path
  | [], p => some p
  | (old, by_) :: r, p =>
    match e.field by_ with
    | some new => expandTable e r (replaceAll old.toList new p)
    | none => none

/-- the chain the model's `expand` is written after -/
def codeReplacements : List (String × String) :=
  [("__DATE__", "date"), ("__TIME__", "time"), ("__DB_DIR__", "dbDir"), ("__DB_FILE__", "dbFile"),
   ("DATE", "date"), ("TIME", "time"), ("DB_DIR", "dbDir"), ("DB_FILE", "dbFile")]

theorem expandTable_code (e : Env) (p : Path) : expandTable e codeReplacements p = some (expand e p) := rfl

end StorageModel.C17
