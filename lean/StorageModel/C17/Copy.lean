/-
  C17 — the copy step of `persistSnapshot` (boltz/db.go): `io.Copy(f, snapshot)`.

  An `io.Reader` delivers a stream as a sequence of `Read` results `(n bytes, err)`; the io.Reader
  contract allows the last bytes to come TOGETHER with `io.EOF` (compress/flate, gzip,
  iotest.DataErrReader, framed network readers do that), allows short reads and zero-length reads.
  `io.Copy` writes the `n` bytes of every call first and looks at the error afterwards, so:

      persisted bytes = concatenation of everything the reader returned,
                        including the bytes returned together with the error.

  `copyAll` is that loop; `script` is the family of reader behaviours the harness drives
  RestoreFromReader through (a prefix of explicit read sizes — 0 = an empty read — then a fixed
  chunk size; EOF with the last data or on a separate call).
-/
namespace StorageModel.C17

/-- one `Read` call: the bytes it returned and whether `io.EOF` came with them -/
structure ReadResult (α : Type) where
  data : List α
  eof : Bool
  deriving DecidableEq, Repr

/-- `io.Copy`: write what each Read returned, stop after the call that carried EOF -/
def copyAll {α : Type} : List (ReadResult α) → List α
  | [] => []
  | r :: rs => r.data ++ (if r.eof then [] else copyAll rs)

/-- the faulty loop of the seeded change: test for EOF BEFORE writing the bytes that came with it -/
def copyDroppingEofData {α : Type} : List (ReadResult α) → List α
  | [] => []
  | r :: rs => if r.eof then [] else r.data ++ copyDroppingEofData rs

structure Reader where
  pre : List Nat := []        -- sizes of the first reads (0 = a read returning no bytes and no error)
  chunk : Nat := 0            -- afterwards every read returns at most chunk+1 bytes
  eofWithData : Bool := false -- the last bytes come together with io.EOF
  deriving DecidableEq, Repr

/-- the read that exhausts the stream -/
def finalReads {α : Type} (data : List α) (e : Bool) : List (ReadResult α) :=
  if e then [⟨data, true⟩] else [⟨data, false⟩, ⟨[], true⟩]

def scriptChunks {α : Type} (c : Nat) (e : Bool) : Nat → List α → List (ReadResult α)
  | 0, data => finalReads data e
  | fuel + 1, data =>
    if data.length ≤ c + 1 then finalReads data e
    else ⟨data.take (c + 1), false⟩ :: scriptChunks c e fuel (data.drop (c + 1))

def scriptPre {α : Type} (c : Nat) (e : Bool) : List Nat → List α → List (ReadResult α)
  | [], data => scriptChunks c e data.length data
  | n :: ns, data =>
    if data.length ≤ n ∧ 0 < n then finalReads data e
    else ⟨data.take n, false⟩ :: scriptPre c e ns (data.drop n)

/-- the Read results a reader of behaviour `rd` produces for the stream `data` -/
def script {α : Type} (rd : Reader) (data : List α) : List (ReadResult α) :=
  scriptPre rd.chunk rd.eofWithData rd.pre data

theorem copyAll_finalReads {α : Type} (data : List α) (e : Bool) : copyAll (finalReads data e) = data := by
  cases e <;> simp [finalReads, copyAll]

theorem copyAll_scriptChunks {α : Type} (c : Nat) (e : Bool) (fuel : Nat) (data : List α) :
    copyAll (scriptChunks c e fuel data) = data := by
  induction fuel generalizing data with
  | zero => simp [scriptChunks, copyAll_finalReads]
  | succ fuel ih =>
    simp only [scriptChunks]
    split
    · exact copyAll_finalReads data e
    · simp [copyAll, ih, List.take_append_drop]

theorem copyAll_scriptPre {α : Type} (c : Nat) (e : Bool) (pre : List Nat) (data : List α) :
    copyAll (scriptPre c e pre data) = data := by
  induction pre generalizing data with
  | nil => simp [scriptPre, copyAll_scriptChunks]
  | cons n ns ih =>
    simp only [scriptPre]
    split
    · exact copyAll_finalReads data e
    · simp [copyAll, ih, List.take_append_drop]

/-- **the copy step reassembles the stream, whatever the reader's behaviour** -/
theorem copyAll_script {α : Type} (rd : Reader) (data : List α) : copyAll (script rd data) = data :=
  copyAll_scriptPre rd.chunk rd.eofWithData rd.pre data

end StorageModel.C17
