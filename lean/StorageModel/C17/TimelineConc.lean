import StorageModel.C17.SnapshotProofs
import StorageModel.C17.LockTable
/-
  C17 — GetTimelineId under CONCURRENT requests, at the granularity of its bolt transactions.

  bbolt serialises read-write transactions (one writer) and gives every transaction a consistent
  view; so ONE `View(func)` / `Update(func)` is one atomic step against the `meta` bucket, and a method
  that uses several transactions is a program of several steps between which other requests' steps
  may fall.  A requester runs a program over

      atomic   Update{ read resetTimeline, timelineId; if reset ∨ mode.force: idF, write both; else return stored }
                                                      -- boltz/db.go GetTimelineId as it is: decision and action in ONE transaction
      check    View{ read resetTimeline, timelineId }; outside: return the stored id unless reset ∨ mode.force
      act      Update{ idF; write timelineId, resetTimeline := false }      -- unconditional

  `[atomic]` is the code (obligation `timeline_steps_expected` over the regenerated `Generated.dbMetaOps`:
  GetTimelineId is exactly one Update whose idF call and writes sit under a guard on values read in that
  same transaction); `[check, act]` is the check-then-act split, kept here as the design for which the
  clause "fresh id exactly once" FAILS under an interleaving (decided below) — sequentially it
  behaves the same.
-/
namespace StorageModel.C17

inductive TlAct where
  | atomic | check | act
  deriving DecidableEq, Repr

inductive Req where
  | todo (m : Mode) (prog : List TlAct)
  | done (ret : Option Nat)              -- the id returned (none = "")
  deriving DecidableEq, Repr

structure TSys where
  sys : Sys
  reqs : List Req
  deriving DecidableEq, Repr

def retOf : Obs → Option Nat
  | .tl id _ => id
  | _ => none

/-- one atomic step (one bolt transaction, plus the transaction-free code up to the next one) -/
def reqStep (sys : Sys) : Req → Sys × Req
  | .todo m (.atomic :: _) => let r := getTimeline m true sys; (r.1, .done (retOf r.2))
  | .todo m (.check :: rest) =>
    if sys.db.mt.rt.getD false || m.force sys.db.mt.tl then (sys, .todo m rest) else (sys, .done sys.db.mt.tl)
  | .todo _ (.act :: _) =>
    ({ sys with idf := sys.idf + 1,
                db := { sys.db with mt := { sys.db.mt with present := true, tl := some (sys.idf + 1), rt := some false } } },
     .done (some (sys.idf + 1)))
  | .todo _ [] => (sys, .done none)
  | .done r => (sys, .done r)

/-- requester `i` performs its next step -/
def tstep (s : TSys) (i : Nat) : TSys :=
  match s.reqs[i]? with
  | some r => { sys := (reqStep s.sys r).1, reqs := s.reqs.set i (reqStep s.sys r).2 }
  | none => s

/-- an interleaving = the list of requester indices in the order in which their steps happen -/
def texec (s : TSys) : List Nat → TSys
  | [] => s
  | i :: is => texec (tstep s i) is

def tinit (sys : Sys) (prog : List TlAct) (ms : List Mode) : TSys :=
  { sys := sys, reqs := ms.map fun m => .todo m prog }

/-! ### reading of the regenerated table as a requester program -/

def atomicEvs : List TxEv :=
  [.read .resetTimeline, .read .timelineId, .guard [.resetTimeline, .timelineId], .idF, .write .timelineId, .write .resetTimeline]

def TxEv.isRead : TxEv → Bool
  | .read _ => true
  | _ => false

def TxEv.isGuard : TxEv → Bool
  | .guard _ => true
  | _ => false

def readTlStep : MetaStep → Option (List TlAct)
  | .decide _ => some []                     -- belongs to the `check` before it
  | .tx .update evs =>
    if evs = atomicEvs then some [.atomic]
    else if evs.contains .idF && !evs.any TxEv.isGuard then some [.act]
    else none
  | .tx .view evs => if evs.all TxEv.isRead then some [.check] else none

def readTlProgram (steps : List MetaStep) : Option (List TlAct) :=
  (steps.mapM readTlStep).map List.flatten

/-- GetSnapshotId is one View reading the id; MarkAsSnapshot writes both markers in one Update -/
def markerStepsExpected (t : MetaOps) : Bool :=
  t.get "GetSnapshotId" == [.tx .view [.read .snapshotId]] &&
  t.get "MarkAsSnapshot" == [.tx .update [.write .snapshotId, .write .resetTimeline]]

/-! ### the code's program: every interleaving -/

theorem getTimeline_fresh (s : Sys) (m : Mode) (hrt : s.db.mt.rt = some true) :
    getTimeline m true s =
      ({ s with idf := s.idf + 1,
                db := { s.db with mt := { s.db.mt with present := true, tl := some (s.idf + 1), rt := some false } } },
       .tl (some (s.idf + 1)) 1) := by
  simp [getTimeline, hrt]

theorem getTimeline_settled (s : Sys) (m : Mode) (t : Nat) (hm : m ≠ .forceReset) (hs : Settled t s) :
    getTimeline m true s = ({ s with db := { s.db with mt := { s.db.mt with present := true } } }, .tl (some t) 0) := by
  obtain ⟨h1, h2⟩ := hs
  have hf : m.force s.db.mt.tl = false := by
    cases m with
    | default => rfl
    | initIfEmpty => simp [Mode.force, h2]
    | forceReset => exact absurd rfl hm
  rw [h2] at hf
  simp [getTimeline, h1, hf, h2]

def Waiting (r : Req) : Prop := ∃ m, m ≠ Mode.forceReset ∧ r = .todo m [.atomic]

/-- nobody has run yet: the reset marker is still set -/
def FreshPhase (id0 : Nat) (s : TSys) : Prop :=
  s.sys.db.mt.rt = some true ∧ s.sys.idf = id0 ∧ ∀ r ∈ s.reqs, Waiting r

/-- somebody has run: the id is settled, everybody who finished returned it -/
def SettledPhase (id0 : Nat) (s : TSys) : Prop :=
  Settled (id0 + 1) s.sys ∧ s.sys.idf = id0 + 1 ∧ ∀ r ∈ s.reqs, Waiting r ∨ r = .done (some (id0 + 1))

def TInv (id0 : Nat) (s : TSys) : Prop := FreshPhase id0 s ∨ SettledPhase id0 s

theorem tstep_length (s : TSys) (i : Nat) : (tstep s i).reqs.length = s.reqs.length := by
  unfold tstep
  cases s.reqs[i]? <;> simp

theorem tstep_inv (id0 : Nat) (s : TSys) (i : Nat) (h : TInv id0 s) :
    TInv id0 (tstep s i) ∧ (i < s.reqs.length → (tstep s i).reqs[i]? = some (.done (some (id0 + 1)))) := by
  unfold tstep
  cases hget : s.reqs[i]? with
  | none =>
    refine ⟨h, fun hi => ?_⟩
    have := List.getElem?_eq_none_iff.mp hget
    omega
  | some r =>
    have hmem : r ∈ s.reqs := List.mem_of_getElem? hget
    have hi : i < s.reqs.length := (List.getElem?_eq_some_iff.mp hget).1
    rcases h with ⟨hrt, hidf, hall⟩ | ⟨hset, hidf, hall⟩
    · -- first step of anybody: generates the id
      obtain ⟨m, hm, rfl⟩ := hall r hmem
      simp only [reqStep, getTimeline_fresh s.sys m hrt, retOf, hidf]
      refine ⟨Or.inr ⟨⟨rfl, rfl⟩, by simp, ?_⟩, fun _ => by simp [hi]⟩
      intro x hx
      rcases List.mem_or_eq_of_mem_set hx with hx | rfl
      · exact Or.inl (hall x hx)
      · exact Or.inr rfl
    · rcases hall r hmem with ⟨m, hm, rfl⟩ | rfl
      · -- a later request: returns the settled id, no idF call
        simp only [reqStep, getTimeline_settled s.sys m (id0 + 1) hm hset, retOf]
        refine ⟨Or.inr ⟨⟨hset.1, hset.2⟩, hidf, ?_⟩, fun _ => by simp [hi]⟩
        intro x hx
        rcases List.mem_or_eq_of_mem_set hx with hx | rfl
        · exact hall x hx
        · exact Or.inr rfl
      · -- a finished request does not move
        simp only [reqStep]
        refine ⟨Or.inr ⟨hset, hidf, ?_⟩, fun _ => by simp [hi]⟩
        intro x hx
        rcases List.mem_or_eq_of_mem_set hx with hx | rfl
        · exact hall x hx
        · exact Or.inr rfl

theorem texec_inv (id0 : Nat) (s : TSys) (sched : List Nat) (h : TInv id0 s) : TInv id0 (texec s sched) := by
  induction sched generalizing s with
  | nil => exact h
  | cons i is ih => exact ih _ (tstep_inv id0 s i h).1

theorem texec_length (s : TSys) (sched : List Nat) : (texec s sched).reqs.length = s.reqs.length := by
  induction sched generalizing s with
  | nil => rfl
  | cons i is ih => simp [texec, ih, tstep_length]

theorem tstep_done_stays (s : TSys) (i j : Nat) (r : Option Nat) (h : s.reqs[j]? = some (.done r)) :
    (tstep s i).reqs[j]? = some (.done r) := by
  unfold tstep
  cases hget : s.reqs[i]? with
  | none => exact h
  | some x =>
    by_cases hij : i = j
    · subst hij
      rw [hget] at h
      cases h
      have hi : i < s.reqs.length := (List.getElem?_eq_some_iff.mp hget).1
      simp [reqStep, hi]
    · simp [List.getElem?_set_ne hij, h]

theorem texec_done_stays (s : TSys) (sched : List Nat) (j : Nat) (r : Option Nat) (h : s.reqs[j]? = some (.done r)) :
    (texec s sched).reqs[j]? = some (.done r) := by
  induction sched generalizing s with
  | nil => exact h
  | cons i is ih => exact ih _ (tstep_done_stays s i j r h)

theorem texec_scheduled_done (id0 : Nat) (s : TSys) (sched : List Nat) (h : TInv id0 s) (j : Nat) (hj : j ∈ sched)
    (hlen : j < s.reqs.length) : (texec s sched).reqs[j]? = some (.done (some (id0 + 1))) := by
  induction sched generalizing s with
  | nil => cases hj
  | cons i is ih =>
    simp only [texec]
    by_cases hij : j = i
    · subst hij
      exact texec_done_stays _ is j _ ((tstep_inv id0 s j h).2 hlen)
    · have : j ∈ is := by
        rcases List.mem_cons.mp hj with e | e
        · exact absurd e hij
        · exact e
      exact ih _ (tstep_inv id0 s i h).1 this (by rw [tstep_length]; exact hlen)

theorem tinit_fresh (sys : Sys) (hrt : sys.db.mt.rt = some true) (ms : List Mode) (hms : ∀ m ∈ ms, m ≠ Mode.forceReset) :
    TInv sys.idf (tinit sys [.atomic] ms) := by
  refine Or.inl ⟨hrt, rfl, ?_⟩
  intro r hr
  obtain ⟨m, hm, rfl⟩ := List.mem_map.mp hr
  exact ⟨m, hms m hm, rfl⟩

end StorageModel.C17
