/-
  C17 — helper lemmas about the sequential snapshot/restore model (the property theorems that
  use them are in Properties/C17.lean).
-/
import StorageModel.C17.Snapshot
namespace StorageModel.C17

theorem decodeBody_encodeDb (d : Db) : decodeBody (encodeDb d) = some d := by
  obtain ⟨c, m⟩ := d
  induction c with
  | nil => simp [encodeDb, decodeBody]
  | cons kv r ih =>
    simp only [encodeDb, List.map_cons, List.cons_append] at ih ⊢
    simp only [decodeBody, ih]
    simp

theorem decodeDb_encodeDb (d : Db) : decodeDb (encodeDb d) = some d := by
  have h : encodeDb d ≠ [] := by simp [encodeDb]
  cases he : encodeDb d with
  | nil => exact absurd he h
  | cons a r => rw [← he]; simp only [decodeDb]; rw [he] ; rw [← he]; exact decodeBody_encodeDb d

/-- **the restored file is the snapshot file, for every reader behaviour** (short reads, one byte
    at a time, empty reads, last bytes delivered together with io.EOF, any chunk size) -/
@[simp] theorem restoreVia_eq (f : Db) (rd : Reader) : restoreVia f rd = some f := by
  simp [restoreVia, copyAll_script, decodeDb_encodeDb]

/-- the operation does not write snapshot slot `k` -/
def Op.keeps (k : Nat) : Op → Bool
  | .snap j _ => j != k
  | .snapUpd j _ => j != k
  | .stream j => j != k
  | _ => true

def KeepsSlot (k : Nat) (h : List Op) : Prop := ∀ o ∈ h, o.keeps k = true

theorem getTimeline_files (m : Mode) (ok : Bool) (s : Sys) :
    (getTimeline m ok s).1.files = s.files ∧ (getTimeline m ok s).1.nextId = s.nextId ∧
    (getTimeline m ok s).1.listeners = s.listeners ∧ (getTimeline m ok s).1.fired = s.fired := by
  unfold getTimeline
  by_cases hc : (s.db.mt.rt.getD false || m.force s.db.mt.tl) = true <;> cases ok <;> simp [hc]

theorem step_keeps_file (s : Sys) (o : Op) (k : Nat) (h : o.keeps k = true) :
    lookup k (step s o).1.files = lookup k s.files := by
  cases o with
  | tx ws c => simp only [step]; split <;> rfl
  | snap j b =>
    have : k ≠ j := by simp only [Op.keeps, bne_iff_ne, ne_eq] at h; exact fun e => h e.symm
    simp [step, lookup_store_other _ _ _ _ this]
  | snapUpd j ws =>
    have : k ≠ j := by simp only [Op.keeps, bne_iff_ne, ne_eq] at h; exact fun e => h e.symm
    simp [step, lookup_store_other _ _ _ _ this]
  | snapFail => rfl
  | stream j =>
    have : k ≠ j := by simp only [Op.keeps, bne_iff_ne, ne_eq] at h; exact fun e => h e.symm
    simp [step, lookup_store_other _ _ _ _ this]
  | restore j b => simp only [step]; split <;> simp
  | gsid => rfl
  | gtl m ok => simp [step, (getTimeline_files m ok s).1]
  | listen => rfl
  | dump => rfl

theorem run_keeps_file (s : Sys) (h : List Op) (k : Nat) (hk : KeepsSlot k h) :
    lookup k (run s h).1.files = lookup k s.files := by
  induction h generalizing s with
  | nil => rfl
  | cons o os ih =>
    simp only [run]
    rw [ih (step s o).1 (fun x hx => hk x (by simp [hx]))]
    exact step_keeps_file s o k (hk o (by simp))

/-- operations after which a settled timeline id is still the stored one: everything except a
    restore and a forced reset -/
def Op.quiet : Op → Bool
  | .restore _ _ => false
  | .gtl .forceReset _ => false
  | _ => true

/-- "the timeline id is settled at `t`": no reset pending and `t` stored -/
def Settled (t : Nat) (s : Sys) : Prop := s.db.mt.rt.getD false = false ∧ s.db.mt.tl = some t

theorem step_quiet_settled (s : Sys) (o : Op) (t : Nat) (hq : o.quiet = true) (hs : Settled t s) :
    Settled t (step s o).1 := by
  obtain ⟨h1, h2⟩ := hs
  cases o with
  | tx ws c => simp only [step]; split <;> exact ⟨h1, h2⟩
  | snap j b => exact ⟨h1, h2⟩
  | snapUpd j ws => exact ⟨h1, h2⟩
  | snapFail => exact ⟨h1, h2⟩
  | stream j => exact ⟨h1, h2⟩
  | restore j b => simp [Op.quiet] at hq
  | gsid => exact ⟨h1, h2⟩
  | gtl m ok =>
    have hf : m.force s.db.mt.tl = false := by
      cases m with
      | default => rfl
      | initIfEmpty => simp [Mode.force, h2]
      | forceReset => simp [Op.quiet] at hq
    simp only [step, getTimeline, h1, hf, Bool.or_self, Bool.false_eq_true, if_false]
    exact ⟨h1, h2⟩
  | listen => exact ⟨h1, h2⟩
  | dump => exact ⟨h1, h2⟩

theorem run_quiet_settled (s : Sys) (h : List Op) (t : Nat) (hq : ∀ o ∈ h, o.quiet = true) (hs : Settled t s) :
    Settled t (run s h).1 := by
  induction h generalizing s with
  | nil => exact hs
  | cons o os ih =>
    simp only [run]
    exact ih _ (fun x hx => hq x (by simp [hx])) (step_quiet_settled s o t (hq o (by simp)) hs)

/-! ### model ⊨ spec -/

def toFile : Option Nat × Db → Db
  | (some id, d) => mark id d
  | (none, d) => d

theorem expectedAfterRestore_eq (sv : Option Nat × Db) : expectedAfterRestore sv = toFile sv := by
  obtain ⟨i, d⟩ := sv
  cases i <;> rfl

theorem lookupS_storeS (k j : Nat) (v : Option Nat × Db) (l : List (Nat × (Option Nat × Db))) :
    lookupS j (storeS k v l) = if j = k then some v else lookupS j l := by
  induction l with
  | nil => by_cases h : j = k <;> simp [storeS, lookupS, h]
  | cons hd t ih =>
    obtain ⟨k', d'⟩ := hd
    by_cases hk : k = k'
    · subst hk; by_cases h : j = k <;> simp [storeS, lookupS, h]
    · by_cases hj : j = k'
      · have : k' ≠ k := fun e => hk e.symm
        subst hj
        simp [storeS, lookupS, hk, this]
      · simp [storeS, lookupS, hk, hj, ih]

theorem lookup_store (k j : Nat) (d : Db) (l : List (Nat × Db)) :
    lookup j (store k d l) = if j = k then some d else lookup j l := by
  by_cases h : j = k
  · subst h; simp [lookup_store_same]
  · simp [h, lookup_store_other _ _ _ _ h]

def TlRel (x : TlExpect) (s : Sys) : Prop :=
  match x with
  | .free => True
  | .fresh => s.db.mt.rt = some true
  | .settled t => Settled t s

structure Rel (st : SpecSt) (s : Sys) : Prop where
  files : ∀ k, lookup k s.files = (lookupS k st.saved).map toFile
  listeners : st.listeners = s.listeners
  fired : st.fired = s.fired
  idf : st.idf = s.idf
  sid : ∀ id, st.sidExpect = some id → s.db.mt.present = true ∧ s.db.mt.sid = some id
  tlx : TlRel st.tlx s

theorem Rel_init : Rel {} {} := ⟨fun _ => rfl, rfl, rfl, rfl, fun _ h => by simp at h, trivial⟩

theorem TlRel_of_mt {x : TlExpect} {s s' : Sys} (h : s'.db.mt.rt = s.db.mt.rt ∧ s'.db.mt.tl = s.db.mt.tl)
    (hr : TlRel x s) : TlRel x s' := by
  cases x with
  | free => trivial
  | fresh => simpa [TlRel, h.1] using hr
  | settled t => simpa [TlRel, Settled, h.1, h.2] using hr

theorem rel_step_gtl (st : SpecSt) (s : Sys) (m : Mode) (ok : Bool) (hr : Rel st s) :
    ∃ st', specStep st (.gtl m ok) (step s (.gtl m ok)).2 = some st' ∧ Rel st' (step s (.gtl m ok)).1 := by
  obtain ⟨hfiles, hl, hf, hidf, hsid, htl⟩ := hr
  simp only [step, getTimeline]
  by_cases hc : (s.db.mt.rt.getD false || m.force s.db.mt.tl) = true
  · simp only [hc, if_true]
    cases ok with
    | true =>
      simp only [if_true]
      cases hx : st.tlx with
      | free =>
        refine ⟨{ st with idf := st.idf + 1 }, by simp [specStep, hx],
          ⟨hfiles, hl, hf, by simp [hidf], fun id hid => ⟨rfl, (hsid id hid).2⟩, ?_⟩⟩
        show TlRel st.tlx _
        rw [hx]; trivial
      | fresh =>
        refine ⟨{ st with idf := st.idf + 1, tlx := .settled (st.idf + 1) }, by simp [specStep, hx, hidf],
          ⟨hfiles, hl, hf, by simp [hidf], fun id hid => ⟨rfl, (hsid id hid).2⟩, ?_⟩⟩
        show Settled _ _
        simp [Settled, hidf]
      | settled t =>
        rw [hx] at htl
        obtain ⟨h1, h2⟩ := htl
        have hm : m = .forceReset := by
          cases m with
          | default => simp [Mode.force, h1] at hc
          | initIfEmpty => simp [Mode.force, h1, h2] at hc
          | forceReset => rfl
        subst hm
        exact ⟨{ st with idf := st.idf + 1, tlx := .free }, by simp [specStep, hx],
          ⟨hfiles, hl, hf, by simp [hidf], fun id hid => ⟨rfl, (hsid id hid).2⟩, trivial⟩⟩
    | false =>
      simp only [Bool.false_eq_true, if_false]
      cases hx : st.tlx with
      | free =>
        refine ⟨{ st with idf := st.idf + 1 }, by simp [specStep, hx], ⟨hfiles, hl, hf, by simp [hidf], hsid, ?_⟩⟩
        show TlRel st.tlx _
        rw [hx]; trivial
      | fresh =>
        refine ⟨{ st with idf := st.idf + 1 }, by simp [specStep, hx], ⟨hfiles, hl, hf, by simp [hidf], hsid, ?_⟩⟩
        show TlRel st.tlx _
        rw [hx] at htl ⊢; exact htl
      | settled t =>
        rw [hx] at htl
        obtain ⟨h1, h2⟩ := htl
        have hm : m = .forceReset := by
          cases m with
          | default => simp [Mode.force, h1] at hc
          | initIfEmpty => simp [Mode.force, h1, h2] at hc
          | forceReset => rfl
        subst hm
        exact ⟨{ st with idf := st.idf + 1, tlx := .free }, by simp [specStep, hx],
          ⟨hfiles, hl, hf, by simp [hidf], hsid, trivial⟩⟩
  · simp only [hc, if_false]
    have hc' : s.db.mt.rt.getD false = false ∧ m.force s.db.mt.tl = false := by
      simpa [Bool.or_eq_false_iff] using hc
    cases hx : st.tlx with
    | free =>
      refine ⟨{ st with idf := st.idf + 0 }, by simp [specStep, hx],
        ⟨hfiles, hl, hf, by simp [hidf], fun id hid => ⟨rfl, (hsid id hid).2⟩, ?_⟩⟩
      show TlRel st.tlx _
      rw [hx]; trivial
    | fresh =>
      rw [hx] at htl
      simp only [TlRel] at htl
      simp [htl] at hc'
    | settled t =>
      rw [hx] at htl
      obtain ⟨h1, h2⟩ := htl
      have hm : m ≠ .forceReset := by intro e; subst e; simp [Mode.force] at hc'
      refine ⟨st, by simp [specStep, hx, hm, h2], ⟨hfiles, hl, hf, hidf, fun id hid => ⟨rfl, (hsid id hid).2⟩, ?_⟩⟩
      rw [hx]; exact ⟨h1, h2⟩

theorem rel_files_store (st : SpecSt) (s : Sys) (k : Nat) (v : Option Nat × Db)
    (hfiles : ∀ k, lookup k s.files = (lookupS k st.saved).map toFile) (j : Nat) :
    lookup j (store k (toFile v) s.files) = (lookupS j (storeS k v st.saved)).map toFile := by
  rw [lookup_store, lookupS_storeS]
  split
  · rfl
  · exact hfiles j

theorem rel_step (st : SpecSt) (s : Sys) (o : Op) (hr : Rel st s) :
    ∃ st', specStep st o (step s o).2 = some st' ∧ Rel st' (step s o).1 := by
  cases o with
  | gtl m ok => exact rel_step_gtl st s m ok hr
  | tx ws c =>
    obtain ⟨hfiles, hl, hf, hidf, hsid, htl⟩ := hr
    cases c with
    | true => exact ⟨st, by simp [step, specStep], ⟨hfiles, hl, hf, hidf, hsid, TlRel_of_mt ⟨rfl, rfl⟩ htl⟩⟩
    | false => exact ⟨st, by simp [step, specStep], ⟨hfiles, hl, hf, hidf, hsid, htl⟩⟩
  | snap k b =>
    obtain ⟨hfiles, hl, hf, hidf, hsid, htl⟩ := hr
    exact ⟨{ st with saved := storeS k (some s.nextId, s.db) st.saved }, by simp [step, specStep],
      ⟨rel_files_store st s k (some s.nextId, s.db) hfiles, hl, hf, hidf, hsid, TlRel_of_mt ⟨rfl, rfl⟩ htl⟩⟩
  | snapUpd k ws =>
    obtain ⟨hfiles, hl, hf, hidf, hsid, htl⟩ := hr
    exact ⟨{ st with saved := storeS k (some s.nextId, s.db) st.saved }, by simp [step, specStep],
      ⟨rel_files_store st s k (some s.nextId, s.db) hfiles, hl, hf, hidf, hsid, TlRel_of_mt ⟨rfl, rfl⟩ htl⟩⟩
  | snapFail => exact ⟨st, by simp [step, specStep], hr⟩
  | stream k =>
    obtain ⟨hfiles, hl, hf, hidf, hsid, htl⟩ := hr
    exact ⟨{ st with saved := storeS k (none, s.db) st.saved }, by simp [step, specStep],
      ⟨rel_files_store st s k (none, s.db) hfiles, hl, hf, hidf, hsid, TlRel_of_mt ⟨rfl, rfl⟩ htl⟩⟩
  | restore k b =>
    obtain ⟨hfiles, hl, hf, hidf, hsid, htl⟩ := hr
    have hk := hfiles k
    cases hsv : lookupS k st.saved with
    | none =>
      rw [hsv] at hk
      simp only [Option.map_none] at hk
      refine ⟨st, by simp [step, hk, specStep, hsv], ?_⟩
      simp only [step, hk]
      exact ⟨hfiles, hl, hf, hidf, hsid, htl⟩
    | some sv =>
      rw [hsv] at hk
      simp only [Option.map_some] at hk
      simp only [step, hk, restoreVia_eq]
      obtain ⟨i, d⟩ := sv
      cases i with
      | none =>
        refine ⟨{ st with fired := s.fired + s.listeners, sidExpect := none, tlx := .free },
          by simp [specStep, hsv, expectedAfterRestore_eq, hf, hl],
          ⟨hfiles, hl, rfl, hidf, fun id hid => by simp at hid, trivial⟩⟩
      | some id0 =>
        refine ⟨{ st with fired := s.fired + s.listeners, sidExpect := some id0, tlx := .fresh },
          by simp [specStep, hsv, expectedAfterRestore_eq, hf, hl],
          ⟨hfiles, hl, rfl, hidf, ?_, by simp [TlRel, toFile, mark]⟩⟩
        intro id hid
        simp only [Option.some.injEq] at hid
        subst hid
        simp [toFile, mark]
  | gsid =>
    obtain ⟨hfiles, hl, hf, hidf, hsid, htl⟩ := hr
    cases hx : st.sidExpect with
    | none => exact ⟨st, by simp [step, specStep, hx], ⟨hfiles, hl, hf, hidf, hsid, htl⟩⟩
    | some id =>
      obtain ⟨hp, hs⟩ := hsid id hx
      exact ⟨st, by simp [step, specStep, hx, hp, hs], ⟨hfiles, hl, hf, hidf, hsid, htl⟩⟩
  | listen =>
    obtain ⟨hfiles, hl, hf, hidf, hsid, htl⟩ := hr
    exact ⟨{ st with listeners := st.listeners + 1 }, by simp [step, specStep],
      ⟨hfiles, by simp [step, hl], hf, hidf, hsid, TlRel_of_mt ⟨rfl, rfl⟩ htl⟩⟩
  | dump => exact ⟨st, by simp [step, specStep], hr⟩

theorem rel_run (st : SpecSt) (s : Sys) (h : List Op) (hr : Rel st s) :
    (specRun st h (run s h).2).isSome = true := by
  induction h generalizing st s with
  | nil => simp [run, specRun]
  | cons o os ih =>
    obtain ⟨st', h1, h2⟩ := rel_step st s o hr
    simp only [run, specRun, h1]
    exact ih st' _ h2

/-- the reporting variant of the oracle (used by the driver) agrees with `specRun` -/
theorem specFirstFail_none_iff (st : SpecSt) (ops : List Op) (obs : List Obs) (i : Nat) :
    specFirstFail st ops obs i = none ↔ (specRun st ops obs).isSome = true := by
  induction ops generalizing st obs i with
  | nil => simp [specFirstFail, specRun]
  | cons o os ih =>
    cases obs with
    | nil => simp [specFirstFail, specRun]
    | cons b bs =>
      simp only [specFirstFail, specRun]
      cases h : specStep st o b with
      | none => simp
      | some st' => simpa using ih st' bs (i + 1)

end StorageModel.C17
