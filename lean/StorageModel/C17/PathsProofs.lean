import StorageModel.C17.Paths
import StorageModel.C17.SnapshotProofs
/-
  C17 — helper lemmas about the path level (Paths.lean): replaceAll / expand on templates without a
  placeholder, the directory, refinement of the slot model.
-/
namespace StorageModel.C17

/-! ### expansion -/

theorem isPrefixOf_mem {old l : Path} (h : old.isPrefixOf l = true) {x : Char} (hx : x ∈ old) : x ∈ l := by
  induction old generalizing l with
  | nil => cases hx
  | cons a t ih =>
    cases l with
    | nil => simp [List.isPrefixOf] at h
    | cons b r =>
      simp only [List.isPrefixOf, Bool.and_eq_true, beq_iff_eq] at h
      rcases List.mem_cons.1 hx with rfl | hx
      · simp [h.1]
      · exact List.mem_cons_of_mem _ (ih h.2 hx)

/-- a text that lacks one character of `old` has no occurrence of `old` -/
theorem replaceGo_no_occurrence (old new s : Path) (x : Char) (hx : x ∈ old) (hs : x ∉ s) :
    replaceGo old new 0 s = s := by
  induction s with
  | nil => rfl
  | cons c r ih =>
    have hr : x ∉ r := fun h => hs (List.mem_cons_of_mem _ h)
    have hp : old.isPrefixOf (c :: r) = false := by
      cases hpre : old.isPrefixOf (c :: r) with
      | false => rfl
      | true => exact absurd (isPrefixOf_mem hpre hx) hs
    simp [replaceGo, hp, ih hr]

theorem replaceAll_no_occurrence (old new s : Path) (x : Char) (hx : x ∈ old) (hs : x ∉ s) :
    replaceAll old new s = s := replaceGo_no_occurrence old new s x hx hs

/-- every placeholder contains a `D` or a `T` … -/
theorem expand_plain (e : Env) (p : Path) (hD : 'D' ∉ p) (hT : 'T' ∉ p) : expand e p = p := by
  unfold expand
  simp only []
  rw [replaceAll_no_occurrence "__DATE__".toList e.date p 'D' (by decide) hD,
      replaceAll_no_occurrence "__TIME__".toList e.time p 'T' (by decide) hT,
      replaceAll_no_occurrence "__DB_DIR__".toList e.dbDir p 'D' (by decide) hD,
      replaceAll_no_occurrence "__DB_FILE__".toList e.dbFile p 'D' (by decide) hD,
      replaceAll_no_occurrence "DATE".toList e.date p 'D' (by decide) hD,
      replaceAll_no_occurrence "TIME".toList e.time p 'T' (by decide) hT,
      replaceAll_no_occurrence "DB_DIR".toList e.dbDir p 'D' (by decide) hD,
      replaceAll_no_occurrence "DB_FILE".toList e.dbFile p 'D' (by decide) hD]

/-! ### the directory -/

theorem snapshotFiles_same (p : Path) (id : Nat) (copy : Db) (fs : PFS) :
    lookupP p (snapshotFiles ⟨p, p, p⟩ id copy fs).2 = some (mark id copy) := by
  simp [snapshotFiles, markAsSnapshot, copyFile, lookupP_storeP_same]

theorem snapshotFiles_other (p q : Path) (id : Nat) (copy : Db) (fs : PFS) (h : q ≠ p) :
    lookupP q (snapshotFiles ⟨p, p, p⟩ id copy fs).2 = lookupP q fs := by
  simp [snapshotFiles, markAsSnapshot, copyFile, lookupP_storeP_other _ _ _ _ h]

/-- the path-level operation does not write the file under `p` (at clock `e`) -/
def POp.keepsPath (e : Env) (p : Path) : POp → Bool
  | .snapT tmpl _ => decide (expand e tmpl ≠ p)
  | .snapUpdT tmpl _ => decide (expand e tmpl ≠ p)
  | .streamTo q => decide (q ≠ p)
  | _ => true

def KeepsPath (p : Path) (h : List (Env × POp)) : Prop := ∀ eo ∈ h, eo.2.keepsPath eo.1 p = true

theorem pstep_keeps_file (e : Env) (s : PSys) (o : POp) (p : Path) (h : o.keepsPath e p = true) :
    lookupP p (pstep e s o).1.fs = lookupP p s.fs := by
  cases o with
  | snapT tmpl b =>
    have hne : p ≠ expand e tmpl := fun hh => by simp [POp.keepsPath, hh] at h
    simp only [pstep, snapshotInTx, pathUseCode]
    exact snapshotFiles_other _ _ _ _ _ hne
  | snapUpdT tmpl ws =>
    have hne : p ≠ expand e tmpl := fun hh => by simp [POp.keepsPath, hh] at h
    simp only [pstep, snapshotInTx, pathUseCode]
    exact snapshotFiles_other _ _ _ _ _ hne
  | streamTo q =>
    have hne : p ≠ q := fun hh => by simp [POp.keepsPath, hh] at h
    simp only [pstep]
    exact lookupP_storeP_other _ _ _ _ hne
  | restoreFrom q rd =>
    simp only [pstep]
    split
    · rfl
    · split <;> rfl
  | other o =>
    simp only [pstep]
    split <;> rfl

theorem prun_keeps_file (s : PSys) (h : List (Env × POp)) (p : Path) (hk : KeepsPath p h) :
    lookupP p (prun s h).1.fs = lookupP p s.fs := by
  induction h generalizing s with
  | nil => rfl
  | cons eo os ih =>
    obtain ⟨e, o⟩ := eo
    simp only [prun]
    rw [ih (pstep e s o).1 (fun x hx => hk x (by simp [hx]))]
    exact pstep_keeps_file e s o p (hk (e, o) (by simp))

theorem prun_append (s : PSys) (a b : List (Env × POp)) :
    prun s (a ++ b) = ((prun (prun s a).1 b).1, (prun s a).2 ++ (prun (prun s a).1 b).2) := by
  induction a generalizing s with
  | nil => simp [prun]
  | cons o os ih => obtain ⟨e, o⟩ := o; simp [prun, ih]

/-! ### refinement of the slot model -/

/-- the directory and the slot table hold the same files under a naming of paths -/
def FsRel (code : Path → Nat) (pfs : PFS) (files : List (Nat × Db)) : Prop :=
  ∀ q, lookupP q pfs = lookup (code q) files

/-- two systems agree on everything but the slot table -/
def SameBut (a b : Sys) : Prop :=
  a.db = b.db ∧ a.nextId = b.nextId ∧ a.idf = b.idf ∧ a.listeners = b.listeners ∧ a.fired = b.fired ∧ a.prev = b.prev

/-- the path-level system and the slot-level system agree on everything -/
def Sim (code : Path → Nat) (ps : PSys) (s : Sys) : Prop := SameBut ps.base s ∧ FsRel code ps.fs s.files

theorem FsRel.store {code : Path → Nat} (hinj : ∀ a b, code a = code b → a = b) {pfs : PFS} {files : List (Nat × Db)}
    (h : FsRel code pfs files) (p : Path) (d : Db) : FsRel code (storeP p d pfs) (store (code p) d files) := by
  intro q
  by_cases hq : q = p
  · subst hq; rw [lookupP_storeP_same, lookup_store_same]
  · have : code q ≠ code p := fun hh => hq (hinj _ _ hh)
    rw [lookupP_storeP_other _ _ _ _ hq, lookup_store_other _ _ _ _ this]
    exact h q

theorem snapshotInTx_eq_store (e : Env) (tmpl : Path) (id : Nat) (copy : Db) (fs : PFS) :
    ∀ q, lookupP q (snapshotInTx e tmpl id copy fs).2 = lookupP q (storeP (expand e tmpl) (mark id copy) fs) := by
  intro q
  by_cases hq : q = expand e tmpl
  · subst hq
    rw [lookupP_storeP_same]
    exact snapshotFiles_same _ _ _ _
  · rw [lookupP_storeP_other _ _ _ _ hq]
    exact snapshotFiles_other _ _ _ _ _ hq

theorem pstep_refines (code : Path → Nat) (hinj : ∀ a b, code a = code b → a = b) (e : Env) (ps : PSys) (s : Sys)
    (o : POp) (h : Sim code ps s) :
    Sim code (pstep e ps o).1 (step s (o.abs code e)).1 ∧ (pstep e ps o).2.abs = (step s (o.abs code e)).2 := by
  obtain ⟨⟨pdb, pfiles, pn, pi, pl, pf, pp⟩, pfs⟩ := ps
  obtain ⟨sdb, sfiles, sn, si, sl, sf, sp⟩ := s
  obtain ⟨⟨h1, h2, h3, h4, h5, h6⟩, hf⟩ := h
  simp only at h1 h2 h3 h4 h5 h6 hf
  subst h1 h2 h3 h4 h5 h6
  cases o with
  | snapT tmpl b =>
    refine ⟨⟨⟨rfl, rfl, rfl, rfl, rfl, rfl⟩, ?_⟩, rfl⟩
    intro q
    simp only [pstep, step, POp.abs]
    rw [snapshotInTx_eq_store]
    exact FsRel.store hinj hf _ _ q
  | snapUpdT tmpl ws =>
    refine ⟨⟨⟨rfl, rfl, rfl, rfl, rfl, rfl⟩, ?_⟩, rfl⟩
    intro q
    simp only [pstep, step, POp.abs]
    rw [snapshotInTx_eq_store]
    exact FsRel.store hinj hf _ _ q
  | streamTo p =>
    refine ⟨⟨⟨rfl, rfl, rfl, rfl, rfl, rfl⟩, ?_⟩, rfl⟩
    simp only [pstep, step, POp.abs]
    exact FsRel.store hinj hf _ _
  | restoreFrom p rd =>
    have hp := hf p
    simp only [pstep, step, POp.abs, ← hp]
    cases hl : lookupP p pfs with
    | none => exact ⟨⟨⟨rfl, rfl, rfl, rfl, rfl, rfl⟩, hf⟩, rfl⟩
    | some f =>
      simp only [restoreVia_eq]
      exact ⟨⟨⟨rfl, rfl, rfl, rfl, rfl, rfl⟩, hf⟩, rfl⟩
  | other o =>
    simp only [pstep, POp.abs]
    cases hff : o.fileFree with
    | false => exact ⟨⟨⟨rfl, rfl, rfl, rfl, rfl, rfl⟩, hf⟩, rfl⟩
    | true =>
      simp only [if_true]
      cases o <;> simp [Op.fileFree] at hff
      case tx ws c => cases c <;> exact ⟨⟨⟨rfl, rfl, rfl, rfl, rfl, rfl⟩, hf⟩, rfl⟩
      case snapFail => exact ⟨⟨⟨rfl, rfl, rfl, rfl, rfl, rfl⟩, hf⟩, rfl⟩
      case gsid => exact ⟨⟨⟨rfl, rfl, rfl, rfl, rfl, rfl⟩, hf⟩, rfl⟩
      case gtl m ok =>
        simp only [step, getTimeline, Sim, SameBut, PObs.abs]
        by_cases hc : (pdb.mt.rt.getD false || m.force pdb.mt.tl) = true <;> cases ok <;> simp [hc] <;> exact hf
      case listen => exact ⟨⟨⟨rfl, rfl, rfl, rfl, rfl, rfl⟩, hf⟩, rfl⟩
      case dump => exact ⟨⟨⟨rfl, rfl, rfl, rfl, rfl, rfl⟩, hf⟩, rfl⟩

end StorageModel.C17
