import StorageModel.C17.Copy
/-
  C17 — sequential model of boltz/db.go: Snapshot / SnapshotInTx / StreamToWriter /
  RestoreSnapshot / RestoreFromReader / MarkAsSnapshot / GetSnapshotId / GetTimelineId /
  AddRestoreListener, over a database that is `(content, meta)`.

  What is read from the code (boltz/db.go):
  * `SnapshotInTx`   : `tx.CopyFile(path)` copies the file as of the transaction, then
                       `MarkAsSnapshot(path)` opens the COPY and writes, in the copy only,
                       `meta/snapshotId := uuid` and `meta/resetTimeline := true` (the bucket
                       `meta` is created when missing; `meta/timelineId` is whatever was copied).
                       The live database is not written.
  * `StreamToWriter` : `tx.WriteTo(w)` — an exact copy, no markers, no id.
  * `RestoreFromReader`: persist the bytes, then under the write lock close / rename the live file
                       to `<db>.previous` / rename the snapshot over it / reopen; afterwards one
                       `go listener()` per registered restore listener.
  * `GetSnapshotId`  : `Path(tx, "meta")` (no creation), `GetString("snapshotId")`.
  * `GetTimelineId`  : inside an Update: `GetOrCreatePath(tx,"meta")` (creates the bucket),
                       `resetRequired := GetBoolWithDefault(resetTimeline,false)`,
                       `idPointer := GetString(timelineId)`;
                       if `resetRequired || mode.forceResetTimeline(idPointer)` then call `idF`
                       (error → the Update fails and rolls back, bucket creation included), store the
                       id, store `resetTimeline := false`; else return the stored id or "".

  Snapshot ids (uuids) are modelled by their ordinal (the n-th id handed out), timeline ids by the
  ordinal of the `idF` call that produced them (the harness' `idF` returns exactly that).
-/
namespace StorageModel.C17

/-- logical content: a sorted association list key ↦ value (keys and values are small codes the
    harness maps to bucket paths / typed values). -/
abbrev Content := List (Nat × Nat)

def put (k v : Nat) : Content → Content
  | [] => [(k, v)]
  | (k', v') :: r =>
    if k < k' then (k, v) :: (k', v') :: r
    else if k = k' then (k, v) :: r
    else (k', v') :: put k v r

def del (k : Nat) : Content → Content
  | [] => []
  | (k', v') :: r => if k = k' then r else (k', v') :: del k r

inductive Write where
  | put (k v : Nat)
  | del (k : Nat)
  deriving DecidableEq, Repr

def applyWrite (c : Content) : Write → Content
  | .put k v => put k v c
  | .del k => del k c

/-- the `meta` bucket: does it exist, and its three markers -/
structure Meta where
  present : Bool := false
  sid : Option Nat := none      -- meta/snapshotId
  rt : Option Bool := none      -- meta/resetTimeline
  tl : Option Nat := none       -- meta/timelineId
  deriving DecidableEq, Repr

/-- a bolt file -/
structure Db where
  content : Content := []
  mt : Meta := {}
  deriving DecidableEq, Repr

/-- `MarkAsSnapshot` applied to a copy -/
def mark (id : Nat) (d : Db) : Db :=
  { d with mt := { present := true, sid := some id, rt := some true, tl := d.mt.tl } }

/-- a bolt file as a stream: one piece per key/value, the meta bucket last (stands for the pages
    of the file; what matters is that a lost tail or a lost whole is visible) -/
inductive Piece where
  | kv (k v : Nat)
  | mt (m : Meta)
  deriving DecidableEq, Repr

def encodeDb (d : Db) : List Piece := d.content.map (fun kv => Piece.kv kv.1 kv.2) ++ [Piece.mt d.mt]

def decodeBody : List Piece → Option Db
  | [] => none                                   -- truncated: not an openable database
  | [.mt m] => some { content := [], mt := m }
  | .mt _ :: _ :: _ => none
  | .kv k v :: r => (decodeBody r).map fun d => { d with content := (k, v) :: d.content }

/-- what `bbolt.Open` makes of the persisted bytes: an EMPTY file is initialised as a brand-new
    empty database (that is what bbolt does), anything else must be a complete file -/
def decodeDb : List Piece → Option Db
  | [] => some {}
  | ps => decodeBody ps

/-- persistSnapshot + reopen: the reader `rd` delivers the snapshot file, io.Copy persists it -/
def restoreVia (f : Db) (rd : Reader) : Option Db := decodeDb (copyAll (script rd (encodeDb f)))

inductive Mode where
  | default | initIfEmpty | forceReset
  deriving DecidableEq, Repr

/-- `TimelineMode.forceResetTimeline` -/
def Mode.force (m : Mode) (tl : Option Nat) : Bool :=
  match m with
  | .forceReset => true
  | .initIfEmpty => tl.isNone
  | .default => false

def lookup (k : Nat) : List (Nat × Db) → Option Db
  | [] => none
  | (k', d) :: r => if k = k' then some d else lookup k r

def store (k : Nat) (d : Db) : List (Nat × Db) → List (Nat × Db)
  | [] => [(k, d)]
  | (k', d') :: r => if k = k' then (k, d) :: r else (k', d') :: store k d r

theorem lookup_store_same (k : Nat) (d : Db) (l : List (Nat × Db)) : lookup k (store k d l) = some d := by
  induction l with
  | nil => simp [store, lookup]
  | cons h t ih =>
    obtain ⟨k', d'⟩ := h
    by_cases hk : k = k' <;> simp [store, lookup, hk, ih]

theorem lookup_store_other (k j : Nat) (d : Db) (l : List (Nat × Db)) (h : j ≠ k) :
    lookup j (store k d l) = lookup j l := by
  induction l with
  | nil => simp [store, lookup, h]
  | cons hd t ih =>
    obtain ⟨k', d'⟩ := hd
    by_cases hk : k = k'
    · subst hk; simp [store, lookup, h]
    · by_cases hj : j = k' <;> simp [store, lookup, hk, hj, ih]

/-- the whole system: the live database, the snapshot files lying around (by slot), and the
    counters the observations are made of -/
structure Sys where
  db : Db := {}
  files : List (Nat × Db) := []
  nextId : Nat := 1        -- ordinal of the next snapshot id
  idf : Nat := 0           -- number of idF calls so far
  listeners : Nat := 0     -- registered restore listeners
  fired : Nat := 0         -- listener invocations so far
  prev : Option Db := none -- `<db>.previous`
  deriving DecidableEq, Repr

inductive Op where
  | tx (ws : List Write) (commit : Bool)       -- Db.Update with writes; commit=false: body returns an error
  | snap (slot : Nat) (inTx : Bool)            -- Snapshot(path) / View(SnapshotInTx(tx,path))
  | snapUpd (slot : Nat) (ws : List Write)     -- Update{ writes; SnapshotInTx }: copy = last committed state
  | snapFail                                   -- Snapshot into a missing directory
  | stream (slot : Nat)                        -- StreamToWriter into a file
  | restore (slot : Nat) (rd : Reader)         -- RestoreSnapshot(bytes) / RestoreFromReader(reader of behaviour rd)
  | gsid                                       -- GetSnapshotId
  | gtl (m : Mode) (idfOk : Bool)              -- GetTimelineId(mode, idF)   idfOk=false: idF fails
  | listen                                     -- AddRestoreListener
  | dump
  deriving DecidableEq, Repr

inductive Obs where
  | ok | err
  | snapped (id : Nat) (atTime : Db)     -- id returned, full dump at snapshot time
  | streamed (atTime : Db)
  | restored (fired : Nat) (after : Db)  -- listener invocations so far, full dump after the restore
  | nofile
  | sid (id : Option Nat)
  | tl (id : Option Nat) (calls : Nat)   -- returned id (none = ""), idF calls made by this request
  | tlerr (calls : Nat)
  | dump (d : Db)
  deriving DecidableEq, Repr

def getTimeline (m : Mode) (idfOk : Bool) (s : Sys) : Sys × Obs :=
  let me := s.db.mt
  if me.rt.getD false || m.force me.tl then
    if idfOk then
      ({ s with idf := s.idf + 1,
                db := { s.db with mt := { me with present := true, tl := some (s.idf + 1), rt := some false } } },
       .tl (some (s.idf + 1)) 1)
    else ({ s with idf := s.idf + 1 }, .tlerr 1)
  else ({ s with db := { s.db with mt := { me with present := true } } }, .tl me.tl 0)

def step (s : Sys) : Op → Sys × Obs
  | .tx ws commit =>
    if commit then ({ s with db := { s.db with content := ws.foldl applyWrite s.db.content } }, .ok)
    else (s, .err)
  | .snap k _ =>
    ({ s with files := store k (mark s.nextId s.db) s.files, nextId := s.nextId + 1 }, .snapped s.nextId s.db)
  | .snapUpd k ws =>
    ({ s with files := store k (mark s.nextId s.db) s.files, nextId := s.nextId + 1,
              db := { s.db with content := ws.foldl applyWrite s.db.content } }, .snapped s.nextId s.db)
  | .snapFail => (s, .err)
  | .stream k => ({ s with files := store k s.db s.files }, .streamed s.db)
  | .restore k rd =>
    match lookup k s.files with
    | none => (s, .nofile)
    | some f =>
      match restoreVia f rd with
      | some d => ({ s with db := d, prev := some s.db, fired := s.fired + s.listeners },
                   .restored (s.fired + s.listeners) d)
      | none => (s, .err)   -- the persisted bytes are not an openable database: RestoreFromReader panics
  | .gsid => (s, .sid (if s.db.mt.present then s.db.mt.sid else none))
  | .gtl m ok => getTimeline m ok s
  | .listen => ({ s with listeners := s.listeners + 1 }, .ok)
  | .dump => (s, .dump s.db)

def run (s : Sys) : List Op → Sys × List Obs
  | [] => (s, [])
  | o :: os =>
    let (s1, ob) := step s o
    let (s2, obs) := run s1 os
    (s2, ob :: obs)

theorem run_append (s : Sys) (a b : List Op) :
    run s (a ++ b) = ((run (run s a).1 b).1, (run s a).2 ++ (run (run s a).1 b).2) := by
  induction a generalizing s with
  | nil => simp [run]
  | cons o os ih => simp [run, ih]

theorem run_length (s : Sys) (h : List Op) : (run s h).2.length = h.length := by
  induction h generalizing s with
  | nil => simp [run]
  | cons o os ih => simp [run, ih]

/-! ### The property, as a predicate on an observed trace (used as the run-time spec oracle on the
    IMPLEMENTATION's observations, and proved of the model's observations for all histories) -/

inductive TlExpect where
  | free                 -- nothing claimed
  | fresh                -- a marked snapshot was restored: next request must produce a fresh id once
  | settled (id : Nat)   -- that id must now be returned without calling idF
  deriving DecidableEq, Repr

structure SpecSt where
  saved : List (Nat × (Option Nat × Db)) := []   -- slot ↦ (snapshot id if marked, dump at snapshot time)
  listeners : Nat := 0
  fired : Nat := 0
  idf : Nat := 0
  sidExpect : Option Nat := none                 -- `some id` after restoring a marked snapshot
  tlx : TlExpect := .free
  deriving DecidableEq, Repr

def lookupS (k : Nat) : List (Nat × (Option Nat × Db)) → Option (Option Nat × Db)
  | [] => none
  | (k', d) :: r => if k = k' then some d else lookupS k r

def storeS (k : Nat) (d : Option Nat × Db) : List (Nat × (Option Nat × Db)) → List (Nat × (Option Nat × Db))
  | [] => [(k, d)]
  | (k', d') :: r => if k = k' then (k, d) :: r else (k', d') :: storeS k d r

/-- what the property demands of the file a restore leaves behind -/
def expectedAfterRestore : Option Nat × Db → Db
  | (some id, d) => { content := d.content, mt := { present := true, sid := some id, rt := some true, tl := d.mt.tl } }
  | (none, d) => d

/-- one clause check; `none` = the property is violated at this operation -/
def specStep (st : SpecSt) : Op → Obs → Option SpecSt
  | .snap k _, .snapped id d => some { st with saved := storeS k (some id, d) st.saved }
  | .snapUpd k _, .snapped id d => some { st with saved := storeS k (some id, d) st.saved }
  | .stream k, .streamed d => some { st with saved := storeS k (none, d) st.saved }
  | .listen, _ => some { st with listeners := st.listeners + 1 }
  | .restore k _, .restored f after =>
    match lookupS k st.saved with
    | none => none
    | some sv =>
      if after = expectedAfterRestore sv ∧ f = st.fired + st.listeners then
        some { st with fired := f,
                       sidExpect := (match sv.1 with | some id => some id | none => none),
                       tlx := (match sv.1 with
                               | some _ => .fresh
                               | none => .free) }
      else none
  -- "no such file" is acceptable only for a slot no successful snapshot / stream was written to: a file a
  -- snapshot call reported (under the path it returned) must be there to be restored
  | .restore k _, .nofile =>
    match lookupS k st.saved with
    | none => some st
    | some _ => none
  | .restore _ _, _ => none
  | .gsid, .sid got =>
    match st.sidExpect with
    | some id => if got = some id then some st else none
    | none => some st
  | .gtl m ok, .tl got calls =>
    match st.tlx with
    | .fresh =>
      -- the next request returns a fresh id exactly once
      if ok ∧ calls = 1 ∧ got = some (st.idf + 1) then some { st with idf := st.idf + 1, tlx := .settled (st.idf + 1) } else none
    | .settled id =>
      if m = .forceReset then some { st with idf := st.idf + calls, tlx := .free }
      else if calls = 0 ∧ got = some id then some st else none
    | .free => some { st with idf := st.idf + calls }
  | .gtl m _, .tlerr calls =>
    match st.tlx with
    | .settled _ => if m = .forceReset then some { st with idf := st.idf + calls, tlx := .free } else none
    | _ => some { st with idf := st.idf + calls }
  | _, _ => some st

def specRun (st : SpecSt) : List Op → List Obs → Option SpecSt
  | [], _ => some st
  | _ :: _, [] => some st
  | o :: os, b :: bs =>
    match specStep st o b with
    | none => none
    | some st' => specRun st' os bs

/-- index of the first operation at which the property fails on this trace (for reporting) -/
def specFirstFail (st : SpecSt) : List Op → List Obs → Nat → Option Nat
  | [], _, _ => none
  | _ :: _, [], _ => none
  | o :: os, b :: bs, i =>
    match specStep st o b with
    | none => some i
    | some st' => specFirstFail st' os bs (i + 1)

def specHolds (ops : List Op) (obs : List Obs) : Bool := (specRun {} ops obs).isSome

end StorageModel.C17
