import StorageModel.C17.Snapshot
/-
  C17 — the restore as a sequence of STAGES with the caller re-entering through the reader.

  boltz/db.go, RestoreFromReader(snapshot io.Reader):

      stage 1  persistSnapshot: os.Create(tmp); io.Copy(tmp, snapshot)      -- NO lock held
      stage 2  reloadLock.Lock()
      stage 3  Close; Rename(live, live.previous); Rename(tmp, live); Open(live)
      stage 4  for each registered listener: go listener()                 -- then the deferred Unlock

  `snapshot` is caller code: every `Read` that io.Copy issues in stage 1 runs on the caller's goroutine
  and may call back into the same DbImpl (a status poll `GetSnapshotId`, `GetTimelineId`, a
  transaction, another `Snapshot`, `AddRestoreListener`, even another `RestoreSnapshot`) — all of it
  BEFORE the write lock is taken, hence against the still-open OLD database.  The model below runs
  exactly that loop: a reader wrapper holding a queue of calls (`Cb`), each with the position in the
  stream at which it becomes due; before handing a Read to the underlying reader the wrapper issues
  the calls at the head of its queue that are due, and when the underlying reader reports io.EOF it
  flushes the queue before returning.  io.Copy writes the bytes of every call, then looks at the error.

  DbImpl has no state besides the open handle (`Sys.db` = the file the handle is open on), the lock
  and the listener slices (obligation `dbimpl_state_modelled` over the regenerated field list): there
  is nothing a call made during the stream could leave behind in the DbImpl that outlives the swap.
  Theorems (Properties/C17.lean): whatever the calls, their positions and the reader behaviour, the
  state after the restore is "the calls, made one after the other before RestoreFromReader was
  entered; then the file that was in the slot when it was entered, swapped in; listeners fired".

  Also here: calls made from INSIDE a transaction that takes a snapshot / from inside the writer of
  StreamToWriter (`inTx`).  bbolt documents that a read-write transaction must not be opened in a
  goroutine that has a read-only transaction open (deadlock when the file has to be re-mapped), so
  only the calls that read (`GetSnapshotId`, a View dump) are modelled there.
-/
namespace StorageModel.C17

/-- position in the stream at which the reader issues a call -/
inductive Pos where
  | first                 -- on the first Read, before any byte was delivered
  | at (permille : Nat)   -- on the first Read made after ≥ permille/1000 of the stream were delivered
  | eof                   -- on the Read that reports io.EOF, before it returns
  deriving DecidableEq, Repr

def Pos.due (len delivered : Nat) : Pos → Bool
  | .first => true
  | .at p => decide (len * p ≤ delivered * 1000)
  | .eof => false

/-- a call made from inside the reader: any operation of the sequential model, another (plain)
    restore included -/
structure Cb where
  pos : Pos
  act : Op
  deriving DecidableEq, Repr

/-- issue the calls at the head of the queue that satisfy `due`, in order; result: the remaining
    queue, the system afterwards, what the calls returned -/
def issueWhile (due : Cb → Bool) (s : Sys) : List Cb → List Cb × Sys × List Obs
  | [] => ([], s, [])
  | c :: cs =>
    if due c then
      let r := issueWhile due (step s c.act).1 cs
      (r.1, r.2.1, (step s c.act).2 :: r.2.2)
    else (c :: cs, s, [])

/-- state of stage 1 -/
structure Persist where
  sys : Sys
  tmp : List Piece := []     -- the temporary file `<db>.snapshot.<uuid>` so far
  delivered : Nat := 0       -- bytes the underlying reader has handed out
  pending : List Cb := []    -- the reader's queue
  obs : List Obs := []       -- what the issued calls returned, in order of issue
  deriving DecidableEq, Repr

/-- io.Copy over the wrapped reader; `len` = length of the stream -/
def readLoop (len : Nat) : List (ReadResult Piece) → Persist → Persist
  | [], p => p
  | r :: rs, p =>
    -- the wrapper, before the underlying Read: the calls that are due
    let a := issueWhile (fun c => c.pos.due len p.delivered) p.sys p.pending
    -- the underlying Read returned `r`; when it carries io.EOF the wrapper flushes its queue
    let b := if r.eof then issueWhile (fun _ => true) a.2.1 a.1 else (a.1, a.2.1, [])
    -- io.Copy writes what the call returned, then looks at the error
    let p' : Persist := { sys := b.2.1, tmp := p.tmp ++ r.data, delivered := p.delivered + r.data.length,
                          pending := b.1, obs := p.obs ++ (a.2.2 ++ b.2.2) }
    if r.eof then p' else readLoop len rs p'

/-- stage 1 — persistSnapshot with the caller re-entering through the reader -/
def stagePersist (s : Sys) (f : Db) (rd : Reader) (cbs : List Cb) : Persist :=
  readLoop (encodeDb f).length (script rd (encodeDb f)) { sys := s, pending := cbs }

/-- stages 2+3 — Lock; Close; Rename live → .previous; Rename tmp → live; Open: the handle is now
    open on what was persisted (`none`: not an openable file, RestoreFromReader panics) -/
def stageSwap (p : Persist) : Option Sys :=
  (decodeDb p.tmp).map fun d => { p.sys with db := d, prev := some p.sys.db }

/-- stage 4 — `go listener()` for every listener registered at that moment; deferred Unlock.
    The listeners are started AFTER stage 3 and under the write lock, so whatever a listener reads
    from the Db (its View waits for the Unlock) is the swapped-in database: the harness' listeners poll
    GetSnapshotId and dump the database themselves, and `fired` counts the invocations that saw the
    database their restore swapped in — in this order of stages, all of them. -/
def stageFire (s : Sys) : Sys := { s with fired := s.fired + s.listeners }

/-- calls that only read (the ones that may be made while the goroutine has a transaction open) -/
inductive RoAct where
  | gsid | dump
  deriving DecidableEq, Repr

def RoAct.toOp : RoAct → Op
  | .gsid => .gsid
  | .dump => .dump

/-- the transactions that copy the file -/
inductive TxKind where
  | viewSnap (k : Nat)                   -- View{ …; SnapshotInTx(tx, path_k); … }
  | updSnap (k : Nat) (ws : List Write)  -- Update{ writes; …; SnapshotInTx(tx, path_k); … }
  | stream (k : Nat)                     -- StreamToWriter(w): the calls come from inside w.Write
  deriving DecidableEq, Repr

def TxKind.toOp : TxKind → Op
  | .viewSnap k => .snap k true
  | .updSnap k ws => .snapUpd k ws
  | .stream k => .stream k

inductive XOp where
  | plain (o : Op)
  | restoreCb (k : Nat) (rd : Reader) (cbs : List Cb)          -- RestoreFromReader(reader issuing calls)
  | inTx (t : TxKind) (pre post : List RoAct)                  -- reading calls before / after the copy, inside the transaction
  deriving DecidableEq, Repr

inductive XObs where
  | plain (o : Obs)
  | restoredCb (during : List Obs) (fired : Nat) (after : Db)  -- what the calls returned; listener invocations so far; dump after
  | restoreFailed (during : List Obs)
  | inTx (pre : List Obs) (main : Obs) (post : List Obs)
  deriving DecidableEq, Repr

/-- a reading call made while a transaction is open sees the committed state of the live database
    (for `updSnap`: the transaction's own writes are not committed yet) -/
def roObs (s : Sys) (a : RoAct) : Obs := (step s a.toOp).2

def xstep (s : Sys) : XOp → Sys × XObs
  | .plain o => let r := step s o; (r.1, .plain r.2)
  | .restoreCb k rd cbs =>
    match lookup k s.files with
    | none => (s, .plain .nofile)
    | some f =>
      let p := stagePersist s f rd cbs
      match stageSwap p with
      | some s2 => let s3 := stageFire s2; (s3, .restoredCb p.obs s3.fired s3.db)
      | none => (p.sys, .restoreFailed p.obs)
  | .inTx t pre post =>
    let r := step s t.toOp
    (r.1, .inTx (pre.map (roObs s)) r.2 (post.map (roObs s)))

def xrun (s : Sys) : List XOp → Sys × List XObs
  | [] => (s, [])
  | o :: os =>
    let (s1, ob) := xstep s o
    let (s2, obs) := xrun s1 os
    (s2, ob :: obs)

theorem xrun_append (s : Sys) (a b : List XOp) :
    xrun s (a ++ b) = ((xrun (xrun s a).1 b).1, (xrun s a).2 ++ (xrun (xrun s a).1 b).2) := by
  induction a generalizing s with
  | nil => simp [xrun]
  | cons o os ih => simp [xrun, ih]

/-! ### the property on an observed trace of the enlarged vocabulary -/

/-- the clauses a completed restore must meet, given what was saved in the slot when the restore was
    ENTERED and the bookkeeping after the calls made during the stream -/
def restoreJudge (st : SpecSt) (sv : Option Nat × Db) (f : Nat) (after : Db) : Option SpecSt :=
  if after = expectedAfterRestore sv ∧ f = st.fired + st.listeners then
    some { st with fired := f,
                   sidExpect := (match sv.1 with | some id => some id | none => none),
                   tlx := (match sv.1 with
                           | some _ => .fresh
                           | none => .free) }
  else none

def xspecStep (st : SpecSt) : XOp → XObs → Option SpecSt
  | .plain o, .plain b => specStep st o b
  | .restoreCb k _ cbs, .restoredCb during f after =>
    match lookupS k st.saved with
    | none => none
    | some sv =>
      if during.length = cbs.length then
        -- the calls made from inside the reader are judged like any other operation …
        match specRun st (cbs.map Cb.act) during with
        | none => none
        -- … and the restore must install what the slot held when it was entered
        | some st1 => restoreJudge st1 sv f after
      else none
  | .restoreCb k _ _, .plain .nofile =>
    match lookupS k st.saved with
    | none => some st
    | some _ => none
  | .inTx t pre post, .inTx a m b =>
    if a.length = pre.length ∧ b.length = post.length then
      match specRun st (pre.map RoAct.toOp) a with
      | none => none
      | some st1 =>
        match specStep st1 t.toOp m with
        | none => none
        | some st2 => specRun st2 (post.map RoAct.toOp) b
    else none
  | _, _ => none

def xspecRun (st : SpecSt) : List XOp → List XObs → Option SpecSt
  | [], _ => some st
  | _ :: _, [] => some st
  | o :: os, b :: bs =>
    match xspecStep st o b with
    | none => none
    | some st' => xspecRun st' os bs

def xspecFirstFail (st : SpecSt) : List XOp → List XObs → Nat → Option Nat
  | [], _, _ => none
  | _ :: _, [], _ => none
  | o :: os, b :: bs, i =>
    match xspecStep st o b with
    | none => some i
    | some st' => xspecFirstFail st' os bs (i + 1)

def xspecHolds (ops : List XOp) (obs : List XObs) : Bool := (xspecRun {} ops obs).isSome

end StorageModel.C17
