import StorageModel.Filter.CursorsAlloc
import StorageModel.Generated.C01Cursors
/-
  C01 — the row-cursor policy of the cursor machine, read off the source (`extract/c01cursors.go` →
  `Generated/C01Cursors.lean`): `newRowCursorPolicy` exactly when

    * `newRowCursor` returns a row cursor with a new, empty `symbolCache`,
    * `rowCursorImpl.getSymbol` reads and fills the receiver's cache from the receiver's store,
    * `OpenSetCursorForQuery` opens the receiver's own symbol on the receiver's row and hands
      `(rs.tx, symbol.GetLinkedType(), setCursor, query)` to `newCursorScanner`,
    * `newCursorScanner` builds its scanner with `rowCursor: newRowCursor(store, tx)`,
    * `BaseStore.GetSymbol` hands out a runtime copy of a registered set symbol;

  otherwise (a shape the model has no reading for) the policy under which nothing is proved.
-/
namespace StorageModel.Filter
open StorageModel StorageModel.Generated.C01Cursors

variable {C F : Type}

/-- the five recognised shapes -/
def cursorFactsOK : Bool :=
  newRowCursorHasOwnCache && getSymbolUsesOwnCache && openForQueryUsesOwnSymbol && subScanGetsNewRowCursor &&
    setSymbolsAreRuntimeCopies

/-- the policy the source denotes -/
def codePolicy : RowCursorPolicy C := if cursorFactsOK then newRowCursorPolicy else sharedCachePolicy

/-- the code as it is gives every sub-query scan a row cursor nobody holds (fails to check when the extractor no
    longer recognises one of the shapes) -/
theorem codePolicy_fresh : FreshPolicy (codePolicy (C := C)) := by
  have h : cursorFactsOK = true := by decide
  unfold codePolicy
  rw [if_pos h]
  exact newRowCursorPolicy_fresh

theorem evalRowA_codePolicy (w : World C F) (fo : FloatOps F) (c : C) (t : TNode F) (h : Heap C F) :
    (evalRowA w fo codePolicy c t h).1 = evalRow w fo c t := by
  unfold evalRowA evalRow
  rw [(exec_eq_eval w codePolicy codePolicy_fresh (skOf w fo t) 0 c h 1 (Nat.lt_succ_self 0)).1, skOf_eval]

end StorageModel.Filter
