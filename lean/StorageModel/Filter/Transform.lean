import StorageModel.Filter.Syntax
/-
  C01 — model of the symbol validation pass (`ast.SymbolValidator`, run by `ast.PostProcess`) and
  of the type transformation (ast/node_convert.go, ast/node_query.go, ast/node_symbol.go),
  decision by decision.
-/
namespace StorageModel.Filter
open StorageModel

/-- `ast.SymbolTypes`, for a family of symbol tables indexed by `T` (a sub-query switches to the
    table of the linked entity type). -/
structure Sigma (T : Type) where
  /-- `GetSymbolType` and `IsSet` (both are answered from the same symbol lookup) -/
  sym : T → String → Option (NodeType × Bool)
  /-- `GetSetSymbolTypes`; `none` = nil -/
  setTypes : T → String → Option T

variable {F T : Type}

/-! ### SymbolValidator -/

/-- the sort fields of a (sub-)query: `SortFieldNode.Accept` visits the field's UntypedSymbolNode with
    the flag the predicate left behind -/
def validateSort (sg : Sigma T) (t : T) (inSet : Bool) : List (String × Bool) → Option Bool
  | [] => some inSet
  | (n, _) :: rest =>
    match sg.sym t n with
    | none => none                                           -- unknown symbol
    | some (_, isSet) => if !inSet && isSet then none else validateSort sg t inSet rest

/-- Visitor traversal with the `inSetFunction` flag threaded through; `none` = an error was set.
    Returns the flag after the subtree. -/
def validate (sg : Sigma T) : T → Bool → U F → Option Bool
  | t, inSet, .sym n =>
    match sg.sym t n with
    | none => none                                           -- unknown symbol
    | some (_, isSet) => if !inSet && isSet then none else some inSet
  | t, _, .setFn _ n =>
    -- Start: inSetFunction = true; symbol visited; End: inSetFunction = false, must be a set
    match sg.sym t n with
    | none => none
    | some (_, isSet) => if isSet then some false else none
  | t, _, .setFnSub _ n q so _ _ =>
    match sg.setTypes t n with
    | none => none                                           -- sub-query on non-entity symbol
    | some t' =>
      match sg.sym t n with
      | none => none
      | some (_, isSet) =>
        -- untypedQueryNode.Accept: predicate, then sortBy (skip / limit are constants)
        match validate sg t' true q with
        | none => none
        | some f =>
          match validateSort sg t' f so with
          | none => none
          | some _ => if isSet then some false else none
  | _, inSet, .boolC _ => some inSet
  | t, inSet, .cmp _ l _ => validate sg t inSet l
  | t, inSet, .inArr l _ => validate sg t inSet l
  | t, inSet, .between l _ _ => validate sg t inSet l
  | t, inSet, .notE e => validate sg t inSet e
  | t, inSet, .unot e => validate sg t inSet e
  | t, inSet, .logic _ l r =>
    match validate sg t inSet l with
    | none => none
    | some f => validate sg t f r

/-! ### type transformation -/

/-- `UntypedSymbolNode.TypeTransform` -/
def typedSym (sg : Sigma T) (t : T) (n : String) : Outcome (TNode F) :=
  match sg.sym t n with
  | none => .err
  | some (.str, _) => .ok (.strSym n)
  | some (.bool, _) => .ok (.boolSym n)
  | some (.int, _) => .ok (.intSym n)
  | some (.float, _) => .ok (.floatSym n)
  | some (.time, _) => .ok (.timeSym n)
  | some (.any, _) => .ok (.anySym n)
  | some (.other, _) => .err

/-- `SortByNode.TypeTransform`: every sort field's symbol gets its typed node (`typedSym` succeeds iff
    the symbol is known and its type is not `other`); `none` = an error -/
def sortTyped (sg : Sigma T) (t : T) : List (String × Bool) → Option (List (String × NodeType × Bool))
  | [] => some []
  | (n, asc) :: rest =>
    match sg.sym t n with
    | some (τ, _) => if τ = .other then none else (sortTyped sg t rest).map ((n, τ, asc) :: ·)
    | none => none

def litNode : Lit F → TNode F
  | .str s => .strC s
  | .int i => .intC i
  | .float f => .floatC f
  | .time t => .timeC t
  | .bool b => .boolC b
  | .null => .nullC

/-- `Int64Node.ToFloat64()` per class (argument known to be an Int64Node) -/
def toFloat64 (fo : FloatOps F) : TNode F → TNode F
  | .intC i => .floatC (fo.ofInt i)          -- Int64ConstNode.ToFloat64: constant folded
  | .anySym n => .anySym n                   -- AnyTypeSymbolNode.ToFloat64 returns itself
  | w => .i2f w                              -- Int64SymbolNode / CountSetExprNode

/-- `BinaryExprNode.toUpper`: constants are folded (`strings.ToUpper(node.String())`), anything
    else is wrapped in a StringFuncNode.  (`String()` of a float constant uses `%v`; the grammar
    only lets a STRING follow `icontains`, so only the string case is reachable by parsing.) -/
def upperNode (fo : FloatOps F) : TNode F → TNode F
  | .strC s => .strC (toUpper s)
  | .intC i => .strC (toUpper (fmtInt i))
  | .floatC f => .strC (toUpper (fo.fmt f))
  | e => .upper e

def isCmpOp : Op → Bool
  | .eq | .ne | .lt | .le | .gt | .ge => true
  | _ => false

/-- `BinaryExprNode.handleStringOps` + `handleCaseInsensitive` -/
def handleStringOps (fo : FloatOps F) (op : Op) (l r : TNode F) : Outcome (TNode F) :=
  if l.isStringNode && r.isStringNode then
    match op with
    | .icontains => .ok (.binStr .contains (upperNode fo l) (upperNode fo r))
    | .nicontains => .ok (.binStr .ncontains (upperNode fo l) (upperNode fo r))
    | _ => .ok (.binStr op l r)
  else .err

/-- `BinaryExprNode.getTypedExpr` with `handleIsNullOps`, `handleBoolOps`, `handleDatetimeOps`,
    `handleFloat64Ops`, `handleInt64Ops`.  The unchecked assertions `node.left.(Int64Node)` etc.
    are `panic` branches. -/
def getTypedExpr (fo : FloatOps F) (op : Op) (l r : TNode F) : Outcome (TNode F) :=
  match r with
  | .nullC =>
    match l.symName? with
    | some n => if op = .eq ∨ op = .ne then .ok (.isNil n op) else .err
    | none => .err
  | _ =>
    if op = .contains ∨ op = .ncontains then handleStringOps fo op l r
    else
      let nodeType := if l.getType = .any then r.getType else l.getType
      match nodeType with
      | .bool =>
        if r.getType = .bool ∧ (op = .eq ∨ op = .ne) then
          if l.isBoolNode && r.isBoolNode then .ok (.binBool op l r) else .panic
        else .err
      | .time =>
        if !l.isDatetimeNode then .panic
        else if r.getType = .time then
          if r.isDatetimeNode then .ok (.binTime op l r) else .panic
        else .err
      | .float =>
        if !l.isFloat64Node then .panic
        else if r.getType = .float then
          if r.isFloat64Node then .ok (.binFloat op l r) else .panic
        else if r.getType = .int then
          if r.isInt64Node then .ok (.binFloat op l (toFloat64 fo r)) else .panic
        else .err
      | .int =>
        if !l.isInt64Node then .panic
        else if r.getType = .int then
          if r.isInt64Node then .ok (.binInt op l r) else .panic
        else if r.getType = .float then
          if r.isFloat64Node then .ok (.binFloat op (toFloat64 fo l) r) else .panic
        else .err
      | .str => handleStringOps fo op l r
      | _ => .err

/-- the listener's number-array rule (`ExitNumberArray`): all integers → Int64ArrayNode, otherwise
    a Float64ArrayNode in which integer members were converted with `ToFloat64()` -/
def numsAllInt : List (Num F) → Option (List Int)
  | [] => some []
  | .int i :: t => (numsAllInt t).map (i :: ·)
  | .float _ :: _ => none

def numsToFloat (fo : FloatOps F) : List (Num F) → List F
  | [] => []
  | .int i :: t => fo.ofInt i :: numsToFloat fo t
  | .float f :: t => f :: numsToFloat fo t

/-- `AsStringArray()` of the array node the listener built -/
def numsAsConsts (fo : FloatOps F) (l : List (Num F)) : List (Const F) :=
  match numsAllInt l with
  | some is => is.map .int
  | none => (numsToFloat fo l).map .float

/-- `InArrayExprNode.getTypedExpr` -/
def inTypedExpr (fo : FloatOps F) (l : TNode F) (arr : Arr F) : Outcome (TNode F) :=
  let dt : Option (TNode F) :=
    if l.isDatetimeNode then (match arr with | .times ts => some (.inTime l ts) | _ => none) else none
  match dt with
  | some r => .ok r
  | none =>
    let it : Option (TNode F) :=
      if l.isInt64Node then
        (match arr with
         | .nums ns =>
           (match numsAllInt ns with
            | some is => some (.inInt l is)
            | none => some (.inFloat (toFloat64 fo l) (numsToFloat fo ns)))
         | _ => none)
      else none
    match it with
    | some r => .ok r
    | none =>
      let ft : Option (TNode F) :=
        if l.isFloat64Node then
          (match arr with
           | .nums ns => some (.inFloat l (numsToFloat fo ns))   -- int array: ToFloat64ArrayNode
           | _ => none)
        else none
      match ft with
      | some r => .ok r
      | none =>
        if l.isStringNode then
          match arr with
          | .strs ss => .ok (.inStr l (ss.map .str))
          | .nums ns => .ok (.inStr l (numsAsConsts fo ns))
          | .times _ => .err
        else .err

/-- `toFloat64Nodes` applied to one node -/
def asFloat64Node (fo : FloatOps F) (n : TNode F) : Option (TNode F) :=
  if n.isInt64Node then some (toFloat64 fo n)
  else if n.isFloat64Node then some n
  else none

/-- `BetweenExprNode.getTypedExpr` -/
def betweenTypedExpr (fo : FloatOps F) (l lo hi : TNode F) : Outcome (TNode F) :=
  if l.isDatetimeNode && lo.isDatetimeNode && hi.isDatetimeNode then .ok (.betTime l lo hi)
  else if l.isInt64Node && lo.isInt64Node && hi.isInt64Node then .ok (.betInt l lo hi)
  else
    match asFloat64Node fo l, asFloat64Node fo lo, asFloat64Node fo hi with
    | some a, some b, some c => .ok (.betFloat a b c)
    | _, _, _ => .err

/-- `BinaryStringExprNode.IsSeekable` -/
def isSeekableOp (op : Op) (l r : TNode F) : Bool := TNode.seekableStr op l r

/-- `IsSeekable()` before df4edc3: any `=` with a constant side, whatever the type of the symbol (kept
    to document the defect: an any-typed set holding the number 7 was never found equal to "7") -/
def isSeekableOpPreDf4edc3 (op : Op) (l r : TNode F) : Bool := op = .eq && (l.isConst || r.isConst)

/-- `SetFunctionNode.specializeSetAnyOf`: only BinaryStringExprNode implements
    SeekOptimizableBoolNode -/
def specializeSetAnyOf (name : String) (b : TNode F) : TNode F :=
  match b with
  | .binStr op l r => if isSeekableOp op l r then .anyOfS name op l r else .anyOf name b
  | _ => .anyOf name b

/-- `SetFunctionNode.MoveUpTree` -/
def moveUpTree (fn : SetFn) (name : String) (b : TNode F) : Outcome (TNode F) :=
  match fn with
  | .allOf => .ok (.allOf name b)
  | .anyOf => .ok (specializeSetAnyOf name b)
  | _ => .err

/-- the `isSetFunction && IsCompare()` split done by the three transitory comparison nodes:
    the operand that takes part in typing, and the set function to hoist (if any) -/
def splitSetFn (compareOnly : Bool) (l : TNode F) : TNode F × Option SetFn :=
  match l with
  | .setFn fn s =>
    if compareOnly then
      (match fn with
       | .allOf | .anyOf => (s, some fn)
       | _ => (l, none))
    else (s, some fn)
  | _ => (l, none)

def hoist (l : TNode F) (fn? : Option SetFn) (typed : TNode F) : Outcome (TNode F) :=
  match fn? with
  | none => .ok typed
  | some fn =>
    match l.symName? with
    | some n => moveUpTree fn n typed
    | none => .panic

/-- `BinaryExprNode.TypeTransformBool` once the operands are transformed -/
def cmpStep (fo : FloatOps F) (op : Op) (l' : TNode F) (r : Lit F) : Outcome (TNode F) :=
  match getTypedExpr fo op (splitSetFn true l').1 (litNode r) with
  | .ok typed => hoist (splitSetFn true l').1 (splitSetFn true l').2 typed
  | .err => .err
  | .panic => .panic

/-- `InArrayExprNode.TypeTransformBool` once the operands are transformed -/
def inStep (fo : FloatOps F) (l' : TNode F) (arr : Arr F) : Outcome (TNode F) :=
  match inTypedExpr fo (splitSetFn false l').1 arr with
  | .ok typed => hoist (splitSetFn false l').1 (splitSetFn false l').2 typed
  | .err => .err
  | .panic => .panic

/-- `BetweenExprNode.TypeTransformBool` once the operands are transformed -/
def betweenStep (fo : FloatOps F) (l' : TNode F) (lo hi : Lit F) : Outcome (TNode F) :=
  match betweenTypedExpr fo (splitSetFn false l').1 (litNode lo) (litNode hi) with
  | .ok typed => hoist (splitSetFn false l').1 (splitSetFn false l').2 typed
  | .err => .err
  | .panic => .panic

/-- the `BoolNode` assertion made by not / and / or / query nodes on a transformed child -/
def asBool (o : Outcome (TNode F)) : Outcome (TNode F) :=
  match o with
  | .ok e => if e.isBoolNode then .ok e else .err
  | .err => .err
  | .panic => .panic

/-- `transformTypes` on one node: TypeTransform, then TypeTransformBool. -/
def transform (sg : Sigma T) (fo : FloatOps F) : T → U F → Outcome (TNode F)
  | t, .sym n => typedSym sg t n
  | t, .setFn fn n =>
    -- SetFunctionNode.TypeTransform
    match typedSym (F := F) sg t n with
    | .ok s =>
      (match fn with
       | .count => .ok (.count n)
       | .isEmpty => .ok (.isEmpty n)
       | _ => .ok (.setFn fn s))
    | .err => .err
    | .panic => .panic
  | t, .setFnSub fn n q so skip limit =>
    -- UntypedSubQueryNode.TypeTransform, then SetFunctionNode.TypeTransform
    match typedSym (F := F) sg t n with
    | .ok _ =>
      (match sg.setTypes t n with
       | none => .err
       | some t' =>
         -- untypedQueryNode.TypeTransformBool: the predicate, then `sortBy.TypeTransform` (every sort
         -- field's symbol gets its typed node; the scanner of a sub-query never looks at them)
         (match asBool (transform sg fo t' q) with
          | .ok q' =>
            (match sortTyped sg t' so with
             | some so' =>
               (match fn with
                | .count => .ok (.countQ n q' so' skip limit)
                | .isEmpty => .ok (.isEmptyQ n q' so' skip limit)
                | _ => .err)            -- allOf/anyOf over a sub-query: not in the grammar; typing rejects it
             | none => .err)
          | .err => .err
          | .panic => .panic))
    | .err => .err
    | .panic => .panic
  | _, .boolC b => .ok (.boolC b)
  | t, .cmp op l r =>
    match transform sg fo t l with
    | .ok l' => cmpStep fo op l' r
    | .err => .err
    | .panic => .panic
  | t, .inArr l arr =>
    match transform sg fo t l with
    | .ok l' => inStep fo l' arr
    | .err => .err
    | .panic => .panic
  | t, .between l lo hi =>
    match transform sg fo t l with
    | .ok l' => betweenStep fo l' lo hi
    | .err => .err
    | .panic => .panic
  | t, .notE e =>
    -- NotExprNode.TypeTransformBool: transformBools on the wrapped transitory node
    match asBool (transform sg fo t e) with
    | .ok e' => .ok (.not e')
    | .err => .err
    | .panic => .panic
  | t, .unot e =>
    match asBool (transform sg fo t e) with
    | .ok e' => .ok (.not e')
    | .err => .err
    | .panic => .panic
  | t, .logic isOr l r =>
    -- BooleanLogicExprNode.TypeTransformBool: both operands are transformed, then asserted
    match transform sg fo t l with
    | .ok l' =>
      (match transform sg fo t r with
       | .ok r' =>
         if l'.isBoolNode && r'.isBoolNode then .ok (if isOr then .or l' r' else .and l' r') else .err
       | .err => .err
       | .panic => .panic)
    | .err => .err
    | .panic => .panic

/-- `ast.Parse` after the parser: `PostProcess` (validation, then transformation of the
    untypedQueryNode, whose predicate must be a BoolNode). -/
def typeCheck (sg : Sigma T) (fo : FloatOps F) (t : T) (u : U F) : Outcome (TNode F) :=
  match validate sg t false u with
  | none => .err
  | some _ =>
    asBool (transform sg fo t u)

end StorageModel.Filter
