import StorageModel.Filter.Basic
/-
  C01 — the untyped tree `ast.ToBoltListener` (ast/bolt_listener.go) builds from a parse, and the
  typed tree produced by the transformation in ast/node_convert.go.  One constructor per Go node
  class; interface membership (StringNode, Int64Node, ...) is a predicate over constructors.
-/
namespace StorageModel.Filter
open StorageModel

/-- right-hand literals: the constant nodes pushed by `VisitTerminal` -/
inductive Lit (F : Type) where
  | str (s : Bytes)        -- StringConstNode (after ParseZqlString)
  | int (i : Int)          -- Int64ConstNode  (appendNumberNode: ParseInt succeeded)
  | float (f : F)          -- Float64ConstNode
  | time (t : Int)         -- DatetimeConstNode, instant in ns
  | bool (b : Bool)        -- BoolConstNode
  | null                   -- NullConstNode
  deriving Repr

inductive Num (F : Type) where
  | int (i : Int)
  | float (f : F)
  deriving Repr

/-- array literals as the grammar admits them (string / number / datetime arrays) -/
inductive Arr (F : Type) where
  | strs (l : List Bytes)
  | nums (l : List (Num F))
  | times (l : List Int)
  deriving Repr

/-- The untyped tree.  Left operands are arbitrary nodes (as in `BinaryExprNode{left, right Node}`),
    right operands are literals (all the grammar allows).  A sub-query `from n where q [skip k]
    [sort by f₁ [asc|desc], …] [skip k] [limit m]` is inlined in the set function that owns it
    (`sort`: the `SortFieldNode`s, `true` = ascending). -/
inductive U (F : Type) where
  | sym (n : String)                                        -- UntypedSymbolNode
  | setFn (fn : SetFn) (n : String)                         -- SetFunctionNode{fn, UntypedSymbolNode}
  | setFnSub (fn : SetFn) (n : String) (q : U F) (sort : List (String × Bool)) (skip limit : Option Int)
                                                            -- SetFunctionNode{fn, UntypedSubQueryNode{n, untypedQueryNode{q, sortBy, skip, limit}}}
  | boolC (b : Bool)                                        -- BoolConstNode
  | cmp (op : Op) (l : U F) (r : Lit F)                     -- BinaryExprNode
  | inArr (l : U F) (arr : Arr F)                           -- InArrayExprNode
  | between (l : U F) (lo hi : Lit F)                       -- BetweenExprNode
  | notE (e : U F)                                          -- NotExprNode (listener: `not in`, `not between`)
  | unot (e : U F)                                          -- UntypedNotExprNode
  | logic (isOr : Bool) (l r : U F)                         -- BooleanLogicExprNode
  deriving Repr

/-- constants that can sit in a typed array node -/
inductive Const (F : Type) where
  | str (s : Bytes)
  | int (i : Int)
  | float (f : F)
  deriving Repr

/-- The typed tree: one constructor per Go node class that can appear after the transformation
    (plus the transitory `setFn`, which a well-formed parent consumes). -/
inductive TNode (F : Type) where
  | strC (s : Bytes) | intC (i : Int) | floatC (f : F) | timeC (t : Int) | boolC (b : Bool) | nullC
  | strSym (n : String) | intSym (n : String) | floatSym (n : String) | timeSym (n : String)
  | boolSym (n : String) | anySym (n : String)
  | i2f (w : TNode F)                                       -- Int64ToFloat64Node
  | upper (e : TNode F)                                     -- StringFuncNode{toUpper}
  | count (n : String)                                      -- CountSetExprNode{query: nil}
  | countQ (n : String) (q : TNode F) (sort : List (String × NodeType × Bool)) (skip limit : Option Int)
                                                            -- CountSetExprNode{query: queryNode{q, SortBy (typed symbol
                                                            --   class and direction per field), skip, limit}}
  | isEmpty (n : String)                                    -- IsEmptySetExprNode
  | isEmptyQ (n : String) (q : TNode F) (sort : List (String × NodeType × Bool)) (skip limit : Option Int)
  | setFn (fn : SetFn) (s : TNode F)                        -- SetFunctionNode after TypeTransform (allOf/anyOf)
  | not (e : TNode F) | and (l r : TNode F) | or (l r : TNode F)
  | binBool (op : Op) (l r : TNode F)
  | binTime (op : Op) (l r : TNode F)
  | binFloat (op : Op) (l r : TNode F)
  | binInt (op : Op) (l r : TNode F)
  | binStr (op : Op) (l r : TNode F)
  | isNil (n : String) (op : Op)                            -- IsNilExprNode
  | inStr (l : TNode F) (arr : List (Const F))
  | inInt (l : TNode F) (arr : List Int)
  | inFloat (l : TNode F) (arr : List F)
  | inTime (l : TNode F) (arr : List Int)
  | betInt (l lo hi : TNode F) | betFloat (l lo hi : TNode F) | betTime (l lo hi : TNode F)
  | allOf (n : String) (p : TNode F)                        -- AllOfSetExprNode
  | anyOf (n : String) (p : TNode F)                        -- AnyOfSetExprNode{seekablePredicate: nil}
  | anyOfS (n : String) (op : Op) (l r : TNode F)           -- AnyOfSetExprNode{predicate = seekablePredicate =
                                                            --   BinaryStringExprNode{op, l, r}}
  deriving Repr

namespace TNode
variable {F : Type}

/-- implements `BoolNode` -/
def isBoolNode : TNode F → Bool
  | boolC _ | boolSym _ | anySym _ | not _ | and _ _ | or _ _
  | binBool .. | binTime .. | binFloat .. | binInt .. | binStr .. | isNil ..
  | inStr .. | inInt .. | inFloat .. | inTime .. | betInt .. | betFloat .. | betTime ..
  | allOf .. | anyOf .. | anyOfS .. | isEmpty _ | isEmptyQ .. => true
  | _ => false

/-- implements `StringNode` (has `EvalString`) -/
def isStringNode : TNode F → Bool
  | strC _ | strSym _ | upper _ | intC _ | intSym _ | floatC _ | floatSym _ | i2f _
  | count _ | countQ .. | anySym _ => true
  | _ => false

/-- implements `Int64Node` -/
def isInt64Node : TNode F → Bool
  | intC _ | intSym _ | count _ | countQ .. | anySym _ => true
  | _ => false

/-- implements `Float64Node` -/
def isFloat64Node : TNode F → Bool
  | floatC _ | floatSym _ | i2f _ | anySym _ => true
  | _ => false

/-- implements `DatetimeNode` -/
def isDatetimeNode : TNode F → Bool
  | timeC _ | timeSym _ | anySym _ => true
  | _ => false

/-- implements `SymbolNode` (`Node` with a `Symbol() string` method); the name it reports -/
def symName? : TNode F → Option String
  | strSym n | intSym n | floatSym n | timeSym n | boolSym n | anySym n => some n
  | count n | countQ n .. | isEmpty n | isEmptyQ n .. | allOf n _ | anyOf n _ | anyOfS n .. => some n
  | _ => none

/-- `GetType()` -/
def getType : TNode F → NodeType
  | strC _ | strSym _ | upper _ => .str
  | intC _ | intSym _ | count _ | countQ .. => .int
  | floatC _ | floatSym _ | i2f _ => .float
  | timeC _ | timeSym _ => .time
  | anySym _ => .any
  | nullC => .other
  | binFloat .. => .float                      -- BinaryFloat64ExprNode.GetType returns NodeTypeFloat64
  | setFn .allOf s | setFn .anyOf s => getType s
  | setFn .count _ => .int
  | setFn .isEmpty _ => .bool
  | _ => .bool

/-- `IsConst()` -/
def isConst : TNode F → Bool
  | strC _ | intC _ | floatC _ | timeC _ | boolC _ | nullC => true
  | i2f w => isConst w
  | not e => isConst e
  | _ => false

/-- the typed sort fields of a sub-query: the class of the typed symbol node, then the direction -/
def sortShape (so : List (String × NodeType × Bool)) : String :=
  String.join (so.map fun f =>
    (match f.2.1 with
     | .str => "StrSym:" | .int => "IntSym:" | .float => "FloatSym:" | .time => "TimeSym:" | .bool => "BoolSym:"
     | _ => "AnySym:") ++ f.1 ++ ";" ++ (if f.2.2 then "asc;" else "desc;"))

/-- a `*StringSymbolNode` -/
def isStrSym : TNode F → Bool
  | strSym _ => true
  | _ => false

/-- `BinaryStringExprNode.IsSeekable()` (after df4edc3): `=` between a constant and a string-typed
    symbol — the seek looks among the string keys of the bucket only -/
def seekableStr (op : Op) (l r : TNode F) : Bool :=
  op = .eq && ((isConst r && isStrSym l) || (isConst l && isStrSym r))

def constShape : Const F → String
  | .str _ => "StrC;" | .int _ => "IntC;" | .float _ => "FloatC;"

/-- a stable rendering of the node classes, compared with a visitor's rendering of the real tree
    (`Name(` children `)` for inner nodes, `Name;` / `Name:symbol;` for leaves; `BinStr!` marks
    `IsSeekable()`) -/
def shape : TNode F → String
  | strC _ => "StrC;" | intC _ => "IntC;" | floatC _ => "FloatC;" | timeC _ => "TimeC;"
  | boolC _ => "BoolC;" | nullC => "NullC;"
  | strSym n => "StrSym:" ++ n ++ ";" | intSym n => "IntSym:" ++ n ++ ";"
  | floatSym n => "FloatSym:" ++ n ++ ";" | timeSym n => "TimeSym:" ++ n ++ ";"
  | boolSym n => "BoolSym:" ++ n ++ ";" | anySym n => "AnySym:" ++ n ++ ";"
  | i2f w => "I2F(" ++ shape w ++ ")"
  | upper e => "Upper(" ++ shape e ++ ")"
  | count n => "Count:" ++ n ++ "()"
  | countQ n q so _ _ => "Count:" ++ n ++ "(" ++ shape q ++ sortShape so ++ ")"
  | isEmpty n => "IsEmpty:" ++ n ++ "()"
  | isEmptyQ n q so _ _ => "IsEmpty:" ++ n ++ "(" ++ shape q ++ sortShape so ++ ")"
  | setFn _ s => "SetFn(" ++ shape s ++ ")"
  | not e => "Not(" ++ shape e ++ ")"
  | and l r => "And(" ++ shape l ++ shape r ++ ")"
  | or l r => "Or(" ++ shape l ++ shape r ++ ")"
  | binBool _ l r => "BinBool(" ++ shape l ++ shape r ++ ")"
  | binTime _ l r => "BinTime(" ++ shape l ++ shape r ++ ")"
  | binFloat _ l r => "BinFloat(" ++ shape l ++ shape r ++ ")"
  | binInt _ l r => "BinInt(" ++ shape l ++ shape r ++ ")"
  | binStr op l r =>
    "BinStr" ++ (if seekableStr op l r then "!" else "") ++ "(" ++ shape l ++ shape r ++ ")"
  | isNil n _ => "IsNil(" ++ n ++ ")"
  | inStr l a => "InStr(" ++ shape l ++ "StrArr(" ++ String.join (a.map constShape) ++ "))"
  | inInt l a => "InInt(" ++ shape l ++ "IntArr(" ++ String.join (a.map fun _ => "IntC;") ++ "))"
  | inFloat l a => "InFloat(" ++ shape l ++ "FloatArr(" ++ String.join (a.map fun _ => "FloatC;") ++ "))"
  | inTime l a => "InTime(" ++ shape l ++ "TimeArr(" ++ String.join (a.map fun _ => "TimeC;") ++ "))"
  | betInt l lo hi => "BetInt(" ++ shape l ++ shape lo ++ shape hi ++ ")"
  | betFloat l lo hi => "BetFloat(" ++ shape l ++ shape lo ++ shape hi ++ ")"
  | betTime l lo hi => "BetTime(" ++ shape l ++ shape lo ++ shape hi ++ ")"
  | allOf n p => "AllOf:" ++ n ++ "(" ++ shape p ++ ")"
  | anyOf n p => "AnyOf:" ++ n ++ "(" ++ shape p ++ ")"
  | anyOfS n _ l r => "AnyOf:" ++ n ++ "(BinStr!(" ++ shape l ++ shape r ++ "))"

end TNode
end StorageModel.Filter
