import StorageModel.Base.Bytes
/-
  C01 — basic vocabulary of the filter model: outcomes, node types, operators, byte-string
  primitives (Go string comparison, strings.Contains, the ASCII part of strings.ToUpper,
  strconv.FormatInt), the float parameter block, stored values and the `FieldTo*` coercions of
  boltz/typed_bucket.go.
-/
namespace StorageModel.Filter
open StorageModel

/-- Go partiality made explicit: a result, an `error` return, or a run-time panic (unchecked
    type assertion / nil dereference). -/
inductive Outcome (α : Type) where
  | ok (a : α)
  | err
  | panic
  deriving Repr, DecidableEq

namespace Outcome
def bind {α β} : Outcome α → (α → Outcome β) → Outcome β
  | .ok a, f => f a
  | .err, _ => .err
  | .panic, _ => .panic
instance : Monad Outcome where
  pure := .ok
  bind := Outcome.bind
@[simp] theorem bind_ok {α β} (a : α) (f : α → Outcome β) : (Outcome.ok a >>= f) = f a := rfl
@[simp] theorem bind_err {α β} (f : α → Outcome β) : ((Outcome.err : Outcome α) >>= f) = .err := rfl
@[simp] theorem bind_panic {α β} (f : α → Outcome β) : ((Outcome.panic : Outcome α) >>= f) = .panic := rfl
@[simp] theorem pure_eq {α} (a : α) : (pure a : Outcome α) = .ok a := rfl
end Outcome

/-- ast.NodeType (ast/node.go) -/
inductive NodeType where
  | bool | time | float | int | str | any | other
  deriving Repr, DecidableEq

/-- ast.BinaryOp restricted to the operators that reach `BinaryExprNode` (in / between have their
    own transitory nodes). -/
inductive Op where
  | eq | ne | lt | le | gt | ge | contains | ncontains | icontains | nicontains
  deriving Repr, DecidableEq

/-- ast.SetFunction -/
inductive SetFn where
  | allOf | anyOf | count | isEmpty
  deriving Repr, DecidableEq

/-! ### byte strings as Go strings -/

/-- Go `a < b` on strings: bytewise lexicographic. -/
def bytesLt : Bytes → Bytes → Bool
  | [], [] => false
  | [], _ :: _ => true
  | _ :: _, [] => false
  | a :: as, b :: bs => if a < b then true else if b < a then false else bytesLt as bs

def bytesLe (a b : Bytes) : Bool := !bytesLt b a

/-- `strings.Contains(hay, needle)` -/
def isInfix (needle : Bytes) : Bytes → Bool
  | [] => needle.isEmpty
  | c :: t => needle.isPrefixOf (c :: t) || isInfix needle t

/-- `strings.ToUpper` on the characters the model covers: ASCII letters are mapped, every other
    byte is kept (assumption recorded in the evidence: the generator keeps lower-case non-ASCII
    letters out of case-insensitive operands). -/
def upperByte (c : UInt8) : UInt8 := if 97 ≤ c ∧ c ≤ 122 then c - 32 else c
def toUpper (s : Bytes) : Bytes := s.map upperByte

/-- `strconv.FormatInt(i, 10)` / `strconv.Itoa` -/
def fmtInt (i : Int) : Bytes := Bytes.ofString (toString i)

def fmtBool (b : Bool) : Bytes := Bytes.ofString (if b then "true" else "false")

/-! ### floats are a parameter -/

/-- Everything the filter engine does with float64 values.  Theorems hold for every instance;
    the driver instantiates it with Lean's `Float` built from IEEE bits and with Go's
    `FormatFloat(x,'f',-1,64)` supplied as data by the harness. -/
structure FloatOps (F : Type) where
  eq : F → F → Bool
  lt : F → F → Bool
  le : F → F → Bool
  ofInt : Int → F
  fmt : F → Bytes

/-! ### stored values (boltz/typed_bucket.go) -/

/-- A stored `(FieldType, payload)` pair, decoded.  `time` carries the instant in nanoseconds and
    the `MarshalText` rendering (needed only by `FieldToString`). -/
inductive SVal (F : Type) where
  | nil
  | bool (b : Bool)
  | int32 (i : Int)
  | int64 (i : Int)
  | float (f : F)
  | str (s : Bytes)
  | time (nanos : Int) (text : Bytes)
  deriving Repr

variable {F : Type}

/-- `FieldToBool` -/
def SVal.toBool : SVal F → Option Bool
  | .bool b => some b
  | _ => none

/-- `FieldToInt64` (int32 widened) -/
def SVal.toInt : SVal F → Option Int
  | .int32 i => some i
  | .int64 i => some i
  | _ => none

/-- `FieldToFloat64` (integers converted) -/
def SVal.toFloat (fo : FloatOps F) : SVal F → Option F
  | .int32 i => some (fo.ofInt i)
  | .int64 i => some (fo.ofInt i)
  | .float f => some f
  | _ => none

/-- `FieldToDatetime` -/
def SVal.toTime : SVal F → Option Int
  | .time n _ => some n
  | _ => none

/-- `FieldToString` (bool, numbers and times rendered) -/
def SVal.toStr (fo : FloatOps F) : SVal F → Option Bytes
  | .str s => some s
  | .bool b => some (fmtBool b)
  | .int32 i => some (fmtInt i)
  | .int64 i => some (fmtInt i)
  | .float f => some (fo.fmt f)
  | .time _ t => some t
  | .nil => none

/-- `rowCursorImpl.IsNil`: the stored type is `TypeNil` -/
def SVal.isNil : SVal F → Bool
  | .nil => true
  | _ => false

/-- the typed bucket key of a string set element, without the type byte (the order of a bbolt
    bucket that holds only `TypeString` keys is the byte order of the strings) -/
def SVal.isStr : SVal F → Bool
  | .str _ => true
  | _ => false

end StorageModel.Filter
