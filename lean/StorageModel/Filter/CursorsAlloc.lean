import StorageModel.Filter.Cursors
/-
  C01 — the cursor machine with the allocation of row cursors inside the model.

  `Cursors.lean` names the row cursor of a sub-query scan by a function of the enclosing scan (`alloc`), and proves
  the list semantics for every such function that never returns an enclosing scan's row cursor.  Here the machine
  allocates as the code does: `rowCursorImpl.OpenSetCursorForQuery` positions the set symbol's object of *its own*
  symbol cache on the current row and calls `newCursorScanner(rs.tx, symbol.GetLinkedType(), setCursor, query)`, which
  builds `&uniqueIndexScanner{…, rowCursor: newRowCursor(store, tx), …}` — a new row cursor with an empty
  `symbolCache` for every sub-query scan, whatever the entity type.  The state carries the number of row cursors handed
  out so far; `newRowCursorPolicy` is that code, `sharedCachePolicy` hands the scanning row cursor's cache to the
  sub-query scan (what the code must not do when the sub-query ranges over the entity type being scanned).
-/
set_option linter.unusedVariables false
namespace StorageModel.Filter
open StorageModel

variable {C F : Type}

/-- the objects, and how many row cursors `newRowCursor` has handed out -/
abbrev RtState (C F : Type) := Heap C F × Nat

/-- what `OpenSetCursorForQuery` gives the scanner as its row cursor, from (the scanning row cursor, the allocation
    counter, the scanned row, the set symbol): (the scanner's row cursor, the counter afterwards) -/
abbrev RowCursorPolicy (C : Type) := Nat → Nat → C → String → Nat × Nat

/-- the code: `rowCursor: newRowCursor(store, tx)` -/
def newRowCursorPolicy : RowCursorPolicy C := fun _ nx _ _ => (nx, nx + 1)
/-- the scanning row cursor (and with it its `symbolCache`) handed to the sub-query scan -/
def sharedCachePolicy : RowCursorPolicy C := fun rc nx _ _ => (rc, nx)

/-- a policy that gives the scanner a row cursor nobody holds yet -/
def FreshPolicy (pol : RowCursorPolicy C) : Prop :=
  ∀ rc nx c n, nx ≤ (pol rc nx c n).1 ∧ (pol rc nx c n).1 < (pol rc nx c n).2

theorem newRowCursorPolicy_fresh : FreshPolicy (newRowCursorPolicy (C := C)) :=
  fun _ nx _ _ => ⟨Nat.le_refl nx, Nat.lt_succ_self nx⟩

/-- `uniqueIndexScanner.Next` as in `scanLoop`, over the state with the allocation counter -/
def scanLoopA (runq : C → RtState C F → Bool × RtState C F) (nil : C → Bool) (k : ObjKey) (targetOffset : Nat)
    (lim : Option Nat) : Nat → Nat → Nat → RtState C F → Nat × RtState C F
  | 0, _, _, s => (0, s)
  | fuel + 1, offset, collected, s =>
    match (s.1 k).rows with
    | [] => (0, s)
    | r :: _ =>
      if limHit lim collected then (0, s)
      else if nil r then scanLoopA runq nil k targetOffset lim fuel offset collected (nextElem s.1 k, s.2)
      else if (runq r (nextElem s.1 k, s.2)).1 then
        (if offset < targetOffset then
           scanLoopA runq nil k targetOffset lim fuel (offset + 1) collected (runq r (nextElem s.1 k, s.2)).2
         else (1 + (scanLoopA runq nil k targetOffset lim fuel offset (collected + 1) (runq r (nextElem s.1 k, s.2)).2).1,
               (scanLoopA runq nil k targetOffset lim fuel offset (collected + 1) (runq r (nextElem s.1 k, s.2)).2).2))
      else scanLoopA runq nil k targetOffset lim fuel offset collected (runq r (nextElem s.1 k, s.2)).2

/-- evaluation by the row cursor `rc` positioned on row `c`: `Sk.run` with the allocation of the sub-query scanner's
    row cursor (`pol`) threaded through the state -/
def Sk.exec (w : World C F) (pol : RowCursorPolicy C) : Sk C F → Nat → C → RtState C F → Bool × RtState C F
  | .atom p, _, c, s => (p c, s)
  | .not a, rc, c, s => (!(a.exec w pol rc c s).1, (a.exec w pol rc c s).2)
  | .and a b, rc, c, s =>
    if !(a.exec w pol rc c s).1 then (false, (a.exec w pol rc c s).2) else b.exec w pol rc c (a.exec w pol rc c s).2
  | .or a b, rc, c, s =>
    if (a.exec w pol rc c s).1 then (true, (a.exec w pol rc c s).2) else b.exec w pol rc c (a.exec w pol rc c s).2
  | .anyOf n p, rc, c, s =>
    ((elemLoop (p c) (rc, n) (w.elems c n).length (openCur w s.1 rc c n)).1.2,
     ((elemLoop (p c) (rc, n) (w.elems c n).length (openCur w s.1 rc c n)).2, s.2))
  | .allOf n p, rc, c, s =>
    (!(elemLoop (fun e => !p c e) (rc, n) (w.elems c n).length (openCur w s.1 rc c n)).1.2,
     ((elemLoop (fun e => !p c e) (rc, n) (w.elems c n).length (openCur w s.1 rc c n)).2, s.2))
  | .count n k, rc, c, s =>
    (k (elemLoop (fun _ => false) (rc, n) (w.elems c n).length (openCur w s.1 rc c n)).1.1,
     ((elemLoop (fun _ => false) (rc, n) (w.elems c n).length (openCur w s.1 rc c n)).2, s.2))
  | .isEmpty n, rc, c, s => (((openCur w s.1 rc c n) (rc, n)).elems.isEmpty, (openCur w s.1 rc c n, s.2))
  | .countQ n q skip limit k, rc, c, s =>
    (k (scanLoopA (fun c' => q.exec w pol (pol rc s.2 c n).1 c') w.nilRow (rc, n) (pagingOffset skip) (pagingLimit limit)
          (w.subRows c n).length 0 0 (openCur w s.1 rc c n, (pol rc s.2 c n).2)).1,
     (scanLoopA (fun c' => q.exec w pol (pol rc s.2 c n).1 c') w.nilRow (rc, n) (pagingOffset skip) (pagingLimit limit)
          (w.subRows c n).length 0 0 (openCur w s.1 rc c n, (pol rc s.2 c n).2)).2)
  | .isEmptyQ n q skip limit, rc, c, s =>
    ((scanLoopA (fun c' => q.exec w pol (pol rc s.2 c n).1 c') w.nilRow (rc, n) (pagingOffset skip) (pagingLimit limit)
          (w.subRows c n).length 0 0 (openCur w s.1 rc c n, (pol rc s.2 c n).2)).1 == 0,
     (scanLoopA (fun c' => q.exec w pol (pol rc s.2 c n).1 c') w.nilRow (rc, n) (pagingOffset skip) (pagingLimit limit)
          (w.subRows c n).length 0 0 (openCur w s.1 rc c n, (pol rc s.2 c n).2)).2)

theorem openCur_other (w : World C F) (h : Heap C F) (rc : Nat) (c : C) (n : String) (k' : ObjKey) (hk : k' ≠ (rc, n)) :
    openCur w h rc c n k' = h k' := by
  simp [openCur, Heap.set, hk]

/-- what the scan at a row cursor below `lo` needs from the stateful row predicate, once `nx` row cursors exist: it
    answers `m`, never gives a row cursor back, and leaves the objects of the row cursors below `lo` alone -/
def FramesA (runq : C → RtState C F → Bool × RtState C F) (m : C → Bool) (lo nx : Nat) : Prop :=
  ∀ r (s : RtState C F), nx ≤ s.2 →
    (runq r s).1 = m r ∧ s.2 ≤ (runq r s).2.2 ∧ ∀ k' : ObjKey, k'.1 < lo → (runq r s).2.1 k' = s.1 k'

theorem scanLoopA_spec (runq : C → RtState C F → Bool × RtState C F) (m nil : C → Bool) (rc : Nat) (n : String)
    (tOff : Nat) (lim : Option Nat) (lo nx : Nat) (hrc : rc < lo) (hf : FramesA runq m lo nx) :
    ∀ (fuel offset collected : Nat) (h : Heap C F) (x : Nat), nx ≤ x → (h (rc, n)).rows.length ≤ fuel →
      (scanLoopA runq nil (rc, n) tOff lim fuel offset collected (h, x)).1 =
          scanCount m nil tOff lim (h (rc, n)).rows offset collected ∧
      x ≤ (scanLoopA runq nil (rc, n) tOff lim fuel offset collected (h, x)).2.2 ∧
      ∀ k' : ObjKey, k'.1 < lo → k' ≠ (rc, n) →
        (scanLoopA runq nil (rc, n) tOff lim fuel offset collected (h, x)).2.1 k' = h k' := by
  intro fuel
  induction fuel with
  | zero =>
    intro offset collected h x hx hl
    have he : (h (rc, n)).rows = [] := List.eq_nil_of_length_eq_zero (Nat.le_zero.mp hl)
    simp [scanLoopA, he, scanCount]
  | succ fuel ih =>
    intro offset collected h x hx hl
    cases hE : (h (rc, n)).rows with
    | nil => simp [scanLoopA, hE, scanCount]
    | cons r rest =>
      have hn : (nextElem h (rc, n) (rc, n)).rows = rest := by rw [(nextElem_same h (rc, n)).2, hE]; rfl
      have hlen : rest.length ≤ fuel := by rw [hE] at hl; simp only [List.length_cons] at hl; omega
      have hq := hf r (nextElem h (rc, n), x) hx
      -- the state after the row has been evaluated
      have hx2 : nx ≤ (runq r (nextElem h (rc, n), x)).2.2 := Nat.le_trans hx hq.2.1
      have hrows2 : ((runq r (nextElem h (rc, n), x)).2.1 (rc, n)).rows = rest := by
        rw [hq.2.2 (rc, n) hrc]; exact hn
      have hframe2 : ∀ k' : ObjKey, k'.1 < lo → k' ≠ (rc, n) → (runq r (nextElem h (rc, n), x)).2.1 k' = h k' := by
        intro k' hk hne
        rw [hq.2.2 k' hk]; exact nextElem_other h (rc, n) k' hne
      have ih1 := fun o c => ih o c (nextElem h (rc, n)) x hx (by rw [hn]; exact hlen)
      have ih2 := fun o c => ih o c (runq r (nextElem h (rc, n), x)).2.1 (runq r (nextElem h (rc, n), x)).2.2 hx2
        (by rw [hrows2]; exact hlen)
      simp only [hn] at ih1
      simp only [hrows2] at ih2
      simp only [scanLoopA, hE, scanCount_cons, hq.1]
      by_cases hlim : limHit lim collected = true
      · simp [hlim]
      · simp only [hlim, Bool.false_eq_true, if_false]
        by_cases hnil : nil r = true
        · simp only [hnil, if_true]
          refine ⟨(ih1 offset collected).1, (ih1 offset collected).2.1, fun k' hk hne => ?_⟩
          rw [(ih1 offset collected).2.2 k' hk hne, nextElem_other h (rc, n) k' hne]
        · simp only [hnil, Bool.false_eq_true, if_false]
          by_cases hm : m r = true
          · simp only [hm, if_true]
            by_cases ho : offset < tOff
            · simp only [ho, if_true]
              refine ⟨(ih2 (offset + 1) collected).1, Nat.le_trans hq.2.1 (ih2 (offset + 1) collected).2.1,
                fun k' hk hne => ?_⟩
              rw [(ih2 (offset + 1) collected).2.2 k' hk hne, hframe2 k' hk hne]
            · simp only [ho, if_false]
              refine ⟨by rw [(ih2 offset (collected + 1)).1], Nat.le_trans hq.2.1 (ih2 offset (collected + 1)).2.1,
                fun k' hk hne => ?_⟩
              rw [(ih2 offset (collected + 1)).2.2 k' hk hne, hframe2 k' hk hne]
          · simp only [hm, Bool.false_eq_true, if_false]
            refine ⟨(ih2 offset collected).1, Nat.le_trans hq.2.1 (ih2 offset collected).2.1, fun k' hk hne => ?_⟩
            rw [(ih2 offset collected).2.2 k' hk hne, hframe2 k' hk hne]

theorem key_ne_of_fst_ne (k' : ObjKey) (rc : Nat) (n : String) (h : k'.1 ≠ rc) : k' ≠ (rc, n) := by
  intro he; rw [he] at h; exact h rfl

/-- **Per-scan cursor state, with the allocation in the model.**  For every policy that gives a sub-query scanner a
    row cursor nobody holds yet — `newRowCursorPolicy`, the code, is one — every filter skeleton, every row cursor
    `rc` that has been allocated, every row and every state: the evaluation over the runtime objects answers what the
    list semantics says, never gives a row cursor back, and leaves the objects of all other row cursors that existed
    before where they were. -/
theorem exec_eq_eval (w : World C F) (pol : RowCursorPolicy C) (hp : FreshPolicy pol) (sk : Sk C F) :
    ∀ (rc : Nat) (c : C) (h : Heap C F) (x : Nat), rc < x →
      (sk.exec w pol rc c (h, x)).1 = sk.eval w c ∧ x ≤ (sk.exec w pol rc c (h, x)).2.2 ∧
      ∀ k' : ObjKey, k'.1 < x → k'.1 ≠ rc → (sk.exec w pol rc c (h, x)).2.1 k' = h k' := by
  induction sk with
  | atom p => intro rc c h x hx; simp [Sk.exec, Sk.eval]
  | not a ih =>
    intro rc c h x hx
    simp only [Sk.exec, Sk.eval, (ih rc c h x hx).1]
    exact ⟨trivial, (ih rc c h x hx).2⟩
  | and a b iha ihb =>
    intro rc c h x hx
    have h1 := iha rc c h x hx
    have h2 := ihb rc c (a.exec w pol rc c (h, x)).2.1 (a.exec w pol rc c (h, x)).2.2 (Nat.lt_of_lt_of_le hx h1.2.1)
    simp only [Sk.exec, Sk.eval, h1.1]
    by_cases ha : a.eval w c = true
    · simp only [ha, Bool.not_true, Bool.false_eq_true, if_false]
      refine ⟨h2.1, Nat.le_trans h1.2.1 h2.2.1, fun k' hk hne => ?_⟩
      rw [h2.2.2 k' (Nat.lt_of_lt_of_le hk h1.2.1) hne, h1.2.2 k' hk hne]
    · simp only [ha, Bool.not_false, if_true]
      exact ⟨trivial, h1.2⟩
  | or a b iha ihb =>
    intro rc c h x hx
    have h1 := iha rc c h x hx
    have h2 := ihb rc c (a.exec w pol rc c (h, x)).2.1 (a.exec w pol rc c (h, x)).2.2 (Nat.lt_of_lt_of_le hx h1.2.1)
    simp only [Sk.exec, Sk.eval, h1.1]
    by_cases ha : a.eval w c = true
    · simp only [ha, if_true]
      exact ⟨trivial, h1.2⟩
    · simp only [ha, Bool.false_eq_true, if_false]
      refine ⟨h2.1, Nat.le_trans h1.2.1 h2.2.1, fun k' hk hne => ?_⟩
      rw [h2.2.2 k' (Nat.lt_of_lt_of_le hk h1.2.1) hne, h1.2.2 k' hk hne]
  | anyOf n p =>
    intro rc c h x hx
    have hs := elemLoop_spec (C := C) (p c) (rc, n) (w.elems c n).length (openCur w h rc c n)
      (by rw [(openCur_same w h rc c n).1]; exact Nat.le_refl _)
    rw [(openCur_same w h rc c n).1] at hs
    simp only [Sk.exec, Sk.eval, hs.1, walk_any]
    refine ⟨trivial, Nat.le_refl _, fun k' hk hne => ?_⟩
    rw [hs.2 k' (key_ne_of_fst_ne k' rc n hne), openCur_other w h rc c n k' (key_ne_of_fst_ne k' rc n hne)]
  | allOf n p =>
    intro rc c h x hx
    have hs := elemLoop_spec (C := C) (fun e => !p c e) (rc, n) (w.elems c n).length (openCur w h rc c n)
      (by rw [(openCur_same w h rc c n).1]; exact Nat.le_refl _)
    rw [(openCur_same w h rc c n).1] at hs
    simp only [Sk.exec, Sk.eval, hs.1, walk_all (p c)]
    refine ⟨trivial, Nat.le_refl _, fun k' hk hne => ?_⟩
    rw [hs.2 k' (key_ne_of_fst_ne k' rc n hne), openCur_other w h rc c n k' (key_ne_of_fst_ne k' rc n hne)]
  | count n k =>
    intro rc c h x hx
    have hs := elemLoop_spec (C := C) (fun _ => false) (rc, n) (w.elems c n).length (openCur w h rc c n)
      (by rw [(openCur_same w h rc c n).1]; exact Nat.le_refl _)
    rw [(openCur_same w h rc c n).1] at hs
    simp only [Sk.exec, Sk.eval, hs.1, walk_count]
    refine ⟨trivial, Nat.le_refl _, fun k' hk hne => ?_⟩
    rw [hs.2 k' (key_ne_of_fst_ne k' rc n hne), openCur_other w h rc c n k' (key_ne_of_fst_ne k' rc n hne)]
  | isEmpty n =>
    intro rc c h x hx
    simp only [Sk.exec, Sk.eval, (openCur_same w h rc c n).1]
    exact ⟨trivial, Nat.le_refl _, fun k' hk hne => openCur_other w h rc c n k' (key_ne_of_fst_ne k' rc n hne)⟩
  | countQ n q skip limit k ih =>
    intro rc c h x hx
    have hpol := hp rc x c n
    have hf : FramesA (fun c' => q.exec w pol (pol rc x c n).1 c') (fun c' => q.eval w c') x (pol rc x c n).2 := by
      intro r s hs
      have hi := ih (pol rc x c n).1 r s.1 s.2 (Nat.lt_of_lt_of_le hpol.2 hs)
      refine ⟨hi.1, hi.2.1, fun k' hk => ?_⟩
      exact hi.2.2 k' (Nat.lt_of_lt_of_le hk (Nat.le_trans hpol.1 (Nat.le_trans (Nat.le_of_lt hpol.2) hs)))
        (Nat.ne_of_lt (Nat.lt_of_lt_of_le hk hpol.1))
    have hs := scanLoopA_spec _ _ w.nilRow rc n (pagingOffset skip) (pagingLimit limit) x (pol rc x c n).2 hx hf
      (w.subRows c n).length 0 0 (openCur w h rc c n) (pol rc x c n).2 (Nat.le_refl _)
      (by rw [(openCur_same w h rc c n).2]; exact Nat.le_refl _)
    rw [(openCur_same w h rc c n).2] at hs
    simp only [Sk.exec, Sk.eval, hs.1]
    refine ⟨trivial, Nat.le_trans hpol.1 (Nat.le_trans (Nat.le_of_lt hpol.2) hs.2.1), fun k' hk hne => ?_⟩
    rw [hs.2.2 k' hk (key_ne_of_fst_ne k' rc n hne), openCur_other w h rc c n k' (key_ne_of_fst_ne k' rc n hne)]
  | isEmptyQ n q skip limit ih =>
    intro rc c h x hx
    have hpol := hp rc x c n
    have hf : FramesA (fun c' => q.exec w pol (pol rc x c n).1 c') (fun c' => q.eval w c') x (pol rc x c n).2 := by
      intro r s hs
      have hi := ih (pol rc x c n).1 r s.1 s.2 (Nat.lt_of_lt_of_le hpol.2 hs)
      refine ⟨hi.1, hi.2.1, fun k' hk => ?_⟩
      exact hi.2.2 k' (Nat.lt_of_lt_of_le hk (Nat.le_trans hpol.1 (Nat.le_trans (Nat.le_of_lt hpol.2) hs)))
        (Nat.ne_of_lt (Nat.lt_of_lt_of_le hk hpol.1))
    have hs := scanLoopA_spec _ _ w.nilRow rc n (pagingOffset skip) (pagingLimit limit) x (pol rc x c n).2 hx hf
      (w.subRows c n).length 0 0 (openCur w h rc c n) (pol rc x c n).2 (Nat.le_refl _)
      (by rw [(openCur_same w h rc c n).2]; exact Nat.le_refl _)
    rw [(openCur_same w h rc c n).2] at hs
    simp only [Sk.exec, Sk.eval, hs.1]
    refine ⟨trivial, Nat.le_trans hpol.1 (Nat.le_trans (Nat.le_of_lt hpol.2) hs.2.1), fun k' hk hne => ?_⟩
    rw [hs.2.2 k' hk (key_ne_of_fst_ne k' rc n hne), openCur_other w h rc c n k' (key_ne_of_fst_ne k' rc n hne)]

/-- `queryNode.EvalBool` on a row by the scan's row cursor 0 (`ScanCursor`: `scanner.rowCursor = newRowCursor(store,
    tx)`), one row cursor allocated so far, over whatever the earlier rows left in the heap -/
def evalRowA (w : World C F) (fo : FloatOps F) (pol : RowCursorPolicy C) (c : C) (t : TNode F) (h : Heap C F) :
    Bool × RtState C F :=
  (skOf w fo t).exec w pol 0 c (h, 1)

theorem evalRowA_code (w : World C F) (fo : FloatOps F) (c : C) (t : TNode F) (h : Heap C F) :
    (evalRowA w fo newRowCursorPolicy c t h).1 = evalRow w fo c t := by
  unfold evalRowA evalRow
  rw [(exec_eq_eval w newRowCursorPolicy newRowCursorPolicy_fresh (skOf w fo t) 0 c h 1 (Nat.lt_succ_self 0)).1, skOf_eval]

end StorageModel.Filter
