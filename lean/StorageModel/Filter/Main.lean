import StorageModel.Filter.Bridge
/-
  C01 — the refinement proof: for every well-typed filter the transformation succeeds and the
  typed tree evaluates, on every row, to what the specification says.
-/
set_option linter.unusedSimpArgs false
namespace StorageModel.Filter
open StorageModel
variable {C F T : Type}

/-! ### hypotheses of the refinement theorem -/

/-- every seekable set cursor ranges over a bucket of strictly increasing string keys -/
def SeekOK (w : World C F) : Prop := ∀ c n, w.seekable c n = true → SortedStrs (w.elems c n)

/-- the filter contains no sub-query -/
def noSubQuery : U F → Bool
  | .setFnSub .. => false
  | .cmp _ l _ => noSubQuery l
  | .inArr l _ => noSubQuery l
  | .between l _ _ => noSubQuery l
  | .notE e => noSubQuery e
  | .unot e => noSubQuery e
  | .logic _ l r => noSubQuery l && noSubQuery r
  | _ => true

def LhsDen.vals : LhsDen F → List (SVal F)
  | .one _ sv => [sv]
  | .any _ es => es
  | .all _ es => es
  | .bad => []

/-! ### sort fields of a sub-query: the declarative condition implies what the two passes check -/

theorem okSort_validate (sg : Sigma T) (t : T) : ∀ (so : List (String × Bool)), okSort sg t so = true →
    ∀ f, validateSort sg t f so = some f
  | [], _, _ => rfl
  | (n, d) :: rest, h, f => by
    simp only [okSort, List.all_cons, Bool.and_eq_true] at h
    have ih := okSort_validate sg t rest (by simpa [okSort] using h.2) f
    simp only [validateSort]
    cases hs : sg.sym t n with
    | none => simp [hs] at h
    | some x =>
      obtain ⟨τ, b⟩ := x
      cases b with
      | true => simp [hs] at h
      | false => simpa using ih

theorem okSort_typed (sg : Sigma T) (t : T) : ∀ (so : List (String × Bool)), okSort sg t so = true →
    ∃ so', sortTyped sg t so = some so'
  | [], _ => ⟨[], rfl⟩
  | (n, d) :: rest, h => by
    simp only [okSort, List.all_cons, Bool.and_eq_true] at h
    obtain ⟨r', ih⟩ := okSort_typed sg t rest (by simpa [okSort] using h.2)
    simp only [sortTyped, ih]
    cases hs : sg.sym t n with
    | none => simp [hs] at h
    | some x =>
      obtain ⟨τ, b⟩ := x
      cases b with
      | true => simp [hs] at h
      | false => cases τ <;> simp [hs] at h <;> simp

/-! ### small list facts -/

theorem any_congr_mem {α} (l : List α) (f g : α → Bool) (h : ∀ x ∈ l, f x = g x) : l.any f = l.any g := by
  induction l with
  | nil => rfl
  | cons a t ih =>
    simp only [List.any_cons]
    rw [h a (List.mem_cons_self ..), ih (fun x hx => h x (List.mem_cons_of_mem _ hx))]

theorem all_congr_mem {α} (l : List α) (f g : α → Bool) (h : ∀ x ∈ l, f x = g x) : l.all f = l.all g := by
  induction l with
  | nil => rfl
  | cons a t ih =>
    simp only [List.all_cons]
    rw [h a (List.mem_cons_self ..), ih (fun x hx => h x (List.mem_cons_of_mem _ hx))]

@[simp] theorem bind_self (lk : String → SVal F) (n : String) (e : SVal F) : bind lk n e n = e := by
  simp [bind]

/-! ### the seek shortcut inside the typed tree -/

theorem seek_any (fo : FloatOps F) (v : Bytes) (g : SVal F → Bool) (hg : ∀ s, g (.str s) = (s == v)) :
    ∀ ss : List Bytes, ss.Pairwise (fun a b => bytesLt a b = true) →
    (match seekTo (ss.map (SVal.str (F := F))) v with
     | some e => g e
     | none => false) = (ss.map SVal.str).any g := by
  intro ss hss
  have h := seek_core (fo := fo) v ss hss
  have h2 : (ss.map (SVal.str (F := F))).any g = ss.any (· == v) := by
    simp [List.any_map, Function.comp_def, hg]
  rw [h2, ← h]
  unfold seekTo
  cases hf : (ss.map (SVal.str (F := F))).find? (keyGe v) with
  | none => rfl
  | some e =>
    have hmem := List.mem_of_find?_eq_some hf
    obtain ⟨s, _, rfl⟩ := List.mem_map.mp hmem
    simp [hg, SVal.toStr]

theorem specialize_isBool (n : String) (p : TNode F) : (specializeSetAnyOf n p).isBoolNode = true := by
  unfold specializeSetAnyOf
  split
  · split <;> rfl
  · rfl

/-- the seek shortcut never changes the value of an `anyOf` (for the predicates the transformation
    marks seekable, over sorted string buckets) -/
theorem eval_specialize (w : World C F) (fo : FloatOps F) (hw : SeekOK w) (n : String) (p : TNode F)
    (hseek : ∀ op' l' r', p = .binStr op' l' r' → isSeekableOp op' l' r' = true →
      op' = .eq ∧ ∃ v, ∀ (w : World C F) c lk,
        evalStr w fo c lk r' = some v ∧ evalStr w fo c lk l' = (lk n).toStr fo)
    (c : C) (lk : String → SVal F) :
    evalBool w fo c lk (specializeSetAnyOf n p) =
      (w.elems c n).any (fun e => evalBool w fo c (bind lk n e) p) := by
  unfold specializeSetAnyOf
  split
  · rename_i op' l' r'
    split
    · rename_i hs
      obtain ⟨rfl, v, hv⟩ := hseek op' l' r' rfl hs
      simp only [evalBool]
      split
      · rename_i hsk
        obtain ⟨ss, hes, hss⟩ := hw c n hsk
        rw [(hv w c lk).1, hes]
        simp only
        have := seek_any fo v (fun e => binStrSem .eq (e.toStr fo) (some v))
          (by intro s; simp [SVal.toStr, binStrSem, cmpWith]) ss hss
        simp only [(hv w c _).1, (hv w c _).2, bind_self]
        exact this
      · rfl
    · simp only [evalBool]
  · simp only [evalBool]

/-! ### operands -/

/-- how a transformed left operand relates to what the specification says it denotes -/
inductive Operand (w : World C F) (fo : FloatOps F) : TNode F → (C → LhsDen F) → NodeType → Bool → Prop
  | sym (τ : NodeType) (n : String) (h : τ ≠ .other) :
      Operand w fo (symNode τ n) (fun c => .one τ (w.val c n)) τ true
  | anyOf (τ : NodeType) (n : String) (h : τ ≠ .other) :
      Operand w fo (.setFn .anyOf (symNode τ n)) (fun c => .any τ (w.elems c n)) τ true
  | allOf (τ : NodeType) (n : String) (h : τ ≠ .other) :
      Operand w fo (.setFn .allOf (symNode τ n)) (fun c => .all τ (w.elems c n)) τ true
  | cnt (s : TNode F) (hs : IsCountNode s) (k : C → Nat)
      (hk : ∀ c lk, evalInt w fo c lk s = some (k c : Int)) :
      Operand w fo s (fun c => .one .int (.int64 (k c))) .int false

theorem splitSetFn_cnt (b : Bool) (s : TNode F) (hs : IsCountNode s) : splitSetFn b s = (s, none) := by
  rcases hs with ⟨n, rfl⟩ | ⟨n, q, so, sk, li, rfl⟩ <;> rfl

theorem cmp_bridge (w : World C F) (fo : FloatOps F) (hw : SeekOK w) {s : TNode F} {d : C → LhsDen F}
    {τ : NodeType} {nl : Bool} (ho : Operand w fo s d τ nl) (op : Op) (r : Lit F)
    (hok : okCmp τ nl op r = true) :
    ∃ p, cmpStep fo op s r = .ok p ∧ p.isBoolNode = true ∧
      ∀ c, evalBool w fo c (w.val c) p = (d c).holds (fun τ sv => satCmp fo τ op sv r) := by
  cases ho with
  | sym τ n hτ =>
    obtain ⟨p, hp, hbool, heval, _⟩ := cmp_sym (C := C) fo τ hτ n op r hok
    refine ⟨p, ?_, hbool, ?_⟩
    · simp [cmpStep, splitSetFn_symNode, hp, hoist]
    · intro c
      simp only [LhsDen.holds]
      exact heval w c (w.val c)
  | anyOf τ n hτ =>
    obtain ⟨p, hp, _, heval, hseek⟩ := cmp_sym (C := C) fo τ hτ n op r hok
    refine ⟨specializeSetAnyOf n p, ?_, specialize_isBool n p, ?_⟩
    · simp [cmpStep, splitSetFn, hp, hoist, symNode_name τ n hτ, moveUpTree]
    · intro c
      rw [eval_specialize w fo hw n p hseek c (w.val c)]
      simp only [LhsDen.holds]
      apply any_congr_mem
      intro e _
      have := heval w c (bind (w.val c) n e)
      simpa using this
  | allOf τ n hτ =>
    obtain ⟨p, hp, _, heval, _⟩ := cmp_sym (C := C) fo τ hτ n op r hok
    refine ⟨.allOf n p, ?_, rfl, ?_⟩
    · simp [cmpStep, splitSetFn, hp, hoist, symNode_name τ n hτ, moveUpTree]
    · intro c
      simp only [evalBool, LhsDen.holds]
      apply all_congr_mem
      intro e _
      have := heval w c (bind (w.val c) n e)
      simpa using this
  | cnt s hs k hk =>
    obtain ⟨p, hp, hbool, heval, _⟩ := cmp_cnt (C := C) fo s hs op r hok
    refine ⟨p, ?_, hbool, ?_⟩
    · simp [cmpStep, splitSetFn_cnt _ s hs, hp, hoist]
    · intro c
      simp only [LhsDen.holds]
      exact heval w c (w.val c) (k c) (hk c _)

theorem in_bridge (w : World C F) (fo : FloatOps F) {s : TNode F} {d : C → LhsDen F}
    {τ : NodeType} {nl : Bool} (ho : Operand w fo s d τ nl) (arr : Arr F)
    (hok : okIn fo τ arr = true) :
    ∃ p, inStep fo s arr = .ok p ∧ p.isBoolNode = true ∧
      ∀ c, evalBool w fo c (w.val c) p = (d c).holds (fun τ sv => satIn fo τ sv arr) := by
  cases ho with
  | sym τ n hτ =>
    obtain ⟨p, hp, hbool, heval, _⟩ := in_sym (C := C) fo τ hτ n arr hok
    refine ⟨p, ?_, hbool, ?_⟩
    · simp [inStep, splitSetFn_symNode, hp, hoist]
    · intro c
      simp only [LhsDen.holds]
      exact heval w c (w.val c)
  | anyOf τ n hτ =>
    obtain ⟨p, hp, _, heval, hnb⟩ := in_sym (C := C) fo τ hτ n arr hok
    refine ⟨.anyOf n p, ?_, rfl, ?_⟩
    · have : specializeSetAnyOf n p = .anyOf n p := by
        unfold specializeSetAnyOf
        split
        · exact absurd rfl (hnb _ _ _)
        · rfl
      simp [inStep, splitSetFn, hp, hoist, symNode_name τ n hτ, moveUpTree, this]
    · intro c
      simp only [evalBool, LhsDen.holds]
      apply any_congr_mem
      intro e _
      simpa using heval w c (bind (w.val c) n e)
  | allOf τ n hτ =>
    obtain ⟨p, hp, _, heval, _⟩ := in_sym (C := C) fo τ hτ n arr hok
    refine ⟨.allOf n p, ?_, rfl, ?_⟩
    · simp [inStep, splitSetFn, hp, hoist, symNode_name τ n hτ, moveUpTree]
    · intro c
      simp only [evalBool, LhsDen.holds]
      apply all_congr_mem
      intro e _
      simpa using heval w c (bind (w.val c) n e)
  | cnt s hs k hk =>
    obtain ⟨p, hp, hbool, heval, _⟩ := in_cnt (C := C) fo s hs arr hok
    refine ⟨p, ?_, hbool, ?_⟩
    · simp [inStep, splitSetFn_cnt _ s hs, hp, hoist]
    · intro c
      simp only [LhsDen.holds]
      exact heval w c (w.val c) (k c) (hk c _)

theorem between_bridge (w : World C F) (fo : FloatOps F) {s : TNode F} {d : C → LhsDen F}
    {τ : NodeType} {nl : Bool} (ho : Operand w fo s d τ nl) (lo hi : Lit F)
    (hok : okBetween τ lo hi = true) :
    ∃ p, betweenStep fo s lo hi = .ok p ∧ p.isBoolNode = true ∧
      ∀ c, evalBool w fo c (w.val c) p = (d c).holds (fun τ sv => satBetween fo τ sv lo hi) := by
  cases ho with
  | sym τ n hτ =>
    obtain ⟨p, hp, hbool, heval, _⟩ := bet_sym (C := C) fo τ hτ n lo hi hok
    refine ⟨p, ?_, hbool, ?_⟩
    · simp [betweenStep, splitSetFn_symNode, hp, hoist]
    · intro c
      simp only [LhsDen.holds]
      exact heval w c (w.val c)
  | anyOf τ n hτ =>
    obtain ⟨p, hp, _, heval, hnb⟩ := bet_sym (C := C) fo τ hτ n lo hi hok
    refine ⟨.anyOf n p, ?_, rfl, ?_⟩
    · have : specializeSetAnyOf n p = .anyOf n p := by
        unfold specializeSetAnyOf
        split
        · exact absurd rfl (hnb _ _ _)
        · rfl
      simp [betweenStep, splitSetFn, hp, hoist, symNode_name τ n hτ, moveUpTree, this]
    · intro c
      simp only [evalBool, LhsDen.holds]
      apply any_congr_mem
      intro e _
      simpa using heval w c (bind (w.val c) n e)
  | allOf τ n hτ =>
    obtain ⟨p, hp, _, heval, _⟩ := bet_sym (C := C) fo τ hτ n lo hi hok
    refine ⟨.allOf n p, ?_, rfl, ?_⟩
    · simp [betweenStep, splitSetFn, hp, hoist, symNode_name τ n hτ, moveUpTree]
    · intro c
      simp only [evalBool, LhsDen.holds]
      apply all_congr_mem
      intro e _
      simpa using heval w c (bind (w.val c) n e)
  | cnt s hs k hk =>
    obtain ⟨p, hp, hbool, heval, _⟩ := bet_cnt (C := C) fo s hs lo hi hok
    refine ⟨p, ?_, hbool, ?_⟩
    · simp [betweenStep, splitSetFn_cnt _ s hs, hp, hoist]
    · intro c
      simp only [LhsDen.holds]
      exact heval w c (w.val c) (k c) (hk c _)

/-! ### the main induction -/

/-- the transformation of a filter succeeds with a BoolNode that evaluates to `sat` on every row -/
def Concl (sg : Sigma T) (w : World C F) (fo : FloatOps F) (t : T) (f : U F) : Prop :=
  ∃ p, transform sg fo t f = .ok p ∧ p.isBoolNode = true ∧
    ∀ c, evalBool w fo c (w.val c) p = sat sg w fo t c f

/-- the transformation of a left operand succeeds with a node that implements its denotation -/
def LhsConcl (sg : Sigma T) (w : World C F) (fo : FloatOps F) (t : T) (f : U F) (τ : NodeType) (nl : Bool) : Prop :=
  ∃ s d, transform sg fo t f = .ok s ∧ Operand w fo s d τ nl ∧ ∀ c, d c = lhsDen sg w fo t c f

theorem refine_main (sg : Sigma T) (w : World C F) (fo : FloatOps F) (hw : SeekOK w) :
    ∀ (f : U F) (t : T),
      (wellTyped sg fo t f = true → Concl sg w fo t f) ∧
      (∀ τ nl, lhsType sg fo t f = some (τ, nl) → LhsConcl sg w fo t f τ nl) := by
  intro f
  induction f with
  | sym n =>
    intro t
    constructor
    · intro hwt
      simp only [wellTyped] at hwt
      cases hs : sg.sym t n with
      | none => simp [hs] at hwt
      | some x =>
        obtain ⟨τ, b⟩ := x
        cases τ <;> cases b <;> simp [hs] at hwt
        · exact ⟨.boolSym n, by simp [transform, typedSym, hs], rfl, fun c => by simp [evalBool, sat]⟩
        · exact ⟨.anySym n, by simp [transform, typedSym, hs], rfl, fun c => by simp [evalBool, sat]⟩
    · intro τ nl hl
      simp only [lhsType] at hl
      cases hs : sg.sym t n with
      | none => simp [hs] at hl
      | some x =>
        obtain ⟨τ', b⟩ := x
        cases b <;> simp [hs] at hl
        obtain ⟨hτ, rfl, rfl⟩ := hl
        refine ⟨symNode τ' n, _, ?_, Operand.sym τ' n hτ, ?_⟩
        · simp [transform, typedSym_eq sg t n τ' false hs hτ]
        · intro c; simp [lhsDen, symType, hs]
  | setFn fn n =>
    intro t
    constructor
    · intro hwt
      cases fn with
      | isEmpty =>
        simp only [wellTyped] at hwt
        cases hs : sg.sym t n with
        | none => simp [hs] at hwt
        | some x =>
          obtain ⟨τ, b⟩ := x
          cases b <;> simp [hs] at hwt
          refine ⟨.isEmpty n, ?_, rfl, fun c => by simp [evalBool, sat]⟩
          simp [transform, typedSym_eq sg t n τ true hs hwt]
      | _ => simp [wellTyped] at hwt
    · intro τ nl hl
      cases hs : sg.sym t n with
      | none => cases fn <;> simp [lhsType, hs] at hl
      | some x =>
        obtain ⟨τ', b⟩ := x
        cases fn <;> cases b <;> simp [lhsType, hs] at hl
        · -- allOf
          obtain ⟨hτ, rfl, rfl⟩ := hl
          refine ⟨.setFn .allOf (symNode τ' n), _, ?_, Operand.allOf τ' n hτ, ?_⟩
          · simp [transform, typedSym_eq sg t n τ' true hs hτ]
          · intro c; simp [lhsDen, symType, hs]
        · -- anyOf
          obtain ⟨hτ, rfl, rfl⟩ := hl
          refine ⟨.setFn .anyOf (symNode τ' n), _, ?_, Operand.anyOf τ' n hτ, ?_⟩
          · simp [transform, typedSym_eq sg t n τ' true hs hτ]
          · intro c; simp [lhsDen, symType, hs]
        · -- count
          obtain ⟨hτ, rfl, rfl⟩ := hl
          refine ⟨.count n, _, ?_, Operand.cnt (.count n) (Or.inl ⟨n, rfl⟩) (fun c => (w.elems c n).length)
            (fun c lk => by simp [evalInt]), ?_⟩
          · simp [transform, typedSym_eq sg t n τ' true hs hτ]
          · intro c; simp [lhsDen]
  | setFnSub fn n q so sk li ih =>
    intro t
    have key : ∀ τ' t', sg.sym t n = some (τ', true) → τ' ≠ .other → sg.setTypes t n = some t' →
        wellTyped sg fo t' q = true →
        ∃ q', asBool (transform sg fo t' q) = .ok q' ∧
          ∀ c, scanCount (fun c' => evalBool w fo c' (w.val c') q') w.nilRow (pagingOffset sk) (pagingLimit li)
              (w.subRows c n) 0 0 =
            (paged sk li (sortBy (w.rowLe so) ((liveRows w c n).filter fun c' => sat sg w fo t' c' q))).length := by
      intro τ' t' _ _ hst hq
      obtain ⟨q', hq', hqb, hqe⟩ := (ih t').1 hq
      refine ⟨q', by simp [asBool, hq', hqb], fun c => ?_⟩
      rw [scanCount_sorted _ _ (w.rowLe so)]
      have : (fun c' => evalBool w fo c' (w.val c') q') = (fun c' => sat sg w fo t' c' q) := funext hqe
      rw [this]
      rfl
    constructor
    · intro hwt
      cases fn with
      | isEmpty =>
        simp only [wellTyped] at hwt
        cases hs : sg.sym t n with
        | none => simp [hs] at hwt
        | some x =>
          obtain ⟨τ', b⟩ := x
          cases hst : sg.setTypes t n with
          | none => cases b <;> simp [hs, hst] at hwt
          | some t' =>
            cases b <;> simp [hs, hst] at hwt
            obtain ⟨q', hq', hcnt⟩ := key τ' t' hs hwt.1.1 hst hwt.1.2
            obtain ⟨so', hso'⟩ := okSort_typed sg t' so hwt.2
            refine ⟨.isEmptyQ n q' so' sk li, ?_, rfl, fun c => ?_⟩
            · simp [transform, typedSym_eq sg t n τ' true hs hwt.1.1, hst, hq', hso']
            · simp only [evalBool, sat, hst, hcnt c]
              cases paged sk li (sortBy (w.rowLe so) (List.filter (fun c' => sat sg w fo t' c' q) (liveRows w c n))) <;> simp
      | _ => simp [wellTyped] at hwt
    · intro τ nl hl
      cases fn with
      | count =>
        simp only [lhsType] at hl
        cases hs : sg.sym t n with
        | none => simp [hs] at hl
        | some x =>
          obtain ⟨τ', b⟩ := x
          cases hst : sg.setTypes t n with
          | none => cases b <;> simp [hs, hst] at hl
          | some t' =>
            cases b <;> simp [hs, hst] at hl
            obtain ⟨⟨hτ, hq, hso⟩, rfl, rfl⟩ := hl
            obtain ⟨q', hq', hcnt⟩ := key τ' t' hs hτ hst hq
            obtain ⟨so', hso'⟩ := okSort_typed sg t' so hso
            refine ⟨.countQ n q' so' sk li, _, ?_,
              Operand.cnt (.countQ n q' so' sk li) (Or.inr ⟨n, q', so', sk, li, rfl⟩)
                (fun c => (paged sk li (sortBy (w.rowLe so) ((liveRows w c n).filter fun c' => sat sg w fo t' c' q))).length)
                (fun c lk => by simp [evalInt, hcnt c]), ?_⟩
            · simp [transform, typedSym_eq sg t n τ' true hs hτ, hst, hq', hso']
            · intro c; simp [lhsDen, hst]
      | _ => simp [lhsType] at hl
  | boolC b =>
    intro t
    exact ⟨fun _ => ⟨.boolC b, rfl, rfl, fun c => by simp [evalBool, sat]⟩, fun τ nl hl => by simp [lhsType] at hl⟩
  | cmp op l r ih =>
    intro t
    constructor
    · intro hwt
      simp only [wellTyped] at hwt
      cases hl : lhsType sg fo t l with
      | none => simp [hl] at hwt
      | some x =>
        obtain ⟨τ, nl⟩ := x
        simp only [hl] at hwt
        obtain ⟨s, d, hs, hop, hd⟩ := (ih t).2 τ nl hl
        obtain ⟨p, hp, hpb, hpe⟩ := cmp_bridge w fo hw hop op r hwt
        exact ⟨p, by simp [transform, hs, hp], hpb, fun c => by rw [hpe c, hd c]; simp [sat]⟩
    · intro τ nl hl; simp [lhsType] at hl
  | inArr l arr ih =>
    intro t
    constructor
    · intro hwt
      simp only [wellTyped] at hwt
      cases hl : lhsType sg fo t l with
      | none => simp [hl] at hwt
      | some x =>
        obtain ⟨τ, nl⟩ := x
        simp only [hl] at hwt
        obtain ⟨s, d, hs, hop, hd⟩ := (ih t).2 τ nl hl
        obtain ⟨p, hp, hpb, hpe⟩ := in_bridge w fo hop arr hwt
        exact ⟨p, by simp [transform, hs, hp], hpb, fun c => by rw [hpe c, hd c]; simp [sat]⟩
    · intro τ nl hl; simp [lhsType] at hl
  | between l lo hi ih =>
    intro t
    constructor
    · intro hwt
      simp only [wellTyped] at hwt
      cases hl : lhsType sg fo t l with
      | none => simp [hl] at hwt
      | some x =>
        obtain ⟨τ, nl⟩ := x
        simp only [hl] at hwt
        obtain ⟨s, d, hs, hop, hd⟩ := (ih t).2 τ nl hl
        obtain ⟨p, hp, hpb, hpe⟩ := between_bridge w fo hop lo hi hwt
        exact ⟨p, by simp [transform, hs, hp], hpb, fun c => by rw [hpe c, hd c]; simp [sat]⟩
    · intro τ nl hl; simp [lhsType] at hl
  | notE e ih =>
    intro t
    constructor
    · intro hwt
      simp only [wellTyped, Bool.and_eq_true] at hwt
      obtain ⟨p, hp, hpb, hpe⟩ := (ih t).1 hwt.2
      exact ⟨.not p, by simp [transform, asBool, hp, hpb], rfl, fun c => by simp [evalBool, sat, hpe c]⟩
    · intro τ nl hl; simp [lhsType] at hl
  | unot e ih =>
    intro t
    constructor
    · intro hwt
      simp only [wellTyped] at hwt
      obtain ⟨p, hp, hpb, hpe⟩ := (ih t).1 hwt
      exact ⟨.not p, by simp [transform, asBool, hp, hpb], rfl, fun c => by simp [evalBool, sat, hpe c]⟩
    · intro τ nl hl; simp [lhsType] at hl
  | logic isOr l r ihl ihr =>
    intro t
    constructor
    · intro hwt
      simp only [wellTyped, Bool.and_eq_true] at hwt
      obtain ⟨p, hp, hpb, hpe⟩ := (ihl t).1 hwt.1
      obtain ⟨q, hq, hqb, hqe⟩ := (ihr t).1 hwt.2
      refine ⟨if isOr then .or p q else .and p q, by simp [transform, hp, hq, hpb, hqb], by cases isOr <;> rfl, fun c => ?_⟩
      cases isOr <;> simp [evalBool, sat, hpe c, hqe c] <;> cases sat sg w fo t c l <;> simp
    · intro τ nl hl; simp [lhsType] at hl

/-! ### the symbol validation pass accepts well-typed filters -/

theorem validate_ok (sg : Sigma T) (fo : FloatOps F) :
    ∀ (f : U F) (t : T),
      (wellTyped sg fo t f = true → ∀ inSet, (validate sg t inSet f).isSome = true) ∧
      (∀ x, lhsType sg fo t f = some x → ∀ inSet, (validate sg t inSet f).isSome = true) := by
  intro f
  induction f with
  | sym n =>
    intro t
    constructor
    · intro h inSet
      simp only [wellTyped] at h
      cases hs : sg.sym t n with
      | none => simp [hs] at h
      | some x => obtain ⟨τ, b⟩ := x; cases τ <;> cases b <;> simp [hs] at h <;> simp [validate, hs]
    · intro x h inSet
      simp only [lhsType] at h
      cases hs : sg.sym t n with
      | none => simp [hs] at h
      | some y => obtain ⟨τ, b⟩ := y; cases b <;> simp [hs] at h <;> simp [validate, hs]
  | setFn fn n =>
    intro t
    constructor
    · intro h inSet
      cases hs : sg.sym t n with
      | none => cases fn <;> simp [wellTyped, hs] at h
      | some y => obtain ⟨τ, b⟩ := y; cases fn <;> cases b <;> simp [wellTyped, hs] at h <;> simp [validate, hs]
    · intro x h inSet
      cases hs : sg.sym t n with
      | none => cases fn <;> simp [lhsType, hs] at h
      | some y => obtain ⟨τ, b⟩ := y; cases fn <;> cases b <;> simp [lhsType, hs] at h <;> simp [validate, hs]
  | setFnSub fn n q so sk li ih =>
    intro t
    constructor
    · intro h inSet
      cases hs : sg.sym t n with
      | none => cases fn <;> simp [wellTyped, hs] at h
      | some y =>
        obtain ⟨τ, b⟩ := y
        cases hst : sg.setTypes t n with
        | none => cases fn <;> cases b <;> simp [wellTyped, hs, hst] at h
        | some t' =>
          cases fn <;> cases b <;> simp [wellTyped, hs, hst] at h
          have := (ih t').1 h.1.2 true
          cases hv : validate sg t' true q with
          | none => simp [hv] at this
          | some f => simp [validate, hs, hst, hv, okSort_validate sg t' so h.2 f]
    · intro x h inSet
      cases hs : sg.sym t n with
      | none => cases fn <;> simp [lhsType, hs] at h
      | some y =>
        obtain ⟨τ, b⟩ := y
        cases hst : sg.setTypes t n with
        | none => cases fn <;> cases b <;> simp [lhsType, hs, hst] at h
        | some t' =>
          cases fn <;> cases b <;> simp [lhsType, hs, hst] at h
          have := (ih t').1 h.1.2.1 true
          cases hv : validate sg t' true q with
          | none => simp [hv] at this
          | some f => simp [validate, hs, hst, hv, okSort_validate sg t' so h.1.2.2 f]
  | boolC b => intro t; exact ⟨fun _ _ => rfl, fun x h => by simp [lhsType] at h⟩
  | cmp op l r ih =>
    intro t
    refine ⟨fun h inSet => ?_, fun x h => by simp [lhsType] at h⟩
    simp only [wellTyped] at h
    cases hl : lhsType sg fo t l with
    | none => simp [hl] at h
    | some x => simpa [validate] using (ih t).2 x hl inSet
  | inArr l arr ih =>
    intro t
    refine ⟨fun h inSet => ?_, fun x h => by simp [lhsType] at h⟩
    simp only [wellTyped] at h
    cases hl : lhsType sg fo t l with
    | none => simp [hl] at h
    | some x => simpa [validate] using (ih t).2 x hl inSet
  | between l lo hi ih =>
    intro t
    refine ⟨fun h inSet => ?_, fun x h => by simp [lhsType] at h⟩
    simp only [wellTyped] at h
    cases hl : lhsType sg fo t l with
    | none => simp [hl] at h
    | some x => simpa [validate] using (ih t).2 x hl inSet
  | notE e ih =>
    intro t
    refine ⟨fun h inSet => ?_, fun x h => by simp [lhsType] at h⟩
    simp only [wellTyped, Bool.and_eq_true] at h
    simpa [validate] using (ih t).1 h.2 inSet
  | unot e ih =>
    intro t
    refine ⟨fun h inSet => ?_, fun x h => by simp [lhsType] at h⟩
    simp only [wellTyped] at h
    simpa [validate] using (ih t).1 h inSet
  | logic isOr l r ihl ihr =>
    intro t
    refine ⟨fun h inSet => ?_, fun x h => by simp [lhsType] at h⟩
    simp only [wellTyped, Bool.and_eq_true] at h
    have h1 := (ihl t).1 h.1 inSet
    cases hv : validate sg t inSet l with
    | none => simp [hv] at h1
    | some f' => simpa [validate, hv] using (ihr t).1 h.2 f'

end StorageModel.Filter
