import StorageModel.Filter.Transform
import StorageModel.Filter.Eval
/-
  C01 — the specification: which rows satisfy a filter under the documented semantics, stated
  directly on the filter as written (no typed tree, no node classes, no cursors):

  * a comparison is carried out at the join of the operand types (`cmpType`): T ⊔ T = T,
    int ⊔ float = float, number ⊔ string = string; an `any`-typed symbol is read at the type of
    the literal; `contains` / `icontains` are string operations;
  * a stored value that cannot be read at that type, or is nil, is a null operand; a null operand
    makes the comparison false, except `!=` (true iff exactly one side is null) and
    `not contains` / `not icontains` (true); `= null` / `!= null` test for nil;
  * `between` is `lo ≤ x < hi`; `icontains` is `contains` on upper-cased operands;
  * `not in` / `not between` / `not` negate; `and` / `or` are conjunction / disjunction;
  * `anyOf` / `allOf` quantify over the elements of the set symbol, `count` is their number,
    `isEmpty` their absence; a sub-query keeps the elements (rows of the linked type) that satisfy
    the inner filter, puts them in the order of its `sort by` clause, then drops `skip` and keeps
    `limit` of them.
-/
namespace StorageModel.Filter
open StorageModel

variable {C F T : Type}

/-- the type at which a comparison is carried out -/
inductive CTy where
  | bool | time | float | int | str
  deriving Repr, DecidableEq

/-- The documented join: the type at which `τ op lit` is evaluated; `none` = not well-typed.
    (`lit ≠ null`.) -/
def cmpType (τ : NodeType) (op : Op) (r : Lit F) : Option CTy :=
  match op with
  | .contains | .ncontains =>
    (match τ, r with
     | .str, .str _ | .str, .int _ | .str, .float _
     | .int, .str _ | .int, .int _ | .int, .float _
     | .float, .str _ | .float, .int _ | .float, .float _
     | .any, .str _ | .any, .int _ | .any, .float _ => some .str
     | _, _ => none)
  | .icontains | .nicontains =>
    (match τ, r with
     | .str, .str _ | .any, .str _ => some .str
     | _, _ => none)
  | _ =>
    (match τ, r with
     | .bool, .bool _ | .any, .bool _ => if op = .eq ∨ op = .ne then some .bool else none
     | .time, .time _ | .any, .time _ => some .time
     | .float, .float _ | .float, .int _ | .int, .float _ | .any, .float _ => some .float
     | .int, .int _ | .any, .int _ => some .int
     | .str, .str _ | .str, .int _ | .str, .float _ | .any, .str _ => some .str
     | _, _ => none)

/-- a literal read at a comparison type -/
def litBool : Lit F → Option Bool | .bool b => some b | _ => none
def litTime : Lit F → Option Int | .time t => some t | _ => none
def litInt : Lit F → Option Int | .int i => some i | _ => none
def litFloat (fo : FloatOps F) : Lit F → Option F
  | .float f => some f | .int i => some (fo.ofInt i) | _ => none
def litStr (fo : FloatOps F) : Lit F → Option Bytes
  | .str s => some s | .int i => some (fmtInt i) | .float f => some (fo.fmt f) | _ => none

/-- a stored value read at the declared type `τ` of its symbol and converted to a float
    (int → float) -/
def readFloat (fo : FloatOps F) (τ : NodeType) (sv : SVal F) : Option F :=
  match τ with
  | .int => sv.toInt.map fo.ofInt
  | _ => sv.toFloat fo

/-- a stored value read at the declared type `τ` of its symbol and converted to a string
    (number → string) -/
def readStr (fo : FloatOps F) (τ : NodeType) (sv : SVal F) : Option Bytes :=
  match τ with
  | .int => sv.toInt.map fmtInt
  | .float => (sv.toFloat fo).map fo.fmt
  | _ => sv.toStr fo

/-- ordering comparison of two present values -/
def ordCmp {α} (eq lt le : α → α → Bool) (op : Op) (a b : α) : Bool :=
  match op with
  | .eq => eq a b | .ne => !eq a b
  | .lt => lt a b | .le => le a b | .gt => lt b a | .ge => le b a
  | _ => false

/-- string comparison, including the containment operators -/
def strCmp (op : Op) (a b : Bytes) : Bool :=
  match op with
  | .contains => isInfix b a
  | .ncontains => !isInfix b a
  | .icontains => isInfix (toUpper b) (toUpper a)
  | .nicontains => !isInfix (toUpper b) (toUpper a)
  | _ => ordCmp (· == ·) bytesLt bytesLe op a b

/-- the null rule -/
def withNull {α} (op : Op) (a b : Option α) (f : α → α → Bool) : Bool :=
  match a, b with
  | some x, some y => f x y
  | _, _ =>
    match op with
    | .ne => a.isSome != b.isSome
    | .ncontains | .nicontains => true
    | _ => false

/-- `stored op literal` for a left operand of declared type `τ` -/
def satCmp (fo : FloatOps F) (τ : NodeType) (op : Op) (sv : SVal F) (r : Lit F) : Bool :=
  match r with
  | .null => (match op with | .eq => sv.isNil | .ne => !sv.isNil | _ => false)
  | _ =>
    match cmpType τ op r with
    | none => false
    | some .bool => withNull op sv.toBool (litBool r) (ordCmp (· == ·) (fun _ _ => false) (fun _ _ => false) op)
    | some .time => withNull op sv.toTime (litTime r) (ordCmp (· == ·) (· < ·) (· ≤ ·) op)
    | some .float => withNull op (readFloat fo τ sv) (litFloat fo r) (ordCmp fo.eq fo.lt fo.le op)
    | some .int => withNull op sv.toInt (litInt r) (ordCmp (· == ·) (· < ·) (· ≤ ·) op)
    | some .str => withNull op (readStr fo τ sv) (litStr fo r) (strCmp op)

/-- what an array literal denotes: a number array with a non-integer member is a float array -/
inductive ArrDen (F : Type) where
  | strs (l : List Bytes) | ints (l : List Int) | floats (l : List F) | times (l : List Int)

def arrDen (fo : FloatOps F) : Arr F → ArrDen F
  | .strs l => .strs l
  | .times l => .times l
  | .nums l => match numsAllInt l with
    | some is => .ints is
    | none => .floats (numsToFloat fo l)

/-- `stored in array` for a left operand of declared type `τ` (false for null, for values
    unreadable at the join type, and for ill-typed combinations) -/
def satIn (fo : FloatOps F) (τ : NodeType) (sv : SVal F) (arr : Arr F) : Bool :=
  match τ, arrDen fo arr with
  | .time, .times ts | .any, .times ts => (match sv.toTime with | some a => ts.any (a == ·) | none => false)
  | .int, .ints is | .any, .ints is => (match sv.toInt with | some a => is.any (a == ·) | none => false)
  | .int, .floats fs | .float, .floats fs | .any, .floats fs =>
    (match readFloat fo τ sv with | some a => fs.any (fo.eq a ·) | none => false)
  | .float, .ints is => (match readFloat fo τ sv with | some a => is.any (fun i => fo.eq a (fo.ofInt i)) | none => false)
  | .str, .strs ss | .int, .strs ss | .float, .strs ss | .any, .strs ss =>
    (match readStr fo τ sv with | some a => ss.any (a == ·) | none => false)
  | .str, .ints is => (match readStr fo τ sv with | some a => is.any (fun i => a == fmtInt i) | none => false)
  | .str, .floats fs => (match readStr fo τ sv with | some a => fs.any (fun f => a == fo.fmt f) | none => false)
  | _, _ => false

/-- `lo ≤ stored < hi` -/
def satBetween (fo : FloatOps F) (τ : NodeType) (sv : SVal F) (lo hi : Lit F) : Bool :=
  match τ, lo, hi with
  | .time, .time a, .time b | .any, .time a, .time b =>
    (match sv.toTime with | some x => decide (a ≤ x) && decide (x < b) | none => false)
  | .int, .int a, .int b | .any, .int a, .int b =>
    (match sv.toInt with | some x => decide (a ≤ x) && decide (x < b) | none => false)
  | .int, _, _ | .float, _, _ | .any, _, _ =>
    (match readFloat fo τ sv, litFloat fo lo, litFloat fo hi with
     | some x, some a, some b => fo.le a x && fo.lt x b
     | _, _, _ => false)
  | _, _, _ => false

/-- what the left operand of a comparison denotes -/
inductive LhsDen (F : Type) where
  | one (τ : NodeType) (sv : SVal F)
  | any (τ : NodeType) (es : List (SVal F))
  | all (τ : NodeType) (es : List (SVal F))
  | bad

def LhsDen.holds (d : LhsDen F) (p : NodeType → SVal F → Bool) : Bool :=
  match d with
  | .one τ sv => p τ sv
  | .any τ es => es.any (p τ)
  | .all τ es => es.all (p τ)
  | .bad => false

/-- the rows of a sub-query: satisfy the inner filter, then skip / limit -/
def paged {α} (skip limit : Option Int) (l : List α) : List α :=
  let d := l.drop (pagingOffset skip)
  match pagingLimit limit with
  | some k => d.take k
  | none => d

/-- `sort by`: the rows in the order `le` (a stable insertion sort; any other arrangement of the
    same rows would serve: only their number is observable through `count` / `isEmpty`) -/
def insertBy {α} (le : α → α → Bool) (x : α) : List α → List α
  | [] => [x]
  | y :: ys => if le x y then x :: y :: ys else y :: insertBy le x ys

def sortBy {α} (le : α → α → Bool) : List α → List α
  | [] => []
  | x :: xs => insertBy le x (sortBy le xs)

/-- the rows a sub-query `from n where …` ranges over: the linked entities; a null link is no row -/
def liveRows (w : World C F) (c : C) (n : String) : List C :=
  (w.subRows c n).filter fun c' => !w.nilRow c'

def symType (sg : Sigma T) (t : T) (n : String) : NodeType :=
  match sg.sym t n with
  | some (τ, _) => τ
  | none => .other

mutual

def lhsDen (sg : Sigma T) (w : World C F) (fo : FloatOps F) : T → C → U F → LhsDen F
  | t, c, .sym n => .one (symType sg t n) (w.val c n)
  | t, c, .setFn .anyOf n => .any (symType sg t n) (w.elems c n)
  | t, c, .setFn .allOf n => .all (symType sg t n) (w.elems c n)
  | _, c, .setFn .count n => .one .int (.int64 (w.elems c n).length)
  | t, c, .setFnSub .count n q so skip limit =>
    (match sg.setTypes t n with
     | some t' => .one .int (.int64 (paged skip limit (sortBy (w.rowLe so) ((liveRows w c n).filter fun c' => sat sg w fo t' c' q))).length)
     | none => .bad)
  | _, _, _ => .bad

/-- **the specification**: row `c` (of entity type `t`) satisfies filter `f` -/
def sat (sg : Sigma T) (w : World C F) (fo : FloatOps F) : T → C → U F → Bool
  | _, _, .boolC b => b
  | _, c, .sym n => (w.val c n).toBool == some true
  | t, c, .cmp op l r => (lhsDen sg w fo t c l).holds fun τ sv => satCmp fo τ op sv r
  | t, c, .inArr l arr => (lhsDen sg w fo t c l).holds fun τ sv => satIn fo τ sv arr
  | t, c, .between l lo hi => (lhsDen sg w fo t c l).holds fun τ sv => satBetween fo τ sv lo hi
  | t, c, .notE e => !sat sg w fo t c e
  | t, c, .unot e => !sat sg w fo t c e
  | t, c, .logic isOr l r => if isOr then sat sg w fo t c l || sat sg w fo t c r else sat sg w fo t c l && sat sg w fo t c r
  | _, c, .setFn .isEmpty n => (w.elems c n).isEmpty
  | t, c, .setFnSub .isEmpty n q so skip limit =>
    (match sg.setTypes t n with
     | some t' => (paged skip limit (sortBy (w.rowLe so) ((liveRows w c n).filter fun c' => sat sg w fo t' c' q))).isEmpty
     | none => false)
  | _, _, _ => false

end

/-! ### well-typed filters (declarative typing) -/

/-- `τ op lit` is well-typed; `nullable` = the left operand is a symbol or an anyOf/allOf element -/
def okCmp (τ : NodeType) (nullable : Bool) (op : Op) (r : Lit F) : Bool :=
  match r with
  | .null => nullable && (op = .eq || op = .ne)
  | _ => (cmpType τ op r).isSome

def okIn (fo : FloatOps F) (τ : NodeType) (arr : Arr F) : Bool :=
  match τ, arrDen fo arr with
  | .time, .times _ | .any, _ | .int, .ints _ | .int, .floats _ | .int, .strs _
  | .float, .ints _ | .float, .floats _ | .float, .strs _
  | .str, .strs _ | .str, .ints _ | .str, .floats _ => true
  | _, _ => false

def isNumLit : Lit F → Bool | .int _ | .float _ => true | _ => false

/-- the sort fields of a sub-query: symbols of the linked entity type that are not sets and have a
    sortable type (bool, datetime, float, int, string) -/
def okSort (sg : Sigma T) (t : T) (so : List (String × Bool)) : Bool :=
  so.all fun f =>
    match sg.sym t f.1 with
    | some (τ, false) => τ ≠ .other && τ ≠ .any
    | _ => false

def okBetween (τ : NodeType) (lo hi : Lit F) : Bool :=
  match τ, lo, hi with
  | .time, .time _, .time _ | .any, .time _, .time _ => true
  | .int, a, b | .float, a, b | .any, a, b => isNumLit a && isNumLit b
  | _, _, _ => false

mutual

/-- the type of a left operand and whether it can be compared with `null`; `none` = ill-formed -/
def lhsType (sg : Sigma T) (fo : FloatOps F) : T → U F → Option (NodeType × Bool)
  | t, .sym n => (match sg.sym t n with | some (τ, false) => if τ = .other then none else some (τ, true) | _ => none)
  | t, .setFn .anyOf n | t, .setFn .allOf n =>
    (match sg.sym t n with | some (τ, true) => if τ = .other then none else some (τ, true) | _ => none)
  | t, .setFn .count n => (match sg.sym t n with | some (τ, true) => if τ = .other then none else some (.int, false) | _ => none)
  | t, .setFnSub .count n q so _ _ =>
    (match sg.sym t n, sg.setTypes t n with
     | some (τ, true), some t' => if τ ≠ .other ∧ wellTyped sg fo t' q ∧ okSort sg t' so then some (.int, false) else none
     | _, _ => none)
  | _, _ => none

/-- a filter the grammar can produce and the documented typing rules accept -/
def wellTyped (sg : Sigma T) (fo : FloatOps F) : T → U F → Bool
  | _, .boolC _ => true
  | t, .sym n => (match sg.sym t n with | some (.bool, false) | some (.any, false) => true | _ => false)
  | t, .cmp op l r => (match lhsType sg fo t l with | some (τ, nl) => okCmp τ nl op r | none => false)
  | t, .inArr l arr => (match lhsType sg fo t l with | some (τ, _) => okIn fo τ arr | none => false)
  | t, .between l lo hi => (match lhsType sg fo t l with | some (τ, _) => okBetween τ lo hi | none => false)
  | t, .notE e => (match e with | .inArr .. | .between .. => true | _ => false) && wellTyped sg fo t e
  | t, .unot e => wellTyped sg fo t e
  | t, .logic _ l r => wellTyped sg fo t l && wellTyped sg fo t r
  | t, .setFn .isEmpty n => (match sg.sym t n with | some (τ, true) => τ ≠ .other | _ => false)
  | t, .setFnSub .isEmpty n q so _ _ =>
    (match sg.sym t n, sg.setTypes t n with
     | some (τ, true), some t' => τ ≠ .other && wellTyped sg fo t' q && okSort sg t' so
     | _, _ => false)
  | _, _ => false

end

end StorageModel.Filter
