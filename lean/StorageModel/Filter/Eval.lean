import StorageModel.Filter.Syntax
/-
  C01 — model of evaluation: `EvalBool / EvalString / EvalInt64 / EvalFloat64 / EvalDatetime` of
  every typed node class (ast/node_expr.go, node_arrays.go, node_set.go, node_symbol.go,
  node_const.go, node_convert.go), over an abstract `ast.Symbols` (a `World`).
-/
set_option linter.unusedVariables false
namespace StorageModel.Filter
open StorageModel

/-- What an `ast.Symbols` implementation exposes, for row contexts `C`.

    * `val c n`     — the stored value `symbol.Eval` yields for a non-set symbol on row `c`;
    * `elems c n`   — the stored values a set symbol yields at the successive positions of the
                      cursor returned by `OpenSetCursor(n)`;
    * `seekable c n`— that cursor implements `TypeSeekableSetCursor`;
    * `subRows c n` — the row contexts (in the linked entity type) of the successive elements of
                      `OpenSetCursor(n)`, as `OpenSetCursorForQuery` visits them;
    * `nilRow c`    — the context stands for an element whose `cursor.Current()` is nil (a null
                      link inside a dotted set symbol): `uniqueIndexScanner` skips it;
    * `rowLe so a b`— the order `sort by so` puts two rows in (`so`: the sort fields, `true` =
                      ascending).  Only the specification mentions it: the scanner behind a
                      sub-query (`newCursorScanner`) never looks at the query's sort fields. -/
structure World (C F : Type) where
  val : C → String → SVal F
  elems : C → String → List (SVal F)
  seekable : C → String → Bool
  subRows : C → String → List C
  nilRow : C → Bool
  rowLe : List (String × Bool) → C → C → Bool := fun _ _ _ => true

variable {C F : Type}

/-- the row's symbol lookup with the set symbol `n` bound to the element under the cursor -/
def bind (lk : String → SVal F) (n : String) (e : SVal F) : String → SVal F :=
  fun m => if m = n then e else lk m

/-- position of `cursor.Seek(PrependFieldType(TypeString, v))` in a bucket holding the elements
    `es` in key order: the first element whose key is ≥ `[5] ++ v`.  Keys with a smaller type byte
    (bool 1, int32 2, int64 3, float64 4) sort before every string key, time (6) and nil (7) after. -/
def keyGe (v : Bytes) : SVal F → Bool
  | .str s => !bytesLt s v
  | .time _ _ => true
  | .nil => true
  | _ => false

def seekTo (es : List (SVal F)) (v : Bytes) : Option (SVal F) := es.find? (keyGe v)

/-- comparison of two present operands with a total order given by `eq`/`lt` (`le` separately
    because IEEE `<=` is not `!(>)`) -/
def cmpWith {α} (eq lt le : α → α → Bool) (op : Op) (a b : α) : Bool :=
  match op with
  | .eq => eq a b
  | .ne => !eq a b
  | .lt => lt a b
  | .le => le a b
  | .gt => lt b a
  | .ge => le b a
  | _ => false            -- "unhandled ... binary expression type": logged, false

/-- the nil rule shared by BinaryDatetime/Float64/Int64ExprNode: a nil operand makes the
    comparison false, except `!=`, which compares the pointers (true iff exactly one is nil; two
    non-nil pointers are always distinct objects, but then this branch is not taken) -/
def nilRule {α} (op : Op) (a b : Option α) : Bool :=
  if op = .ne then a.isSome != b.isSome else false

/-- `uniqueIndexScanner.Next` driven by the `for cursor.IsValid() { result++; cursor.Next() }`
    loop of `CountSetExprNode.EvalInt64` (after `newCursorScanner`, which calls `Next` once):
    the number of rows the scanner yields.  `lim = none` is `math.MaxInt64`. -/
def scanCount (m nil : C → Bool) (targetOffset : Nat) (lim : Option Nat) : List C → Nat → Nat → Nat
  | [], _, _ => 0
  | r :: rest, offset, collected =>
    if (match lim with | some l => decide (collected ≥ l) | none => false) then 0
    else if nil r then
      -- scanner.current == nil: an element without a key is not a row (38978b1)
      scanCount m nil targetOffset lim rest offset collected
    else if m r then
      (if offset < targetOffset then scanCount m nil targetOffset lim rest (offset + 1) collected
       else 1 + scanCount m nil targetOffset lim rest offset (collected + 1))
    else scanCount m nil targetOffset lim rest offset collected

/-- `scanner.setPaging`: negative skip → 0; absent or negative limit → MaxInt64 -/
def pagingOffset (skip : Option Int) : Nat :=
  match skip with
  | some k => k.toNat
  | none => 0

def pagingLimit (limit : Option Int) : Option Nat :=
  match limit with
  | some l => if l < 0 then none else some l.toNat
  | none => none

def constStr (fo : FloatOps F) : Const F → Bytes
  | .str s => s
  | .int i => fmtInt i
  | .float f => fo.fmt f

/-- `BinaryDatetime/Float64/Int64ExprNode.EvalBool` on the evaluated operands -/
def binOrdSem {α} (eq lt le : α → α → Bool) (op : Op) (a b : Option α) : Bool :=
  match a, b with
  | some x, some y => cmpWith eq lt le op x y
  | _, _ => nilRule op a b

/-- `BinaryStringExprNode.EvalBool` on the evaluated operands -/
def binStrSem (op : Op) (a b : Option Bytes) : Bool :=
  match a, b with
  | some x, some y =>
    (match op with
     | .contains => isInfix y x
     | .ncontains => !isInfix y x
     | .icontains | .nicontains => false      -- never stored in a BinaryStringExprNode; "unhandled": false
     | _ => cmpWith (· == ·) bytesLt bytesLe op x y)
  | _, _ =>
    if op = .ne then a.isSome != b.isSome
    else if op = .ncontains ∨ op = .nicontains then true
    else false

/-- `BinaryBoolExprNode.EvalBool` on the evaluated operands -/
def binBoolSem (op : Op) (a b : Bool) : Bool :=
  match op with
  | .eq => a == b
  | .ne => a != b
  | _ => false

/-- `isNilBoolOperand` (ast/node_expr.go): a bool operand that is a symbol whose value is null or
    not a bool -/
def boolOperandNil (lk : String → SVal F) : TNode F → Bool
  | .boolSym n => (lk n).toBool.isNone
  | .anySym n => (lk n).toBool.isNone
  | _ => false

/-- `IsNilExprNode.EvalBool` -/
def isNilSem (op : Op) (sv : SVal F) : Bool :=
  match op with
  | .eq => sv.isNil
  | .ne => !sv.isNil
  | _ => true                                  -- "unhandled binary expression type": logged, true

/-- the `In*ArrayExprNode.EvalBool` loops -/
def inSem {α β} (eq : α → β → Bool) (a : Option α) (arr : List β) : Bool :=
  match a with
  | some x => arr.any (eq x)
  | none => false

/-- the `*BetweenExprNode.EvalBool` bodies -/
def betSem {α} (le lt : α → α → Bool) (a lo hi : Option α) : Bool :=
  match a, lo, hi with
  | some x, some l, some h => le l x && lt x h
  | _, _, _ => false

mutual

/-- `EvalString` -/
def evalStr (w : World C F) (fo : FloatOps F) (c : C) (lk : String → SVal F) : TNode F → Option Bytes
  | .strC s => some s
  | .intC i => some (fmtInt i)
  | .floatC f => some (fo.fmt f)
  | .strSym n => (lk n).toStr fo
  | .anySym n => (lk n).toStr fo
  | .intSym n => ((lk n).toInt).map fmtInt
  | .floatSym n => ((lk n).toFloat fo).map fo.fmt
  | .i2f x => evalStr w fo c lk x
  | .upper e => (evalStr w fo c lk e).map toUpper
  | .count n => some (fmtInt (w.elems c n).length)
  | .countQ n q _ skip limit =>
    some (fmtInt (scanCount (fun c' => evalBool w fo c' (w.val c') q) w.nilRow (pagingOffset skip) (pagingLimit limit)
      (w.subRows c n) 0 0))
  | _ => none

/-- `EvalInt64` -/
def evalInt (w : World C F) (fo : FloatOps F) (c : C) (lk : String → SVal F) : TNode F → Option Int
  | .intC i => some i
  | .intSym n => (lk n).toInt
  | .anySym n => (lk n).toInt
  | .count n => some (w.elems c n).length
  | .countQ n q _ skip limit =>
    some (scanCount (fun c' => evalBool w fo c' (w.val c') q) w.nilRow (pagingOffset skip) (pagingLimit limit)
      (w.subRows c n) 0 0)
  | _ => none

/-- `EvalFloat64` -/
def evalFloat (w : World C F) (fo : FloatOps F) (c : C) (lk : String → SVal F) : TNode F → Option F
  | .floatC f => some f
  | .floatSym n => (lk n).toFloat fo
  | .anySym n => (lk n).toFloat fo
  | .i2f x => (evalInt w fo c lk x).map fo.ofInt
  | _ => none

/-- `EvalDatetime` -/
def evalTime (w : World C F) (fo : FloatOps F) (c : C) (lk : String → SVal F) : TNode F → Option Int
  | .timeC t => some t
  | .timeSym n => (lk n).toTime
  | .anySym n => (lk n).toTime
  | _ => none

/-- `EvalBool` -/
def evalBool (w : World C F) (fo : FloatOps F) (c : C) (lk : String → SVal F) : TNode F → Bool
  | .boolC b => b
  | .boolSym n => (lk n).toBool == some true         -- result != nil && *result
  | .anySym n => (lk n).toBool == some true
  | .not e => !evalBool w fo c lk e
  | .and l r => if !evalBool w fo c lk l then false else evalBool w fo c lk r
  | .or l r => if evalBool w fo c lk l then true else evalBool w fo c lk r
  | .binBool op l r =>
    -- the null rule of the other typed comparisons, then the comparison of the two bools
    if boolOperandNil lk l || boolOperandNil lk r then
      (if op = .ne then boolOperandNil lk l != boolOperandNil lk r else false)
    else binBoolSem op (evalBool w fo c lk l) (evalBool w fo c lk r)
  | .binTime op l r =>
    binOrdSem (· == ·) (· < ·) (· ≤ ·) op (evalTime w fo c lk l) (evalTime w fo c lk r)
  | .binFloat op l r => binOrdSem fo.eq fo.lt fo.le op (evalFloat w fo c lk l) (evalFloat w fo c lk r)
  | .binInt op l r =>
    binOrdSem (· == ·) (· < ·) (· ≤ ·) op (evalInt w fo c lk l) (evalInt w fo c lk r)
  | .binStr op l r => binStrSem op (evalStr w fo c lk l) (evalStr w fo c lk r)
  | .isNil n op => isNilSem op (lk n)
  | .inStr l arr => inSem (fun a k => a == constStr fo k) (evalStr w fo c lk l) arr
  | .inInt l arr => inSem (· == ·) (evalInt w fo c lk l) arr
  | .inFloat l arr => inSem fo.eq (evalFloat w fo c lk l) arr
  | .inTime l arr => inSem (· == ·) (evalTime w fo c lk l) arr
  | .betInt l lo hi =>
    betSem (fun a b => decide (a ≤ b)) (fun a b => decide (a < b))
      (evalInt w fo c lk l) (evalInt w fo c lk lo) (evalInt w fo c lk hi)
  | .betFloat l lo hi =>
    betSem fo.le fo.lt (evalFloat w fo c lk l) (evalFloat w fo c lk lo) (evalFloat w fo c lk hi)
  | .betTime l lo hi =>
    betSem (fun a b => decide (a ≤ b)) (fun a b => decide (a < b))
      (evalTime w fo c lk l) (evalTime w fo c lk lo) (evalTime w fo c lk hi)
  | .allOf n p => (w.elems c n).all fun e => evalBool w fo c (bind lk n e) p
  | .anyOf n p => (w.elems c n).any fun e => evalBool w fo c (bind lk n e) p
  | .anyOfS n op l r =>
    -- AnyOfSetExprNode{predicate = seekablePredicate = BinaryStringExprNode{op, l, r}}
    if w.seekable c n then
      -- BinaryStringExprNode.EvalBoolWithSeek
      (match evalStr w fo c lk r with
       | some v =>
         (match seekTo (w.elems c n) v with
          | some e => binStrSem op (evalStr w fo c (bind lk n e) l) (evalStr w fo c (bind lk n e) r)
          | none => false)
       | none => false)
    else (w.elems c n).any fun e =>
      binStrSem op (evalStr w fo c (bind lk n e) l) (evalStr w fo c (bind lk n e) r)
  | .isEmpty n => (w.elems c n).isEmpty
  | .isEmptyQ n q _ skip limit =>
    scanCount (fun c' => evalBool w fo c' (w.val c') q) w.nilRow (pagingOffset skip) (pagingLimit limit)
      (w.subRows c n) 0 0 == 0
  | _ => false

end

/-- `queryNode.EvalBool` on a row -/
def evalRow (w : World C F) (fo : FloatOps F) (c : C) (t : TNode F) : Bool :=
  evalBool w fo c (w.val c) t

end StorageModel.Filter
