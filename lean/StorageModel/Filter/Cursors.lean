import StorageModel.Filter.Eval
/-
  C01 — the cursor state behind set functions and sub-queries, as the code keeps it.

  `Eval.lean` reads a set symbol as a list (`w.elems c n`, `w.subRows c n`).  In the code that list is a walk
  over a *stateful object*: `BaseStore.GetSymbol` hands out a runtime copy of a set symbol
  (`entitySetSymbolRuntime{cursor, value}` / `compositeEntitySetSymbol{cursor}`), `rowCursorImpl.getSymbol` keeps it
  in the `symbolCache` of the row cursor, `OpenSetCursor(name)` / `OpenSetCursorForQuery(name, q)` re-position that one
  object (`OpenCursor(tx, currentRow)`), and the loops of `AnyOfSetExprNode` / `AllOfSetExprNode` /
  `CountSetExprNode.EvalInt64` / `uniqueIndexScanner.Next` advance it (`cursor.Next()`) while they evaluate other
  nodes in between.  The list reading is right only if nothing evaluated in between moves the object.

  Here the objects live in a heap keyed by (row cursor, symbol name) — one `symbolCache` entry each.  A sub-query
  scanner (`newCursorScanner`) evaluates its rows with a row cursor of its own (`newRowCursor(store, tx)`): `alloc`
  names it.  `run_fresh_eq_eval`: whenever the sub-scan's row cursor is not one an enclosing scan uses, the walk over
  the heap computes exactly the list semantics — for every filter, also when the sub-query ranges over the entity
  type being scanned and its predicate opens the very set symbol the sub-query iterates (a self-referential link set).
  `shared_cache_differs`: with the caches shared the inner use re-positions the outer walk.
-/
set_option linter.unusedVariables false
namespace StorageModel.Filter
open StorageModel

variable {C F : Type}

/-- the position of one runtime set-symbol object: what is left of its bolt cursor, seen as elements
    (`Current()` / `Eval` of the element under the cursor) and as the rows a sub-query scanner takes from it -/
structure CurState (C F : Type) where
  elems : List (SVal F)
  rows : List C

/-- (row cursor, symbol name): one entry of one `symbolCache` -/
abbrev ObjKey := Nat × String
abbrev Heap (C F : Type) := ObjKey → CurState C F

def Heap.init : Heap C F := fun _ => ⟨[], []⟩
def Heap.set (h : Heap C F) (k : ObjKey) (v : CurState C F) : Heap C F := fun k' => if k' = k then v else h k'

/-- `setRowSymbol.OpenCursor(rs.tx, rs.currentRow)`: the object of `n` in row cursor `rc` is positioned at the
    first element of the set of row `c` (whatever it was positioned at before) -/
def openCur (w : World C F) (h : Heap C F) (rc : Nat) (c : C) (n : String) : Heap C F :=
  h.set (rc, n) ⟨w.elems c n, w.subRows c n⟩

/-- `cursor.Next()` -/
def nextElem (h : Heap C F) (k : ObjKey) : Heap C F := h.set k ⟨(h k).elems.tail, (h k).rows.tail⟩

/-- the loops of `AnyOfSetExprNode.EvalBool` (stop = predicate), `AllOfSetExprNode.EvalBool` (stop = ¬predicate)
    and `CountSetExprNode.EvalInt64` (never stops): `for cursor.IsValid() { if stop(element under the cursor) {
    return }; cursor.Next() }`, reading the object in the heap on every round.  Result: (rounds completed, stopped). -/
def elemLoop (stop : SVal F → Bool) (k : ObjKey) : Nat → Heap C F → (Nat × Bool) × Heap C F
  | 0, h => ((0, false), h)
  | fuel + 1, h =>
    match (h k).elems with
    | [] => ((0, false), h)
    | e :: _ =>
      if stop e then ((0, true), h)
      else ((((elemLoop stop k fuel (nextElem h k)).1.1 + 1), (elemLoop stop k fuel (nextElem h k)).1.2),
            (elemLoop stop k fuel (nextElem h k)).2)

/-- the same walk over a list -/
def walk (stop : SVal F → Bool) : List (SVal F) → Nat × Bool
  | [] => (0, false)
  | e :: es => if stop e then (0, true) else ((walk stop es).1 + 1, (walk stop es).2)

theorem walk_any (stop : SVal F → Bool) (es : List (SVal F)) : (walk stop es).2 = es.any stop := by
  induction es with
  | nil => rfl
  | cons e es ih => by_cases h : stop e = true <;> simp [walk, h, ih]

theorem walk_all (p : SVal F → Bool) (es : List (SVal F)) : (!(walk (fun e => !p e) es).2) = es.all p := by
  induction es with
  | nil => rfl
  | cons e es ih =>
    by_cases h : p e = true
    · simp only [walk, h, Bool.not_true, List.all_cons, Bool.true_and]
      simpa using ih
    · simp [walk, h]

theorem walk_count (es : List (SVal F)) : (walk (fun _ => false) es).1 = es.length := by
  induction es with
  | nil => rfl
  | cons e es ih => simp [walk, ih]

/-- `scanner.collected >= scanner.targetLimit` -/
def limHit (lim : Option Nat) (collected : Nat) : Bool :=
  match lim with | some l => decide (collected ≥ l) | none => false

/-- `uniqueIndexScanner.Next`, called once by `newCursorScanner` and then by the loop of the set function, as one
    loop over the object `k` the scanner was given: `current = cursor.Current(); cursor.Next()` *before* the row is
    evaluated with the scanner's own row cursor (`runq`, which may open any object it can reach) -/
def scanLoop (runq : C → Heap C F → Bool × Heap C F) (nil : C → Bool) (k : ObjKey) (targetOffset : Nat)
    (lim : Option Nat) : Nat → Nat → Nat → Heap C F → Nat × Heap C F
  | 0, _, _, h => (0, h)
  | fuel + 1, offset, collected, h =>
    match (h k).rows with
    | [] => (0, h)
    | r :: _ =>
      if limHit lim collected then (0, h)
      else if nil r then scanLoop runq nil k targetOffset lim fuel offset collected (nextElem h k)
      else if (runq r (nextElem h k)).1 then
        (if offset < targetOffset then
           scanLoop runq nil k targetOffset lim fuel (offset + 1) collected (runq r (nextElem h k)).2
         else (1 + (scanLoop runq nil k targetOffset lim fuel offset (collected + 1) (runq r (nextElem h k)).2).1,
               (scanLoop runq nil k targetOffset lim fuel offset (collected + 1) (runq r (nextElem h k)).2).2))
      else scanLoop runq nil k targetOffset lim fuel offset collected (runq r (nextElem h k)).2

/-- the scan skeleton of a typed filter: where cursors are opened and walked.  `atom`: a part that opens no
    cursor; `anyOf` / `allOf`: the predicate reads the row's symbols and the element under the cursor
    (`runtime.Eval`); `count` / `countQ`: the continuation is the comparison the count is used in -/
inductive Sk (C F : Type) where
  | atom (p : C → Bool)
  | not (a : Sk C F)
  | and (a b : Sk C F)
  | or (a b : Sk C F)
  | anyOf (n : String) (p : C → SVal F → Bool)
  | allOf (n : String) (p : C → SVal F → Bool)
  | count (n : String) (k : Nat → Bool)
  | isEmpty (n : String)
  | countQ (n : String) (q : Sk C F) (skip limit : Option Int) (k : Nat → Bool)
  | isEmptyQ (n : String) (q : Sk C F) (skip limit : Option Int)

/-- the list semantics (what `evalBool` computes, see `skOf_eval`) -/
def Sk.eval (w : World C F) : Sk C F → C → Bool
  | .atom p, c => p c
  | .not a, c => !a.eval w c
  | .and a b, c => if !a.eval w c then false else b.eval w c
  | .or a b, c => if a.eval w c then true else b.eval w c
  | .anyOf n p, c => (w.elems c n).any (p c)
  | .allOf n p, c => (w.elems c n).all (p c)
  | .count n k, c => k (w.elems c n).length
  | .isEmpty n, c => (w.elems c n).isEmpty
  | .countQ n q skip limit k, c =>
    k (scanCount (fun c' => q.eval w c') w.nilRow (pagingOffset skip) (pagingLimit limit) (w.subRows c n) 0 0)
  | .isEmptyQ n q skip limit, c =>
    scanCount (fun c' => q.eval w c') w.nilRow (pagingOffset skip) (pagingLimit limit) (w.subRows c n) 0 0 == 0

/-- evaluation over the heap of runtime objects, by the row cursor `rc` positioned on row `c`.
    `alloc rc c n`: the row cursor of the scanner `OpenSetCursorForQuery(n, q)` creates. -/
def Sk.run (w : World C F) (alloc : Nat → C → String → Nat) : Sk C F → Nat → C → Heap C F → Bool × Heap C F
  | .atom p, _, c, h => (p c, h)
  | .not a, rc, c, h => (!(a.run w alloc rc c h).1, (a.run w alloc rc c h).2)
  | .and a b, rc, c, h =>
    if !(a.run w alloc rc c h).1 then (false, (a.run w alloc rc c h).2) else b.run w alloc rc c (a.run w alloc rc c h).2
  | .or a b, rc, c, h =>
    if (a.run w alloc rc c h).1 then (true, (a.run w alloc rc c h).2) else b.run w alloc rc c (a.run w alloc rc c h).2
  | .anyOf n p, rc, c, h =>
    ((elemLoop (p c) (rc, n) (w.elems c n).length (openCur w h rc c n)).1.2,
     (elemLoop (p c) (rc, n) (w.elems c n).length (openCur w h rc c n)).2)
  | .allOf n p, rc, c, h =>
    (!(elemLoop (fun e => !p c e) (rc, n) (w.elems c n).length (openCur w h rc c n)).1.2,
     (elemLoop (fun e => !p c e) (rc, n) (w.elems c n).length (openCur w h rc c n)).2)
  | .count n k, rc, c, h =>
    (k (elemLoop (fun _ => false) (rc, n) (w.elems c n).length (openCur w h rc c n)).1.1,
     (elemLoop (fun _ => false) (rc, n) (w.elems c n).length (openCur w h rc c n)).2)
  | .isEmpty n, rc, c, h => (((openCur w h rc c n) (rc, n)).elems.isEmpty, openCur w h rc c n)
  | .countQ n q skip limit k, rc, c, h =>
    (k (scanLoop (fun c' => q.run w alloc (alloc rc c n) c') w.nilRow (rc, n) (pagingOffset skip) (pagingLimit limit)
          (w.subRows c n).length 0 0 (openCur w h rc c n)).1,
     (scanLoop (fun c' => q.run w alloc (alloc rc c n) c') w.nilRow (rc, n) (pagingOffset skip) (pagingLimit limit)
          (w.subRows c n).length 0 0 (openCur w h rc c n)).2)
  | .isEmptyQ n q skip limit, rc, c, h =>
    ((scanLoop (fun c' => q.run w alloc (alloc rc c n) c') w.nilRow (rc, n) (pagingOffset skip) (pagingLimit limit)
          (w.subRows c n).length 0 0 (openCur w h rc c n)).1 == 0,
     (scanLoop (fun c' => q.run w alloc (alloc rc c n) c') w.nilRow (rc, n) (pagingOffset skip) (pagingLimit limit)
          (w.subRows c n).length 0 0 (openCur w h rc c n)).2)

/-! ### the walk over the heap is the walk over the list, as long as nobody else moves the object -/

theorem nextElem_same (h : Heap C F) (k : ObjKey) :
    (nextElem h k k).elems = (h k).elems.tail ∧ (nextElem h k k).rows = (h k).rows.tail := by
  simp [nextElem, Heap.set]

theorem nextElem_other (h : Heap C F) (k k' : ObjKey) (hk : k' ≠ k) : nextElem h k k' = h k' := by
  simp [nextElem, Heap.set, hk]

theorem elemLoop_spec (stop : SVal F → Bool) (k : ObjKey) :
    ∀ (fuel : Nat) (h : Heap C F), (h k).elems.length ≤ fuel →
      (elemLoop stop k fuel h).1 = walk stop (h k).elems ∧ ∀ k', k' ≠ k → (elemLoop stop k fuel h).2 k' = h k' := by
  intro fuel
  induction fuel with
  | zero =>
    intro h hl
    have he : (h k).elems = [] := List.eq_nil_of_length_eq_zero (Nat.le_zero.mp hl)
    simp [elemLoop, he, walk]
  | succ fuel ih =>
    intro h hl
    cases hE : (h k).elems with
    | nil => simp [elemLoop, hE, walk]
    | cons e rest =>
      have hn : (nextElem h k k).elems = rest := by rw [(nextElem_same h k).1, hE]; rfl
      have hl' : (nextElem h k k).elems.length ≤ fuel := by
        rw [hn]; rw [hE] at hl; simp only [List.length_cons] at hl; omega
      obtain ⟨h1, h2⟩ := ih (nextElem h k) hl'
      by_cases hs : stop e = true
      · simp [elemLoop, hE, walk, hs]
      · simp only [elemLoop, hE, walk, hs, h1, hn, Bool.false_eq_true, if_false, true_and]
        intro k' hk
        rw [h2 k' hk, nextElem_other h k k' hk]

/-- the frame a stateful row predicate must respect for the scan at row cursor `rc`: it answers `m`, whatever the
    heap, and leaves the objects of the row cursors `≤ rc` alone -/
def Frames (runq : C → Heap C F → Bool × Heap C F) (m : C → Bool) (rc : Nat) : Prop :=
  ∀ r h, (runq r h).1 = m r ∧ ∀ k' : ObjKey, k'.1 ≤ rc → (runq r h).2 k' = h k'

theorem scanCount_cons (m nil : C → Bool) (tOff : Nat) (lim : Option Nat) (r : C) (rest : List C) (offset collected : Nat) :
    scanCount m nil tOff lim (r :: rest) offset collected =
      if limHit lim collected then 0
      else if nil r then scanCount m nil tOff lim rest offset collected
      else if m r then
        (if offset < tOff then scanCount m nil tOff lim rest (offset + 1) collected
         else 1 + scanCount m nil tOff lim rest offset (collected + 1))
      else scanCount m nil tOff lim rest offset collected := by
  cases lim <;> simp [scanCount, limHit]

theorem scanLoop_spec (runq : C → Heap C F → Bool × Heap C F) (m nil : C → Bool) (rc : Nat) (n : String)
    (tOff : Nat) (lim : Option Nat) (hf : Frames runq m rc) :
    ∀ (fuel offset collected : Nat) (h : Heap C F), (h (rc, n)).rows.length ≤ fuel →
      (scanLoop runq nil (rc, n) tOff lim fuel offset collected h).1 = scanCount m nil tOff lim (h (rc, n)).rows offset collected ∧
      ∀ k' : ObjKey, k'.1 < rc → (scanLoop runq nil (rc, n) tOff lim fuel offset collected h).2 k' = h k' := by
  intro fuel
  induction fuel with
  | zero =>
    intro offset collected h hl
    have he : (h (rc, n)).rows = [] := List.eq_nil_of_length_eq_zero (Nat.le_zero.mp hl)
    simp [scanLoop, he, scanCount]
  | succ fuel ih =>
    intro offset collected h hl
    cases hE : (h (rc, n)).rows with
    | nil => simp [scanLoop, hE, scanCount]
    | cons r rest =>
      have hn : (nextElem h (rc, n) (rc, n)).rows = rest := by rw [(nextElem_same h (rc, n)).2, hE]; rfl
      have hlen : rest.length ≤ fuel := by rw [hE] at hl; simp only [List.length_cons] at hl; omega
      have hne : ∀ k' : ObjKey, k'.1 < rc → k' ≠ (rc, n) := by
        intro k' hk he; rw [he] at hk; exact Nat.lt_irrefl _ hk
      -- the heap after the row has been evaluated: the scanner's object is where `cursor.Next()` left it
      have hq := hf r (nextElem h (rc, n))
      have hrows2 : ((runq r (nextElem h (rc, n))).2 (rc, n)).rows = rest := by
        rw [hq.2 (rc, n) (Nat.le_refl rc), hn]
      have hframe2 : ∀ k' : ObjKey, k'.1 < rc → (runq r (nextElem h (rc, n))).2 k' = h k' := by
        intro k' hk
        rw [hq.2 k' (Nat.le_of_lt hk), nextElem_other h (rc, n) k' (hne k' hk)]
      have ih1 := fun o c => ih o c (nextElem h (rc, n)) (by rw [hn]; exact hlen)
      have ih2 := fun o c => ih o c (runq r (nextElem h (rc, n))).2 (by rw [hrows2]; exact hlen)
      simp only [hn] at ih1
      simp only [hrows2] at ih2
      simp only [scanLoop, hE, scanCount_cons, hq.1]
      by_cases hlim : limHit lim collected = true
      · simp [hlim]
      · simp only [hlim, Bool.false_eq_true, if_false]
        by_cases hnil : nil r = true
        · simp only [hnil, if_true]
          refine ⟨(ih1 offset collected).1, fun k' hk => ?_⟩
          rw [(ih1 offset collected).2 k' hk, nextElem_other h (rc, n) k' (hne k' hk)]
        · simp only [hnil, Bool.false_eq_true, if_false]
          by_cases hm : m r = true
          · simp only [hm, if_true]
            by_cases ho : offset < tOff
            · simp only [ho, if_true]
              refine ⟨(ih2 (offset + 1) collected).1, fun k' hk => ?_⟩
              rw [(ih2 (offset + 1) collected).2 k' hk, hframe2 k' hk]
            · simp only [ho, if_false]
              refine ⟨by rw [(ih2 offset (collected + 1)).1], fun k' hk => ?_⟩
              rw [(ih2 offset (collected + 1)).2 k' hk, hframe2 k' hk]
          · simp only [hm, Bool.false_eq_true, if_false]
            refine ⟨(ih2 offset collected).1, fun k' hk => ?_⟩
            rw [(ih2 offset collected).2 k' hk, hframe2 k' hk]

theorem openCur_same (w : World C F) (h : Heap C F) (rc : Nat) (c : C) (n : String) :
    (openCur w h rc c n (rc, n)).elems = w.elems c n ∧ (openCur w h rc c n (rc, n)).rows = w.subRows c n := by
  simp [openCur, Heap.set]

theorem openCur_frame (w : World C F) (h : Heap C F) (rc : Nat) (c : C) (n : String) (k' : ObjKey) (hk : k'.1 < rc) :
    openCur w h rc c n k' = h k' := by
  have : k' ≠ (rc, n) := by intro he; rw [he] at hk; exact Nat.lt_irrefl _ hk
  simp [openCur, Heap.set, this]

/-- **Per-scan cursor state.**  If the row cursor of every sub-query scanner is none an enclosing scan uses
    (`newCursorScanner` creates one: `newRowCursor(store, tx)`, with an empty `symbolCache`), then for every filter
    skeleton, every row cursor, every row and every heap (whatever earlier evaluations left in it) the evaluation over
    the runtime objects answers what the list semantics says, and leaves the objects of the enclosing scans where
    they were.  No proviso on the entity types: the sub-query may range over the type being scanned and its
    predicate may open the set symbol the sub-query iterates, at any depth. -/
theorem run_fresh_eq_eval (w : World C F) (alloc : Nat → C → String → Nat) (hfresh : ∀ rc c n, rc < alloc rc c n)
    (sk : Sk C F) : ∀ (rc : Nat) (c : C) (h : Heap C F),
      (sk.run w alloc rc c h).1 = sk.eval w c ∧ ∀ k' : ObjKey, k'.1 < rc → (sk.run w alloc rc c h).2 k' = h k' := by
  induction sk with
  | atom p => intro rc c h; simp [Sk.run, Sk.eval]
  | not a ih => intro rc c h; simp only [Sk.run, Sk.eval, (ih rc c h).1]; exact ⟨trivial, (ih rc c h).2⟩
  | and a b iha ihb =>
    intro rc c h
    simp only [Sk.run, Sk.eval, (iha rc c h).1]
    by_cases ha : a.eval w c = true
    · simp only [ha, Bool.not_true, Bool.false_eq_true, if_false]
      refine ⟨(ihb rc c _).1, fun k' hk => ?_⟩
      rw [(ihb rc c _).2 k' hk, (iha rc c h).2 k' hk]
    · simp only [ha, Bool.not_false, if_true]
      exact ⟨trivial, (iha rc c h).2⟩
  | or a b iha ihb =>
    intro rc c h
    simp only [Sk.run, Sk.eval, (iha rc c h).1]
    by_cases ha : a.eval w c = true
    · simp only [ha, if_true]
      exact ⟨trivial, (iha rc c h).2⟩
    · simp only [ha, Bool.false_eq_true, if_false]
      refine ⟨(ihb rc c _).1, fun k' hk => ?_⟩
      rw [(ihb rc c _).2 k' hk, (iha rc c h).2 k' hk]
  | anyOf n p =>
    intro rc c h
    have hs := elemLoop_spec (C := C) (p c) (rc, n) (w.elems c n).length (openCur w h rc c n)
      (by rw [(openCur_same w h rc c n).1]; exact Nat.le_refl _)
    rw [(openCur_same w h rc c n).1] at hs
    simp only [Sk.run, Sk.eval, hs.1, walk_any]
    refine ⟨trivial, fun k' hk => ?_⟩
    have : k' ≠ (rc, n) := by intro he; rw [he] at hk; exact Nat.lt_irrefl _ hk
    rw [hs.2 k' this, openCur_frame w h rc c n k' hk]
  | allOf n p =>
    intro rc c h
    have hs := elemLoop_spec (C := C) (fun e => !p c e) (rc, n) (w.elems c n).length (openCur w h rc c n)
      (by rw [(openCur_same w h rc c n).1]; exact Nat.le_refl _)
    rw [(openCur_same w h rc c n).1] at hs
    simp only [Sk.run, Sk.eval, hs.1, walk_all (p c)]
    refine ⟨trivial, fun k' hk => ?_⟩
    have : k' ≠ (rc, n) := by intro he; rw [he] at hk; exact Nat.lt_irrefl _ hk
    rw [hs.2 k' this, openCur_frame w h rc c n k' hk]
  | count n k =>
    intro rc c h
    have hs := elemLoop_spec (C := C) (fun _ => false) (rc, n) (w.elems c n).length (openCur w h rc c n)
      (by rw [(openCur_same w h rc c n).1]; exact Nat.le_refl _)
    rw [(openCur_same w h rc c n).1] at hs
    simp only [Sk.run, Sk.eval, hs.1, walk_count]
    refine ⟨trivial, fun k' hk => ?_⟩
    have : k' ≠ (rc, n) := by intro he; rw [he] at hk; exact Nat.lt_irrefl _ hk
    rw [hs.2 k' this, openCur_frame w h rc c n k' hk]
  | isEmpty n =>
    intro rc c h
    simp only [Sk.run, Sk.eval, (openCur_same w h rc c n).1]
    exact ⟨trivial, fun k' hk => openCur_frame w h rc c n k' hk⟩
  | countQ n q skip limit k ih =>
    intro rc c h
    have hf : Frames (fun c' => q.run w alloc (alloc rc c n) c') (fun c' => q.eval w c') rc := by
      intro r h'
      exact ⟨(ih (alloc rc c n) r h').1, fun k' hk => (ih (alloc rc c n) r h').2 k' (Nat.lt_of_le_of_lt hk (hfresh rc c n))⟩
    have hs := scanLoop_spec _ _ w.nilRow rc n (pagingOffset skip) (pagingLimit limit) hf (w.subRows c n).length 0 0
      (openCur w h rc c n) (by rw [(openCur_same w h rc c n).2]; exact Nat.le_refl _)
    rw [(openCur_same w h rc c n).2] at hs
    simp only [Sk.run, Sk.eval, hs.1]
    refine ⟨trivial, fun k' hk => ?_⟩
    rw [hs.2 k' hk, openCur_frame w h rc c n k' hk]
  | isEmptyQ n q skip limit ih =>
    intro rc c h
    have hf : Frames (fun c' => q.run w alloc (alloc rc c n) c') (fun c' => q.eval w c') rc := by
      intro r h'
      exact ⟨(ih (alloc rc c n) r h').1, fun k' hk => (ih (alloc rc c n) r h').2 k' (Nat.lt_of_le_of_lt hk (hfresh rc c n))⟩
    have hs := scanLoop_spec _ _ w.nilRow rc n (pagingOffset skip) (pagingLimit limit) hf (w.subRows c n).length 0 0
      (openCur w h rc c n) (by rw [(openCur_same w h rc c n).2]; exact Nat.le_refl _)
    rw [(openCur_same w h rc c n).2] at hs
    simp only [Sk.run, Sk.eval, hs.1]
    refine ⟨trivial, fun k' hk => ?_⟩
    rw [hs.2 k' hk, openCur_frame w h rc c n k' hk]

/-- `newCursorScanner(rs.tx, linkedType, setCursor, query)`: a new row cursor for every sub-query scan -/
def freshAlloc : Nat → C → String → Nat := fun rc _ _ => rc + 1

/-! ### the skeleton of a typed filter -/

/-- where a typed filter opens cursors.  Set functions that sit inside other operand positions (a count inside
    `in [...]` / `between` / a string comparison, the seek form `anyOfS`) stay inside an atom: they are then read by
    the list semantics directly. -/
def skOf (w : World C F) (fo : FloatOps F) : TNode F → Sk C F
  | .not e => .not (skOf w fo e)
  | .and l r => .and (skOf w fo l) (skOf w fo r)
  | .or l r => .or (skOf w fo l) (skOf w fo r)
  | .isEmpty n => .isEmpty n
  | .isEmptyQ n q _ skip limit => .isEmptyQ n (skOf w fo q) skip limit
  | .anyOf n p => .anyOf n (fun c e => evalBool w fo c (bind (w.val c) n e) p)
  | .allOf n p => .allOf n (fun c e => evalBool w fo c (bind (w.val c) n e) p)
  | .binInt op (.count n) (.intC k) =>
    .count n (fun cnt => binOrdSem (· == ·) (· < ·) (· ≤ ·) op (some (cnt : Int)) (some k))
  | .binInt op (.countQ n q _ skip limit) (.intC k) =>
    .countQ n (skOf w fo q) skip limit (fun cnt => binOrdSem (· == ·) (· < ·) (· ≤ ·) op (some (cnt : Int)) (some k))
  | t => .atom (fun c => evalBool w fo c (w.val c) t)

/-- the list semantics of the skeleton is `EvalBool` of the typed filter -/
theorem skOf_eval (w : World C F) (fo : FloatOps F) (t : TNode F) :
    ∀ c, (skOf w fo t).eval w c = evalBool w fo c (w.val c) t := by
  fun_induction skOf w fo t <;> intro c <;> simp [Sk.eval, evalBool, evalInt, *]

/-- `queryNode.EvalBool` on a row, evaluated over the heap of runtime objects by row cursor `rc` -/
def evalRowS (w : World C F) (fo : FloatOps F) (alloc : Nat → C → String → Nat) (rc : Nat) (c : C) (t : TNode F)
    (h : Heap C F) : Bool × Heap C F :=
  (skOf w fo t).run w alloc rc c h

/-- with a row cursor of its own for every sub-query scan, the evaluation over the runtime objects is `evalRow`,
    whatever earlier rows left in the heap -/
theorem evalRowS_fresh (w : World C F) (fo : FloatOps F) (alloc : Nat → C → String → Nat)
    (hfresh : ∀ rc c n, rc < alloc rc c n) (rc : Nat) (c : C) (t : TNode F) (h : Heap C F) :
    (evalRowS w fo alloc rc c t h).1 = evalRow w fo c t := by
  unfold evalRowS evalRow
  rw [(run_fresh_eq_eval w alloc hfresh (skOf w fo t) rc c h).1, skOf_eval]

end StorageModel.Filter
