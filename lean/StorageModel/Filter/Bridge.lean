import StorageModel.Filter.Lemmas
/-
  C01 — typed node chosen by node_convert.go + its EvalBool = the specification's comparison,
  for every operand type × operator × literal (and array, and bounds).
-/
set_option linter.unusedSimpArgs false
namespace StorageModel.Filter
open StorageModel
variable {C F T : Type}

/-- the typed symbol node `UntypedSymbolNode.TypeTransform` produces for a symbol of type `τ` -/
def symNode : NodeType → String → TNode F
  | .str, n => .strSym n | .bool, n => .boolSym n | .int, n => .intSym n
  | .float, n => .floatSym n | .time, n => .timeSym n | .any, n => .anySym n
  | .other, _ => .nullC

theorem typedSym_eq (sg : Sigma T) (t : T) (n : String) (τ : NodeType) (b : Bool)
    (h : sg.sym t n = some (τ, b)) (hτ : τ ≠ .other) :
    typedSym (F := F) sg t n = .ok (symNode τ n) := by
  cases τ <;> simp_all [typedSym, symNode]

theorem symNode_name (τ : NodeType) (n : String) (hτ : τ ≠ .other) :
    (symNode (F := F) τ n).symName? = some n := by
  cases τ <;> simp_all [symNode, TNode.symName?]

theorem splitSetFn_symNode (b : Bool) (τ : NodeType) (n : String) :
    splitSetFn b (symNode (F := F) τ n) = (symNode τ n, none) := by
  cases τ <;> rfl

/-! ### comparisons -/

/-- the statement of the comparison bridge for a symbol of type `τ` -/
def CmpSymStmt (C : Type) (fo : FloatOps F) (τ : NodeType) (n : String) (op : Op) (r : Lit F) : Prop :=
  ∃ p, getTypedExpr fo op (symNode τ n) (litNode r) = .ok p ∧ p.isBoolNode = true ∧
    (∀ (w : World C F) c lk, evalBool w fo c lk p = satCmp fo τ op (lk n) r) ∧
    (∀ op' l' r', p = .binStr op' l' r' → isSeekableOp op' l' r' = true →
      op' = .eq ∧ ∃ v, ∀ (w : World C F) c lk,
        evalStr w fo c lk r' = some v ∧ evalStr w fo c lk l' = (lk n).toStr fo)

macro "cmp_unfold" : tactic => `(tactic|
  simp_all [CmpSymStmt, okCmp, cmpType, symNode, litNode, getTypedExpr, handleStringOps, TNode.symName?,
      TNode.isStringNode, TNode.isInt64Node, TNode.isFloat64Node, TNode.isDatetimeNode,
      TNode.getType, TNode.isBoolNode, upperNode, toFloat64, isSeekableOp, TNode.seekableStr, TNode.isStrSym, TNode.isConst])

macro "sem_simp" : tactic => `(tactic|
  simp_all [bne, boolOperandNil, withNull, strCmp, ordCmp, cmpWith, binStrSem, binOrdSem, binBoolSem, nilRule, isNilSem,
    evalBool, evalStr, evalInt, evalFloat, evalTime, satCmp, cmpType, readStr, readFloat,
    litStr, litInt, litFloat, litTime, litBool])

macro "cmp_finish" fo:term:max n:term:max : tactic => `(tactic|
  first
  | (sem_simp; done)
  | ((first
      | (refine ⟨?_, ⟨_, fun w c lk => ⟨rfl, rfl⟩⟩⟩)
      | skip) <;>
     intro w c lk <;>
      first
      | (sem_simp; done)
      | (cases hx : (lk $n).toStr $fo <;> sem_simp; done)
      | (cases hx : (lk $n).toInt <;> sem_simp; done)
      | (cases hx : (lk $n).toFloat $fo <;> sem_simp; done)
      | (cases hx : (lk $n).toTime <;> sem_simp; done)
      | (cases hx : (lk $n).toBool <;> sem_simp; done)))

set_option maxHeartbeats 1600000 in
theorem cmp_sym_str (fo : FloatOps F) (n : String) (op : Op) (r : Lit F)
    (h : okCmp .str true op r = true) : CmpSymStmt C fo .str n op r := by
  cases op <;> cases r <;> cmp_unfold <;> cmp_finish fo n

set_option maxHeartbeats 1600000 in
theorem cmp_sym_int (fo : FloatOps F) (n : String) (op : Op) (r : Lit F)
    (h : okCmp .int true op r = true) : CmpSymStmt C fo .int n op r := by
  cases op <;> cases r <;> cmp_unfold <;> cmp_finish fo n

set_option maxHeartbeats 1600000 in
theorem cmp_sym_float (fo : FloatOps F) (n : String) (op : Op) (r : Lit F)
    (h : okCmp .float true op r = true) : CmpSymStmt C fo .float n op r := by
  cases op <;> cases r <;> cmp_unfold <;> cmp_finish fo n

set_option maxHeartbeats 1600000 in
theorem cmp_sym_time (fo : FloatOps F) (n : String) (op : Op) (r : Lit F)
    (h : okCmp .time true op r = true) : CmpSymStmt C fo .time n op r := by
  cases op <;> cases r <;> cmp_unfold <;> cmp_finish fo n

set_option maxHeartbeats 1600000 in
theorem cmp_sym_bool (fo : FloatOps F) (n : String) (op : Op) (r : Lit F)
    (h : okCmp .bool true op r = true) : CmpSymStmt C fo .bool n op r := by
  cases op <;> cases r <;> cmp_unfold <;> cmp_finish fo n

set_option maxHeartbeats 1600000 in
theorem cmp_sym_any (fo : FloatOps F) (n : String) (op : Op) (r : Lit F)
    (h : okCmp .any true op r = true) : CmpSymStmt C fo .any n op r := by
  cases op <;> cases r <;> cmp_unfold <;> cmp_finish fo n

theorem cmp_sym (fo : FloatOps F) (τ : NodeType) (hτ : τ ≠ .other) (n : String) (op : Op) (r : Lit F)
    (h : okCmp τ true op r = true) : CmpSymStmt C fo τ n op r := by
  cases τ
  · exact cmp_sym_bool fo n op r h
  · exact cmp_sym_time fo n op r h
  · exact cmp_sym_float fo n op r h
  · exact cmp_sym_int fo n op r h
  · exact cmp_sym_str fo n op r h
  · exact cmp_sym_any fo n op r h
  · exact absurd rfl hτ

/-- a count node: `CountSetExprNode` without or with a sub-query -/
def IsCountNode (s : TNode F) : Prop :=
  (∃ n, s = .count n) ∨ (∃ n q so sk li, s = .countQ n q so sk li)

set_option maxHeartbeats 1600000 in
theorem cmp_cnt (fo : FloatOps F) (s : TNode F) (hs : IsCountNode s) (op : Op) (r : Lit F)
    (h : okCmp .int false op r = true) :
    ∃ p, getTypedExpr fo op s (litNode r) = .ok p ∧ p.isBoolNode = true ∧
      (∀ (w : World C F) c lk k, evalInt w fo c lk s = some k →
        evalBool w fo c lk p = satCmp fo .int op (.int64 k) r) ∧
      (∀ op' l' r', p = .binStr op' l' r' → isSeekableOp op' l' r' = false) := by
  rcases hs with ⟨n, rfl⟩ | ⟨n, q, so, sk, li, rfl⟩ <;> cases op <;> cases r <;>
    simp_all [okCmp, cmpType, litNode, getTypedExpr, handleStringOps, TNode.symName?,
      TNode.isStringNode, TNode.isInt64Node, TNode.isFloat64Node, TNode.isDatetimeNode,
      TNode.getType, TNode.isBoolNode, upperNode, toFloat64, isSeekableOp, TNode.seekableStr, TNode.isStrSym, TNode.isConst] <;>
    (try (intro w c lk k hk)) <;>
    simp_all [bne, boolOperandNil, withNull, strCmp, ordCmp, cmpWith, binStrSem, binOrdSem, binBoolSem, nilRule, isNilSem,
      evalBool, evalStr, evalInt, evalFloat, evalTime, satCmp, cmpType, readStr, readFloat,
      litStr, litInt, litFloat, litTime, litBool, SVal.toInt]

/-! ### in -/

theorem numsAsConsts_int (fo : FloatOps F) (ns : List (Num F)) (is : List Int) (h : numsAllInt ns = some is) :
    numsAsConsts fo ns = is.map .int := by simp [numsAsConsts, h]
theorem numsAsConsts_float (fo : FloatOps F) (ns : List (Num F)) (h : numsAllInt ns = none) :
    numsAsConsts fo ns = (numsToFloat fo ns).map .float := by simp [numsAsConsts, h]

theorem numsToFloat_allInt (fo : FloatOps F) : ∀ (ns : List (Num F)) (is : List Int), numsAllInt ns = some is →
    numsToFloat fo ns = is.map fo.ofInt
  | [], is, h => by simp [numsAllInt] at h; subst h; rfl
  | .int i :: t, is, h => by
    simp only [numsAllInt, Option.map_eq_some_iff] at h
    obtain ⟨is', h1, rfl⟩ := h
    simp [numsToFloat, numsToFloat_allInt fo t is' h1]
  | .float _ :: _, _, h => by simp [numsAllInt] at h

def InSymStmt (C : Type) (fo : FloatOps F) (τ : NodeType) (n : String) (arr : Arr F) : Prop :=
  ∃ p, inTypedExpr fo (symNode τ n) arr = .ok p ∧ p.isBoolNode = true ∧
    (∀ (w : World C F) c lk, evalBool w fo c lk p = satIn fo τ (lk n) arr) ∧
    (∀ op' l' r', p ≠ .binStr op' l' r')

set_option maxHeartbeats 1600000 in
theorem in_sym (fo : FloatOps F) (τ : NodeType) (hτ : τ ≠ .other) (n : String) (arr : Arr F)
    (h : okIn fo τ arr = true) : InSymStmt C fo τ n arr := by
  cases arr with
  | strs ss =>
    cases τ <;>
    simp_all [InSymStmt, okIn, arrDen, symNode, inTypedExpr, TNode.isStringNode, TNode.isInt64Node,
      TNode.isFloat64Node, TNode.isDatetimeNode, TNode.isBoolNode, toFloat64] <;>
    intro w c lk <;> simp only [evalBool, evalStr, evalInt, evalFloat, evalTime] <;> generalize lk n = sv <;> cases sv <;>
    simp [SVal.toStr, SVal.toInt, SVal.toFloat, SVal.toTime, evalBool, evalStr, evalInt, evalFloat, evalTime, satIn, arrDen, inSem, readStr, readFloat, constStr,
      List.any_map, Function.comp_def]
  | times ts =>
    cases τ <;>
    simp_all [InSymStmt, okIn, arrDen, symNode, inTypedExpr, TNode.isStringNode, TNode.isInt64Node,
      TNode.isFloat64Node, TNode.isDatetimeNode, TNode.isBoolNode, toFloat64] <;>
    intro w c lk <;> simp only [evalBool, evalStr, evalInt, evalFloat, evalTime] <;> generalize lk n = sv <;> cases sv <;>
    simp [SVal.toStr, SVal.toInt, SVal.toFloat, SVal.toTime, evalBool, evalStr, evalInt, evalFloat, evalTime, satIn, arrDen, inSem, readStr, readFloat, constStr,
      List.any_map, Function.comp_def]
  | nums ns =>
    cases hn : numsAllInt ns with
    | some is =>
      have h1 := numsAsConsts_int fo ns is hn
      have h2 := numsToFloat_allInt fo ns is hn
      cases τ <;>
      simp_all [InSymStmt, okIn, arrDen, symNode, inTypedExpr, TNode.isStringNode, TNode.isInt64Node,
        TNode.isFloat64Node, TNode.isDatetimeNode, TNode.isBoolNode, toFloat64] <;>
      intro w c lk <;> simp only [evalBool, evalStr, evalInt, evalFloat, evalTime] <;> generalize lk n = sv <;> cases sv <;>
      simp [SVal.toStr, SVal.toInt, SVal.toFloat, SVal.toTime, evalBool, evalStr, evalInt, evalFloat, evalTime, satIn, arrDen, inSem, readStr, readFloat, constStr,
        List.any_map, Function.comp_def, hn]
    | none =>
      have h1 := numsAsConsts_float fo ns hn
      cases τ <;>
      simp_all [InSymStmt, okIn, arrDen, symNode, inTypedExpr, TNode.isStringNode, TNode.isInt64Node,
        TNode.isFloat64Node, TNode.isDatetimeNode, TNode.isBoolNode, toFloat64] <;>
      intro w c lk <;> simp only [evalBool, evalStr, evalInt, evalFloat, evalTime] <;> generalize lk n = sv <;> cases sv <;>
      simp [SVal.toStr, SVal.toInt, SVal.toFloat, SVal.toTime, evalBool, evalStr, evalInt, evalFloat, evalTime, satIn, arrDen, inSem, readStr, readFloat, constStr,
        List.any_map, Function.comp_def, hn]

set_option maxHeartbeats 1600000 in
theorem in_cnt (fo : FloatOps F) (s : TNode F) (hs : IsCountNode s) (arr : Arr F)
    (h : okIn fo .int arr = true) :
    ∃ p, inTypedExpr fo s arr = .ok p ∧ p.isBoolNode = true ∧
      (∀ (w : World C F) c lk k, evalInt w fo c lk s = some k →
        evalBool w fo c lk p = satIn fo .int (.int64 k) arr) ∧
      (∀ op' l' r', p ≠ .binStr op' l' r') := by
  rcases hs with ⟨n, rfl⟩ | ⟨n, q, so, sk, li, rfl⟩ <;>
  (cases arr with
  | strs ss =>
    simp_all [okIn, arrDen, inTypedExpr, TNode.isStringNode, TNode.isInt64Node,
      TNode.isFloat64Node, TNode.isDatetimeNode, TNode.isBoolNode, toFloat64] <;>
    intro w c lk k hk <;>
    simp_all [evalBool, evalStr, evalInt, evalFloat, evalTime, satIn, arrDen, inSem, readStr, readFloat, constStr,
      List.any_map, Function.comp_def, SVal.toInt]
  | times ts => simp_all [okIn, arrDen]
  | nums ns =>
    cases hn : numsAllInt ns with
    | some is =>
      have h1 := numsAsConsts_int fo ns is hn
      have h2 := numsToFloat_allInt fo ns is hn
      simp_all [okIn, arrDen, inTypedExpr, TNode.isStringNode, TNode.isInt64Node,
        TNode.isFloat64Node, TNode.isDatetimeNode, TNode.isBoolNode, toFloat64] <;>
      intro w c lk k hk <;>
      simp_all [evalBool, evalStr, evalInt, evalFloat, evalTime, satIn, arrDen, inSem, readStr, readFloat, constStr,
        List.any_map, Function.comp_def, SVal.toInt]
    | none =>
      have h1 := numsAsConsts_float fo ns hn
      simp_all [okIn, arrDen, inTypedExpr, TNode.isStringNode, TNode.isInt64Node,
        TNode.isFloat64Node, TNode.isDatetimeNode, TNode.isBoolNode, toFloat64] <;>
      intro w c lk k hk <;>
      simp_all [evalBool, evalStr, evalInt, evalFloat, evalTime, satIn, arrDen, inSem, readStr, readFloat, constStr,
        List.any_map, Function.comp_def, SVal.toInt])

/-! ### between -/

def BetSymStmt (C : Type) (fo : FloatOps F) (τ : NodeType) (n : String) (lo hi : Lit F) : Prop :=
  ∃ p, betweenTypedExpr fo (symNode τ n) (litNode lo) (litNode hi) = .ok p ∧ p.isBoolNode = true ∧
    (∀ (w : World C F) c lk, evalBool w fo c lk p = satBetween fo τ (lk n) lo hi) ∧
    (∀ op' l' r', p ≠ .binStr op' l' r')

set_option maxHeartbeats 1600000 in
theorem bet_sym (fo : FloatOps F) (τ : NodeType) (hτ : τ ≠ .other) (n : String) (lo hi : Lit F)
    (h : okBetween τ lo hi = true) : BetSymStmt C fo τ n lo hi := by
  cases τ <;> cases lo <;> cases hi <;>
    simp_all [BetSymStmt, okBetween, isNumLit, symNode, litNode, betweenTypedExpr, asFloat64Node, TNode.isStringNode,
      TNode.isInt64Node, TNode.isFloat64Node, TNode.isDatetimeNode, TNode.isBoolNode, toFloat64] <;>
    intro w c lk <;> simp only [evalBool, evalStr, evalInt, evalFloat, evalTime] <;>
    generalize lk n = sv <;> cases sv <;>
    simp [SVal.toStr, SVal.toInt, SVal.toFloat, SVal.toTime, satBetween, betSem, readFloat, litFloat]

set_option maxHeartbeats 1600000 in
theorem bet_cnt (fo : FloatOps F) (s : TNode F) (hs : IsCountNode s) (lo hi : Lit F)
    (h : okBetween .int lo hi = true) :
    ∃ p, betweenTypedExpr fo s (litNode lo) (litNode hi) = .ok p ∧ p.isBoolNode = true ∧
      (∀ (w : World C F) c lk k, evalInt w fo c lk s = some k →
        evalBool w fo c lk p = satBetween fo .int (.int64 k) lo hi) ∧
      (∀ op' l' r', p ≠ .binStr op' l' r') := by
  rcases hs with ⟨n, rfl⟩ | ⟨n, q, so, sk, li, rfl⟩ <;> cases lo <;> cases hi <;>
    simp_all [okBetween, isNumLit, litNode, betweenTypedExpr, asFloat64Node, TNode.isStringNode,
      TNode.isInt64Node, TNode.isFloat64Node, TNode.isDatetimeNode, TNode.isBoolNode, toFloat64] <;>
    intro w c lk k hk <;>
    simp_all [evalBool, evalStr, evalInt, evalFloat, evalTime, SVal.toStr, SVal.toInt, SVal.toFloat, SVal.toTime,
      satBetween, betSem, readFloat, litFloat]
