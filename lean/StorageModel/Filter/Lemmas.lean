import StorageModel.Filter.Spec
/-
  C01 — lemmas behind the property theorems: byte order, the seek shortcut, the paging scanner,
  and the three "bridge" lemmas (comparison / in / between) that relate the typed node chosen by
  node_convert.go, evaluated by node_expr.go / node_arrays.go, to the specification.
-/
namespace StorageModel.Filter
open StorageModel
variable {C F T : Type}

/-! ### byte order -/

theorem bytesLt_irrefl : ∀ a : Bytes, bytesLt a a = false
  | [] => rfl
  | x :: xs => by
    have := bytesLt_irrefl xs
    simp [bytesLt, this]

/-! ### the seek shortcut -/

/-- the contents of a bbolt bucket that holds only string elements: strictly increasing strings -/
def SortedStrs (es : List (SVal F)) : Prop :=
  ∃ ss : List Bytes, es = ss.map SVal.str ∧ ss.Pairwise (fun a b => bytesLt a b = true)

theorem seek_core (v : Bytes) : ∀ ss : List Bytes, ss.Pairwise (fun a b => bytesLt a b = true) →
    (match (ss.map (SVal.str (F := F))).find? (keyGe v) with
     | some e => e.toStr fo == some v
     | none => false) = ss.any (· == v)
  | [], _ => rfl
  | s :: rest, h => by
    have hrest := (List.pairwise_cons.mp h).2
    have hhead := (List.pairwise_cons.mp h).1
    have ih := seek_core (fo := fo) v rest hrest
    by_cases hlt : bytesLt s v = true
    · have hne : (s == v) = false := by
        apply beq_eq_false_iff_ne.mpr
        intro e; subst e; simp [bytesLt_irrefl] at hlt
      simp only [List.map_cons, List.find?_cons, keyGe, hlt, Bool.not_true, List.any_cons, hne, Bool.false_or]
      exact ih
    · have hlt' : bytesLt s v = false := by simpa using hlt
      have htail : rest.any (· == v) = false := by
        apply List.any_eq_false.mpr
        intro x hx hxv
        have : x = v := by simpa using hxv
        subst this
        have := hhead x hx
        simp [this] at hlt'
      simp [keyGe, hlt', SVal.toStr, htail]

/-! ### the seek shortcut on buckets that hold more than strings -/

/-- the shortcut is sound on every bucket: when the element the seek lands on satisfies the
    predicate, some element does (it can omit matches, never invent one) -/
theorem seek_sound (es : List (SVal F)) (v : Bytes) (g : SVal F → Bool)
    (h : (match seekTo es v with | some e => g e | none => false) = true) : es.any g = true := by
  unfold seekTo at h
  cases hf : es.find? (keyGe v) with
  | none => simp [hf] at h
  | some e =>
    simp only [hf] at h
    exact List.any_eq_true.mpr ⟨e, List.mem_of_find?_eq_some hf, h⟩

/-- the keys of a bbolt bucket that holds elements of several types, in key order: the type byte
    comes first, so bools / ints / floats (`lo`) precede the strings, datetimes and nils (`hi`) follow -/
def KeyOrdered (es : List (SVal F)) : Prop :=
  ∃ (lo : List (SVal F)) (ss : List Bytes) (hi : List (SVal F)),
    es = lo ++ ss.map SVal.str ++ hi ∧ ss.Pairwise (fun a b => bytesLt a b = true) ∧
    (∀ e ∈ lo, ∀ v, keyGe v e = false) ∧ (∀ e ∈ hi, ∀ v, keyGe v e = true) ∧ (∀ e ∈ hi, e.isStr = false)

theorem find_lo (v : Bytes) (lo rest : List (SVal F)) (h : ∀ e ∈ lo, ∀ v, keyGe v e = false) :
    (lo ++ rest).find? (keyGe v) = rest.find? (keyGe v) := by
  induction lo with
  | nil => rfl
  | cons a t ih =>
    simp only [List.cons_append, List.find?_cons, h a (List.mem_cons_self ..) v]
    exact ih (fun e he => h e (List.mem_cons_of_mem _ he))

/-- what the seek shortcut computes on a bucket of mixed types: whether the compared string is one
    of the *string* elements — unless no string element is ≥ it and the first datetime / nil element
    happens to render to it -/
theorem seek_typed (fo : FloatOps F) (v : Bytes) (lo : List (SVal F)) (ss : List Bytes) (hi : List (SVal F))
    (hss : ss.Pairwise (fun a b => bytesLt a b = true))
    (hlo : ∀ e ∈ lo, ∀ v, keyGe v e = false)
    (hv : ∀ e ∈ hi, e.toStr fo ≠ some v) :
    (match seekTo (lo ++ ss.map SVal.str ++ hi) v with
     | some e => e.toStr fo == some v
     | none => false) = ss.any (· == v) := by
  unfold seekTo
  rw [List.append_assoc, find_lo v lo _ hlo, List.find?_append]
  have core := seek_core (F := F) (fo := fo) v ss hss
  cases hf : (ss.map (SVal.str (F := F))).find? (keyGe v) with
  | some e => simpa [hf] using core
  | none =>
    rw [hf] at core
    simp only [Option.none_or]
    rw [← core]
    cases hh : hi.find? (keyGe v) with
    | none => rfl
    | some e =>
      have := hv e (List.mem_of_find?_eq_some hh)
      simp [this]

/-- the shortcut equals the scan on a mixed bucket exactly as long as no element that is not a
    string renders to the compared string -/
theorem seek_eq_scan_typed (fo : FloatOps F) (v : Bytes) (lo : List (SVal F)) (ss : List Bytes) (hi : List (SVal F))
    (hss : ss.Pairwise (fun a b => bytesLt a b = true))
    (hlo : ∀ e ∈ lo, ∀ v, keyGe v e = false)
    (hv : ∀ e ∈ lo ++ hi, e.toStr fo ≠ some v) :
    (match seekTo (lo ++ ss.map SVal.str ++ hi) v with
     | some e => e.toStr fo == some v
     | none => false) = (lo ++ ss.map SVal.str ++ hi).any (fun e => e.toStr fo == some v) := by
  rw [seek_typed fo v lo ss hi hss hlo (fun e he => hv e (List.mem_append_right _ he))]
  have h1 : lo.any (fun e => e.toStr fo == some v) = false :=
    List.any_eq_false.mpr fun e he => by simpa using hv e (List.mem_append_left _ he)
  have h2 : hi.any (fun e => e.toStr fo == some v) = false :=
    List.any_eq_false.mpr fun e he => by simpa using hv e (List.mem_append_right _ he)
  have h3 : (ss.map (SVal.str (F := F))).any (fun e => e.toStr fo == some v) = ss.any (· == v) := by
    simp [List.any_map, Function.comp_def, SVal.toStr]
  rw [List.any_append, List.any_append, h1, h2, h3]
  simp

/-! ### the paging scanner of a sub-query -/

theorem scanCount_eq (m nil : C → Bool) (off : Nat) (lim : Option Nat) :
    ∀ (rows : List C) (o k : Nat), o ≤ off → (o < off → k = 0) →
      scanCount m nil off lim rows o k =
        (match lim with
         | some l => ((((rows.filter fun r => !nil r).filter m).drop (off - o)).take (l - k)).length
         | none => (((rows.filter fun r => !nil r).filter m).drop (off - o)).length)
  | [], o, k, _, _ => by cases lim <;> simp [scanCount]
  | r :: rest, o, k, ho, hk => by
    unfold scanCount
    cases lim with
    | none =>
      simp only [Bool.false_eq_true, if_false]
      by_cases hr : nil r = true
      · simp only [hr, if_true]
        rw [scanCount_eq m nil off none rest o k ho hk]
        simp [hr]
      · have hr' : nil r = false := by simpa using hr
        simp only [hr', Bool.false_eq_true, if_false]
        by_cases hm : m r = true
        · simp only [hm, if_true]
          by_cases hlt : o < off
          · simp only [hlt, if_true]
            rw [scanCount_eq m nil off none rest (o + 1) k (by omega) (fun _ => hk hlt)]
            have : off - o = (off - (o + 1)) + 1 := by omega
            simp [this, hr', hm]
          · simp only [hlt, if_false]
            rw [scanCount_eq m nil off none rest o (k + 1) ho (fun h => absurd h hlt)]
            have : off - o = 0 := by omega
            simp [this, hr', hm, Nat.add_comm]
        · have hm' : m r = false := by simpa using hm
          simp only [hm', Bool.false_eq_true, if_false]
          rw [scanCount_eq m nil off none rest o k ho hk]
          simp [hr', hm']
    | some l =>
      by_cases hge : k ≥ l
      · have : l - k = 0 := by omega
        simp [hge, this]
      · simp only [hge, decide_false, Bool.false_eq_true, if_false]
        by_cases hr : nil r = true
        · simp only [hr, if_true]
          rw [scanCount_eq m nil off (some l) rest o k ho hk]
          simp [hr]
        · have hr' : nil r = false := by simpa using hr
          simp only [hr', Bool.false_eq_true, if_false]
          by_cases hm : m r = true
          · simp only [hm, if_true]
            by_cases hlt : o < off
            · simp only [hlt, if_true]
              rw [scanCount_eq m nil off (some l) rest (o + 1) k (by omega) (fun _ => hk hlt)]
              have : off - o = (off - (o + 1)) + 1 := by omega
              simp [this, hr', hm]
            · simp only [hlt, if_false]
              rw [scanCount_eq m nil off (some l) rest o (k + 1) ho (fun h => absurd h hlt)]
              have h0 : off - o = 0 := by omega
              have h1 : l - k = (l - (k + 1)) + 1 := by omega
              simp only [h0, List.drop_zero]
              have hf : List.filter m (List.filter (fun r => !nil r) (r :: rest)) =
                  r :: List.filter m (List.filter (fun r => !nil r) rest) := by simp [hr', hm]
              rw [hf, h1, List.take_succ_cons, List.length_cons]; exact Nat.add_comm _ _
          · have hm' : m r = false := by simpa using hm
            simp only [hm', Bool.false_eq_true, if_false]
            rw [scanCount_eq m nil off (some l) rest o k ho hk]
            simp [hr', hm']

/-- the scanner yields exactly the rows the specification's `paged` keeps: the non-nil rows that
    match, after skip and limit -/
theorem scanCount_paged (m nil : C → Bool) (skip limit : Option Int) (rows : List C) :
    scanCount m nil (pagingOffset skip) (pagingLimit limit) rows 0 0 =
      (paged skip limit ((rows.filter fun r => !nil r).filter m)).length := by
  rw [scanCount_eq m nil _ _ rows 0 0 (Nat.zero_le _) (fun _ => rfl)]
  unfold paged
  cases pagingLimit limit <;> simp

/-! ### `sort by` inside a sub-query cannot be observed through `count` / `isEmpty` -/

theorem insertBy_length {α} (le : α → α → Bool) (x : α) (l : List α) : (insertBy le x l).length = l.length + 1 := by
  induction l with
  | nil => rfl
  | cons y ys ih => simp only [insertBy]; split <;> simp [ih]

theorem sortBy_length {α} (le : α → α → Bool) (l : List α) : (sortBy le l).length = l.length := by
  induction l with
  | nil => rfl
  | cons x xs ih => simp [sortBy, insertBy_length, ih]

theorem insertBy_perm {α} (le : α → α → Bool) (x : α) (l : List α) : (insertBy le x l).Perm (x :: l) := by
  induction l with
  | nil => exact List.Perm.refl _
  | cons y ys ih =>
    simp only [insertBy]
    split
    · exact List.Perm.refl _
    · exact (List.Perm.cons y ih).trans (List.Perm.swap x y ys)

/-- `sortBy` rearranges: the same rows, each as often as before -/
theorem sortBy_perm {α} (le : α → α → Bool) (l : List α) : (sortBy le l).Perm l := by
  induction l with
  | nil => exact List.Perm.refl _
  | cons x xs ih => exact (insertBy_perm le x _).trans (List.Perm.cons x ih)

/-- how many rows skip / limit keep depends only on how many rows there are -/
theorem paged_length {α} (skip limit : Option Int) (l : List α) :
    (paged skip limit l).length =
      (match pagingLimit limit with
       | some k => min k (l.length - pagingOffset skip)
       | none => l.length - pagingOffset skip) := by
  unfold paged
  cases pagingLimit limit <;> simp

theorem paged_length_congr {α β} (skip limit : Option Int) (l₁ : List α) (l₂ : List β) (h : l₁.length = l₂.length) :
    (paged skip limit l₁).length = (paged skip limit l₂).length := by
  rw [paged_length, paged_length, h]

/-- the scanner of a sub-query (which ignores the sort fields) yields as many rows as the
    specification keeps after sorting and paging -/
theorem scanCount_sorted (m nil : C → Bool) (le : C → C → Bool) (skip limit : Option Int) (rows : List C) :
    scanCount m nil (pagingOffset skip) (pagingLimit limit) rows 0 0 =
      (paged skip limit (sortBy le ((rows.filter fun r => !nil r).filter m))).length := by
  rw [scanCount_paged]
  exact paged_length_congr skip limit _ _ (sortBy_length le _).symm

end StorageModel.Filter
