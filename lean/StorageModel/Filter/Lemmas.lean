import StorageModel.Filter.Spec
/-
  C01 — lemmas behind the property theorems: byte order, the seek shortcut, the paging scanner,
  and the three "bridge" lemmas (comparison / in / between) that relate the typed node chosen by
  node_convert.go, evaluated by node_expr.go / node_arrays.go, to the specification.
-/
namespace StorageModel.Filter
open StorageModel
variable {C F T : Type}

/-! ### byte order -/

theorem bytesLt_irrefl : ∀ a : Bytes, bytesLt a a = false
  | [] => rfl
  | x :: xs => by
    have := bytesLt_irrefl xs
    simp [bytesLt, this]

/-! ### the seek shortcut -/

/-- the contents of a bbolt bucket that holds only string elements: strictly increasing strings -/
def SortedStrs (es : List (SVal F)) : Prop :=
  ∃ ss : List Bytes, es = ss.map SVal.str ∧ ss.Pairwise (fun a b => bytesLt a b = true)

theorem seek_core (v : Bytes) : ∀ ss : List Bytes, ss.Pairwise (fun a b => bytesLt a b = true) →
    (match (ss.map (SVal.str (F := F))).find? (keyGe v) with
     | some e => e.toStr fo == some v
     | none => false) = ss.any (· == v)
  | [], _ => rfl
  | s :: rest, h => by
    have hrest := (List.pairwise_cons.mp h).2
    have hhead := (List.pairwise_cons.mp h).1
    have ih := seek_core (fo := fo) v rest hrest
    by_cases hlt : bytesLt s v = true
    · have hne : (s == v) = false := by
        apply beq_eq_false_iff_ne.mpr
        intro e; subst e; simp [bytesLt_irrefl] at hlt
      simp only [List.map_cons, List.find?_cons, keyGe, hlt, Bool.not_true, List.any_cons, hne, Bool.false_or]
      exact ih
    · have hlt' : bytesLt s v = false := by simpa using hlt
      have htail : rest.any (· == v) = false := by
        apply List.any_eq_false.mpr
        intro x hx hxv
        have : x = v := by simpa using hxv
        subst this
        have := hhead x hx
        simp [this] at hlt'
      simp [keyGe, hlt', SVal.toStr, htail]

/-! ### the paging scanner of a sub-query -/

theorem scanCount_eq (m nil : C → Bool) (off : Nat) (lim : Option Nat) :
    ∀ (rows : List C) (o k : Nat), o ≤ off → (o < off → k = 0) →
      scanCount m nil off lim rows o k =
        (match lim with
         | some l => ((((rows.filter fun r => !nil r).filter m).drop (off - o)).take (l - k)).length
         | none => (((rows.filter fun r => !nil r).filter m).drop (off - o)).length)
  | [], o, k, _, _ => by cases lim <;> simp [scanCount]
  | r :: rest, o, k, ho, hk => by
    unfold scanCount
    cases lim with
    | none =>
      simp only [Bool.false_eq_true, if_false]
      by_cases hr : nil r = true
      · simp only [hr, if_true]
        rw [scanCount_eq m nil off none rest o k ho hk]
        simp [hr]
      · have hr' : nil r = false := by simpa using hr
        simp only [hr', Bool.false_eq_true, if_false]
        by_cases hm : m r = true
        · simp only [hm, if_true]
          by_cases hlt : o < off
          · simp only [hlt, if_true]
            rw [scanCount_eq m nil off none rest (o + 1) k (by omega) (fun _ => hk hlt)]
            have : off - o = (off - (o + 1)) + 1 := by omega
            simp [this, hr', hm]
          · simp only [hlt, if_false]
            rw [scanCount_eq m nil off none rest o (k + 1) ho (fun h => absurd h hlt)]
            have : off - o = 0 := by omega
            simp [this, hr', hm, Nat.add_comm]
        · have hm' : m r = false := by simpa using hm
          simp only [hm', Bool.false_eq_true, if_false]
          rw [scanCount_eq m nil off none rest o k ho hk]
          simp [hr', hm']
    | some l =>
      by_cases hge : k ≥ l
      · have : l - k = 0 := by omega
        simp [hge, this]
      · simp only [hge, decide_false, Bool.false_eq_true, if_false]
        by_cases hr : nil r = true
        · simp only [hr, if_true]
          rw [scanCount_eq m nil off (some l) rest o k ho hk]
          simp [hr]
        · have hr' : nil r = false := by simpa using hr
          simp only [hr', Bool.false_eq_true, if_false]
          by_cases hm : m r = true
          · simp only [hm, if_true]
            by_cases hlt : o < off
            · simp only [hlt, if_true]
              rw [scanCount_eq m nil off (some l) rest (o + 1) k (by omega) (fun _ => hk hlt)]
              have : off - o = (off - (o + 1)) + 1 := by omega
              simp [this, hr', hm]
            · simp only [hlt, if_false]
              rw [scanCount_eq m nil off (some l) rest o (k + 1) ho (fun h => absurd h hlt)]
              have h0 : off - o = 0 := by omega
              have h1 : l - k = (l - (k + 1)) + 1 := by omega
              simp only [h0, List.drop_zero]
              have hf : List.filter m (List.filter (fun r => !nil r) (r :: rest)) =
                  r :: List.filter m (List.filter (fun r => !nil r) rest) := by simp [hr', hm]
              rw [hf, h1, List.take_succ_cons, List.length_cons]; exact Nat.add_comm _ _
          · have hm' : m r = false := by simpa using hm
            simp only [hm', Bool.false_eq_true, if_false]
            rw [scanCount_eq m nil off (some l) rest o k ho hk]
            simp [hr', hm']

/-- the scanner yields exactly the rows the specification's `paged` keeps: the non-nil rows that
    match, after skip and limit -/
theorem scanCount_paged (m nil : C → Bool) (skip limit : Option Int) (rows : List C) :
    scanCount m nil (pagingOffset skip) (pagingLimit limit) rows 0 0 =
      (paged skip limit ((rows.filter fun r => !nil r).filter m)).length := by
  rw [scanCount_eq m nil _ _ rows 0 0 (Nat.zero_le _) (fun _ => rfl)]
  unfold paged
  cases pagingLimit limit <;> simp

end StorageModel.Filter
