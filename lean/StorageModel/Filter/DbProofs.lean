import StorageModel.Filter.Db
/-
  C01 — theorems about the bolt-backed model: the stacked cursor enumerates the path semantics,
  the model world agrees with the specification world on chain-free symbols, seekable cursors
  satisfy `SeekOK`, and `Store.QueryIds` returns exactly the satisfying ids.
-/
set_option linter.unusedSimpArgs false
namespace StorageModel.Filter
open StorageModel
variable {F : Type}

theorem forEachKey_eq_flatMap (body : SVal F → List (SVal F)) (l : List (SVal F)) :
    forEachKey body l = l.flatMap body := by
  induction l with
  | nil => rfl
  | cons k ks ih => simp [forEachKey, ih]

theorem stackedFrom_eq (db : Db F) : ∀ (rest : List Atom) (cur : List (SVal F)),
    stackedFrom db rest cur =
      (match rest with
       | [] => cur
       | _ :: _ => cur.flatMap fun k => pathElems db rest (linkKey k))
  | [], cur => rfl
  | a :: rest, cur => by
    simp only [stackedFrom, forEachKey_eq_flatMap]
    congr 1
    funext k
    rw [stackedFrom_eq db rest]
    cases rest with
    | nil => simp [pathElems]
    | cons b rest' => simp [pathElems]

/-- **the stacked cursor enumerates exactly the path semantics** of a composite set symbol:
    every element reachable by following the chain, in order, with multiplicity -/
theorem stacked_eq_flatMap (db : Db F) (chain : List Atom) (key : Option Bytes) :
    stackedElems db chain key = pathElems db chain key := by
  cases chain with
  | nil => rfl
  | cons a rest =>
    simp only [stackedElems, stackedFrom_eq]
    cases rest with
    | nil => simp [pathElems]
    | cons b rest' => simp [pathElems]

/-! ### map elements: the element symbol names the node of the path, `GetPath` + `getTyped` reads it -/

theorem splitLast_spec : ∀ (rest : List String) (q : String),
    (q :: rest).dropLast = (splitLast q rest).1 ∧ (q :: rest).getLast? = some (splitLast q rest).2
  | [], q => by simp [splitLast]
  | r :: rs, q => by
    have ih := splitLast_spec rs r
    simp only [splitLast]
    refine ⟨?_, ?_⟩
    · rw [List.dropLast_cons_cons, ih.1]
    · rw [List.getLast?_cons_cons, ih.2]

/-- the element symbol `createElementSymbol` builds names the node the specification reads off the
    dotted name -/
theorem elementSymbol_eq_path (st : Nat) (md : MapDef) (q : String) (rest : List String) :
    mapElemPath st md (q :: rest) = elementSymbol st md q rest := by
  have h := splitLast_spec rest q
  simp only [mapElemPath, elementSymbol]
  have hne : q :: rest ≠ [] := by simp
  rw [List.dropLast_append_of_ne_nil hne, List.getLast?_append, h.1, h.2]
  simp

theorem nodeAt_cons (kids : List (String × MNode F)) (p : String) (l : List String) (h : l ≠ []) :
    nodeAt kids (p :: l) =
      (match kids.lookup p with
       | some (.bucket kids') => nodeAt kids' l
       | _ => none) := by
  cases l with
  | nil => exact absurd rfl h
  | cons q ps => rfl

/-- `GetPath(prefix...)` followed by `getTyped(key)` reads the value stored at the node the whole
    path names -/
theorem getPath_getTyped (k : String) : ∀ (bp : List String) (kids : List (String × MNode F)),
    (match getPath kids bp with | some b => getTyped b k | none => .nil) = leafVal (nodeAt kids (bp ++ [k]))
  | [], kids => by
    simp only [getPath, getTyped, List.nil_append, nodeAt]
    cases kids.lookup k with
    | none => rfl
    | some n => cases n <;> rfl
  | p :: ps, kids => by
    rw [List.cons_append, nodeAt_cons kids p (ps ++ [k]) (by simp)]
    simp only [getPath]
    cases kids.lookup p with
    | none => rfl
    | some n =>
      cases n with
      | val v => rfl
      | bucket kids' => exact getPath_getTyped k ps kids'

/-- the path semantics and the code read the same value from every symbol that is not an external
    function -/
theorem specAtomVal_eq (db : Db F) (a : Atom) (h : a.isExt = false) (key : Option Bytes) :
    specAtomVal db a key = evalAtom db a key := by
  cases a with
  | id => rfl
  | field st k ty l => rfl
  | set st k ty l => rfl
  | mapElem st bp k ty =>
    simp only [specAtomVal, evalAtom]
    cases key.bind (findEntity db st) with
    | none => rfl
    | some e => exact (getPath_getTyped k bp e.maps).symm
  | custom st n ty l k =>
    cases k with
    | ext => simp [Atom.isExt] at h
    | mapped k m => rfl

/-- what `ExternalSymbol.Eval` returns is what the function denotes (since fce0761 also for a nil
    string result) -/
theorem codeVal_eq_specVal (e : ExtSrc F) (id : Bytes) : e.codeVal id = e.specVal id := by
  cases e with
  | boolFn f => rfl
  | fn f => rfl
  | strFn g => simp only [ExtSrc.codeVal, ExtSrc.specVal]

/-- an external function evaluated on an entity's own id: `Eval` returns what the function denotes -/
theorem specAtomVal_ext_eq (db : Db F) (a : Atom) (id : Bytes) :
    specAtomVal db a (some id) = evalAtom db a (some id) := by
  by_cases h : a.isExt = true
  · cases a with
    | custom st n ty l k =>
      cases k with
      | mapped k m => simp [Atom.isExt] at h
      | ext => simp only [specAtomVal, evalAtom, Option.getD_some, codeVal_eq_specVal]
    | id => simp [Atom.isExt] at h
    | field st k ty l => simp [Atom.isExt] at h
    | set st k ty l => simp [Atom.isExt] at h
    | mapElem st bp k ty => simp [Atom.isExt] at h
  · exact specAtomVal_eq db a (by simpa using h) (some id)

theorem specChain_eq (db : Db F) : ∀ (p : List Atom), noExt p = true → ∀ (key : Option Bytes),
    specChain db p key = evalChain db p key
  | [], _, _ => rfl
  | [a], h, key => specAtomVal_eq db a (by simpa [noExt] using h) key
  | a :: b :: rest, h, key => by
    simp only [noExt, List.all_cons, Bool.and_eq_true, Bool.not_eq_eq_eq_not, Bool.not_true] at h
    simp only [specChain, evalChain, specAtomVal_eq db a h.1]
    exact specChain_eq db (b :: rest) (by simp [noExt, h.2.1, h.2.2]) _

theorem specLevel_eq (db : Db F) (a : Atom) (h : a.isExt = false) (key : Option Bytes) :
    specLevel db a key = levelVals db a key := by
  cases a <;> simp [specLevel, levelVals, specAtomVal_eq, h]

theorem specElems_eq (db : Db F) : ∀ (p : List Atom), noExt p = true → ∀ (key : Option Bytes),
    specElems db p key = pathElems db p key
  | [], _, _ => rfl
  | [a], h, key => specLevel_eq db a (by simpa [noExt] using h) key
  | a :: b :: rest, h, key => by
    simp only [noExt, List.all_cons, Bool.and_eq_true, Bool.not_eq_eq_eq_not, Bool.not_true] at h
    simp only [specElems, pathElems, specLevel_eq db a h.1]
    congr 1
    funext v
    exact specElems_eq db (b :: rest) (by simp [noExt, h.2.1, h.2.2]) _

/-- what `compose` guarantees about its results -/
def WFR : RSym → Prop
  | .atom _ => True
  | .nonSetComp ch ty => ch.all (fun a => !a.isSet) = true ∧ 2 ≤ ch.length ∧ ty = pathTy ch ∧
      ch.dropLast.all Atom.iterable = true
  | .compSet iter last ty =>
    last.all (fun a => !a.isSet) = true ∧ iter ≠ [] ∧ pathIsSet iter = true ∧ 2 ≤ (iter ++ last).length ∧
      ty = pathTy (iter ++ last) ∧ iter.all Atom.iterable = true ∧ last.length ≤ 1 ∧
      last.all (fun a => !a.iterable) = true

theorem pathTy_cons (a : Atom) (l : List Atom) (h : l ≠ []) : pathTy (a :: l) = pathTy l := by
  cases l with
  | nil => exact absurd rfl h
  | cons b t => simp [pathTy, List.getLast?_cons_cons]

theorem atoms_id (r : RSym) (h : WFR r) : r.atoms = [Atom.id] ↔ r = .atom .id := by
  cases r with
  | atom a => simp [RSym.atoms]
  | nonSetComp ch ty =>
    simp only [RSym.atoms]
    constructor
    · intro e; have := h.2.1; rw [e] at this; simp at this
    · intro e; cases e
  | compSet iter last ty =>
    simp only [RSym.atoms]
    constructor
    · intro e; have := h.2.2.2.1; rw [e] at this; simp at this
    · intro e; cases e

theorem set_iterable (a : Atom) (h : a.isSet = true) : a.iterable = true := by
  cases a <;> simp_all [Atom.isSet, Atom.iterable]

/-- filtering the iterable symbols out of a chain whose symbols, except possibly the last, are iterable -/
theorem filter_iterable (ch : List Atom) (last : Atom) (h : ch.all Atom.iterable = true) :
    (ch ++ [last]).filter Atom.iterable = if last.iterable then ch ++ [last] else ch := by
  have hf : ch.filter Atom.iterable = ch := List.filter_eq_self.mpr (by simpa using h)
  by_cases hl : last.iterable = true <;> simp [List.filter_append, hf, hl]

/-- the set branch on a chain `ch ++ [last]` whose symbols before the last are iterable: the whole
    chain is kept — as the iterable part, or as iterable part plus tail -/
theorem composeSet_eq (ch : List Atom) (last : Atom) (ty : NodeType) (h : ch.all Atom.iterable = true) :
    composeSet (ch ++ [last]) ty =
      (if last.iterable then .compSet (ch ++ [last]) [] ty else .compSet ch [last] ty) := by
  have hl : (ch ++ [last]).getLast? = some last := by simp
  simp only [composeSet, hl, filter_iterable ch last h]
  by_cases hi : last.iterable = true
  · simp [hi]
  · have hi' : last.iterable = false := by simpa using hi
    have hs : last.isSet = false := by
      cases hs : last.isSet with
      | false => rfl
      | true => rw [set_iterable last hs] at hi'; cases hi'
    simp [hi', hs]

theorem dropLast_append_getLast (l : List Atom) (h : l ≠ []) : ∃ init last, l = init ++ [last] ∧ l.dropLast = init :=
  ⟨l.dropLast, l.getLast h, (List.dropLast_concat_getLast h).symm, rfl⟩

theorem pathTy_append_singleton (ch : List Atom) (a : Atom) : pathTy (ch ++ [a]) = a.ty := by
  simp [pathTy]

theorem pathIsSet_append (a b : List Atom) : pathIsSet (a ++ b) = (pathIsSet a || pathIsSet b) := by
  simp [pathIsSet, List.any_append]

theorem not_iterable_not_set (a : Atom) (h : a.iterable = false) : a.isSet = false := by
  cases hs : a.isSet with
  | false => rfl
  | true => rw [set_iterable a hs] at h; cases h

/-- the set branch of `compose` on the chain `first :: init ++ [last]` -/
theorem composeSet_chain (first : Atom) (hfi : first.iterable = true) (init : List Atom) (last : Atom) (ty : NodeType)
    (hinit : init.all Atom.iterable = true) (hset : pathIsSet (first :: (init ++ [last])) = true) (hty : ty = last.ty) :
    (composeSet (first :: (init ++ [last])) ty).atoms = first :: (init ++ [last]) ∧
      WFR (composeSet (first :: (init ++ [last])) ty) := by
  have hch : (first :: init).all Atom.iterable = true := by simp [hfi, hinit]
  have e : first :: (init ++ [last]) = (first :: init) ++ [last] := by simp
  rw [e] at hset ⊢
  rw [composeSet_eq (first :: init) last ty hch]
  by_cases hi : last.iterable = true
  · simp only [hi, if_true, RSym.atoms, List.append_nil, WFR]
    refine ⟨trivial, by simp, by simp, hset, by simp, ?_, ?_, by simp, by simp⟩
    · rw [hty, pathTy_append_singleton]
    · simp only [List.all_append, hch, Bool.true_and]; simp [hi]
  · have hi' : last.iterable = false := by simpa using hi
    have hs : last.isSet = false := not_iterable_not_set last hi'
    simp only [hi', Bool.false_eq_true, if_false, RSym.atoms, WFR]
    refine ⟨trivial, by simp [hs], by simp, ?_, by simp, ?_, hch, by simp, by simp [hi']⟩
    · rw [pathIsSet_append] at hset
      simpa [pathIsSet, hs] using hset
    · rw [hty, pathTy_append_singleton]

/-- composing a link `first` (an fk field or a link set: iterable) in front of a resolved symbol
    keeps every symbol of the chain (since 5f6f9bb also the non-iterable tail of `set.custom`) -/
theorem compose_atoms (first : Atom) (hfi : first.iterable = true) (rest : RSym) (hw : WFR rest) :
    (compose first rest).atoms = (if rest.atoms = [Atom.id] then [first] else first :: rest.atoms) ∧
    WFR (compose first rest) := by
  cases rest with
  | atom a =>
    by_cases hid : a = Atom.id
    · subst hid; simp [compose, RSym.atoms, WFR]
    · have hne : ([a] : List Atom) ≠ [Atom.id] := by simpa using hid
      have hcomp : compose first (.atom a) =
          (if !first.isSet && !a.isSet then .nonSetComp [first, a] a.ty else composeSet [first, a] a.ty) := by
        cases a <;> first | exact absurd rfl hid | rfl
      rw [hcomp]
      have hat : (RSym.atom a).atoms = [a] := rfl
      rw [hat]
      simp only [hne, if_false]
      by_cases hns : (!first.isSet && !a.isSet) = true
      · simp only [hns, if_true, RSym.atoms, WFR]
        simp only [Bool.and_eq_true, Bool.not_eq_eq_eq_not, Bool.not_true] at hns
        refine ⟨trivial, by simp [hns.1, hns.2], by simp, by simp [pathTy], by simp [hfi]⟩
      · simp only [hns, Bool.false_eq_true, if_false]
        have hset : pathIsSet (first :: ([] ++ [a])) = true := by
          simp only [Bool.and_eq_true, Bool.not_eq_eq_eq_not, Bool.not_true, not_and, Bool.not_eq_false] at hns
          by_cases hf : first.isSet = true
          · simp [pathIsSet, hf]
          · simp [pathIsSet, hns (by simpa using hf)]
        simpa using composeSet_chain first hfi [] a a.ty rfl hset rfl
  | nonSetComp ch ty =>
    obtain ⟨hall, hlen, hty, hit⟩ := hw
    have hne : ch ≠ [] := by intro e; rw [e] at hlen; simp at hlen
    have hid : ch ≠ [Atom.id] := by intro e; rw [e] at hlen; simp at hlen
    obtain ⟨init, last, hch, hdl⟩ := dropLast_append_getLast ch hne
    by_cases hf : first.isSet = true
    · simp only [compose, hf, Bool.not_true, Bool.false_eq_true, if_false, RSym.atoms, hid]
      rw [hch]
      have hinit : init.all Atom.iterable = true := by rw [← hdl]; exact hit
      exact composeSet_chain first hfi init last ty hinit (by simp [pathIsSet, hf]) (by rw [hty, hch, pathTy_append_singleton])
    · have hf' : first.isSet = false := by simpa using hf
      simp only [compose, hf', Bool.not_false, if_true, RSym.atoms, hid, if_false, WFR]
      refine ⟨trivial, by simp [hf', hall], by simp; omega, ?_, ?_⟩
      · rw [hty, pathTy_cons first ch hne]
      · rw [hdl] at hit
        rw [hch, show first :: (init ++ [last]) = (first :: init) ++ [last] by simp, List.dropLast_concat]
        simp [hfi, hit]
  | compSet iter last ty =>
    obtain ⟨_, hne, hset, hlen, hty, hit, hl1, _⟩ := hw
    have hne' : iter ++ last ≠ [] := by simp [hne]
    have hid : iter ++ last ≠ [Atom.id] := by
      intro e; rw [e] at hlen; simp at hlen
    obtain ⟨init, lst, hch, hdl⟩ := dropLast_append_getLast (iter ++ last) hne'
    simp only [compose, RSym.atoms, hid, if_false]
    rw [hch]
    have hinit : init.all Atom.iterable = true := by
      rw [← hdl]
      cases last with
      | nil =>
        simp only [List.append_nil]
        rw [List.all_eq_true] at hit ⊢
        exact fun a ha => hit a ((List.dropLast_sublist _).subset ha)
      | cons x xs =>
        have : xs = [] := by
          cases xs with
          | nil => rfl
          | cons y ys => simp at hl1
        subst this
        rw [List.dropLast_concat]; exact hit
    have hset' : pathIsSet (first :: (init ++ [lst])) = true := by
      rw [← hch]
      simp only [pathIsSet, List.any_cons, List.any_append] at hset ⊢; simp [hset]
    exact composeSet_chain first hfi init lst ty hinit hset' (by rw [hty, hch, pathTy_append_singleton])

/-- **`GetSymbol` builds the chain the specification reads off the name**, for every name -/
theorem resolve_path (defs : List StoreDef) : ∀ (parts : List String) (st : Nat),
    specPath defs st parts = (resolve defs st parts).map RSym.atoms ∧
      (∀ r, resolve defs st parts = some r → WFR r)
  | [], st => ⟨rfl, by intro r h; simp [resolve] at h⟩
  | [p], st => by
    simp only [specPath, resolve]
    cases lookupSym defs st p with
    | none => exact ⟨rfl, by intro r h; simp at h⟩
    | some a => exact ⟨rfl, by intro r h; simp at h; subst h; trivial⟩
  | p :: q :: rest, st => by
    simp only [specPath, resolve]
    cases hd : defs[st]? with
    | none => exact ⟨rfl, by intro r h; simp at h⟩
    | some d =>
      simp only
      cases hm : d.maps.lookup p with
      | some md =>
        simp only [elementSymbol_eq_path]
        exact ⟨rfl, by intro r h; simp at h; subst h; trivial⟩
      | none =>
        simp only
        cases hl : lookupSym defs st p with
        | none => exact ⟨rfl, by intro r h; simp at h⟩
        | some first =>
          simp only
          cases hlk : first.linked with
          | none => exact ⟨rfl, by intro r h; simp at h⟩
          | some st' =>
            simp only
            have ih := resolve_path defs (q :: rest) st'
            cases first with
            | id => exact ⟨rfl, by intro r h; simp at h⟩
            | field fs fk fty fl =>
              simp only
              rw [ih.1]
              cases hr : resolve defs st' (q :: rest) with
              | none => exact ⟨rfl, by intro r h; simp at h⟩
              | some r =>
                have hw := ih.2 r hr
                have hc := compose_atoms (.field fs fk fty fl) rfl r hw
                refine ⟨by simp [hc.1], ?_⟩
                intro r' hr'; simp at hr'; subst hr'; exact hc.2
            | set fs fk fty fl =>
              simp only
              rw [ih.1]
              cases hr : resolve defs st' (q :: rest) with
              | none => exact ⟨rfl, by intro r h; simp at h⟩
              | some r =>
                have hw := ih.2 r hr
                have hc := compose_atoms (.set fs fk fty fl) rfl r hw
                refine ⟨by simp [hc.1], ?_⟩
                intro r' hr'; simp at hr'; subst hr'; exact hc.2
            | mapElem fs mk fk fty => simp [Atom.linked] at hlk
            | custom cs cn cty cl ck => exact ⟨rfl, by intro r h; simp at h⟩

theorem levelVals_nonset (db : Db F) (a : Atom) (h : a.isSet = false) (key : Option Bytes) :
    levelVals db a key = [evalAtom db a key] := by
  cases a <;> simp_all [levelVals, Atom.isSet]

theorem pathElems_nonset (db : Db F) : ∀ (ch : List Atom), ch ≠ [] → ch.all (fun a => !a.isSet) = true →
    ∀ key, pathElems db ch key = [evalChain db ch key]
  | [], h, _, _ => absurd rfl h
  | [a], _, ha, key => by
    simp only [List.all_cons, List.all_nil, Bool.and_true, Bool.not_eq_eq_eq_not, Bool.not_true] at ha
    simp [pathElems, evalChain, levelVals_nonset db a ha]
  | a :: b :: rest, _, ha, key => by
    simp only [List.all_cons, Bool.and_eq_true, Bool.not_eq_eq_eq_not, Bool.not_true] at ha
    have ih := pathElems_nonset db (b :: rest) (by simp) (by simp [ha.2.1, ha.2.2])
    simp [pathElems, evalChain, levelVals_nonset db a ha.1, ih]

theorem pathElems_append (db : Db F) (last : List Atom) (hl : last ≠ [])
    (hns : last.all (fun a => !a.isSet) = true) :
    ∀ (iter : List Atom), iter ≠ [] → ∀ key,
      pathElems db (iter ++ last) key = (pathElems db iter key).map fun v => evalChain db last (linkKey v)
  | [], h, _ => absurd rfl h
  | [a], _, key => by
    cases last with
    | nil => exact absurd rfl hl
    | cons x xs =>
      simp only [List.singleton_append, pathElems]
      rw [List.flatMap_eq_foldl] <;> skip
      induction levelVals db a key with
      | nil => rfl
      | cons v vs ih => simp [pathElems_nonset db (x :: xs) (by simp) hns, List.flatMap_cons] at ih ⊢; simpa using ih
  | a :: b :: rest, _, key => by
    have ih := pathElems_append db last hl hns (b :: rest) (by simp)
    cases hlast : (b :: rest) ++ last with
    | nil => simp at hlast
    | cons y ys =>
      have : (a :: b :: rest) ++ last = a :: (y :: ys) := by simp [← hlast]
      rw [this]
      simp only [pathElems, List.map_flatMap]
      congr 1
      funext v
      rw [← hlast]
      exact ih (linkKey v)

/-- a resolved symbol (as `compose` builds it) means what its path means -/
theorem iterable_linked (a : Atom) (h : a.iterable = true) : a.linked = a.specLinked := by
  cases a <;> simp_all [Atom.iterable, Atom.linked, Atom.specLinked]

theorem getLast_linked (l : List Atom) (h : l.all Atom.iterable = true) :
    l.getLast?.bind Atom.linked = l.getLast?.bind Atom.specLinked := by
  cases hl : l.getLast? with
  | none => rfl
  | some a =>
    have : a ∈ l := List.mem_of_getLast? hl
    simp [iterable_linked a (List.all_eq_true.mp h a this)]

theorem sem_eq (db : Db F) (r : RSym) (hw : WFR r) (key : Option Bytes) :
    r.isSet = pathIsSet r.atoms ∧ r.ty = pathTy r.atoms ∧
    (r.isSet = true → r.hasTail = false → r.linked = pathLinked r.atoms) ∧
    (r.isSet = false → symVal db r key = evalChain db r.atoms key) ∧
    (r.isSet = true → modelElems db r key = pathElems db r.atoms key) ∧
    (r.isSet = true → r.hasTail = false → cursorKeys db r key = pathElems db r.atoms key) := by
  cases r with
  | atom a =>
    cases a <;> simp [RSym.isSet, RSym.atoms, RSym.ty, RSym.linked, pathIsSet, pathTy, pathLinked, Atom.isSet,
      symVal, evalChain, modelElems, cursorKeys, pathElems, Atom.linked, Atom.specLinked]
  | nonSetComp ch ty =>
    obtain ⟨hall, hlen, hty, _⟩ := hw
    have hns : pathIsSet ch = false := by
      simp only [pathIsSet]
      apply List.any_eq_false.mpr
      intro a ha
      have := List.all_eq_true.mp hall a ha
      simpa using this
    simp [RSym.isSet, RSym.atoms, RSym.ty, hns, hty, symVal]
  | compSet iter last ty =>
    obtain ⟨hall, hne, hset, hlen, hty, hit, _, _⟩ := hw
    have hany : pathIsSet (iter ++ last) = true := by
      simp only [pathIsSet, List.any_append] at hset ⊢; simp [hset]
    refine ⟨by simp [RSym.isSet, RSym.atoms, hany], by simp [RSym.ty, RSym.atoms, hty], ?_, by simp [RSym.isSet], ?_, ?_⟩
    · intro _ ht
      cases last with
      | nil => simpa [RSym.linked, RSym.atoms, pathLinked] using getLast_linked iter hit
      | cons x xs => simp [RSym.hasTail] at ht
    · intro _
      cases last with
      | nil => simp [modelElems, RSym.atoms, stacked_eq_flatMap]
      | cons x xs =>
        simp only [modelElems, RSym.atoms, stacked_eq_flatMap]
        exact (pathElems_append db (x :: xs) (by simp) hall iter hne key).symm
    · intro _ ht
      cases last with
      | nil => simp [cursorKeys, RSym.atoms, stacked_eq_flatMap]
      | cons x xs => simp [RSym.hasTail] at ht

theorem filter_const_true {α} (l : List α) : l.filter (fun _ => true) = l := by
  induction l with
  | nil => rfl
  | cons a t ih => simp [ih]

/-- "is an entity of the store" is the negation of the scanners' skip rule -/
theorem isEntityOf_eq (db : Db F) (st : Nat) (id : Bytes) : isEntityOf db st id = !skipped db st id := by
  simp only [isEntityOf, skipped]
  cases isChild db.defs st <;> cases present db st id <;> cases isExtended db.defs st <;> rfl

/-- the rows the scanner does not skip (nil keys, the child-store presence rule) are the linked
    entities of the linked store -/
theorem cursorRows_live (db : Db F) (linked : Option Nat) (es : List (SVal F)) :
    (cursorRowsOf linked es).filter (fun c' => !(modelWorld db).nilRow c') = subRowsOf db linked es := by
  cases linked with
  | none => rfl
  | some st' =>
    simp only [cursorRowsOf, subRowsOf, modelWorld]
    induction es with
    | nil => rfl
    | cons v vs ih =>
      cases hk : linkKey v with
      | none => simpa [List.filterMap_cons, hk] using ih
      | some k =>
        by_cases hs : skipped db st' k = true
        · simpa [List.filterMap_cons, hk, isEntityOf_eq, hs] using ih
        · have hs' : skipped db st' k = false := by simpa using hs
          simpa [List.filterMap_cons, hk, isEntityOf_eq, hs'] using ih

theorem composeSet_not_atom (ch : List Atom) (ty : NodeType) (a : Atom) : composeSet ch ty ≠ .atom a := by
  simp only [composeSet]
  split
  · split <;> simp
  · simp

theorem compose_atom_eq (first : Atom) (rest : RSym) (a : Atom) (h : compose first rest = .atom a) : a = first := by
  cases rest with
  | atom a' =>
    by_cases hid : a' = Atom.id
    · subst hid; simp [compose] at h; exact h.symm
    · have hcomp : compose first (.atom a') =
          (if !first.isSet && !a'.isSet then .nonSetComp [first, a'] a'.ty else composeSet [first, a'] a'.ty) := by
        cases a' <;> first | exact absurd rfl hid | rfl
      rw [hcomp] at h
      split at h
      · cases h
      · exact absurd h (composeSet_not_atom _ _ _)
  | nonSetComp ch ty =>
    simp only [compose] at h
    split at h
    · cases h
    · exact absurd h (composeSet_not_atom _ _ _)
  | compSet iter last ty =>
    simp only [compose] at h
    exact absurd h (composeSet_not_atom _ _ _)

/-- a name resolves to a custom symbol only when it is that symbol's own name -/
theorem resolve_atom_custom (defs : List StoreDef) : ∀ (parts : List String) (st o : Nat) (n : String) (ty : NodeType)
    (l : Option Nat) (k : CustomKind), resolve defs st parts = some (.atom (.custom o n ty l k)) →
    ∃ p, lookupSym defs st p = some (.custom o n ty l k)
  | [], st, o, n, ty, l, k, h => by simp [resolve] at h
  | [p], st, o, n, ty, l, k, h => by
    simp only [resolve] at h
    cases hl : lookupSym defs st p with
    | none => simp [hl] at h
    | some a => simp [hl] at h; subst h; exact ⟨p, hl⟩
  | p :: q :: rest, st, o, n, ty, l, k, h => by
    simp only [resolve] at h
    cases hd : defs[st]? with
    | none => simp [hd] at h
    | some d =>
      simp only [hd] at h
      cases hm : d.maps.lookup p with
      | some md => simp only [hm] at h; simp [elementSymbol] at h
      | none =>
        simp only [hm] at h
        cases hl : lookupSym defs st p with
        | none => simp [hl] at h
        | some first =>
          simp only [hl] at h
          cases hlk : first.linked with
          | none => simp [hlk] at h
          | some st' =>
            simp only [hlk] at h
            cases first with
            | id => simp at h
            | custom cs cn cty cl ck => simp at h
            | mapElem a b c d => simp [Atom.linked] at hlk
            | field fs fk ft fl =>
              simp only [Option.map_eq_some_iff] at h
              obtain ⟨x, _, hx⟩ := h
              have := compose_atom_eq _ _ _ hx
              cases this
            | set fs fk ft fl =>
              simp only [Option.map_eq_some_iff] at h
              obtain ⟨x, _, hx⟩ := h
              have := compose_atom_eq _ _ _ hx
              cases this

/-- a symbol that uses external functions only by their own name, read on an entity's own id: the
    path semantics and the code agree on its value -/
theorem specChain_eq_direct (db : Db F) (r : RSym) (hd : r.extDirect = true) (id : Bytes) :
    specChain db r.atoms (some id) = evalChain db r.atoms (some id) := by
  cases r with
  | atom a => exact specAtomVal_ext_eq db a id
  | nonSetComp ch ty => exact specChain_eq db ch (by simpa [RSym.extDirect, RSym.atoms, noExt] using hd) _
  | compSet iter last ty => exact specChain_eq db _ (by simpa [RSym.extDirect, RSym.atoms, noExt] using hd) _

theorem specElems_eq_direct (db : Db F) (r : RSym) (hd : r.extDirect = true) (hset : r.isSet = true) (key : Option Bytes) :
    specElems db r.atoms key = pathElems db r.atoms key := by
  cases r with
  | atom a =>
    have : a.isExt = false := by cases a <;> simp_all [RSym.isSet, Atom.isSet, Atom.isExt]
    exact specElems_eq db [a] (by simp [noExt, this]) key
  | nonSetComp ch ty => simp [RSym.isSet] at hset
  | compSet iter last ty => exact specElems_eq db _ (by simpa [RSym.extDirect, RSym.atoms, noExt] using hd) _

/-- type and set-ness of every name agree between the code's and the specification's symbol tables -/
theorem sym_eq (defs : List StoreDef) (t : Nat) (n : String) : (dbSigma defs).sym t n = (dbSpecSigma defs).sym t n := by
  obtain ⟨hp, hwf⟩ := resolve_path defs (splitName n) t
  simp only [dbSigma, dbSpecSigma, hp]
  cases hr : resolve defs t (splitName n) with
  | none => simp
  | some r =>
    obtain ⟨h1, h2, _⟩ := sem_eq (F := Unit) ⟨[], [], fun _ _ => .fn fun _ => .nil, fun _ v => v⟩ r (hwf r hr) none
    simp [h1, h2]

/-- On a name that uses external functions directly (`nameOK`), read on an entity (`c.2 = some id`),
    the world the code computes and the path semantics agree: symbol table entry, value, set elements;
    for the symbol of a sub-query (without tail) also entity type and rows. -/
theorem world_name_eq (db : Db F) (c : Ctx) (hc : c.2.isSome = true) (n : String) (sub : Bool)
    (h : nameOK db.defs sub c.1 n = true) :
    (dbSigma db.defs).sym c.1 n = (dbSpecSigma db.defs).sym c.1 n ∧
    (((dbSigma db.defs).sym c.1 n).map (·.2) = some false → (modelWorld db).val c n = (specWorld db).val c n) ∧
    (((dbSigma db.defs).sym c.1 n).map (·.2) = some true → (modelWorld db).elems c n = (specWorld db).elems c n) ∧
    (sub = true → ((dbSigma db.defs).sym c.1 n).map (·.2) = some true →
      (dbSigma db.defs).setTypes c.1 n = (dbSpecSigma db.defs).setTypes c.1 n ∧
      liveRows (modelWorld db) c n = liveRows (specWorld db) c n) := by
  simp only [nameOK, Bool.and_eq_true] at h
  obtain ⟨hp, hwf⟩ := resolve_path db.defs (splitName n) c.1
  obtain ⟨st, key⟩ := c
  cases key with
  | none => simp at hc
  | some id =>
  simp only [dbSigma, dbSpecSigma, modelWorld, specWorld, liveRows, hp]
  cases hr : resolve db.defs st (splitName n) with
  | none => simp
  | some r =>
    have hw := hwf r hr
    have hd : r.extDirect = true := by simpa [hr] using h.2
    obtain ⟨h1, h2, h3, h4, h5, h6⟩ := sem_eq db r hw (some id)
    simp only [Option.map_some, Option.bind_some]
    refine ⟨by rw [h1, h2], ?_, ?_, ?_⟩
    · intro hs
      have hs' : r.isSet = false := by simpa using hs
      have : pathIsSet r.atoms = false := by rw [← h1]; exact hs'
      simp [this, h4 hs', specChain_eq_direct db r hd id]
    · intro hs
      have hs' : r.isSet = true := by simpa using hs
      have : pathIsSet r.atoms = true := by rw [← h1]; exact hs'
      simp [this, h5 hs', specElems_eq_direct db r hd hs']
    · intro hsub hs
      have hs' : r.isSet = true := by simpa using hs
      have hps : pathIsSet r.atoms = true := by rw [← h1]; exact hs'
      have ht : r.hasTail = false := by
        have := h.1
        simp only [hsub, Bool.not_true, Bool.false_or, hr] at this
        simpa using this
      refine ⟨h3 hs' ht, ?_⟩
      simp only [hps, if_true, h6 hs' ht, h3 hs' ht, Bool.not_false, filter_const_true, specElems_eq_direct db r hd hs']
      exact cursorRows_live db _ _

/-- the model world under the code's symbol tables and the specification world under the path
    semantics give the same `sat` on filters whose names resolve regularly -/
theorem sat_world_eq (db : Db F) (fo : FloatOps F) :
    ∀ (f : U F) (t : Nat) (c : Ctx), c.1 = t → c.2.isSome = true → namesOK db.defs t f = true →
      wellTyped (dbSigma db.defs) fo t f = true ∨ (lhsType (dbSigma db.defs) fo t f).isSome = true →
      sat (dbSigma db.defs) (modelWorld db) fo t c f = sat (dbSpecSigma db.defs) (specWorld db) fo t c f ∧
      lhsDen (dbSigma db.defs) (modelWorld db) fo t c f = lhsDen (dbSpecSigma db.defs) (specWorld db) fo t c f := by
  intro f
  induction f with
  | sym n =>
    intro t c hc hc2 h hwt
    subst hc
    have hn := world_name_eq db c hc2 n false (by simpa [namesOK] using h)
    have hns : ((dbSigma db.defs).sym c.1 n).map (·.2) = some false := by
      rcases hwt with hwt | hwt
      · simp only [wellTyped] at hwt
        cases hs : (dbSigma db.defs).sym c.1 n with
        | none => simp [hs] at hwt
        | some x => obtain ⟨τ, b⟩ := x; cases τ <;> cases b <;> simp [hs] at hwt <;> rfl
      · simp only [lhsType] at hwt
        cases hs : (dbSigma db.defs).sym c.1 n with
        | none => simp [hs] at hwt
        | some x => obtain ⟨τ, b⟩ := x; cases b <;> simp [hs] at hwt <;> rfl
    simp [sat, lhsDen, symType, ← hn.1, hn.2.1 hns]
  | setFn fn n =>
    intro t c hc hc2 h hwt
    subst hc
    have hn := world_name_eq db c hc2 n false (by simpa [namesOK] using h)
    have hss : ((dbSigma db.defs).sym c.1 n).map (·.2) = some true := by
      rcases hwt with hwt | hwt
      · cases hs : (dbSigma db.defs).sym c.1 n with
        | none => cases fn <;> simp [wellTyped, hs] at hwt
        | some x => obtain ⟨τ, b⟩ := x; cases fn <;> cases b <;> simp [wellTyped, hs] at hwt <;> rfl
      · cases hs : (dbSigma db.defs).sym c.1 n with
        | none => cases fn <;> simp [lhsType, hs] at hwt
        | some x => obtain ⟨τ, b⟩ := x; cases fn <;> cases b <;> simp [lhsType, hs] at hwt <;> rfl
    cases fn <;> simp [sat, lhsDen, symType, ← hn.1, hn.2.2.1 hss]
  | setFnSub fn n q so sk li ih =>
    intro t c hc hc2 h hwt
    subst hc
    simp only [namesOK, Bool.and_eq_true] at h
    have hn := world_name_eq db c hc2 n true h.1
    -- the typing facts: n is a set symbol with a linked entity type, q is well-typed there
    have hty : ((dbSigma db.defs).sym c.1 n).map (·.2) = some true ∧
        ∃ t', (dbSigma db.defs).setTypes c.1 n = some t' ∧ wellTyped (dbSigma db.defs) fo t' q = true := by
      rcases hwt with hwt | hwt
      · cases hs : (dbSigma db.defs).sym c.1 n with
        | none => cases fn <;> simp [wellTyped, hs] at hwt
        | some x =>
          obtain ⟨τ, b⟩ := x
          cases hst : (dbSigma db.defs).setTypes c.1 n with
          | none => cases fn <;> cases b <;> simp [wellTyped, hs, hst] at hwt
          | some t' =>
            cases fn <;> cases b <;> simp [wellTyped, hs, hst] at hwt
            exact ⟨rfl, t', rfl, hwt.1.2⟩
      · cases hs : (dbSigma db.defs).sym c.1 n with
        | none => cases fn <;> simp [lhsType, hs] at hwt
        | some x =>
          obtain ⟨τ, b⟩ := x
          cases hst : (dbSigma db.defs).setTypes c.1 n with
          | none => cases fn <;> cases b <;> simp [lhsType, hs, hst] at hwt
          | some t' =>
            cases fn <;> cases b <;> simp [lhsType, hs, hst] at hwt
            exact ⟨rfl, t', rfl, hwt.2.1⟩
    obtain ⟨hss, t', hst, hq⟩ := hty
    have hsub := hn.2.2.2 rfl hss
    have hnq : namesOK db.defs t' q = true := by simpa [hst] using h.2
    have hst' : (dbSpecSigma db.defs).setTypes c.1 n = some t' := by rw [← hsub.1]; exact hst
    -- every live sub-row context belongs to the linked store t'
    have hctx : ∀ c' ∈ liveRows (specWorld db) c n, c'.1 = t' ∧ c'.2.isSome = true := by
      intro c' hc'
      simp only [liveRows, specWorld, Bool.not_false, filter_const_true] at hc'
      simp only [dbSpecSigma] at hst'
      cases hp : specPath db.defs c.1 (splitName n) with
      | none => simp [hp] at hc'
      | some p =>
        simp only [hp, Option.bind_some] at hst' hc'
        by_cases hps : pathIsSet p = true
        · simp only [hps, if_true, subRowsOf, hst', List.mem_filterMap] at hc'
          obtain ⟨v, _, hv⟩ := hc'
          cases hk : linkKey v with
          | none => simp [hk] at hv
          | some k =>
            simp only [hk, Option.bind_some] at hv
            split at hv
            · simp at hv; rw [← hv]; exact ⟨rfl, rfl⟩
            · simp at hv
        · simp [hps] at hc'
    have hfil : (List.filter (fun c' => sat (dbSigma db.defs) (modelWorld db) fo t' c' q) (liveRows (specWorld db) c n)) =
        (List.filter (fun c' => sat (dbSpecSigma db.defs) (specWorld db) fo t' c' q) (liveRows (specWorld db) c n)) := by
      apply List.filter_congr
      intro c' hc'
      exact (ih t' c' (hctx c' hc').1 (hctx c' hc').2 hnq (Or.inl hq)).1
    have hle : (modelWorld db).rowLe = (specWorld db).rowLe := rfl
    cases fn <;> simp [sat, lhsDen, hst, hst', hsub.2, hfil, hle]
  | boolC b => intro t c _ _ _ _; simp [sat, lhsDen]
  | cmp op l r ih =>
    intro t c hc hc2 h hwt
    have hl : (lhsType (dbSigma db.defs) fo t l).isSome = true := by
      rcases hwt with hwt | hwt
      · simp only [wellTyped] at hwt
        cases hl : lhsType (dbSigma db.defs) fo t l with
        | none => simp [hl] at hwt
        | some x => rfl
      · simp [lhsType] at hwt
    simp [sat, lhsDen, (ih t c hc hc2 (by simpa [namesOK] using h) (Or.inr hl)).2]
  | inArr l arr ih =>
    intro t c hc hc2 h hwt
    have hl : (lhsType (dbSigma db.defs) fo t l).isSome = true := by
      rcases hwt with hwt | hwt
      · simp only [wellTyped] at hwt
        cases hl : lhsType (dbSigma db.defs) fo t l with
        | none => simp [hl] at hwt
        | some x => rfl
      · simp [lhsType] at hwt
    simp [sat, lhsDen, (ih t c hc hc2 (by simpa [namesOK] using h) (Or.inr hl)).2]
  | between l lo hi ih =>
    intro t c hc hc2 h hwt
    have hl : (lhsType (dbSigma db.defs) fo t l).isSome = true := by
      rcases hwt with hwt | hwt
      · simp only [wellTyped] at hwt
        cases hl : lhsType (dbSigma db.defs) fo t l with
        | none => simp [hl] at hwt
        | some x => rfl
      · simp [lhsType] at hwt
    simp [sat, lhsDen, (ih t c hc hc2 (by simpa [namesOK] using h) (Or.inr hl)).2]
  | notE e ih =>
    intro t c hc hc2 h hwt
    have he : wellTyped (dbSigma db.defs) fo t e = true := by
      rcases hwt with hwt | hwt
      · simp only [wellTyped, Bool.and_eq_true] at hwt; exact hwt.2
      · simp [lhsType] at hwt
    simp [sat, lhsDen, (ih t c hc hc2 (by simpa [namesOK] using h) (Or.inl he)).1]
  | unot e ih =>
    intro t c hc hc2 h hwt
    have he : wellTyped (dbSigma db.defs) fo t e = true := by
      rcases hwt with hwt | hwt
      · simpa [wellTyped] using hwt
      · simp [lhsType] at hwt
    simp [sat, lhsDen, (ih t c hc hc2 (by simpa [namesOK] using h) (Or.inl he)).1]
  | logic o l r ihl ihr =>
    intro t c hc hc2 h hwt
    simp only [namesOK, Bool.and_eq_true] at h
    have he : wellTyped (dbSigma db.defs) fo t l = true ∧ wellTyped (dbSigma db.defs) fo t r = true := by
      rcases hwt with hwt | hwt
      · simpa [wellTyped] using hwt
      · simp [lhsType] at hwt
    simp [sat, lhsDen, (ihl t c hc hc2 h.1 (Or.inl he.1)).1, (ihr t c hc hc2 h.2 (Or.inl he.2)).1]

/-! ### from the specification's typing to the code's: a filter that is well-typed under the path
  semantics is well-typed under the symbol tables the store answers with, and its sub-queries range
  over symbols without tail (the specification gives `set.custom` no linked entity type) -/

theorem noniterable_specLinked (a : Atom) (h : a.iterable = false) : a.specLinked = none := by
  cases a <;> simp_all [Atom.iterable, Atom.specLinked]

/-- what the specification types a sub-query against, the code does too — and then the symbol's cursor
    keys are its elements -/
theorem setTypes_rel (defs : List StoreDef) (t : Nat) (n : String) (τ : NodeType) (t' : Nat)
    (hs : (dbSpecSigma defs).sym t n = some (τ, true)) (hl : (dbSpecSigma defs).setTypes t n = some t') :
    (dbSigma defs).setTypes t n = some t' ∧
      (∀ r, resolve defs t (splitName n) = some r → r.hasTail = false) := by
  obtain ⟨hp, hwf⟩ := resolve_path defs (splitName n) t
  simp only [dbSpecSigma, dbSigma, hp] at hs hl ⊢
  cases hr : resolve defs t (splitName n) with
  | none => simp [hr] at hl
  | some r =>
    simp only [hr, Option.map_some, Option.bind_some, Option.some.injEq, Prod.mk.injEq] at hs hl ⊢
    have hw := hwf r hr
    obtain ⟨h1, _, h3, _⟩ := sem_eq (F := Unit) ⟨[], [], fun _ _ => .fn fun _ => .nil, fun _ v => v⟩ r hw none
    have hset : r.isSet = true := by rw [h1]; exact hs.2
    have ht : r.hasTail = false := by
      cases r with
      | atom a => rfl
      | nonSetComp ch ty => rfl
      | compSet iter last ty =>
        cases last with
        | nil => rfl
        | cons x xs =>
          obtain ⟨_, _, _, _, _, _, hl1, hni⟩ := hw
          have hxs : xs = [] := by
            cases xs with
            | nil => rfl
            | cons y ys => simp at hl1
          subst hxs
          have hx : x.iterable = false := by simpa using hni
          simp [RSym.atoms, pathLinked, noniterable_specLinked x hx] at hl
    exact ⟨by rw [h3 hset ht]; exact hl, fun r' hr' => by cases hr'; exact ht⟩

theorem okSort_congr (defs : List StoreDef) (t : Nat) (so : List (String × Bool)) :
    okSort (dbSpecSigma defs) t so = okSort (dbSigma defs) t so := by
  simp only [okSort]
  congr 1
  funext f
  rw [sym_eq defs t f.1]

theorem extDirect_of_path (defs : List StoreDef) (t : Nat) (n : String) (h : extNameOK defs t n = true) :
    ∀ r, resolve defs t (splitName n) = some r → r.extDirect = true := by
  intro r hr
  obtain ⟨hp, hwf⟩ := resolve_path defs (splitName n) t
  simp only [extNameOK, hp, hr, Option.map_some] at h
  have hw := hwf r hr
  cases r with
  | atom a => rfl
  | nonSetComp ch ty =>
    obtain ⟨_, hlen, _⟩ := hw
    simp only [RSym.atoms] at h
    simp only [pathExtOK, Bool.or_eq_true, decide_eq_true_eq] at h
    rcases h with h | h
    · omega
    · simpa [RSym.extDirect, RSym.atoms, noExt] using h
  | compSet iter last ty =>
    obtain ⟨_, _, _, hlen, _⟩ := hw
    simp only [RSym.atoms] at h
    simp only [pathExtOK, Bool.or_eq_true, decide_eq_true_eq] at h
    rcases h with h | h
    · omega
    · simpa [RSym.extDirect, RSym.atoms, noExt] using h

theorem nameOK_of (defs : List StoreDef) (sub : Bool) (t : Nat) (n : String)
    (hnt : sub = true → ∀ r, resolve defs t (splitName n) = some r → r.hasTail = false)
    (he : extNameOK defs t n = true) : nameOK defs sub t n = true := by
  have hx := extDirect_of_path defs t n he
  simp only [nameOK]
  cases hr : resolve defs t (splitName n) with
  | none => simp
  | some r =>
    cases sub with
    | false => simp [hx r hr]
    | true => simp [hx r hr, hnt rfl r hr]

theorem spec_typed_ok (defs : List StoreDef) (fo : FloatOps F) : ∀ (f : U F) (t : Nat),
    (wellTyped (dbSpecSigma defs) fo t f = true → extNamesOK defs t f = true →
      wellTyped (dbSigma defs) fo t f = true ∧ namesOK defs t f = true) ∧
    (∀ x, lhsType (dbSpecSigma defs) fo t f = some x → extNamesOK defs t f = true →
      lhsType (dbSigma defs) fo t f = some x ∧ namesOK defs t f = true) := by
  intro f
  induction f with
  | sym n =>
    intro t
    refine ⟨fun h he => ?_, fun x h he => ?_⟩
    · exact ⟨by simpa [wellTyped, sym_eq defs t n] using h,
        nameOK_of defs false t n (fun h => by cases h) (by simpa [extNamesOK] using he)⟩
    · exact ⟨by simpa [lhsType, sym_eq defs t n] using h,
        nameOK_of defs false t n (fun h => by cases h) (by simpa [extNamesOK] using he)⟩
  | setFn fn n =>
    intro t
    refine ⟨fun h he => ?_, fun x h he => ?_⟩
    · exact ⟨by cases fn <;> simpa [wellTyped, sym_eq defs t n] using h,
        nameOK_of defs false t n (fun h => by cases h) (by simpa [extNamesOK] using he)⟩
    · exact ⟨by cases fn <;> simpa [lhsType, sym_eq defs t n] using h,
        nameOK_of defs false t n (fun h => by cases h) (by simpa [extNamesOK] using he)⟩
  | setFnSub fn n q so sk li ih =>
    intro t
    have key : ∀ τ t', (dbSpecSigma defs).sym t n = some (τ, true) → (dbSpecSigma defs).setTypes t n = some t' →
        wellTyped (dbSpecSigma defs) fo t' q = true → extNamesOK defs t (.setFnSub fn n q so sk li) = true →
        (dbSigma defs).sym t n = some (τ, true) ∧ (dbSigma defs).setTypes t n = some t' ∧
          wellTyped (dbSigma defs) fo t' q = true ∧ namesOK defs t (.setFnSub fn n q so sk li) = true := by
      intro τ t' hs hl hq he
      obtain ⟨hl', hnt⟩ := setTypes_rel defs t n τ t' hs hl
      simp only [extNamesOK, hl, Bool.and_eq_true] at he
      obtain ⟨hq', hnq⟩ := (ih t').1 hq he.2
      refine ⟨by rw [sym_eq]; exact hs, hl', hq', ?_⟩
      simp only [namesOK, hl', Bool.and_eq_true]
      exact ⟨nameOK_of defs true t n (fun _ => hnt) he.1, hnq⟩
    refine ⟨fun h he => ?_, fun x h he => ?_⟩
    · cases fn with
      | isEmpty =>
        simp only [wellTyped] at h
        cases hs : (dbSpecSigma defs).sym t n with
        | none => simp [hs] at h
        | some y =>
          obtain ⟨τ, b⟩ := y
          cases hl : (dbSpecSigma defs).setTypes t n with
          | none => cases b <;> simp [hs, hl] at h
          | some t' =>
            cases b <;> simp [hs, hl] at h
            obtain ⟨h1, h2, h3, h4⟩ := key τ t' hs hl h.1.2 he
            exact ⟨by simp [wellTyped, h1, h2, h3, h.1.1, ← okSort_congr, h.2], h4⟩
      | _ => simp [wellTyped] at h
    · cases fn with
      | count =>
        simp only [lhsType] at h
        cases hs : (dbSpecSigma defs).sym t n with
        | none => simp [hs] at h
        | some y =>
          obtain ⟨τ, b⟩ := y
          cases hl : (dbSpecSigma defs).setTypes t n with
          | none => cases b <;> simp [hs, hl] at h
          | some t' =>
            cases b <;> simp [hs, hl] at h
            obtain ⟨⟨hτ, hq, hso⟩, hx⟩ := h
            obtain ⟨h1, h2, h3, h4⟩ := key τ t' hs hl hq he
            exact ⟨by simp [lhsType, h1, h2, h3, hτ, ← okSort_congr, hso, hx], h4⟩
      | _ => simp [lhsType] at h
  | boolC b => intro t; exact ⟨fun _ _ => ⟨rfl, rfl⟩, fun x h => by simp [lhsType] at h⟩
  | cmp op l r ih =>
    intro t
    refine ⟨fun h he => ?_, fun x h => by simp [lhsType] at h⟩
    simp only [wellTyped] at h
    cases hl : lhsType (dbSpecSigma defs) fo t l with
    | none => simp [hl] at h
    | some x =>
      obtain ⟨h1, h2⟩ := (ih t).2 x hl (by simpa [extNamesOK] using he)
      exact ⟨by simpa [wellTyped, h1, hl] using h, by simpa [namesOK] using h2⟩
  | inArr l arr ih =>
    intro t
    refine ⟨fun h he => ?_, fun x h => by simp [lhsType] at h⟩
    simp only [wellTyped] at h
    cases hl : lhsType (dbSpecSigma defs) fo t l with
    | none => simp [hl] at h
    | some x =>
      obtain ⟨h1, h2⟩ := (ih t).2 x hl (by simpa [extNamesOK] using he)
      exact ⟨by simpa [wellTyped, h1, hl] using h, by simpa [namesOK] using h2⟩
  | between l lo hi ih =>
    intro t
    refine ⟨fun h he => ?_, fun x h => by simp [lhsType] at h⟩
    simp only [wellTyped] at h
    cases hl : lhsType (dbSpecSigma defs) fo t l with
    | none => simp [hl] at h
    | some x =>
      obtain ⟨h1, h2⟩ := (ih t).2 x hl (by simpa [extNamesOK] using he)
      exact ⟨by simpa [wellTyped, h1, hl] using h, by simpa [namesOK] using h2⟩
  | notE e ih =>
    intro t
    refine ⟨fun h he => ?_, fun x h => by simp [lhsType] at h⟩
    simp only [wellTyped, Bool.and_eq_true] at h
    obtain ⟨h1, h2⟩ := (ih t).1 h.2 (by simpa [extNamesOK] using he)
    exact ⟨by simp [wellTyped, h.1, h1], by simpa [namesOK] using h2⟩
  | unot e ih =>
    intro t
    refine ⟨fun h he => ?_, fun x h => by simp [lhsType] at h⟩
    simp only [wellTyped] at h
    obtain ⟨h1, h2⟩ := (ih t).1 h (by simpa [extNamesOK] using he)
    exact ⟨by simpa [wellTyped] using h1, by simpa [namesOK] using h2⟩
  | logic o l r ihl ihr =>
    intro t
    refine ⟨fun h he => ?_, fun x h => by simp [lhsType] at h⟩
    simp only [wellTyped, Bool.and_eq_true] at h
    simp only [extNamesOK, Bool.and_eq_true] at he
    obtain ⟨h1, h2⟩ := (ihl t).1 h.1 he.1
    obtain ⟨h3, h4⟩ := (ihr t).1 h.2 he.2
    exact ⟨by simp [wellTyped, h1, h3], by simp [namesOK, h2, h4]⟩

/-- seekable cursors of the bolt-backed world range over sorted string buckets -/
theorem modelWorld_seekOK (db : Db F) (h : WellFormedDb db) : SeekOK (modelWorld db) := by
  intro c n hs
  simp only [modelWorld] at hs ⊢
  cases hr : resolve db.defs c.1 (splitName n) with
  | none => simp [hr] at hs
  | some r =>
    cases r with
    | atom a =>
      cases a with
      | set st k ty l =>
        simp only [modelElems, levelVals]
        cases hid : c.2 with
        | none => exact ⟨[], rfl, List.Pairwise.nil⟩
        | some id =>
          simp only [Option.bind_some]
          cases he : findEntity db st id with
          | none => exact ⟨[], rfl, List.Pairwise.nil⟩
          | some e =>
            simp only
            cases hl : e.sets.lookup k with
            | none => exact ⟨[], rfl, List.Pairwise.nil⟩
            | some es => simpa using h st id e he k es hl
      | id => simp [hr] at hs
      | field st k ty l => simp [hr] at hs
      | mapElem st mk k ty => simp [hr] at hs
      | custom cs cn cty cl ck => simp [hr] at hs
    | nonSetComp ch ty => simp [hr] at hs
    | compSet i l ty => simp [hr] at hs

theorem resolve_out_of_range (defs : List StoreDef) (t : Nat) (h : defs[t]? = none) :
    ∀ parts, resolve defs t parts = none
  | [] => rfl
  | [p] => by simp [resolve, lookupSym, h]
  | p :: q :: rest => by simp [resolve, h]

/-! ### schemas without custom symbols: after 0441eb9 no resolved symbol carries a non-iterable tail,
  every name resolves regularly -/

/-- every symbol of the resolved symbol is iterable (a single symbol: not a custom one), no tail -/
def RSym.allIter : RSym → Bool
  | .atom (.custom ..) => false
  | .atom _ => true
  | r => r.atoms.all Atom.iterable && !r.hasTail

theorem composeSet_allIter (ch : List Atom) (ty : NodeType) (_hne : ch ≠ []) (h : ch.all Atom.iterable = true) :
    composeSet ch ty = .compSet ch [] ty := by
  have hf : ch.filter Atom.iterable = ch := List.filter_eq_self.mpr (by simpa using h)
  simp only [composeSet, hf]
  cases hl : ch.getLast? with
  | none => rfl
  | some last => simp

theorem compose_allIter (first : Atom) (hfi : first.iterable = true) (rest : RSym) (hr : rest.allIter = true) :
    (compose first rest).allIter = true := by
  cases rest with
  | atom a =>
    by_cases hid : a = Atom.id
    · subst hid
      cases first <;> simp_all [compose, RSym.allIter, Atom.iterable]
    · have ha : a.iterable = true := by
        cases a <;> simp_all [RSym.allIter, Atom.iterable]
      have hcomp : compose first (.atom a) =
          (if !first.isSet && !a.isSet then .nonSetComp [first, a] a.ty else composeSet [first, a] a.ty) := by
        cases a <;> first | exact absurd rfl hid | rfl
      rw [hcomp]
      split
      · simp [RSym.allIter, RSym.atoms, RSym.hasTail, hfi, ha]
      · rw [composeSet_allIter _ _ (by simp) (by simp [hfi, ha])]
        simp [RSym.allIter, RSym.atoms, RSym.hasTail, hfi, ha]
  | nonSetComp ch ty =>
    simp only [RSym.allIter, RSym.atoms, RSym.hasTail, Bool.not_false, Bool.and_true] at hr
    simp only [compose]
    split
    · simp [RSym.allIter, RSym.atoms, RSym.hasTail, hfi, hr]
    · rw [composeSet_allIter _ _ (by simp) (by simp [hfi, hr])]
      simp [RSym.allIter, RSym.atoms, RSym.hasTail, hfi, hr]
  | compSet iter last ty =>
    cases last with
    | cons x xs => simp [RSym.allIter, RSym.hasTail] at hr
    | nil =>
      simp only [RSym.allIter, RSym.atoms, RSym.hasTail, Bool.not_false, Bool.and_true, List.append_nil] at hr
      simp only [compose]
      rw [composeSet_allIter _ _ (by simp) (by simp [hfi, hr])]
      simp [RSym.allIter, RSym.atoms, RSym.hasTail, hfi, hr]

theorem lookupSym_plain (defs : List StoreDef) (hp : PlainDefs defs) (st : Nat) (n : String) (a : Atom)
    (h : lookupSym defs st n = some a) : (RSym.atom a).allIter = true := by
  simp only [lookupSym] at h
  cases hd : defs[st]? with
  | none => simp [hd] at h
  | some d =>
    simp only [hd] at h
    cases hl : d.syms.lookup n with
    | none => simp [hl] at h
    | some sd =>
      cases sd with
      | custom o ty l k => exact absurd hl (hp st d hd n o ty l k)
      | id => simp [hl] at h; subst h; rfl
      | field ty l => simp [hl] at h; subst h; rfl
      | set ty l => simp [hl] at h; subst h; rfl
      | gfield o ty l => simp [hl] at h; subst h; rfl
      | gset o ty l => simp [hl] at h; subst h; rfl

theorem resolve_allIter (defs : List StoreDef) (hp : PlainDefs defs) : ∀ (parts : List String) (st : Nat) (r : RSym),
    resolve defs st parts = some r → r.allIter = true
  | [], st, r, h => by simp [resolve] at h
  | [p], st, r, h => by
    simp only [resolve] at h
    cases hl : lookupSym defs st p with
    | none => simp [hl] at h
    | some a => simp [hl] at h; subst h; exact lookupSym_plain defs hp st p a hl
  | p :: q :: rest, st, r, h => by
    simp only [resolve] at h
    cases hd : defs[st]? with
    | none => simp [hd] at h
    | some d =>
      simp only [hd] at h
      cases hm : d.maps.lookup p with
      | some md => simp only [hm] at h; simp at h; subst h; rfl
      | none =>
        simp only [hm] at h
        cases hl : lookupSym defs st p with
        | none => simp [hl] at h
        | some first =>
          simp only [hl] at h
          cases hlk : first.linked with
          | none => simp [hlk] at h
          | some st' =>
            simp only [hlk] at h
            cases first with
            | id => simp at h
            | custom cs cn cty cl ck => simp at h
            | mapElem a b c d => simp [Atom.linked] at hlk
            | field fs fk ft fl =>
              simp only [Option.map_eq_some_iff] at h
              obtain ⟨x, hx, rfl⟩ := h
              exact compose_allIter _ rfl x (resolve_allIter defs hp (q :: rest) st' x hx)
            | set fs fk ft fl =>
              simp only [Option.map_eq_some_iff] at h
              obtain ⟨x, hx, rfl⟩ := h
              exact compose_allIter _ rfl x (resolve_allIter defs hp (q :: rest) st' x hx)

theorem allIter_noTail (r : RSym) (h : r.allIter = true) : r.hasTail = false := by
  cases r with
  | atom a => rfl
  | nonSetComp ch ty => rfl
  | compSet iter last ty =>
    simp only [RSym.allIter, Bool.and_eq_true, Bool.not_eq_eq_eq_not, Bool.not_true] at h
    exact h.2

theorem allIter_extDirect (r : RSym) (h : r.allIter = true) : r.extDirect = true := by
  have key : ∀ l : List Atom, l.all Atom.iterable = true → (l.all fun a => !a.isExt) = true := by
    intro l hl
    rw [List.all_eq_true] at hl ⊢
    intro a ha
    have := hl a ha
    cases a <;> simp_all [Atom.iterable, Atom.isExt]
  cases r with
  | atom a => rfl
  | nonSetComp ch ty =>
    simp only [RSym.allIter, Bool.and_eq_true] at h
    exact key _ h.1
  | compSet iter last ty =>
    simp only [RSym.allIter, Bool.and_eq_true] at h
    exact key _ h.1

theorem nameOK_all (defs : List StoreDef) (hp : PlainDefs defs) (sub : Bool) (t : Nat) (n : String) :
    nameOK defs sub t n = true := by
  simp only [nameOK]
  cases hr : resolve defs t (splitName n) with
  | none => simp
  | some r =>
    have := resolve_allIter defs hp _ t r hr
    simp [allIter_noTail r this, allIter_extDirect r this]

/-- on a schema without custom symbols every filter satisfies the provisos -/
theorem namesOK_all (defs : List StoreDef) (hp : PlainDefs defs) : ∀ (f : U F) (t : Nat), namesOK defs t f = true := by
  intro f
  induction f with
  | sym n => intro t; exact nameOK_all defs hp false t n
  | setFn fn n => intro t; exact nameOK_all defs hp false t n
  | setFnSub fn n q so sk li ih =>
    intro t
    simp only [namesOK, nameOK_all defs hp, Bool.true_and]
    cases (dbSigma defs).setTypes t n with
    | none => rfl
    | some t' => exact ih t'
  | boolC b => intro t; rfl
  | cmp op l r ih => intro t; exact ih t
  | inArr l arr ih => intro t; exact ih t
  | between l lo hi ih => intro t; exact ih t
  | notE e ih => intro t; exact ih t
  | unot e ih => intro t; exact ih t
  | logic o l r ihl ihr => intro t; simp [namesOK, ihl t, ihr t]

theorem linked_eq_of_allIter (r : RSym) (h : r.allIter = true) : r.linked = pathLinked r.atoms := by
  cases r with
  | atom a => cases a <;> simp_all [RSym.allIter, RSym.linked, RSym.atoms, pathLinked, Atom.linked, Atom.specLinked]
  | nonSetComp ch ty =>
    simp only [RSym.allIter, Bool.and_eq_true] at h
    simpa [RSym.linked, RSym.atoms, pathLinked] using getLast_linked ch h.1
  | compSet iter last ty =>
    cases last with
    | cons x xs => simp [RSym.allIter, RSym.hasTail] at h
    | nil =>
      simp only [RSym.allIter, RSym.atoms, List.append_nil, Bool.and_eq_true] at h
      simpa [RSym.linked, RSym.atoms, pathLinked] using getLast_linked iter h.1

/-- the symbol tables the code computes are the symbol tables of the path semantics (schemas
    without custom symbols; with them the code gives `set.custom` symbols a linked type) -/
theorem dbSigma_eq_spec (defs : List StoreDef) (hpl : PlainDefs defs) : dbSigma defs = dbSpecSigma defs := by
  unfold dbSigma dbSpecSigma
  congr 1
  · funext t n; exact sym_eq defs t n
  · funext t n
    obtain ⟨hp, _⟩ := resolve_path defs (splitName n) t
    rw [hp]
    cases hr : resolve defs t (splitName n) with
    | none => rfl
    | some r => simp [linked_eq_of_allIter r (resolve_allIter defs hpl _ t r hr)]

/-- on a schema without custom symbols no name involves an external function -/
theorem extNamesOK_all (defs : List StoreDef) (hp : PlainDefs defs) : ∀ (f : U F) (t : Nat), extNamesOK defs t f = true := by
  have key : ∀ t n, extNameOK defs t n = true := by
    intro t n
    obtain ⟨hpath, _⟩ := resolve_path defs (splitName n) t
    simp only [extNameOK, hpath]
    cases hr : resolve defs t (splitName n) with
    | none => rfl
    | some r =>
      have hi := resolve_allIter defs hp _ t r hr
      have hd := allIter_extDirect r hi
      cases r with
      | atom a => simp [pathExtOK, RSym.atoms]
      | nonSetComp ch ty => simpa [pathExtOK, RSym.atoms, RSym.extDirect, noExt] using Or.inr hd
      | compSet iter last ty => simpa [pathExtOK, RSym.atoms, RSym.extDirect, noExt] using Or.inr hd
  intro f
  induction f with
  | sym n => intro t; exact key t n
  | setFn fn n => intro t; exact key t n
  | setFnSub fn n q so sk li ih =>
    intro t
    simp only [extNamesOK, key, Bool.true_and]
    cases (dbSpecSigma defs).setTypes t n with
    | none => rfl
    | some t' => exact ih t'
  | boolC b => intro t; rfl
  | cmp op l r ih => intro t; exact ih t
  | inArr l arr ih => intro t; exact ih t
  | between l lo hi ih => intro t; exact ih t
  | notE e ih => intro t; exact ih t
  | unot e ih => intro t; exact ih t
  | logic o l r ihl ihr => intro t; simp [extNamesOK, ihl t, ihr t]

end StorageModel.Filter
