import StorageModel.Filter.Db
/-
  C01 — theorems about the bolt-backed model: the stacked cursor enumerates the path semantics,
  the model world agrees with the specification world on chain-free symbols, seekable cursors
  satisfy `SeekOK`, and `Store.QueryIds` returns exactly the satisfying ids.
-/
set_option linter.unusedSimpArgs false
namespace StorageModel.Filter
open StorageModel
variable {F : Type}

theorem forEachKey_eq_flatMap (body : SVal F → List (SVal F)) (l : List (SVal F)) :
    forEachKey body l = l.flatMap body := by
  induction l with
  | nil => rfl
  | cons k ks ih => simp [forEachKey, ih]

theorem stackedFrom_eq (db : Db F) : ∀ (rest : List Atom) (cur : List (SVal F)),
    stackedFrom db rest cur =
      (match rest with
       | [] => cur
       | _ :: _ => cur.flatMap fun k => pathElems db rest (linkKey k))
  | [], cur => rfl
  | a :: rest, cur => by
    simp only [stackedFrom, forEachKey_eq_flatMap]
    congr 1
    funext k
    rw [stackedFrom_eq db rest]
    cases rest with
    | nil => simp [pathElems]
    | cons b rest' => simp [pathElems]

/-- **the stacked cursor enumerates exactly the path semantics** of a composite set symbol:
    every element reachable by following the chain, in order, with multiplicity -/
theorem stacked_eq_flatMap (db : Db F) (chain : List Atom) (key : Option Bytes) :
    stackedElems db chain key = pathElems db chain key := by
  cases chain with
  | nil => rfl
  | cons a rest =>
    simp only [stackedElems, stackedFrom_eq]
    cases rest with
    | nil => simp [pathElems]
    | cons b rest' => simp [pathElems]

def RSym.atoms : RSym → List Atom
  | .atom a => [a]
  | .nonSetComp ch _ => ch
  | .compSet iter last _ => iter ++ last

/-- what `compose` guarantees about its results -/
def WFR : RSym → Prop
  | .atom _ => True
  | .nonSetComp ch ty => ch.all (fun a => !a.isSet) = true ∧ 2 ≤ ch.length ∧ ty = pathTy ch
  | .compSet iter last ty =>
    last.all (fun a => !a.isSet) = true ∧ iter ≠ [] ∧ pathIsSet iter = true ∧ 2 ≤ (iter ++ last).length ∧
      ty = pathTy (iter ++ last)

theorem pathTy_cons (a : Atom) (l : List Atom) (h : l ≠ []) : pathTy (a :: l) = pathTy l := by
  cases l with
  | nil => exact absurd rfl h
  | cons b t => simp [pathTy, List.getLast?_cons_cons]

theorem atoms_id (r : RSym) (h : WFR r) : r.atoms = [Atom.id] ↔ r = .atom .id := by
  cases r with
  | atom a => simp [RSym.atoms]
  | nonSetComp ch ty =>
    simp only [RSym.atoms]
    constructor
    · intro e; have := h.2.1; rw [e] at this; simp at this
    · intro e; cases e
  | compSet iter last ty =>
    simp only [RSym.atoms]
    constructor
    · intro e; have := h.2.2.2.1; rw [e] at this; simp at this
    · intro e; cases e

theorem compose_atoms (first : Atom) (rest : RSym) (hw : WFR rest) (ht : rest.hasTail = false) :
    (compose first rest).atoms = (if rest.atoms = [Atom.id] then [first] else first :: rest.atoms) ∧
    WFR (compose first rest) := by
  cases rest with
  | atom a =>
    cases a with
    | id => simp [compose, RSym.atoms, WFR]
    | field st k ty l =>
      have h1 : (Atom.field st k ty l).isSet = false := rfl
      have h2 : (Atom.field st k ty l).ty = ty := rfl
      by_cases hf : first.isSet = true
      · simp [compose, RSym.atoms, WFR, hf, h1, h2, pathIsSet, pathTy]
      · have hf' : first.isSet = false := by simpa using hf
        simp [compose, RSym.atoms, WFR, hf', h1, h2, pathTy]
    | set st k ty l =>
      have h1 : (Atom.set st k ty l).isSet = true := rfl
      have h2 : (Atom.set st k ty l).ty = ty := rfl
      simp [compose, RSym.atoms, WFR, h1, h2, pathIsSet, pathTy]
    | mapElem st mk k ty =>
      have h1 : (Atom.mapElem st mk k ty).isSet = false := rfl
      have h2 : (Atom.mapElem st mk k ty).ty = ty := rfl
      by_cases hf : first.isSet = true
      · simp [compose, RSym.atoms, WFR, hf, h1, h2, pathIsSet, pathTy]
      · have hf' : first.isSet = false := by simpa using hf
        simp [compose, RSym.atoms, WFR, hf', h1, h2, pathTy]
  | nonSetComp ch ty =>
    obtain ⟨hall, hlen, hty⟩ := hw
    have hne : ch ≠ [] := by intro e; rw [e] at hlen; simp at hlen
    have hid : ch ≠ [Atom.id] := by intro e; rw [e] at hlen; simp at hlen
    by_cases hf : first.isSet = true
    · simp only [compose, hf, Bool.not_true, Bool.false_eq_true, if_false, RSym.atoms, List.append_nil, hid, WFR]
      refine ⟨trivial, ?_⟩
      simp only [List.all_nil, List.append_nil, ne_eq, reduceCtorEq, not_false_eq_true, true_and]
      refine ⟨by simp [pathIsSet, hf], by simp; omega, ?_⟩
      rw [hty, pathTy_cons first ch hne]
    · have hf' : first.isSet = false := by simpa using hf
      simp only [compose, hf', Bool.not_false, if_true, RSym.atoms, hid, if_false, WFR]
      refine ⟨trivial, by simp [hf', hall], by simp; omega, ?_⟩
      rw [hty, pathTy_cons first ch hne]
  | compSet iter last ty =>
    cases last with
    | cons x xs => simp [RSym.hasTail] at ht
    | nil =>
      obtain ⟨_, hne, hset, hlen, hty⟩ := hw
      have hid : iter ≠ [Atom.id] := by
        intro e; rw [e] at hlen; simp at hlen
      simp only [compose, RSym.atoms, List.append_nil, hid, if_false, WFR]
      simp only [List.append_nil] at hlen hty
      refine ⟨trivial, rfl, by simp, by simp [pathIsSet] at hset ⊢; exact Or.inr hset, by simp; omega, ?_⟩
      rw [hty, pathTy_cons first iter hne]

theorem resolve_path (defs : List StoreDef) : ∀ (parts : List String) (st : Nat),
    regularParts defs st parts = true →
    specPath defs st parts = (resolve defs st parts).map RSym.atoms ∧
      (∀ r, resolve defs st parts = some r → WFR r)
  | [], st, _ => ⟨rfl, by intro r h; simp [resolve] at h⟩
  | [p], st, _ => by
    simp only [specPath, resolve]
    cases lookupSym defs st p with
    | none => exact ⟨rfl, by intro r h; simp at h⟩
    | some a => exact ⟨rfl, by intro r h; simp at h; subst h; trivial⟩
  | p :: q :: rest, st, h => by
    simp only [specPath, resolve]
    simp only [regularParts] at h
    cases hd : defs[st]? with
    | none => exact ⟨rfl, by intro r h; simp at h⟩
    | some d =>
      simp only [hd] at h ⊢
      cases hm : d.maps.lookup p with
      | some ty =>
        simp only
        by_cases he : rest.isEmpty = true
        · simp only [he, if_true]
          exact ⟨rfl, by intro r h; simp at h; subst h; trivial⟩
        · simp only [he, Bool.false_eq_true, if_false]
          exact ⟨rfl, by intro r h; simp at h⟩
      | none =>
        simp only [hm] at h ⊢
        cases hl : lookupSym defs st p with
        | none => exact ⟨rfl, by intro r h; simp at h⟩
        | some first =>
          simp only [hl] at h ⊢
          cases hlk : first.linked with
          | none => exact ⟨rfl, by intro r h; simp at h⟩
          | some st' =>
            simp only [hlk, Bool.and_eq_true] at h ⊢
            have ih := resolve_path defs (q :: rest) st' h.1
            cases first with
            | id => exact ⟨rfl, by intro r h; simp at h⟩
            | field fs fk fty fl =>
              simp only
              rw [ih.1]
              cases hr : resolve defs st' (q :: rest) with
              | none => exact ⟨rfl, by intro r h; simp at h⟩
              | some r =>
                have hw := ih.2 r hr
                have ht : r.hasTail = false := by simpa [hr] using h.2
                have hc := compose_atoms (.field fs fk fty fl) r hw ht
                refine ⟨by simp [hc.1], ?_⟩
                intro r' hr'; simp at hr'; subst hr'; exact hc.2
            | set fs fk fty fl =>
              simp only
              rw [ih.1]
              cases hr : resolve defs st' (q :: rest) with
              | none => exact ⟨rfl, by intro r h; simp at h⟩
              | some r =>
                have hw := ih.2 r hr
                have ht : r.hasTail = false := by simpa [hr] using h.2
                have hc := compose_atoms (.set fs fk fty fl) r hw ht
                refine ⟨by simp [hc.1], ?_⟩
                intro r' hr'; simp at hr'; subst hr'; exact hc.2
            | mapElem fs mk fk fty => simp [Atom.linked] at hlk

theorem levelVals_nonset (db : Db F) (a : Atom) (h : a.isSet = false) (key : Option Bytes) :
    levelVals db a key = [evalAtom db a key] := by
  cases a <;> simp_all [levelVals, Atom.isSet]

theorem pathElems_nonset (db : Db F) : ∀ (ch : List Atom), ch ≠ [] → ch.all (fun a => !a.isSet) = true →
    ∀ key, pathElems db ch key = [evalChain db ch key]
  | [], h, _, _ => absurd rfl h
  | [a], _, ha, key => by
    simp only [List.all_cons, List.all_nil, Bool.and_true, Bool.not_eq_eq_eq_not, Bool.not_true] at ha
    simp [pathElems, evalChain, levelVals_nonset db a ha]
  | a :: b :: rest, _, ha, key => by
    simp only [List.all_cons, Bool.and_eq_true, Bool.not_eq_eq_eq_not, Bool.not_true] at ha
    have ih := pathElems_nonset db (b :: rest) (by simp) (by simp [ha.2.1, ha.2.2])
    simp [pathElems, evalChain, levelVals_nonset db a ha.1, ih]

theorem pathElems_append (db : Db F) (last : List Atom) (hl : last ≠ [])
    (hns : last.all (fun a => !a.isSet) = true) :
    ∀ (iter : List Atom), iter ≠ [] → ∀ key,
      pathElems db (iter ++ last) key = (pathElems db iter key).map fun v => evalChain db last (linkKey v)
  | [], h, _ => absurd rfl h
  | [a], _, key => by
    cases last with
    | nil => exact absurd rfl hl
    | cons x xs =>
      simp only [List.singleton_append, pathElems]
      rw [List.flatMap_eq_foldl] <;> skip
      induction levelVals db a key with
      | nil => rfl
      | cons v vs ih => simp [pathElems_nonset db (x :: xs) (by simp) hns, List.flatMap_cons] at ih ⊢; simpa using ih
  | a :: b :: rest, _, key => by
    have ih := pathElems_append db last hl hns (b :: rest) (by simp)
    cases hlast : (b :: rest) ++ last with
    | nil => simp at hlast
    | cons y ys =>
      have : (a :: b :: rest) ++ last = a :: (y :: ys) := by simp [← hlast]
      rw [this]
      simp only [pathElems, List.map_flatMap]
      congr 1
      funext v
      rw [← hlast]
      exact ih (linkKey v)

/-- a resolved symbol (as `compose` builds it) means what its path means -/
theorem sem_eq (db : Db F) (r : RSym) (hw : WFR r) (key : Option Bytes) :
    r.isSet = pathIsSet r.atoms ∧ r.ty = pathTy r.atoms ∧
    (r.hasTail = false → r.linked = pathLinked r.atoms) ∧
    (r.isSet = false → symVal db r key = evalChain db r.atoms key) ∧
    (r.isSet = true → modelElems db r key = pathElems db r.atoms key) ∧
    (r.isSet = true → r.hasTail = false → cursorKeys db r key = pathElems db r.atoms key) := by
  cases r with
  | atom a =>
    cases a <;> simp [RSym.isSet, RSym.atoms, RSym.ty, RSym.linked, pathIsSet, pathTy, pathLinked, Atom.isSet,
      symVal, evalChain, modelElems, cursorKeys, pathElems]
  | nonSetComp ch ty =>
    obtain ⟨hall, hlen, hty⟩ := hw
    have hns : pathIsSet ch = false := by
      simp only [pathIsSet]
      apply List.any_eq_false.mpr
      intro a ha
      have := List.all_eq_true.mp hall a ha
      simpa using this
    simp [RSym.isSet, RSym.atoms, RSym.ty, RSym.linked, hns, hty, pathLinked, symVal]
  | compSet iter last ty =>
    obtain ⟨hall, hne, hset, hlen, hty⟩ := hw
    have hany : pathIsSet (iter ++ last) = true := by
      simp only [pathIsSet, List.any_append] at hset ⊢; simp [hset]
    refine ⟨by simp [RSym.isSet, RSym.atoms, hany], by simp [RSym.ty, RSym.atoms, hty], ?_, by simp [RSym.isSet], ?_, ?_⟩
    · intro ht
      cases last with
      | nil => simp [RSym.linked, RSym.atoms, pathLinked]
      | cons x xs => simp [RSym.hasTail] at ht
    · intro _
      cases last with
      | nil => simp [modelElems, RSym.atoms, stacked_eq_flatMap]
      | cons x xs =>
        simp only [modelElems, RSym.atoms, stacked_eq_flatMap]
        exact (pathElems_append db (x :: xs) (by simp) hall iter hne key).symm
    · intro _ ht
      cases last with
      | nil => simp [cursorKeys, RSym.atoms, stacked_eq_flatMap]
      | cons x xs => simp [RSym.hasTail] at ht

theorem filter_const_true {α} (l : List α) : l.filter (fun _ => true) = l := by
  induction l with
  | nil => rfl
  | cons a t ih => simp [ih]

theorem cursorRows_live (linked : Option Nat) (es : List (SVal F)) :
    (cursorRowsOf linked es).filter (fun c' => !c'.2.isNone) = subRowsOf linked es := by
  cases linked with
  | none => rfl
  | some st' =>
    simp only [cursorRowsOf, subRowsOf]
    induction es with
    | nil => rfl
    | cons v vs ih =>
      cases hk : linkKey v with
      | none => simpa [List.filterMap_cons, hk] using ih
      | some k => simpa [List.filterMap_cons, hk] using ih

/-- On a regularly resolved name the world the code computes and the path semantics agree: symbol
    table entry, value, set elements; for the symbol of a sub-query also entity type and rows. -/
theorem world_name_eq (db : Db F) (c : Ctx) (n : String) (sub : Bool) (h : nameOK db.defs sub c.1 n = true) :
    (dbSigma db.defs).sym c.1 n = (dbSpecSigma db.defs).sym c.1 n ∧
    (((dbSigma db.defs).sym c.1 n).map (·.2) = some false → (modelWorld db).val c n = (specWorld db).val c n) ∧
    (((dbSigma db.defs).sym c.1 n).map (·.2) = some true → (modelWorld db).elems c n = (specWorld db).elems c n) ∧
    (sub = true → ((dbSigma db.defs).sym c.1 n).map (·.2) = some true →
      (dbSigma db.defs).setTypes c.1 n = (dbSpecSigma db.defs).setTypes c.1 n ∧
      liveRows (modelWorld db) c n = liveRows (specWorld db) c n) := by
  simp only [nameOK, Bool.and_eq_true] at h
  obtain ⟨hp, hwf⟩ := resolve_path db.defs (splitName n) c.1 h.1
  simp only [dbSigma, dbSpecSigma, modelWorld, specWorld, liveRows, hp]
  cases hr : resolve db.defs c.1 (splitName n) with
  | none => simp
  | some r =>
    have hw := hwf r hr
    obtain ⟨h1, h2, h3, h4, h5, h6⟩ := sem_eq db r hw c.2
    simp only [Option.map_some, Option.bind_some]
    refine ⟨by rw [h1, h2], ?_, ?_, ?_⟩
    · intro hs
      have hs' : r.isSet = false := by simpa using hs
      have : pathIsSet r.atoms = false := by rw [← h1]; exact hs'
      simp [this, h4 hs']
    · intro hs
      have hs' : r.isSet = true := by simpa using hs
      have : pathIsSet r.atoms = true := by rw [← h1]; exact hs'
      simp [this, h5 hs']
    · intro hsub hs
      have hs' : r.isSet = true := by simpa using hs
      have hps : pathIsSet r.atoms = true := by rw [← h1]; exact hs'
      have ht : r.hasTail = false := by
        have := h.2
        simp only [hsub, Bool.not_true, Bool.false_or, hr] at this
        simpa using this
      refine ⟨h3 ht, ?_⟩
      simp only [hps, if_true, h6 hs' ht, h3 ht, Bool.not_false, filter_const_true]
      exact cursorRows_live _ _

/-- the model world under the code's symbol tables and the specification world under the path
    semantics give the same `sat` on filters whose names resolve regularly -/
theorem sat_world_eq (db : Db F) (fo : FloatOps F) :
    ∀ (f : U F) (t : Nat) (c : Ctx), c.1 = t → namesOK db.defs t f = true →
      wellTyped (dbSigma db.defs) fo t f = true ∨ (lhsType (dbSigma db.defs) fo t f).isSome = true →
      sat (dbSigma db.defs) (modelWorld db) fo t c f = sat (dbSpecSigma db.defs) (specWorld db) fo t c f ∧
      lhsDen (dbSigma db.defs) (modelWorld db) fo t c f = lhsDen (dbSpecSigma db.defs) (specWorld db) fo t c f := by
  intro f
  induction f with
  | sym n =>
    intro t c hc h hwt
    subst hc
    have hn := world_name_eq db c n false (by simpa [namesOK] using h)
    have hns : ((dbSigma db.defs).sym c.1 n).map (·.2) = some false := by
      rcases hwt with hwt | hwt
      · simp only [wellTyped] at hwt
        cases hs : (dbSigma db.defs).sym c.1 n with
        | none => simp [hs] at hwt
        | some x => obtain ⟨τ, b⟩ := x; cases τ <;> cases b <;> simp [hs] at hwt <;> rfl
      · simp only [lhsType] at hwt
        cases hs : (dbSigma db.defs).sym c.1 n with
        | none => simp [hs] at hwt
        | some x => obtain ⟨τ, b⟩ := x; cases b <;> simp [hs] at hwt <;> rfl
    simp [sat, lhsDen, symType, ← hn.1, hn.2.1 hns]
  | setFn fn n =>
    intro t c hc h hwt
    subst hc
    have hn := world_name_eq db c n false (by simpa [namesOK] using h)
    have hss : ((dbSigma db.defs).sym c.1 n).map (·.2) = some true := by
      rcases hwt with hwt | hwt
      · cases hs : (dbSigma db.defs).sym c.1 n with
        | none => cases fn <;> simp [wellTyped, hs] at hwt
        | some x => obtain ⟨τ, b⟩ := x; cases fn <;> cases b <;> simp [wellTyped, hs] at hwt <;> rfl
      · cases hs : (dbSigma db.defs).sym c.1 n with
        | none => cases fn <;> simp [lhsType, hs] at hwt
        | some x => obtain ⟨τ, b⟩ := x; cases fn <;> cases b <;> simp [lhsType, hs] at hwt <;> rfl
    cases fn <;> simp [sat, lhsDen, symType, ← hn.1, hn.2.2.1 hss]
  | setFnSub fn n q sk li ih =>
    intro t c hc h hwt
    subst hc
    simp only [namesOK, Bool.and_eq_true] at h
    have hn := world_name_eq db c n true h.1
    -- the typing facts: n is a set symbol with a linked entity type, q is well-typed there
    have hty : ((dbSigma db.defs).sym c.1 n).map (·.2) = some true ∧
        ∃ t', (dbSigma db.defs).setTypes c.1 n = some t' ∧ wellTyped (dbSigma db.defs) fo t' q = true := by
      rcases hwt with hwt | hwt
      · cases hs : (dbSigma db.defs).sym c.1 n with
        | none => cases fn <;> simp [wellTyped, hs] at hwt
        | some x =>
          obtain ⟨τ, b⟩ := x
          cases hst : (dbSigma db.defs).setTypes c.1 n with
          | none => cases fn <;> cases b <;> simp [wellTyped, hs, hst] at hwt
          | some t' =>
            cases fn <;> cases b <;> simp [wellTyped, hs, hst] at hwt
            exact ⟨rfl, t', rfl, hwt.2⟩
      · cases hs : (dbSigma db.defs).sym c.1 n with
        | none => cases fn <;> simp [lhsType, hs] at hwt
        | some x =>
          obtain ⟨τ, b⟩ := x
          cases hst : (dbSigma db.defs).setTypes c.1 n with
          | none => cases fn <;> cases b <;> simp [lhsType, hs, hst] at hwt
          | some t' =>
            cases fn <;> cases b <;> simp [lhsType, hs, hst] at hwt
            exact ⟨rfl, t', rfl, hwt.2⟩
    obtain ⟨hss, t', hst, hq⟩ := hty
    have hsub := hn.2.2.2 rfl hss
    have hnq : namesOK db.defs t' q = true := by simpa [hst] using h.2
    have hst' : (dbSpecSigma db.defs).setTypes c.1 n = some t' := by rw [← hsub.1]; exact hst
    -- every live sub-row context belongs to the linked store t'
    have hctx : ∀ c' ∈ liveRows (specWorld db) c n, c'.1 = t' := by
      intro c' hc'
      simp only [liveRows, specWorld, Bool.not_false, filter_const_true] at hc'
      simp only [dbSpecSigma] at hst'
      cases hp : specPath db.defs c.1 (splitName n) with
      | none => simp [hp] at hc'
      | some p =>
        simp only [hp, Option.bind_some] at hst' hc'
        by_cases hps : pathIsSet p = true
        · simp only [hps, if_true, subRowsOf, hst', List.mem_filterMap] at hc'
          obtain ⟨v, _, hv⟩ := hc'
          cases hk : linkKey v with
          | none => simp [hk] at hv
          | some k => simp [hk] at hv; rw [← hv]
        · simp [hps] at hc'
    have hfil : (List.filter (fun c' => sat (dbSigma db.defs) (modelWorld db) fo t' c' q) (liveRows (specWorld db) c n)) =
        (List.filter (fun c' => sat (dbSpecSigma db.defs) (specWorld db) fo t' c' q) (liveRows (specWorld db) c n)) := by
      apply List.filter_congr
      intro c' hc'
      exact (ih t' c' (hctx c' hc') hnq (Or.inl hq)).1
    cases fn <;> simp [sat, lhsDen, hst, hst', hsub.2, hfil]
  | boolC b => intro t c _ _ _; simp [sat, lhsDen]
  | cmp op l r ih =>
    intro t c hc h hwt
    have hl : (lhsType (dbSigma db.defs) fo t l).isSome = true := by
      rcases hwt with hwt | hwt
      · simp only [wellTyped] at hwt
        cases hl : lhsType (dbSigma db.defs) fo t l with
        | none => simp [hl] at hwt
        | some x => rfl
      · simp [lhsType] at hwt
    simp [sat, lhsDen, (ih t c hc (by simpa [namesOK] using h) (Or.inr hl)).2]
  | inArr l arr ih =>
    intro t c hc h hwt
    have hl : (lhsType (dbSigma db.defs) fo t l).isSome = true := by
      rcases hwt with hwt | hwt
      · simp only [wellTyped] at hwt
        cases hl : lhsType (dbSigma db.defs) fo t l with
        | none => simp [hl] at hwt
        | some x => rfl
      · simp [lhsType] at hwt
    simp [sat, lhsDen, (ih t c hc (by simpa [namesOK] using h) (Or.inr hl)).2]
  | between l lo hi ih =>
    intro t c hc h hwt
    have hl : (lhsType (dbSigma db.defs) fo t l).isSome = true := by
      rcases hwt with hwt | hwt
      · simp only [wellTyped] at hwt
        cases hl : lhsType (dbSigma db.defs) fo t l with
        | none => simp [hl] at hwt
        | some x => rfl
      · simp [lhsType] at hwt
    simp [sat, lhsDen, (ih t c hc (by simpa [namesOK] using h) (Or.inr hl)).2]
  | notE e ih =>
    intro t c hc h hwt
    have he : wellTyped (dbSigma db.defs) fo t e = true := by
      rcases hwt with hwt | hwt
      · simp only [wellTyped, Bool.and_eq_true] at hwt; exact hwt.2
      · simp [lhsType] at hwt
    simp [sat, lhsDen, (ih t c hc (by simpa [namesOK] using h) (Or.inl he)).1]
  | unot e ih =>
    intro t c hc h hwt
    have he : wellTyped (dbSigma db.defs) fo t e = true := by
      rcases hwt with hwt | hwt
      · simpa [wellTyped] using hwt
      · simp [lhsType] at hwt
    simp [sat, lhsDen, (ih t c hc (by simpa [namesOK] using h) (Or.inl he)).1]
  | logic o l r ihl ihr =>
    intro t c hc h hwt
    simp only [namesOK, Bool.and_eq_true] at h
    have he : wellTyped (dbSigma db.defs) fo t l = true ∧ wellTyped (dbSigma db.defs) fo t r = true := by
      rcases hwt with hwt | hwt
      · simpa [wellTyped] using hwt
      · simp [lhsType] at hwt
    simp [sat, lhsDen, (ihl t c hc h.1 (Or.inl he.1)).1, (ihr t c hc h.2 (Or.inl he.2)).1]

/-- seekable cursors of the bolt-backed world range over sorted string buckets -/
theorem modelWorld_seekOK (db : Db F) (h : WellFormedDb db) : SeekOK (modelWorld db) := by
  intro c n hs
  simp only [modelWorld] at hs ⊢
  cases hr : resolve db.defs c.1 (splitName n) with
  | none => simp [hr] at hs
  | some r =>
    cases r with
    | atom a =>
      cases a with
      | set st k ty l =>
        simp only [modelElems, levelVals]
        cases hid : c.2 with
        | none => exact ⟨[], rfl, List.Pairwise.nil⟩
        | some id =>
          simp only [Option.bind_some]
          cases he : findEntity db st id with
          | none => exact ⟨[], rfl, List.Pairwise.nil⟩
          | some e =>
            simp only
            cases hl : e.sets.lookup k with
            | none => exact ⟨[], rfl, List.Pairwise.nil⟩
            | some es => simpa using h st id e he k es hl
      | id => simp [hr] at hs
      | field st k ty l => simp [hr] at hs
      | mapElem st mk k ty => simp [hr] at hs
    | nonSetComp ch ty => simp [hr] at hs
    | compSet i l ty => simp [hr] at hs

theorem resolve_out_of_range (defs : List StoreDef) (t : Nat) (h : defs[t]? = none) :
    ∀ parts, resolve defs t parts = none
  | [] => rfl
  | [p] => by simp [resolve, lookupSym, h]
  | p :: q :: rest => by simp [resolve, h]

/-! ### after 0441eb9 no resolved symbol carries a non-iterable tail: every name resolves regularly -/

theorem compose_noTail (first : Atom) (rest : RSym) : (compose first rest).hasTail = false := by
  cases rest with
  | atom a => cases a <;> simp only [compose] <;> (try split) <;> rfl
  | nonSetComp ch ty => simp only [compose]; split <;> rfl
  | compSet iter last ty => rfl

theorem resolve_noTail (defs : List StoreDef) : ∀ (parts : List String) (st : Nat) (r : RSym),
    resolve defs st parts = some r → r.hasTail = false
  | [], st, r, h => by simp [resolve] at h
  | [p], st, r, h => by
    simp only [resolve] at h
    cases hl : lookupSym defs st p with
    | none => simp [hl] at h
    | some a => simp [hl] at h; subst h; rfl
  | p :: q :: rest, st, r, h => by
    simp only [resolve] at h
    cases hd : defs[st]? with
    | none => simp [hd] at h
    | some d =>
      simp only [hd] at h
      cases hm : d.maps.lookup p with
      | some ty =>
        simp only [hm] at h
        split at h
        · simp at h; subst h; rfl
        · simp at h
      | none =>
        simp only [hm] at h
        cases hl : lookupSym defs st p with
        | none => simp [hl] at h
        | some first =>
          simp only [hl] at h
          cases hlk : first.linked with
          | none => simp [hlk] at h
          | some st' =>
            simp only [hlk] at h
            cases first with
            | id => simp at h
            | mapElem a b c d => simp [Atom.linked] at hlk
            | field fs fk ft fl =>
              simp only [Option.map_eq_some_iff] at h
              obtain ⟨x, _, rfl⟩ := h
              exact compose_noTail _ x
            | set fs fk ft fl =>
              simp only [Option.map_eq_some_iff] at h
              obtain ⟨x, _, rfl⟩ := h
              exact compose_noTail _ x

theorem regular_all (defs : List StoreDef) : ∀ (parts : List String) (st : Nat), regularParts defs st parts = true
  | [], _ => rfl
  | [_], _ => rfl
  | p :: q :: rest, st => by
    rw [regularParts]
    cases defs[st]? with
    | none => rfl
    | some d =>
      simp only
      cases d.maps.lookup p with
      | some _ => rfl
      | none =>
        simp only
        cases lookupSym defs st p with
        | none => rfl
        | some first =>
          simp only
          cases first.linked with
          | none => rfl
          | some st' =>
            simp only [regular_all defs (q :: rest) st', Bool.true_and]
            cases hr : resolve defs st' (q :: rest) with
            | none => rfl
            | some x => simp [resolve_noTail defs (q :: rest) st' x hr]

theorem nameOK_all (defs : List StoreDef) (sub : Bool) (t : Nat) (n : String) : nameOK defs sub t n = true := by
  simp only [nameOK, regular_all, Bool.true_and]
  cases hr : resolve defs t (splitName n) with
  | none => simp
  | some r => simp [resolve_noTail defs _ t r hr]

theorem namesOK_all (defs : List StoreDef) : ∀ (f : U F) (t : Nat), namesOK defs t f = true := by
  intro f
  induction f with
  | sym n => intro t; exact nameOK_all defs false t n
  | setFn fn n => intro t; exact nameOK_all defs false t n
  | setFnSub fn n q sk li ih =>
    intro t
    simp only [namesOK, nameOK_all, Bool.true_and]
    cases (dbSigma defs).setTypes t n with
    | none => rfl
    | some t' => exact ih t'
  | boolC b => intro t; rfl
  | cmp op l r ih => intro t; exact ih t
  | inArr l arr ih => intro t; exact ih t
  | between l lo hi ih => intro t; exact ih t
  | notE e ih => intro t; exact ih t
  | unot e ih => intro t; exact ih t
  | logic o l r ihl ihr => intro t; simp [namesOK, ihl t, ihr t]

/-- the symbol tables the code computes are the symbol tables of the path semantics -/
theorem dbSigma_eq_spec (defs : List StoreDef) : dbSigma defs = dbSpecSigma defs := by
  have key : ∀ t n, (resolve defs t (splitName n)).map (fun r => (r.ty, r.isSet)) =
        (specPath defs t (splitName n)).map (fun p => (pathTy p, pathIsSet p)) ∧
      (resolve defs t (splitName n)).bind RSym.linked = (specPath defs t (splitName n)).bind pathLinked := by
    intro t n
    obtain ⟨hp, hwf⟩ := resolve_path defs (splitName n) t (regular_all defs _ t)
    rw [hp]
    cases hr : resolve defs t (splitName n) with
    | none => simp
    | some r =>
      obtain ⟨h1, h2, h3, _⟩ := sem_eq (F := Unit) ⟨[], []⟩ r (hwf r hr) none
      simp [h1, h2, h3 (resolve_noTail defs _ t r hr)]
  unfold dbSigma dbSpecSigma
  congr 1
  · funext t n; exact (key t n).1
  · funext t n; exact (key t n).2

/-! ### names with at most three segments resolve regularly (independently of the repair) -/

theorem compose_atom_noTail (first a : Atom) : (compose first (.atom a)).hasTail = false := by
  cases a <;> simp only [compose] <;> (try split) <;> rfl

theorem resolve2_noTail (defs : List StoreDef) (st : Nat) (p q : String) (r : RSym)
    (h : resolve defs st [p, q] = some r) : r.hasTail = false := by
  simp only [resolve] at h
  cases hd : defs[st]? with
  | none => simp [hd] at h
  | some d =>
    simp only [hd] at h
    cases hm : d.maps.lookup p with
    | some ty => simp [hm] at h; subst h; rfl
    | none =>
      simp only [hm] at h
      cases hl : lookupSym defs st p with
      | none => simp [hl] at h
      | some first =>
        simp only [hl] at h
        cases hlk : first.linked with
        | none => simp [hlk] at h
        | some st' =>
          simp only [hlk] at h
          cases first with
          | id => simp at h
          | mapElem a b c d => simp [Atom.linked] at hlk
          | field fs fk ft fl =>
            simp only at h
            cases ha : lookupSym defs st' q with
            | none => simp [ha] at h
            | some a => simp [ha] at h; subst h; exact compose_atom_noTail _ a
          | set fs fk ft fl =>
            simp only at h
            cases ha : lookupSym defs st' q with
            | none => simp [ha] at h
            | some a => simp [ha] at h; subst h; exact compose_atom_noTail _ a

theorem regular_le3 (defs : List StoreDef) : ∀ (st : Nat) (parts : List String), parts.length ≤ 3 →
    regularParts defs st parts = true
  | _, [], _ => rfl
  | _, [_], _ => rfl
  | st, [p, q], _ => by
    simp only [regularParts]
    cases defs[st]? with
    | none => rfl
    | some d =>
      simp only
      cases d.maps.lookup p with
      | some _ => rfl
      | none =>
        simp only
        cases lookupSym defs st p with
        | none => rfl
        | some first =>
          simp only
          cases first.linked with
          | none => rfl
          | some st' =>
            simp only [resolve, Bool.true_and]
            cases lookupSym defs st' q with
            | none => rfl
            | some a => rfl
  | st, [p, q, r], _ => by
    have key : ∀ st', regularParts defs st' [q, r] = true := fun st' => regular_le3 defs st' [q, r] (by simp)
    rw [regularParts]
    cases defs[st]? with
    | none => rfl
    | some d =>
      simp only
      cases d.maps.lookup p with
      | some _ => rfl
      | none =>
        simp only
        cases lookupSym defs st p with
        | none => rfl
        | some first =>
          simp only
          cases first.linked with
          | none => rfl
          | some st' =>
            simp only [key st', Bool.true_and]
            cases hr : resolve defs st' [q, r] with
            | none => rfl
            | some x => simp [resolve2_noTail defs st' q r x hr]
  | _, _ :: _ :: _ :: _ :: _, h => by simp at h

/-- names of at most three segments everywhere, of at most two segments for the symbol of a sub-query -/
def shortNames : U F → Bool
  | .sym n => (splitName n).length ≤ 3
  | .setFn _ n => (splitName n).length ≤ 3
  | .setFnSub _ n q _ _ => (splitName n).length ≤ 2 && shortNames q
  | .boolC _ => true
  | .cmp _ l _ => shortNames l
  | .inArr l _ => shortNames l
  | .between l _ _ => shortNames l
  | .notE e => shortNames e
  | .unot e => shortNames e
  | .logic _ l r => shortNames l && shortNames r

theorem namesOK_of_short (defs : List StoreDef) : ∀ (f : U F) (t : Nat), shortNames f = true → namesOK defs t f = true := by
  intro f
  induction f with
  | sym n => intro t h; simp only [shortNames, decide_eq_true_eq] at h; simp [namesOK, nameOK, regular_le3 defs t _ h]
  | setFn fn n => intro t h; simp only [shortNames, decide_eq_true_eq] at h; simp [namesOK, nameOK, regular_le3 defs t _ h]
  | setFnSub fn n q sk li ih =>
    intro t h
    simp only [shortNames, Bool.and_eq_true, decide_eq_true_eq] at h
    have hreg := regular_le3 defs t (splitName n) (by omega)
    have hnt : (match resolve defs t (splitName n) with | some r => !r.hasTail | none => true) = true := by
      cases hr : resolve defs t (splitName n) with
      | none => rfl
      | some r =>
        have : r.hasTail = false := by
          match hs : splitName n, h.1 with
          | [], _ => simp [hs, resolve] at hr
          | [p], _ => simp [hs, resolve] at hr; obtain ⟨a, _, rfl⟩ := hr; rfl
          | [p, q], _ => rw [hs] at hr; exact resolve2_noTail defs t p q r hr
          | _ :: _ :: _ :: _, hl => simp at hl
        simp [this]
    simp only [namesOK, nameOK, hreg, Bool.not_true, Bool.false_or, Bool.true_and, Bool.and_eq_true]
    refine ⟨hnt, ?_⟩
    cases (dbSigma defs).setTypes t n with
    | none => rfl
    | some t' => exact ih t' h.2
  | boolC b => intro t _; rfl
  | cmp op l r ih => intro t h; exact ih t (by simpa [shortNames] using h)
  | inArr l arr ih => intro t h; exact ih t (by simpa [shortNames] using h)
  | between l lo hi ih => intro t h; exact ih t (by simpa [shortNames] using h)
  | notE e ih => intro t h; exact ih t (by simpa [shortNames] using h)
  | unot e ih => intro t h; exact ih t (by simpa [shortNames] using h)
  | logic o l r ihl ihr =>
    intro t h
    simp only [shortNames, Bool.and_eq_true] at h
    simp [namesOK, ihl t h.1, ihr t h.2]

end StorageModel.Filter
