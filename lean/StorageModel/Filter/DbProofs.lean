import StorageModel.Filter.Db
/-
  C01 — theorems about the bolt-backed model: the stacked cursor enumerates the path semantics,
  the model world agrees with the specification world on chain-free symbols, seekable cursors
  satisfy `SeekOK`, and `Store.QueryIds` returns exactly the satisfying ids.
-/
set_option linter.unusedSimpArgs false
namespace StorageModel.Filter
open StorageModel
variable {F : Type}

theorem forEachKey_eq_flatMap (body : SVal F → List (SVal F)) (l : List (SVal F)) :
    forEachKey body l = l.flatMap body := by
  induction l with
  | nil => rfl
  | cons k ks ih => simp [forEachKey, ih]

theorem stackedFrom_eq (db : Db F) : ∀ (rest : List Atom) (cur : List (SVal F)),
    stackedFrom db rest cur =
      (match rest with
       | [] => cur
       | _ :: _ => cur.flatMap fun k => pathElems db rest (linkKey k))
  | [], cur => rfl
  | a :: rest, cur => by
    simp only [stackedFrom, forEachKey_eq_flatMap]
    congr 1
    funext k
    rw [stackedFrom_eq db rest]
    cases rest with
    | nil => simp [pathElems]
    | cons b rest' => simp [pathElems]

/-- **the stacked cursor enumerates exactly the path semantics** of a composite set symbol:
    every element reachable by following the chain, in order, with multiplicity -/
theorem stacked_eq_flatMap (db : Db F) (chain : List Atom) (key : Option Bytes) :
    stackedElems db chain key = pathElems db chain key := by
  cases chain with
  | nil => rfl
  | cons a rest =>
    simp only [stackedElems, stackedFrom_eq]
    cases rest with
    | nil => simp [pathElems]
    | cons b rest' => simp [pathElems]

/-- the elements of every set symbol are those of the path semantics -/
theorem modelElems_eq_spec (db : Db F) (r : RSym) (id : Option Bytes) :
    modelElems db r id = specElems db r id := by
  cases r with
  | atom a => cases a <;> rfl
  | nonSetComp c t => rfl
  | compSet iter last ty =>
    cases last with
    | nil => simp [modelElems, specElems, stacked_eq_flatMap]
    | cons x xs => simp [modelElems, specElems, stacked_eq_flatMap]

theorem filter_const_true {α} (l : List α) : l.filter (fun _ => true) = l := by
  induction l with
  | nil => rfl
  | cons a t ih => simp [ih]

theorem cursorRows_live (linked : Option Nat) (es : List (SVal F)) :
    (cursorRowsOf linked es).filter (fun c' => !c'.2.isNone) = subRowsOf linked es := by
  cases linked with
  | none => rfl
  | some st' =>
    simp only [cursorRowsOf, subRowsOf]
    induction es with
    | nil => rfl
    | cons v vs ih =>
      cases hk : linkKey v with
      | none => simpa [List.filterMap_cons, hk] using ih
      | some k => simpa [List.filterMap_cons, hk] using ih

theorem pathLinked_of_plain (r : RSym) (h : r.plainCursor = true) : r.pathLinked = r.linked := by
  cases r with
  | atom a => rfl
  | nonSetComp c t => rfl
  | compSet iter last ty =>
    cases last with
    | nil => rfl
    | cons x xs => simp [RSym.plainCursor] at h

theorem world_elems_eq (db : Db F) (c : Ctx) (n : String) :
    (modelWorld db).elems c n = (specWorld db).elems c n ∧
    (modelWorld db).val c n = (specWorld db).val c n ∧
    (namePlain db.defs c.1 n = true → liveRows (modelWorld db) c n = liveRows (specWorld db) c n) := by
  simp only [liveRows, modelWorld, specWorld, namePlain]
  cases hr : resolve db.defs c.1 (splitName n) with
  | none => simp
  | some r =>
    refine ⟨by simp [modelElems_eq_spec db r], trivial, ?_⟩
    intro h
    simp only at h
    have hk : cursorKeys db r c.2 = specElems db r c.2 := by
      cases r with
      | atom a => cases a <;> rfl
      | nonSetComp ch t => rfl
      | compSet iter last ty =>
        cases last with
        | nil => simp [cursorKeys, specElems, stacked_eq_flatMap]
        | cons x xs => simp [RSym.plainCursor] at h
    simp only [hk, Bool.not_false, filter_const_true]
    rw [pathLinked_of_plain r h]
    exact cursorRows_live _ _

@[simp] theorem symType_spec (defs : List StoreDef) (t : Nat) (n : String) :
    symType (dbSpecSigma defs) t n = symType (dbSigma defs) t n := rfl

theorem setTypes_spec_of_plain (defs : List StoreDef) (t : Nat) (n : String) (h : namePlain defs t n = true) :
    (dbSpecSigma defs).setTypes t n = (dbSigma defs).setTypes t n := by
  simp only [dbSpecSigma, dbSigma, namePlain] at h ⊢
  cases hr : resolve defs t (splitName n) with
  | none => rfl
  | some r => simp only [hr] at h; simp [pathLinked_of_plain r h]

/-- the model world and the specification world give the same `sat` (sub-queries ranging over
    plain cursors without nil rows) -/
theorem sat_world_eq (db : Db F) (fo : FloatOps F) :
    ∀ (f : U F) (t : Nat) (c : Ctx), c.1 = t → subQueriesPlain db.defs t f = true →
      sat (dbSigma db.defs) (modelWorld db) fo t c f = sat (dbSpecSigma db.defs) (specWorld db) fo t c f ∧
      lhsDen (dbSigma db.defs) (modelWorld db) fo t c f = lhsDen (dbSpecSigma db.defs) (specWorld db) fo t c f := by
  intro f
  induction f with
  | sym n =>
    intro t c hc _
    subst hc
    have := world_elems_eq db c n
    simp [sat, lhsDen, this.2.1]
  | setFn fn n =>
    intro t c hc _
    subst hc
    have := world_elems_eq db c n
    cases fn <;> simp [sat, lhsDen, this.1]
  | setFnSub fn n q sk li ih =>
    intro t c hc h
    subst hc
    simp only [subQueriesPlain, Bool.and_eq_true] at h
    have hw := world_elems_eq db c n
    have hsp := setTypes_spec_of_plain db.defs c.1 n h.1
    cases hst : (dbSigma db.defs).setTypes c.1 n with
    | none => cases fn <;> simp [sat, lhsDen, hst, hsp]
    | some t' =>
      have hq : subQueriesPlain db.defs t' q = true := by simpa [hst] using h.2
      -- every sub-row context belongs to the linked store t'
      have hctx : ∀ c' ∈ liveRows (specWorld db) c n, c'.1 = t' := by
        intro c' hc'
        simp only [liveRows, specWorld, Bool.not_false, filter_const_true] at hc'
        have hnp := h.1
        simp only [dbSigma, namePlain] at hst hnp
        cases hr : resolve db.defs c.1 (splitName n) with
        | none => simp [hr] at hc'
        | some r =>
          simp only [hr, Option.bind_some] at hst hc' hnp
          rw [pathLinked_of_plain r hnp] at hc'
          simp only [subRowsOf, hst, List.mem_filterMap] at hc'
          obtain ⟨v, _, hv⟩ := hc'
          cases hk : linkKey v with
          | none => simp [hk] at hv
          | some k => simp [hk] at hv; rw [← hv]
      have hfil : (List.filter (fun c' => sat (dbSigma db.defs) (modelWorld db) fo t' c' q) (liveRows (specWorld db) c n)) =
          (List.filter (fun c' => sat (dbSpecSigma db.defs) (specWorld db) fo t' c' q) (liveRows (specWorld db) c n)) := by
        apply List.filter_congr
        intro c' hc'
        exact (ih t' c' (hctx c' hc') hq).1
      have hsub := hw.2.2 h.1
      cases fn <;> simp [sat, lhsDen, hst, hsp, hsub, hfil]
  | boolC b => intro t c _ _; simp [sat, lhsDen]
  | cmp op l r ih => intro t c hc h; simp [sat, lhsDen, (ih t c hc (by simpa [subQueriesPlain] using h)).2]
  | inArr l arr ih => intro t c hc h; simp [sat, lhsDen, (ih t c hc (by simpa [subQueriesPlain] using h)).2]
  | between l lo hi ih => intro t c hc h; simp [sat, lhsDen, (ih t c hc (by simpa [subQueriesPlain] using h)).2]
  | notE e ih => intro t c hc h; simp [sat, lhsDen, (ih t c hc (by simpa [subQueriesPlain] using h)).1]
  | unot e ih => intro t c hc h; simp [sat, lhsDen, (ih t c hc (by simpa [subQueriesPlain] using h)).1]
  | logic o l r ihl ihr =>
    intro t c hc h
    simp only [subQueriesPlain, Bool.and_eq_true] at h
    simp [sat, lhsDen, (ihl t c hc h.1).1, (ihr t c hc h.2).1]

/-- seekable cursors of the bolt-backed world range over sorted string buckets -/
theorem modelWorld_seekOK (db : Db F) (h : WellFormedDb db) : SeekOK (modelWorld db) := by
  intro c n hs
  simp only [modelWorld] at hs ⊢
  cases hr : resolve db.defs c.1 (splitName n) with
  | none => simp [hr] at hs
  | some r =>
    cases r with
    | atom a =>
      cases a with
      | set st k ty l =>
        simp only [modelElems, levelVals]
        cases hid : c.2 with
        | none => exact ⟨[], rfl, List.Pairwise.nil⟩
        | some id =>
          simp only [Option.bind_some]
          cases he : findEntity db st id with
          | none => exact ⟨[], rfl, List.Pairwise.nil⟩
          | some e =>
            simp only
            cases hl : e.sets.lookup k with
            | none => exact ⟨[], rfl, List.Pairwise.nil⟩
            | some es => simpa using h st id e he k es hl
      | id => simp [hr] at hs
      | field st k ty l => simp [hr] at hs
      | mapElem st mk k ty => simp [hr] at hs
    | nonSetComp ch ty => simp [hr] at hs
    | compSet i l ty => simp [hr] at hs

theorem resolve_out_of_range (defs : List StoreDef) (t : Nat) (h : defs[t]? = none) :
    ∀ parts, resolve defs t parts = none
  | [] => rfl
  | [p] => by simp [resolve, lookupSym, h]
  | p :: q :: rest => by simp [resolve, h]

theorem subQueriesPlain_of_noSubQuery (defs : List StoreDef) :
    ∀ (f : U F) (t : Nat), noSubQuery f = true → subQueriesPlain defs t f = true := by
  intro f
  induction f with
  | setFnSub fn n q sk li ih => intro t h; simp [noSubQuery] at h
  | cmp op l r ih => intro t h; simpa [subQueriesPlain] using ih t (by simpa [noSubQuery] using h)
  | inArr l arr ih => intro t h; simpa [subQueriesPlain] using ih t (by simpa [noSubQuery] using h)
  | between l lo hi ih => intro t h; simpa [subQueriesPlain] using ih t (by simpa [noSubQuery] using h)
  | notE e ih => intro t h; simpa [subQueriesPlain] using ih t (by simpa [noSubQuery] using h)
  | unot e ih => intro t h; simpa [subQueriesPlain] using ih t (by simpa [noSubQuery] using h)
  | logic o l r ihl ihr =>
    intro t h
    simp only [noSubQuery, Bool.and_eq_true] at h
    simp [subQueriesPlain, ihl t h.1, ihr t h.2]
  | sym n => intro t _; rfl
  | setFn fn n => intro t _; rfl
  | boolC b => intro t _; rfl

end StorageModel.Filter
