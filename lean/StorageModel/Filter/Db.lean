import StorageModel.Filter.Main
/-
  C01 — the bolt-backed side: stores, entities, symbol resolution (`BaseStore.GetSymbol`,
  `createCompositeEntitySymbol`, `entityMapSymbol.createElementSymbol`), evaluation of symbols on a
  row (`entitySymbol.Eval`, `nonSetCompositeEntitySymbol.Eval`), set cursors (direct buckets, the
  stacked cursor of composite set symbols), sub-query rows, and `Store.QueryIds`
  (boltz/store_query.go, query_symbols.go, query_cursor.go, query_scanners.go).

  `modelWorld` follows the code as it is; `specWorld` is the path semantics of dotted symbols
  ("follow the links, collect the values").
-/
namespace StorageModel.Filter
open StorageModel

/-- the two kinds of custom symbols -/
inductive CustomKind where
  /-- `AddEntitySymbol(sym)`: `Eval` is a function of the row id (`NewBoolFuncSymbol`, `NewStringFuncSymbol`, …) -/
  | ext
  /-- `MapSymbol(name, mapper)` on the `entitySymbol` with key `key`: `Eval` = `mapper.Map` of the stored value -/
  | mapped (key : String) (m : Nat)
  deriving Repr, DecidableEq

/-- a symbol registered on a store (`AddIdSymbol`, `AddSymbol`/`AddFkSymbol`, `AddSetSymbol`/`AddFkSetSymbol`) -/
inductive SymDef where
  | id
  | field (ty : NodeType) (linked : Option Nat)      -- entitySymbol; fk when linked
  | set (ty : NodeType) (linked : Option Nat)        -- entitySetSymbolImpl
  /-- a symbol object of store `owner` that `owner.GrantSymbols(child)` put into this store's table:
      it keeps its `store` field, so it is evaluated on `owner`'s entity bucket -/
  | gfield (owner : Nat) (ty : NodeType) (linked : Option Nat)
  | gset (owner : Nat) (ty : NodeType) (linked : Option Nat)
  /-- an `EntitySymbol` that is neither an `entitySymbol` nor a set symbol: registered through
      `AddEntitySymbol` (an `ExternalSymbol`, or any other implementation of the exported interface)
      or produced by `MapSymbol` (a `symbolMapWrapper`).  `linked` = what its `GetLinkedType()`
      answers; `owner` = the store it was registered on when it was granted to this one -/
  | custom (owner : Option Nat) (ty : NodeType) (linked : Option Nat) (k : CustomKind)
  deriving Repr, DecidableEq

/-- `AddMapSymbol(name, type, key, prefix...)`: an `entityMapSymbol{key, symbolType, prefix}` -/
structure MapDef where
  ty : NodeType
  key : String
  pfx : List String
  /-- `some p`: the map symbol object belongs to store `p` (inherited through `GrantSymbols`) -/
  owner : Option Nat := none
  deriving Repr, DecidableEq

structure StoreDef where
  syms : List (String × SymDef)
  maps : List (String × MapDef)                      -- store.mapSymbols: name → entityMapSymbol
  parent : Option Nat := none                        -- StoreDefinition.Parent: a child store
  extended : Bool := false                           -- Extended()
  deriving Repr

def SymDef.grantedFrom (p : Nat) : SymDef → SymDef
  | .field ty l => .gfield p ty l
  | .set ty l => .gset p ty l
  | .custom o ty l k => .custom (some (o.getD p)) ty l k
  | d => d                                           -- id symbols ignore their store; granted symbols keep theirs

/-- `parent.GrantSymbols(child)` (`p` = the parent's index): every symbol object of the parent's
    table is `Put` into the child's table under its name (replacing an entry of that name), every
    map symbol is stored under its *key* (`inheritMapSymbol`: `mapSymbols[symbol.key] = symbol`) -/
def grantSymbols (p : Nat) (parent child : StoreDef) : StoreDef :=
  { child with
    syms := parent.syms.map (fun e => (e.1, e.2.grantedFrom p)) ++ child.syms
    maps := parent.maps.map (fun e => (e.2.key, { e.2 with owner := some (e.2.owner.getD p) })) ++ child.maps }

/-- what a key of a (non-set) bbolt bucket holds: a typed value, or a nested bucket (a nested map,
    or a list — a bucket keyed by the 4-byte indices plus the list-size key, none of which an
    identifier can spell) -/
inductive MNode (F : Type) where
  | val (v : SVal F)
  | bucket (kids : List (String × MNode F))

structure Entity (F : Type) where
  id : Bytes
  fields : List (String × SVal F)                    -- key → stored value; an absent key reads as nil
  sets : List (String × List (SVal F))               -- key → elements of the sub-bucket, in key order
  maps : List (String × MNode F)                     -- the other sub-buckets of the entity bucket (tag maps,
                                                     -- prefix buckets), as a forest: key → node

/-- what an externally computed symbol is made from -/
inductive ExtSrc (F : Type) where
  | boolFn (f : Bytes → Bool)                        -- NewBoolFuncSymbol(store, name, f)
  | strFn (f : Bytes → Option Bytes)                 -- NewStringFuncSymbol(store, name, f); `none` = f returned nil
  | fn (f : Bytes → SVal F)                          -- any other EntitySymbol: what its Eval returns for a row id

/-- `ExternalSymbol.Eval`: a bool function yields `(TypeBool, [0|1])`; a string function yields
    `(TypeNil, nil)` for a nil result and `(TypeString, bytes)` otherwise -/
def ExtSrc.codeVal : ExtSrc F → Bytes → SVal F
  | .boolFn f, id => .bool (f id)
  | .strFn f, id => (match f id with | some s => .str s | none => .nil)      -- after fce0761: (TypeNil, nil)
  | .fn f, id => f id

/-- `ExternalSymbol.Eval` before fce0761 (kept to document the defect): a nil string result was
    encoded `(TypeString, nil)`, which is the empty string -/
def ExtSrc.codeValPreFce0761 : ExtSrc F → Bytes → SVal F
  | .boolFn f, id => .bool (f id)
  | .strFn f, id => (match f id with | some s => .str s | none => .str [])
  | .fn f, id => f id

/-- the value the function denotes: a nil result is null -/
def ExtSrc.specVal : ExtSrc F → Bytes → SVal F
  | .boolFn f, id => .bool (f id)
  | .strFn f, id => (match f id with | some s => .str s | none => .nil)
  | .fn f, id => f id

structure Db (F : Type) where
  defs : List StoreDef
  rows : List (List (Entity F))                      -- rows of store i, in id (bucket key) order
  /-- the function behind the external symbol `name` registered on store `st` -/
  ext : Nat → String → ExtSrc F := fun _ _ => .fn fun _ => .nil
  /-- the `SymbolMapper`s in use: `Map(source, fieldType, value)` on the decoded stored value -/
  mappers : Nat → SVal F → SVal F := fun _ v => v

variable {F : Type}

/-- a primitive symbol in a resolved chain -/
inductive Atom where
  | id
  | field (st : Nat) (key : String) (ty : NodeType) (linked : Option Nat)
  | set (st : Nat) (key : String) (ty : NodeType) (linked : Option Nat)
  /-- the `entitySymbol` that `entityMapSymbol.createElementSymbol` builds: `prefix` = the bucket
      path below the entity bucket, `key` = the key read there -/
  | mapElem (st : Nat) (bpath : List String) (key : String) (ty : NodeType)
  /-- an `ExternalSymbol` / other custom `EntitySymbol` / `symbolMapWrapper` registered as `name` on store `st` -/
  | custom (st : Nat) (name : String) (ty : NodeType) (linked : Option Nat) (k : CustomKind)
  deriving Repr, DecidableEq

/-- what `GetSymbol` returns -/
inductive RSym where
  | atom (a : Atom)
  /-- nonSetCompositeEntitySymbol (nested ones flattened: evaluation is sequential either way) -/
  | nonSetComp (chain : List Atom) (ty : NodeType)
  /-- compositeEntitySetSymbol: the iterable chain the stacked cursor walks, and the non-iterable
      tail evaluated by `cursorLastF` (`[]` = `GetTypeAndValue`) -/
  | compSet (iter : List Atom) (last : List Atom) (ty : NodeType)
  deriving Repr, DecidableEq

def Atom.isSet : Atom → Bool
  | .set .. => true
  | _ => false

def Atom.ty : Atom → NodeType
  | .id => .str
  | .field _ _ ty _ => ty
  | .set _ _ ty _ => ty
  | .mapElem _ _ _ ty => ty
  | .custom _ _ ty _ _ => ty

/-- `GetLinkedType()` -/
def Atom.linked : Atom → Option Nat
  | .field _ _ _ l => l
  | .set _ _ _ l => l
  | .custom _ _ _ l _ => l
  | _ => none

/-- implements `iterableEntitySymbol` (has `newQueryPath`): `entitySymbol` and `entitySetSymbolImpl` do;
    `entityIdSymbol`, `ExternalSymbol` and `symbolMapWrapper` (whose embedded interface promotes only
    the exported methods) do not -/
def Atom.iterable : Atom → Bool
  | .field .. => true
  | .set .. => true
  | .mapElem .. => true
  | _ => false

def Atom.isExt : Atom → Bool
  | .custom _ _ _ _ .ext => true
  | _ => false

def RSym.isSet : RSym → Bool
  | .atom a => a.isSet
  | .nonSetComp .. => false
  | .compSet .. => true

def RSym.ty : RSym → NodeType
  | .atom a => a.ty
  | .nonSetComp _ ty => ty
  | .compSet _ _ ty => ty

/-- `GetLinkedType()` -/
def RSym.linked : RSym → Option Nat
  | .atom a => a.linked
  | .nonSetComp chain _ => (chain.getLast?).bind Atom.linked
  | .compSet iter _ _ => (iter.getLast?).bind Atom.linked

def lookupSym (defs : List StoreDef) (st : Nat) (n : String) : Option Atom :=
  match defs[st]? with
  | none => none
  | some d =>
    match d.syms.lookup n with
    | some .id => some .id
    | some (.field ty l) => some (.field st n ty l)
    | some (.set ty l) => some (.set st n ty l)
    | some (.gfield o ty l) => some (.field o n ty l)
    | some (.gset o ty l) => some (.set o n ty l)
    | some (.custom o ty l k) => some (.custom (o.getD st) n ty l k)
    | none => none

/-- the set branches of `createCompositeEntitySymbol` on the assembled `chain` (one of its symbols
    is a set): `iterable` = the symbols that implement `iterableEntitySymbol`, in order; when all of
    them do (or the last one is a set) the cursor's key is the element, otherwise
    `cursorLastF = last.Eval` -/
def composeSet (chain : List Atom) (ty : NodeType) : RSym :=
  let iter := chain.filter Atom.iterable
  match chain.getLast? with
  | some last =>
    if iter.length == chain.length || last.isSet then .compSet iter [] ty
    else .compSet iter [last] ty
  | none => .compSet iter [] ty

/-- `createCompositeEntitySymbol(name, first, rest)`.  After 0441eb9 the links of a non-set chain
    are walked one by one; a chain keeps a non-iterable tail only when its last symbol is a custom
    one (`ExternalSymbol`, `symbolMapWrapper`).  After 5f6f9bb `getChain()` of a composite set symbol
    returns the iterable part and that tail. -/
def compose (first : Atom) (rest : RSym) : RSym :=
  match rest with
  | .atom .id => .atom first                                  -- "strip ids, since they are redundant"
  | .atom a =>
    if !first.isSet && !a.isSet then .nonSetComp [first, a] a.ty
    else composeSet [first, a] a.ty
  | .nonSetComp chain ty =>
    if !first.isSet then .nonSetComp (first :: chain) ty
    else composeSet (first :: chain) ty                        -- chain = first ++ nsc.chain
  | .compSet iter last ty => composeSet (first :: (iter ++ last)) ty  -- chain = first ++ ces.getChain() (after 5f6f9bb:
                                                                     --   the iterable part and the tail)

/-- `createCompositeEntitySymbol` before 5f6f9bb (kept to document the defect): `getChain()` of a
    composite set symbol returned the iterable part alone, so the tail was lost -/
def composePre5f6f9bb (first : Atom) (rest : RSym) : RSym :=
  match rest with
  | .compSet iter _ ty => composeSet (first :: iter) ty
  | rest => compose first rest

/-- `createCompositeEntitySymbol` as it was before 0441eb9 (kept to document the defect): a non-set
    chain behind a set stayed a non-iterable tail evaluated through `cursorLastF`, and `getChain()`
    of such a symbol dropped that tail -/
def composePre0441eb9 (first : Atom) (rest : RSym) : RSym :=
  match rest with
  | .atom .id => .atom first
  | .atom a =>
    if !first.isSet && !a.isSet then .nonSetComp [first, a] a.ty
    else .compSet [first, a] [] a.ty
  | .nonSetComp chain ty =>
    if !first.isSet then .nonSetComp (first :: chain) ty
    else .compSet [first] chain ty
  | .compSet iter _ ty => .compSet (first :: iter) [] ty

/-- `parts[1:len(parts)-1]` and `parts[len(parts)-1]` of `parts = p :: q :: rest` -/
def splitLast : String → List String → List String × String
  | q, [] => ([], q)
  | q, r :: rs => (q :: (splitLast r rs).1, (splitLast r rs).2)

/-- `entityMapSymbol.createElementSymbol(name, parts)` with `parts = mapName :: q :: rest`:
    prefix = self.prefix ++ [self.key] ++ parts[1:len-1], key = parts[len-1] -/
def elementSymbol (st : Nat) (md : MapDef) (q : String) (rest : List String) : Atom :=
  .mapElem (md.owner.getD st) (md.pfx ++ [md.key] ++ (splitLast q rest).1) (splitLast q rest).2 md.ty

/-- `BaseStore.GetSymbol` on the dot-separated parts of a name -/
def resolve (defs : List StoreDef) : Nat → List String → Option RSym
  | _, [] => none
  | st, [p] => (lookupSym defs st p).map .atom
  | st, p :: q :: rest =>
    match defs[st]? with
    | none => none
    | some d =>
      match d.maps.lookup p with
      | some md => some (.atom (elementSymbol st md q rest))
      | none =>
        match lookupSym defs st p with
        | some first =>
          (match first.linked with
           | some st' =>
             (match first with
              | .id => none
              | .custom .. => none                  -- not a `linkedEntitySymbol`
              | _ => (resolve defs st' (q :: rest)).map (compose first))
           | none => none)
        | none => none

/-- `GetSymbol` with the pre-5f6f9bb composition (documentation only) -/
def resolvePre5f6f9bb (defs : List StoreDef) : Nat → List String → Option RSym
  | _, [] => none
  | st, [p] => (lookupSym defs st p).map .atom
  | st, p :: q :: rest =>
    match defs[st]? with
    | none => none
    | some d =>
      match d.maps.lookup p with
      | some md => some (.atom (elementSymbol st md q rest))
      | none =>
        match lookupSym defs st p with
        | some first =>
          (match first.linked with
           | some st' =>
             (match first with
              | .id => none
              | .custom .. => none
              | _ => (resolvePre5f6f9bb defs st' (q :: rest)).map (composePre5f6f9bb first))
           | none => none)
        | none => none

/-- `GetSymbol` with the pre-0441eb9 composition (documentation only) -/
def resolvePre0441eb9 (defs : List StoreDef) : Nat → List String → Option RSym
  | _, [] => none
  | st, [p] => (lookupSym defs st p).map .atom
  | st, p :: q :: rest =>
    match defs[st]? with
    | none => none
    | some d =>
      match d.maps.lookup p with
      | some md => some (.atom (elementSymbol st md q rest))
      | none =>
        match lookupSym defs st p with
        | some first =>
          (match first.linked with
           | some st' =>
             (match first with
              | .id => none
              | .custom .. => none
              | _ => (resolvePre0441eb9 defs st' (q :: rest)).map (composePre0441eb9 first))
           | none => none)
        | none => none

/-- `strings.Split(name, ".")` (structural, so that closed examples evaluate in the kernel) -/
def splitDotsAux : List Char → List Char → List String
  | acc, [] => [String.ofList acc.reverse]
  | acc, c :: cs =>
    if c = '.' then String.ofList acc.reverse :: splitDotsAux [] cs else splitDotsAux (c :: acc) cs

def splitName (n : String) : List String := splitDotsAux [] n.toList

def dbSigma (defs : List StoreDef) : Sigma Nat where
  sym t n := (resolve defs t (splitName n)).map fun r => (r.ty, r.isSet)
  setTypes t n := (resolve defs t (splitName n)).bind RSym.linked

/-! ### dotted names by path semantics (the specification's reading, independent of `compose`)

  A dotted name follows links: `p.q.r` on store `st` is symbol `p` of `st`, then `q.r` on the store
  `p` links to.  `x.id` is `x` itself; for a map symbol `m` (the bucket `m.prefix/m.key` of the
  entity) `m.x₁.….xₙ` is the node reached from that bucket along `x₁ … xₙ`. -/

/-- the node `m.x₁.….xₙ` names, as a full bucket path below the entity: everything but the last
    segment names buckets, the last segment the key -/
def mapElemPath (st : Nat) (md : MapDef) (segs : List String) : Atom :=
  let full := md.pfx ++ [md.key] ++ segs
  .mapElem (md.owner.getD st) full.dropLast (full.getLast?.getD "") md.ty

def specPath (defs : List StoreDef) : Nat → List String → Option (List Atom)
  | _, [] => none
  | st, [p] => (lookupSym defs st p).map fun a => [a]
  | st, p :: q :: rest =>
    match defs[st]? with
    | none => none
    | some d =>
      match d.maps.lookup p with
      | some md => some [mapElemPath st md (q :: rest)]
      | none =>
        match lookupSym defs st p with
        | some first =>
          (match first.linked with
           | some st' =>
             (match first with
              | .id => none
              | .custom .. => none                  -- only fk fields and link sets are followed
              | _ => (specPath defs st' (q :: rest)).map fun tail =>
                  if tail = [Atom.id] then [first] else first :: tail)
           | none => none)
        | none => none

def pathIsSet (p : List Atom) : Bool := p.any Atom.isSet
def pathTy (p : List Atom) : NodeType := (p.getLast?.map Atom.ty).getD .other
/-- the entity type a symbol links to, by the specification: only fk fields and link sets are links
    (a mapped fk field is a value; it cannot be followed either) -/
def Atom.specLinked : Atom → Option Nat
  | .field _ _ _ l => l
  | .set _ _ _ l => l
  | _ => none

def pathLinked (p : List Atom) : Option Nat := p.getLast?.bind Atom.specLinked

/-- the symbol tables of the specification -/
def dbSpecSigma (defs : List StoreDef) : Sigma Nat where
  sym t n := (specPath defs t (splitName n)).map fun p => (pathTy p, pathIsSet p)
  setTypes t n := (specPath defs t (splitName n)).bind pathLinked

/-! ### evaluation on rows -/

def findEntity (db : Db F) (st : Nat) (id : Bytes) : Option (Entity F) :=
  match db.rows[st]? with
  | none => none
  | some rows => rows.find? (fun e => e.id == id)

/-- the row key a stored value denotes when it is followed as a link: the payload after the type
    byte (`GetTypeAndValue`); only string payloads are entity ids -/
def linkKey : SVal F → Option Bytes
  | .str s => some s
  | _ => none

/-- `TypedBucket.GetPath(path...)` from a bucket with the entries `kids`: `GetBucket` per element,
    nil as soon as a key is absent or holds a value -/
def getPath : List (String × MNode F) → List String → Option (List (String × MNode F))
  | kids, [] => some kids
  | kids, p :: ps =>
    match kids.lookup p with
    | some (.bucket kids') => getPath kids' ps
    | _ => none

/-- `TypedBucket.getTyped(name)`: `bucket.Get` is nil for an absent key and for a nested bucket -/
def getTyped (kids : List (String × MNode F)) (k : String) : SVal F :=
  match kids.lookup k with
  | some (.val v) => v
  | _ => .nil

/-- `entitySymbol.Eval` / `entityIdSymbol.Eval` on the entity with key `key` (`none` = nil key) -/
def evalAtom (db : Db F) (a : Atom) (key : Option Bytes) : SVal F :=
  match a with
  | .id => (match key with | some k => .str k | none => .str [])
  | .field st k _ _ =>
    (match key.bind (findEntity db st) with
     | some e => (e.fields.lookup k).getD .nil
     | none => .nil)
  | .mapElem st bp k _ =>
    -- getBucketF = entityBucket.GetPath(prefix...), then getTyped(key)
    (match key.bind (findEntity db st) with
     | some e => (match getPath e.maps bp with | some b => getTyped b k | none => .nil)
     | none => .nil)
  | .set .. => .nil                                    -- entitySetSymbolImpl.Eval returns (0, nil)
  | .custom st n _ _ .ext =>
    -- ExternalSymbol.Eval: `f(string(rowId))`, whatever the row id is (a nil row id is "")
    (db.ext st n).codeVal (key.getD [])
  | .custom st _ _ _ (.mapped k m) =>
    -- symbolMapWrapper.Eval: the wrapped entitySymbol's Eval, then mapper.Map
    db.mappers m (match key.bind (findEntity db st) with
                  | some e => (e.fields.lookup k).getD .nil
                  | none => .nil)

/-- `nonSetCompositeEntitySymbol.Eval`: each link is evaluated on the value of the previous one -/
def evalChain (db : Db F) : List Atom → Option Bytes → SVal F
  | [], key => (match key with | some k => .str k | none => .nil)
  | [a], key => evalAtom db a key
  | a :: rest, key => evalChain db rest (linkKey (evalAtom db a key))

/-! #### child stores

  A child store keeps its data in a sub-bucket of the parent's entity bucket: `rows[st]` of a child
  store lists the entities that have that sub-bucket, with the child's own fields / sets / maps;
  `GetEntitiesBucket` of a child store is its parent's. -/

/-- the store whose entities bucket `GetEntitiesBucket` returns (`fuel` bounds the parent chain) -/
def rootOf (defs : List StoreDef) : Nat → Nat → Nat
  | 0, st => st
  | fuel + 1, st =>
    match (defs[st]?).bind (·.parent) with
    | some p => rootOf defs fuel p
    | none => st

/-- `IsChildStore()` -/
def isChild (defs : List StoreDef) (st : Nat) : Bool := ((defs[st]?).bind (·.parent)).isSome
/-- `IsExtended()` -/
def isExtended (defs : List StoreDef) (st : Nat) : Bool := ((defs[st]?).map (·.extended)).getD false
/-- `IsEntityPresent(tx, id)`: `GetEntityBucket(tx, id) != nil` -/
def present (db : Db F) (st : Nat) (id : Bytes) : Bool := (findEntity db st id).isSome

/-- the rule of `uniqueIndexScanner.Next` / `nextUnpaged` (and of the sorting scanner):
    `IsChildStore() && !IsEntityPresent(tx, id) && !IsExtended()` ⇒ the row is skipped -/
def skipped (db : Db F) (st : Nat) (id : Bytes) : Bool :=
  isChild db.defs st && !present db st id && !isExtended db.defs st

/-- the typed keys one level of the stacked cursor yields for the entity `key`:
    the set's bucket (`fkSetQueryPath`) or the single field value (`fkQueryPath`) -/
def levelVals (db : Db F) (a : Atom) (key : Option Bytes) : List (SVal F) :=
  match a with
  | .set st k _ _ =>
    (match key.bind (findEntity db st) with
     | some e => (e.sets.lookup k).getD []
     | none => [])
  | a => [evalAtom db a key]

/-- the elements of a composite set symbol by path semantics: follow every link, collect -/
def pathElems (db : Db F) : List Atom → Option Bytes → List (SVal F)
  | [], _ => []
  | [a], key => levelVals db a key
  | a :: rest, key => (levelVals db a key).flatMap fun v => pathElems db rest (linkKey v)

/-! #### the stacked cursor as the code runs it

  `stackedCursor` keeps one `queryPathElem` per chain position; `calculateNextCursorPosition` backs
  up when a level is exhausted and descends when it has a key.    The
  recursion of `stackedFrom` plays the role of that stack: descending is the recursive call, an
  exhausted level is the return to `forEachKey`, which takes the lower level's next key. -/

/-- one level of the stacked cursor: for every key the level yields, in order, run `body` (the
    levels above) to exhaustion, then back up and take the next key -/
def forEachKey (body : SVal F → List (SVal F)) : List (SVal F) → List (SVal F)
  | [] => []                                                   -- level exhausted: back up the stack
  | k :: ks => body k ++ forEachKey body ks

/-- enumerate everything reachable from the current level's keys `cur`, where `rest` is the part
    of the chain above the current level -/
def stackedFrom (db : Db F) : List Atom → List (SVal F) → List (SVal F)
  | [], cur => cur                                             -- top of the stack: every key is an element
  | a :: rest, cur =>
    -- hop up the stack: open the next level on the entity the key names
    forEachKey (fun k => stackedFrom db rest (levelVals db a (linkKey k))) cur

/-- `compositeEntitySetSymbol.OpenCursor` + repeated `Next()` -/
def stackedElems (db : Db F) (chain : List Atom) (rowId : Option Bytes) : List (SVal F) :=
  match chain with
  | [] => []
  | a :: rest => stackedFrom db rest (levelVals db a rowId)

/-- `OpenSetCursor(name)` contents under the code as it is -/
def modelElems (db : Db F) (r : RSym) (rowId : Option Bytes) : List (SVal F) :=
  match r with
  | .atom (.set st k ty l) => levelVals db (.set st k ty l) rowId
  | .compSet iter [] _ => stackedElems db iter rowId
  | .compSet iter last _ =>
    -- cursorLastF: strip the type byte from the cursor's key (GetTypeAndValue), then last.Eval
    (stackedElems db iter rowId).map fun v => evalChain db last (linkKey v)
  | _ => []

/-- what `cursor.Current()` of `OpenSetCursor(name)` yields (the row ids `newCursorScanner` visits
    for a sub-query): the payload of the cursor's key.  For a composite set symbol that is the key
    of the stacked cursor, whatever `cursorLastF` is. -/
def cursorKeys (db : Db F) (r : RSym) (rowId : Option Bytes) : List (SVal F) :=
  match r with
  | .compSet iter _ _ => stackedElems db iter rowId
  | r => modelElems db r rowId

/-- `symbol.Eval` of a non-set symbol on a row -/
def symVal (db : Db F) (r : RSym) (rowId : Option Bytes) : SVal F :=
  match r with
  | .atom a => evalAtom db a rowId
  | .nonSetComp chain _ => evalChain db chain rowId
  | .compSet .. => .nil

/-- row contexts: (store, row id); the id is `none` for an element whose `cursor.Current()` is nil -/
abbrev Ctx := Nat × Option Bytes

/-- the rows `newCursorScanner` visits: one per element of the set cursor, nil keys included -/
def cursorRowsOf (linked : Option Nat) (es : List (SVal F)) : List Ctx :=
  match linked with
  | some st' => es.map fun v => (st', linkKey v)
  | none => []

/-- `id` names an entity of store `st`: for a child store that is not declared extended, only an
    entity that has child data -/
def isEntityOf (db : Db F) (st : Nat) (id : Bytes) : Bool :=
  !(isChild db.defs st && !isExtended db.defs st) || present db st id

/-- the rows of a sub-query by path semantics: the linked entities of the linked store; a null
    link contributes no row, nor does a link to a parent entity without child data when the linked
    store is a (not extended) child store -/
def subRowsOf (db : Db F) (linked : Option Nat) (es : List (SVal F)) : List Ctx :=
  match linked with
  | some st' => es.filterMap fun v => (linkKey v).bind fun k => if isEntityOf db st' k then some (st', some k) else none
  | none => []

def modelWorld (db : Db F) : World Ctx F where
  val c n := match resolve db.defs c.1 (splitName n) with
    | some r => symVal db r c.2
    | none => .nil
  elems c n := match resolve db.defs c.1 (splitName n) with
    | some r => modelElems db r c.2
    | none => []
  seekable c n := match resolve db.defs c.1 (splitName n) with
    | some (.atom (.set ..)) => true                    -- entitySetSymbolRuntime implements SeekToString
    | _ => false                                        -- stackedCursor does not
  subRows c n := match resolve db.defs c.1 (splitName n) with
    | some r => cursorRowsOf r.linked (cursorKeys db r c.2)
    | none => []
  -- `scanner.current == nil`, or the child-store presence rule
  nilRow c := match c.2 with
    | none => true
    | some id => skipped db c.1 id

/-! #### what a path denotes on the stored data (the specification's reading; no `GetPath` /
  `getTyped` split, no cursors)

  The sub-buckets of an entity form a tree.  A path names a node by uniform descent; the value of a
  map element is the value stored at its node, null when the node is missing at some level or is
  itself a map or a list. -/

/-- the node a non-empty path leads to in a forest -/
def nodeAt : List (String × MNode F) → List String → Option (MNode F)
  | _, [] => none
  | kids, [p] => kids.lookup p
  | kids, p :: q :: ps =>
    match kids.lookup p with
    | some (.bucket kids') => nodeAt kids' (q :: ps)
    | _ => none

def leafVal : Option (MNode F) → SVal F
  | some (.val v) => v
  | _ => .nil

/-- the value of one link / field / map element of the entity `key` -/
def specAtomVal (db : Db F) (a : Atom) (key : Option Bytes) : SVal F :=
  match a with
  | .id => (match key with | some k => .str k | none => .str [])
  | .field st k _ _ =>
    (match key.bind (findEntity db st) with
     | some e => (e.fields.lookup k).getD .nil
     | none => .nil)
  | .mapElem st bp k _ =>
    (match key.bind (findEntity db st) with
     | some e => leafVal (nodeAt e.maps (bp ++ [k]))
     | none => .nil)
  | .set .. => .nil
  | .custom st n _ _ .ext =>
    -- an externally computed value exists for an entity; a null link leads to none
    (match key with
     | some id => (db.ext st n).specVal id
     | none => .nil)
  | .custom st _ _ _ (.mapped k m) =>
    db.mappers m (match key.bind (findEntity db st) with
                  | some e => (e.fields.lookup k).getD .nil
                  | none => .nil)

/-- the value of a set-free path: follow the links -/
def specChain (db : Db F) : List Atom → Option Bytes → SVal F
  | [], key => (match key with | some k => .str k | none => .nil)
  | [a], key => specAtomVal db a key
  | a :: rest, key => specChain db rest (linkKey (specAtomVal db a key))

def specLevel (db : Db F) (a : Atom) (key : Option Bytes) : List (SVal F) :=
  match a with
  | .set st k _ _ =>
    (match key.bind (findEntity db st) with
     | some e => (e.sets.lookup k).getD []
     | none => [])
  | a => [specAtomVal db a key]

/-- the elements of a path through sets: follow every link, collect -/
def specElems (db : Db F) : List Atom → Option Bytes → List (SVal F)
  | [], _ => []
  | [a], key => specLevel db a key
  | a :: rest, key => (specLevel db a key).flatMap fun v => specElems db rest (linkKey v)

def specWorld (db : Db F) : World Ctx F where
  val c n := match specPath db.defs c.1 (splitName n) with
    | some p => if pathIsSet p then .nil else specChain db p c.2
    | none => .nil
  elems c n := match specPath db.defs c.1 (splitName n) with
    | some p => if pathIsSet p then specElems db p c.2 else []
    | none => []
  seekable _ _ := false
  subRows c n := match specPath db.defs c.1 (splitName n) with
    | some p => if pathIsSet p then subRowsOf db (pathLinked p) (specElems db p c.2) else []
    | none => []
  nilRow _ := false

def storeIds (db : Db F) (st : Nat) : List Bytes :=
  match db.rows[st]? with
  | some rows => rows.map (·.id)
  | none => []

/-- the keys of `store.GetEntitiesBucket(tx)`: for a child store, its parent's entities -/
def scanIds (db : Db F) (st : Nat) : List Bytes := storeIds db (rootOf db.defs db.defs.length st)

/-- `Store.QueryIds(tx, filter)` without sort / paging clauses: parse result → scan the entities
    bucket in key order (`nextUnpaged`: skip by the child-store rule), keep the ids whose row
    satisfies the typed predicate -/
def query (db : Db F) (fo : FloatOps F) (st : Nat) (f : U F) : Outcome (List Bytes) :=
  match typeCheck (dbSigma db.defs) fo st f with
  | .ok p => .ok ((scanIds db st).filter fun id => !skipped db st id && evalRow (modelWorld db) fo (st, some id) p)
  | .err => .err
  | .panic => .panic

/-- the entities of a store: its rows; a child store declared extended shows every entity of its
    parent (those without child data with null child fields) -/
def entitiesOf (db : Db F) (st : Nat) : List Bytes :=
  if isChild db.defs st && isExtended db.defs st then scanIds db st else storeIds db st

/-- the specification of a query -/
def specQuery (db : Db F) (fo : FloatOps F) (st : Nat) (f : U F) : List Bytes :=
  (entitiesOf db st).filter fun id => sat (dbSpecSigma db.defs) (specWorld db) fo st (st, some id) f

/-! ### hypotheses of `query_exact` -/

/-- the primitive symbols a resolved symbol is made of, in order -/
def RSym.atoms : RSym → List Atom
  | .atom a => [a]
  | .nonSetComp ch _ => ch
  | .compSet iter last _ => iter ++ last

/-- an externally computed symbol is used by its own name only, not behind links (where the code
    evaluates its function on the empty id when the link is null) -/
def RSym.extDirect : RSym → Bool
  | .atom _ => true
  | r => r.atoms.all fun a => !a.isExt

def RSym.hasTail : RSym → Bool
  | .compSet _ (_ :: _) _ => true
  | _ => false

/-- the provisos on a name: when `sub` (it is the symbol of a sub-query) the resolved symbol's cursor
    keys are its elements (no non-iterable tail: a `set.custom` symbol — by the specification such a
    symbol is not a set of links, so a sub-query over it is not well-typed anyway); external functions
    are used by their own name only -/
def nameOK (defs : List StoreDef) (sub : Bool) (t : Nat) (n : String) : Bool :=
  (!sub || (match resolve defs t (splitName n) with
            | some r => !r.hasTail
            | none => true)) &&
    (match resolve defs t (splitName n) with
     | some r => r.extDirect
     | none => true)

/-- every symbol of the filter resolves regularly, and every symbol a sub-query ranges over has a
    plain cursor -/
def namesOK (defs : List StoreDef) : Nat → U F → Bool
  | t, .sym n => nameOK defs false t n
  | t, .setFn _ n => nameOK defs false t n
  | t, .setFnSub _ n q _ _ _ =>
    nameOK defs true t n &&
      (match (dbSigma defs).setTypes t n with
       | some t' => namesOK defs t' q
       | none => true)
  | _, .boolC _ => true
  | t, .cmp _ l _ => namesOK defs t l
  | t, .inArr l _ => namesOK defs t l
  | t, .between l _ _ => namesOK defs t l
  | t, .notE e => namesOK defs t e
  | t, .unot e => namesOK defs t e
  | t, .logic _ l r => namesOK defs t l && namesOK defs t r

/-! ### the one proviso left: external functions are used by their own name (stated on the path) -/

def noExt (p : List Atom) : Bool := p.all fun a => !a.isExt

/-- an external function is not evaluated behind a link or a set -/
def pathExtOK (p : List Atom) : Bool := decide (p.length ≤ 1) || noExt p

def extNameOK (defs : List StoreDef) (t : Nat) (n : String) : Bool :=
  match specPath defs t (splitName n) with
  | some p => pathExtOK p
  | none => true

/-- every symbol name of the filter satisfies `extNameOK` (sub-queries: in the linked store's table) -/
def extNamesOK (defs : List StoreDef) : Nat → U F → Bool
  | t, .sym n => extNameOK defs t n
  | t, .setFn _ n => extNameOK defs t n
  | t, .setFnSub _ n q _ _ _ =>
    extNameOK defs t n &&
      (match (dbSpecSigma defs).setTypes t n with
       | some t' => extNamesOK defs t' q
       | none => true)
  | _, .boolC _ => true
  | t, .cmp _ l _ => extNamesOK defs t l
  | t, .inArr l _ => extNamesOK defs t l
  | t, .between l _ _ => extNamesOK defs t l
  | t, .notE e => extNamesOK defs t e
  | t, .unot e => extNamesOK defs t e
  | t, .logic _ l r => extNamesOK defs t l && extNamesOK defs t r

/-- set sub-buckets hold strictly increasing string keys (true of every bbolt bucket written by
    `SetStringList` / link collections) -/
def WellFormedDb (db : Db F) : Prop :=
  ∀ st id e, findEntity db st id = some e → ∀ k es, e.sets.lookup k = some es → SortedStrs es

/-- no store registers a custom symbol (external / mapped) -/
def PlainDefs (defs : List StoreDef) : Prop :=
  ∀ (st : Nat) (d : StoreDef), defs[st]? = some d → ∀ n o ty l k, d.syms.lookup n ≠ some (SymDef.custom o ty l k)

/-- child data lives inside the parent's entity bucket: the rows of a child store are those
    entities of its entities bucket that have child data, in that bucket's order -/
def ChildRowsNested (db : Db F) : Prop :=
  ∀ st, isChild db.defs st = true → storeIds db st = (scanIds db st).filter (present db st)

end StorageModel.Filter
