import StorageModel.Filter.Main
/-
  C01 — the bolt-backed side: stores, entities, symbol resolution (`BaseStore.GetSymbol`,
  `createCompositeEntitySymbol`, `entityMapSymbol.createElementSymbol`), evaluation of symbols on a
  row (`entitySymbol.Eval`, `nonSetCompositeEntitySymbol.Eval`), set cursors (direct buckets, the
  stacked cursor of composite set symbols), sub-query rows, and `Store.QueryIds`
  (boltz/store_query.go, query_symbols.go, query_cursor.go, query_scanners.go).

  `modelWorld` follows the code as it is; `specWorld` is the path semantics of dotted symbols
  ("follow the links, collect the values").
-/
namespace StorageModel.Filter
open StorageModel

/-- a symbol registered on a store (`AddIdSymbol`, `AddSymbol`/`AddFkSymbol`, `AddSetSymbol`/`AddFkSetSymbol`) -/
inductive SymDef where
  | id
  | field (ty : NodeType) (linked : Option Nat)      -- entitySymbol; fk when linked
  | set (ty : NodeType) (linked : Option Nat)        -- entitySetSymbolImpl
  deriving Repr, DecidableEq

structure StoreDef where
  syms : List (String × SymDef)
  maps : List (String × NodeType)                    -- AddMapSymbol(name, type, key = name)
  deriving Repr

structure Entity (F : Type) where
  id : Bytes
  fields : List (String × SVal F)                    -- key → stored value; an absent key reads as nil
  sets : List (String × List (SVal F))               -- key → elements of the sub-bucket, in key order
  maps : List (String × List (String × SVal F))      -- map key → entries

structure Db (F : Type) where
  defs : List StoreDef
  rows : List (List (Entity F))                      -- rows of store i, in id (bucket key) order

variable {F : Type}

/-- a primitive symbol in a resolved chain -/
inductive Atom where
  | id
  | field (st : Nat) (key : String) (ty : NodeType) (linked : Option Nat)
  | set (st : Nat) (key : String) (ty : NodeType) (linked : Option Nat)
  | mapElem (st : Nat) (mapKey key : String) (ty : NodeType)
  deriving Repr, DecidableEq

/-- what `GetSymbol` returns -/
inductive RSym where
  | atom (a : Atom)
  /-- nonSetCompositeEntitySymbol (nested ones flattened: evaluation is sequential either way) -/
  | nonSetComp (chain : List Atom) (ty : NodeType)
  /-- compositeEntitySetSymbol: the iterable chain the stacked cursor walks, and the non-iterable
      tail evaluated by `cursorLastF` (`[]` = `GetTypeAndValue`) -/
  | compSet (iter : List Atom) (last : List Atom) (ty : NodeType)
  deriving Repr, DecidableEq

def Atom.isSet : Atom → Bool
  | .set .. => true
  | _ => false

def Atom.ty : Atom → NodeType
  | .id => .str
  | .field _ _ ty _ => ty
  | .set _ _ ty _ => ty
  | .mapElem _ _ _ ty => ty

def Atom.linked : Atom → Option Nat
  | .field _ _ _ l => l
  | .set _ _ _ l => l
  | _ => none

def RSym.isSet : RSym → Bool
  | .atom a => a.isSet
  | .nonSetComp .. => false
  | .compSet .. => true

def RSym.ty : RSym → NodeType
  | .atom a => a.ty
  | .nonSetComp _ ty => ty
  | .compSet _ _ ty => ty

/-- `GetLinkedType()` -/
def RSym.linked : RSym → Option Nat
  | .atom a => a.linked
  | .nonSetComp chain _ => (chain.getLast?).bind Atom.linked
  | .compSet iter _ _ => (iter.getLast?).bind Atom.linked

def lookupSym (defs : List StoreDef) (st : Nat) (n : String) : Option Atom :=
  match defs[st]? with
  | none => none
  | some d =>
    match d.syms.lookup n with
    | some .id => some .id
    | some (.field ty l) => some (.field st n ty l)
    | some (.set ty l) => some (.set st n ty l)
    | none => none

/-- `createCompositeEntitySymbol(name, first, rest)` (after 0441eb9: the links of a non-set chain
    are walked one by one, so every chain is fully iterable and the `cursorLastF = last.Eval` case,
    still present in the code and in `modelElems`, is no longer produced) -/
def compose (first : Atom) (rest : RSym) : RSym :=
  match rest with
  | .atom .id => .atom first                                  -- "strip ids, since they are redundant"
  | .atom a =>
    if !first.isSet && !a.isSet then .nonSetComp [first, a] a.ty
    else .compSet [first, a] [] a.ty
  | .nonSetComp chain ty =>
    if !first.isSet then .nonSetComp (first :: chain) ty
    else .compSet (first :: chain) [] ty                       -- chain = first ++ nsc.chain, all iterable
  | .compSet iter _ ty => .compSet (first :: iter) [] ty       -- getChain() = the iterable chain

/-- `createCompositeEntitySymbol` as it was before 0441eb9 (kept to document the defect): a non-set
    chain behind a set stayed a non-iterable tail evaluated through `cursorLastF`, and `getChain()`
    of such a symbol dropped that tail -/
def composePre0441eb9 (first : Atom) (rest : RSym) : RSym :=
  match rest with
  | .atom .id => .atom first
  | .atom a =>
    if !first.isSet && !a.isSet then .nonSetComp [first, a] a.ty
    else .compSet [first, a] [] a.ty
  | .nonSetComp chain ty =>
    if !first.isSet then .nonSetComp (first :: chain) ty
    else .compSet [first] chain ty
  | .compSet iter _ ty => .compSet (first :: iter) [] ty

/-- `BaseStore.GetSymbol` on the dot-separated parts of a name -/
def resolve (defs : List StoreDef) : Nat → List String → Option RSym
  | _, [] => none
  | st, [p] => (lookupSym defs st p).map .atom
  | st, p :: q :: rest =>
    match defs[st]? with
    | none => none
    | some d =>
      match d.maps.lookup p with
      | some ty =>
        -- entityMapSymbol.createElementSymbol: key = last part (middle parts name nested buckets,
        -- which the model does not cover: only `map.key` is resolved)
        if rest.isEmpty then some (.atom (.mapElem st p q ty)) else none
      | none =>
        match lookupSym defs st p with
        | some first =>
          (match first.linked with
           | some st' =>
             (match first with
              | .id => none
              | _ => (resolve defs st' (q :: rest)).map (compose first))
           | none => none)
        | none => none

/-- `GetSymbol` with the pre-0441eb9 composition (documentation only) -/
def resolvePre0441eb9 (defs : List StoreDef) : Nat → List String → Option RSym
  | _, [] => none
  | st, [p] => (lookupSym defs st p).map .atom
  | st, p :: q :: rest =>
    match defs[st]? with
    | none => none
    | some d =>
      match d.maps.lookup p with
      | some ty =>
        -- entityMapSymbol.createElementSymbol: key = last part (middle parts name nested buckets,
        -- which the model does not cover: only `map.key` is resolved)
        if rest.isEmpty then some (.atom (.mapElem st p q ty)) else none
      | none =>
        match lookupSym defs st p with
        | some first =>
          (match first.linked with
           | some st' =>
             (match first with
              | .id => none
              | _ => (resolvePre0441eb9 defs st' (q :: rest)).map (composePre0441eb9 first))
           | none => none)
        | none => none

/-- `strings.Split(name, ".")` (structural, so that closed examples evaluate in the kernel) -/
def splitDotsAux : List Char → List Char → List String
  | acc, [] => [String.ofList acc.reverse]
  | acc, c :: cs =>
    if c = '.' then String.ofList acc.reverse :: splitDotsAux [] cs else splitDotsAux (c :: acc) cs

def splitName (n : String) : List String := splitDotsAux [] n.toList

def dbSigma (defs : List StoreDef) : Sigma Nat where
  sym t n := (resolve defs t (splitName n)).map fun r => (r.ty, r.isSet)
  setTypes t n := (resolve defs t (splitName n)).bind RSym.linked

/-! ### dotted names by path semantics (the specification's reading, independent of `compose`)

  A dotted name follows links: `p.q.r` on store `st` is symbol `p` of `st`, then `q.r` on the store
  `p` links to.  `x.id` is `x` itself; `m.k` for a map symbol `m` is its element `k`. -/

def specPath (defs : List StoreDef) : Nat → List String → Option (List Atom)
  | _, [] => none
  | st, [p] => (lookupSym defs st p).map fun a => [a]
  | st, p :: q :: rest =>
    match defs[st]? with
    | none => none
    | some d =>
      match d.maps.lookup p with
      | some ty => if rest.isEmpty then some [.mapElem st p q ty] else none
      | none =>
        match lookupSym defs st p with
        | some first =>
          (match first.linked with
           | some st' =>
             (match first with
              | .id => none
              | _ => (specPath defs st' (q :: rest)).map fun tail =>
                  if tail = [Atom.id] then [first] else first :: tail)
           | none => none)
        | none => none

def pathIsSet (p : List Atom) : Bool := p.any Atom.isSet
def pathTy (p : List Atom) : NodeType := (p.getLast?.map Atom.ty).getD .other
def pathLinked (p : List Atom) : Option Nat := p.getLast?.bind Atom.linked

/-- the symbol tables of the specification -/
def dbSpecSigma (defs : List StoreDef) : Sigma Nat where
  sym t n := (specPath defs t (splitName n)).map fun p => (pathTy p, pathIsSet p)
  setTypes t n := (specPath defs t (splitName n)).bind pathLinked

/-! ### evaluation on rows -/

def findEntity (db : Db F) (st : Nat) (id : Bytes) : Option (Entity F) :=
  match db.rows[st]? with
  | none => none
  | some rows => rows.find? (fun e => e.id == id)

/-- the row key a stored value denotes when it is followed as a link: the payload after the type
    byte (`GetTypeAndValue`); only string payloads are entity ids -/
def linkKey : SVal F → Option Bytes
  | .str s => some s
  | _ => none

/-- `entitySymbol.Eval` / `entityIdSymbol.Eval` on the entity with key `key` (`none` = nil key) -/
def evalAtom (db : Db F) (a : Atom) (key : Option Bytes) : SVal F :=
  match a with
  | .id => (match key with | some k => .str k | none => .str [])
  | .field st k _ _ =>
    (match key.bind (findEntity db st) with
     | some e => (e.fields.lookup k).getD .nil
     | none => .nil)
  | .mapElem st mk k _ =>
    (match key.bind (findEntity db st) with
     | some e => (match e.maps.lookup mk with | some m => (m.lookup k).getD .nil | none => .nil)
     | none => .nil)
  | .set .. => .nil                                    -- entitySetSymbolImpl.Eval returns (0, nil)

/-- `nonSetCompositeEntitySymbol.Eval`: each link is evaluated on the value of the previous one -/
def evalChain (db : Db F) : List Atom → Option Bytes → SVal F
  | [], key => (match key with | some k => .str k | none => .nil)
  | [a], key => evalAtom db a key
  | a :: rest, key => evalChain db rest (linkKey (evalAtom db a key))

/-- the typed keys one level of the stacked cursor yields for the entity `key`:
    the set's bucket (`fkSetQueryPath`) or the single field value (`fkQueryPath`) -/
def levelVals (db : Db F) (a : Atom) (key : Option Bytes) : List (SVal F) :=
  match a with
  | .set st k _ _ =>
    (match key.bind (findEntity db st) with
     | some e => (e.sets.lookup k).getD []
     | none => [])
  | a => [evalAtom db a key]

/-- the elements of a composite set symbol by path semantics: follow every link, collect -/
def pathElems (db : Db F) : List Atom → Option Bytes → List (SVal F)
  | [], _ => []
  | [a], key => levelVals db a key
  | a :: rest, key => (levelVals db a key).flatMap fun v => pathElems db rest (linkKey v)

/-! #### the stacked cursor as the code runs it

  `stackedCursor` keeps one `queryPathElem` per chain position; `calculateNextCursorPosition` backs
  up when a level is exhausted and descends when it has a key.    The
  recursion of `stackedFrom` plays the role of that stack: descending is the recursive call, an
  exhausted level is the return to `forEachKey`, which takes the lower level's next key. -/

/-- one level of the stacked cursor: for every key the level yields, in order, run `body` (the
    levels above) to exhaustion, then back up and take the next key -/
def forEachKey (body : SVal F → List (SVal F)) : List (SVal F) → List (SVal F)
  | [] => []                                                   -- level exhausted: back up the stack
  | k :: ks => body k ++ forEachKey body ks

/-- enumerate everything reachable from the current level's keys `cur`, where `rest` is the part
    of the chain above the current level -/
def stackedFrom (db : Db F) : List Atom → List (SVal F) → List (SVal F)
  | [], cur => cur                                             -- top of the stack: every key is an element
  | a :: rest, cur =>
    -- hop up the stack: open the next level on the entity the key names
    forEachKey (fun k => stackedFrom db rest (levelVals db a (linkKey k))) cur

/-- `compositeEntitySetSymbol.OpenCursor` + repeated `Next()` -/
def stackedElems (db : Db F) (chain : List Atom) (rowId : Option Bytes) : List (SVal F) :=
  match chain with
  | [] => []
  | a :: rest => stackedFrom db rest (levelVals db a rowId)

/-- `OpenSetCursor(name)` contents under the code as it is -/
def modelElems (db : Db F) (r : RSym) (rowId : Option Bytes) : List (SVal F) :=
  match r with
  | .atom (.set st k ty l) => levelVals db (.set st k ty l) rowId
  | .compSet iter [] _ => stackedElems db iter rowId
  | .compSet iter last _ =>
    -- cursorLastF: strip the type byte from the cursor's key (GetTypeAndValue), then last.Eval
    (stackedElems db iter rowId).map fun v => evalChain db last (linkKey v)
  | _ => []

/-- what `cursor.Current()` of `OpenSetCursor(name)` yields (the row ids `newCursorScanner` visits
    for a sub-query): the payload of the cursor's key.  For a composite set symbol that is the key
    of the stacked cursor, whatever `cursorLastF` is. -/
def cursorKeys (db : Db F) (r : RSym) (rowId : Option Bytes) : List (SVal F) :=
  match r with
  | .compSet iter _ _ => stackedElems db iter rowId
  | r => modelElems db r rowId

/-- `symbol.Eval` of a non-set symbol on a row -/
def symVal (db : Db F) (r : RSym) (rowId : Option Bytes) : SVal F :=
  match r with
  | .atom a => evalAtom db a rowId
  | .nonSetComp chain _ => evalChain db chain rowId
  | .compSet .. => .nil

/-- row contexts: (store, row id); the id is `none` for an element whose `cursor.Current()` is nil -/
abbrev Ctx := Nat × Option Bytes

/-- the rows `newCursorScanner` visits: one per element of the set cursor, nil keys included -/
def cursorRowsOf (linked : Option Nat) (es : List (SVal F)) : List Ctx :=
  match linked with
  | some st' => es.map fun v => (st', linkKey v)
  | none => []

/-- the rows of a sub-query by path semantics: the linked entities; a null link contributes no row -/
def subRowsOf (linked : Option Nat) (es : List (SVal F)) : List Ctx :=
  match linked with
  | some st' => es.filterMap fun v => (linkKey v).map fun k => (st', some k)
  | none => []

def modelWorld (db : Db F) : World Ctx F where
  val c n := match resolve db.defs c.1 (splitName n) with
    | some r => symVal db r c.2
    | none => .nil
  elems c n := match resolve db.defs c.1 (splitName n) with
    | some r => modelElems db r c.2
    | none => []
  seekable c n := match resolve db.defs c.1 (splitName n) with
    | some (.atom (.set ..)) => true                    -- entitySetSymbolRuntime implements SeekToString
    | _ => false                                        -- stackedCursor does not
  subRows c n := match resolve db.defs c.1 (splitName n) with
    | some r => cursorRowsOf r.linked (cursorKeys db r c.2)
    | none => []
  nilRow c := c.2.isNone

def specWorld (db : Db F) : World Ctx F where
  val c n := match specPath db.defs c.1 (splitName n) with
    | some p => if pathIsSet p then .nil else evalChain db p c.2
    | none => .nil
  elems c n := match specPath db.defs c.1 (splitName n) with
    | some p => if pathIsSet p then pathElems db p c.2 else []
    | none => []
  seekable _ _ := false
  subRows c n := match specPath db.defs c.1 (splitName n) with
    | some p => if pathIsSet p then subRowsOf (pathLinked p) (pathElems db p c.2) else []
    | none => []
  nilRow _ := false

def storeIds (db : Db F) (st : Nat) : List Bytes :=
  match db.rows[st]? with
  | some rows => rows.map (·.id)
  | none => []

/-- `Store.QueryIds(tx, filter)` without sort / paging clauses: parse result → scan the entity
    bucket in key order, keep the ids whose row satisfies the typed predicate -/
def query (db : Db F) (fo : FloatOps F) (st : Nat) (f : U F) : Outcome (List Bytes) :=
  match typeCheck (dbSigma db.defs) fo st f with
  | .ok p => .ok ((storeIds db st).filter fun id => evalRow (modelWorld db) fo (st, some id) p)
  | .err => .err
  | .panic => .panic

/-- the specification of a query -/
def specQuery (db : Db F) (fo : FloatOps F) (st : Nat) (f : U F) : List Bytes :=
  (storeIds db st).filter fun id => sat (dbSpecSigma db.defs) (specWorld db) fo st (st, some id) f

/-! ### hypotheses of `query_exact` -/

def RSym.hasTail : RSym → Bool
  | .compSet _ (_ :: _) _ => true
  | _ => false

/-- The resolution of the name never composes a link onto a composite set symbol that carries a
    non-iterable tail (`getChain()` drops that tail): true of every name with at most three
    segments, and of longer ones unless a set.link.link… suffix is prefixed by further links
    (`boss.groups.boss.label`). -/
def regularParts (defs : List StoreDef) : Nat → List String → Bool
  | _, [] => true
  | _, [_] => true
  | st, p :: q :: rest =>
    match defs[st]? with
    | none => true
    | some d =>
      match d.maps.lookup p with
      | some _ => true
      | none =>
        match lookupSym defs st p with
        | some first =>
          (match first.linked with
           | some st' =>
             regularParts defs st' (q :: rest) &&
               (match resolve defs st' (q :: rest) with
                | some r => !r.hasTail
                | none => true)
           | none => true)
        | none => true

/-- the name resolves regularly and, when `sub` (it is the symbol of a sub-query), to a symbol whose
    cursor keys are its elements (no non-iterable tail) -/
def nameOK (defs : List StoreDef) (sub : Bool) (t : Nat) (n : String) : Bool :=
  regularParts defs t (splitName n) &&
    (!sub || (match resolve defs t (splitName n) with
              | some r => !r.hasTail
              | none => true))

/-- every symbol of the filter resolves regularly, and every symbol a sub-query ranges over has a
    plain cursor -/
def namesOK (defs : List StoreDef) : Nat → U F → Bool
  | t, .sym n => nameOK defs false t n
  | t, .setFn _ n => nameOK defs false t n
  | t, .setFnSub _ n q _ _ =>
    nameOK defs true t n &&
      (match (dbSigma defs).setTypes t n with
       | some t' => namesOK defs t' q
       | none => true)
  | _, .boolC _ => true
  | t, .cmp _ l _ => namesOK defs t l
  | t, .inArr l _ => namesOK defs t l
  | t, .between l _ _ => namesOK defs t l
  | t, .notE e => namesOK defs t e
  | t, .unot e => namesOK defs t e
  | t, .logic _ l r => namesOK defs t l && namesOK defs t r

/-- set sub-buckets hold strictly increasing string keys (true of every bbolt bucket written by
    `SetStringList` / link collections) -/
def WellFormedDb (db : Db F) : Prop :=
  ∀ st id e, findEntity db st id = some e → ∀ k es, e.sets.lookup k = some es → SortedStrs es

end StorageModel.Filter
