import StorageModel.Driver.Common
import StorageModel.Cursor.Kinds
import StorageModel.Cursor.Stacked
import StorageModel.Cursor.Reuse
import StorageModel.Cursor.Multi
import StorageModel.Cursor.World
/- model driver for C14: `run spec` reads case lines on stdin and prints one output line per case
   (spec = false: the engine model's output; spec = true: the spec's verdict).

   case line:   <desc> <ops>
     desc  prefix notation, tokens separated by ';' (the `via` token names the library call the
           harness uses and is ignored here):
             fwd;via;SET   rev;via;SET   tfwd;via;TAG;SET   trev;via;TAG;SET   setsym;SET   setsymnone
             empty;via   slice;f|r;LIST   tree;f|r;0|1;LIST   filt;DESC;SET   union;f|r;DESC;DESC
             scan;DESC;SKIP;KEEP   valid;DESC;PRESENT
             allof;f|r;TABLE;VALUES   anyof;f|r;TABLE;VALUES     (IteratorMatchingAllOf / AnyOf)
     TABLE rows `idhex=rolehex.rolehex…` separated by '+', '_' = no row, `id=_` = no role
     SET   elements (hex, '-' = empty string) separated by ',', '_' = no element
     ops   n | s<hex> (Seek) | t<hex> (SeekToString), separated by ',', '_' = none
   output: the observation after opening and after every operation:
             i (invalid)  v<hex> / vnil (valid, Current())  u (no such method)  panic  fail

   composite set symbol (stackedCursor):   stacked;PATH;ROOT;THINGS;OTHERS <ops>
     PATH   others.tags | others.name | boss.tags | others.things.tags
     THINGS rows `id=tags/others/boss` ('+'-separated; lists '.'-separated, '_' empty; boss '~' = nil)
     OTHERS rows `id=tags/name` (name '~' = nil)

   re-used cursor object:   R;MODE;PATH;THINGS;OTHERS;KEEP <segments>
     one cursor object (or one provider) opened again and again on rows of one store
     MODE   d  RuntimeEntitySetSymbol.OpenCursor on ONE runtime symbol obtained from store.GetSymbol(PATH)
            r  rowCursorImpl.OpenSetCursor(PATH) on the row cursor of one scan (symbol cache)
            q  rowCursorImpl.OpenSetCursorForQuery(PATH, query): the sub-query scanner; KEEP = ids the query accepts
            q.S.L  the same with `skip S limit L` (L = -1: no limit); scripts of `n` only
            n  a provider that builds a new cursor per call: PATH = relf | relr (GetRelatedEntitiesCursor
               over `tags`), link (IterateLinks), rclinkf | rclinkr (ref-counted IterateLinks)
     PATH   tags | others | rcOthers (entitySetSymbolRuntime) or a composite path
            (others.tags | others.name | boss.tags | others.things.tags | others.things)
     THINGS rows `id=tags/others/boss/rc` (rc: '~' = never linked, no bucket)
     segments `ROOT:ops` separated by '/': open on the thing ROOT (hex; a missing id = no entity), then ops
   output: for every segment the observation after opening and after every operation

   several cursors alive at once:   M;OPENER,OPENER[,OPENER];SET <script>
     all cursors are opened first (from ONE bucket object / collection / store, in one transaction)
     OPENER  list dirf dirr typedf typedr seekable openf openr   (one *TypedBucket value holding SET as a string list;
                                                                 the raw cursors see the stored keys `05 ++ e`)
             link rclinkf rclinkr relf relr setsym ids           (one collection / store / entity)
     script  steps `<i><op>` separated by ',': operate cursor i (a digit), '_' = none
   output: the observation of every cursor after opening, then after every step that of the operated cursor

   re-opened / re-sought after a write:   W;MODE;PATH;THINGS;OTHERS;KEEP <items>
     MODE   d r q q.S.L n as for R (n also: blist bdirf bdirr btypedf btypedr bseekable bopenf bopenr = the cursor
            providers of the TypedBucket of the row's `tags` list), and
            i  the id cursor things.IterateIds(tx, FILTER) with PATH = FILTER: any.T (anyOf(tags) = "T") none.T
               (not (anyOf(tags) = "T")) empty (isEmpty(tags)) cnt.N (count(tags) >= N) lnk.O (anyOf(others) = "O") true
     items  '/'-separated `[WRITE&WRITE…>]ENTRY:ops`; ENTRY = o<row> | s<v> | t<v>
     WRITE  U=id=tags=others=boss  T=id=tags  P=id=x  X=id=x  M=id=x=y|~  L+=id=o  L-=id=o  R+=id=o  R-=id=o
            D=id  C=id=tags  OU=oid=tags=name        (lists ','-separated)
   output: for every item the observation after the entry and after every operation (`fail` = the code makes no promise)

   exhaustive block:   X <desc> <k> <op,op,…>
     every script of length ≤ k over the given operations is run; output `<count> <h> <hn>` where
     h is the sum (mod 2^64) of the FNV-1a hashes of the scripts' output lines and hn the same with
     `vnil` read as `v-` (the check expands a block whose digests differ into its scripts). -/
namespace StorageModel.Driver.C14
open StorageModel StorageModel.Driver StorageModel.Cursor

def parseSet (s : String) : Option (List Bytes) :=
  if s = "_" then some [] else (s.splitOn ",").mapM Bytes.ofHex

def parseDir (s : String) : Option Dir :=
  if s = "f" then some .fwd else if s = "r" then some .rev else none

def parseTag (s : String) : Option UInt8 :=
  match Bytes.ofHex s with
  | some [t] => some t
  | _ => none

def parseRow (s : String) : Option (Bytes × List Bytes) :=
  match s.splitOn "=" with
  | [i, rs] => do
    let id ← Bytes.ofHex i
    let roles ← if rs = "_" then some [] else (rs.splitOn ".").mapM Bytes.ofHex
    pure (id, roles)
  | _ => none

def parseTable (s : String) : Option Desc.Table :=
  if s = "_" then some [] else (s.splitOn "+").mapM parseRow

partial def parseDesc : List String → Option (Desc × List String)
  | "fwd" :: _ :: s :: rest => do pure (.fwd (← parseSet s), rest)
  | "rev" :: _ :: s :: rest => do pure (.rev (← parseSet s), rest)
  | "tfwd" :: _ :: t :: s :: rest => do pure (.tfwd (← parseTag t) (← parseSet s), rest)
  | "trev" :: _ :: t :: s :: rest => do pure (.trev (← parseTag t) (← parseSet s), rest)
  | "setsym" :: s :: rest => do pure (.setsym (← parseSet s), rest)
  | "setsymnone" :: rest => some (.setsymNone, rest)
  | "empty" :: _ :: rest => some (.empty, rest)
  | "slice" :: d :: s :: rest => do pure (.slice (← parseDir d) (← parseSet s), rest)
  | "tree" :: d :: ne :: s :: rest => do pure (.tree (← parseDir d) (ne == "1") (← parseSet s), rest)
  | "filt" :: rest => do
    let (i, rest) ← parseDesc rest
    match rest with
    | s :: rest => pure (.filt i (← parseSet s), rest)
    | _ => none
  | "union" :: d :: rest => do
    let (a, rest) ← parseDesc rest
    let (b, rest) ← parseDesc rest
    pure (.union (← parseDir d) a b, rest)
  | "scan" :: rest => do
    let (i, rest) ← parseDesc rest
    match rest with
    | sk :: kp :: rest => pure (.scan i (← parseSet sk) (← parseSet kp), rest)
    | _ => none
  | "valid" :: rest => do
    let (i, rest) ← parseDesc rest
    match rest with
    | s :: rest => pure (.validIds i (← parseSet s), rest)
    | _ => none
  | "allof" :: d :: t :: vs :: rest => do pure (Desc.allOf (← parseDir d) (← parseTable t) (← parseSet vs), rest)
  | "anyof" :: d :: t :: vs :: rest => do pure (Desc.anyOf (← parseDir d) (← parseTable t) (← parseSet vs), rest)
  | _ => none

/-- the specification of an AllOf / AnyOf iterator, directly from the table (not through the
    desugared description): the ids holding all / any of the values, in key order; no value at
    all selects nothing -/
def tableSpec : List String → Option Spec
  | ["allof", d, t, vs] => do
    let values ← parseSet vs
    let tb ← parseTable t
    let dir ← parseDir d
    pure (Spec.plain (if values.isEmpty then [] else order dir (dedupSort (Desc.hasAll tb values))))
  | ["anyof", d, t, vs] => do
    let values ← parseSet vs
    let tb ← parseTable t
    let dir ← parseDir d
    pure (Spec.plain (if values.isEmpty then [] else order dir (dedupSort (Desc.hasAny tb values))))
  | _ => none

def parseOp (s : String) : Option Op :=
  if s = "n" then some .next
  else if s.startsWith "s" then (Bytes.ofHex (s.drop 1).toString).map Op.seek
  else if s.startsWith "t" then (Bytes.ofHex (s.drop 1).toString).map Op.seekS
  else none

def parseOps (s : String) : Option (List Op) :=
  if s = "_" then some [] else (s.splitOn ",").mapM parseOp

def showObs : Obs → String
  | .invalid => "i"
  | .value none => "vnil"
  | .value (some b) => "v" ++ Bytes.toWire b
  | .unsupported => "u"
  | .failed _ => "fail"
  | .panic => "panic"

def showRun (l : List Obs) : String := " ".intercalate (l.map showObs)

/-! the world of a stacked-cursor case -/

structure ThingRow where
  id : Bytes
  tags : List Bytes
  others : List Bytes
  boss : Option Bytes
  /-- ref-counted links; `none`: never linked (the entity has no bucket for the field) -/
  rc : Option (List Bytes) := none

structure OtherRow where
  id : Bytes
  tags : List Bytes
  name : Option Bytes

def parseList (s : String) : Option (List Bytes) :=
  if s = "_" then some [] else (s.splitOn ".").mapM Bytes.ofHex

def parseOpt (s : String) : Option (Option Bytes) :=
  if s = "~" then some none else (Bytes.ofHex s).map some

def parseThing (s : String) : Option ThingRow :=
  match s.splitOn "=" with
  | [i, r] => match r.splitOn "/" with
    | [t, o, b] => do pure { id := ← Bytes.ofHex i, tags := ← parseList t, others := ← parseList o, boss := ← parseOpt b }
    | [t, o, b, rc] => do
      let rc ← if rc = "~" then some none else (parseList rc).map some
      pure { id := ← Bytes.ofHex i, tags := ← parseList t, others := ← parseList o, boss := ← parseOpt b, rc := rc }
    | _ => none
  | _ => none

def parseOther (s : String) : Option OtherRow :=
  match s.splitOn "=" with
  | [i, r] => match r.splitOn "/" with
    | [t, n] => do pure { id := ← Bytes.ofHex i, tags := ← parseList t, name := ← parseOpt n }
    | _ => none
  | _ => none

def parseRows {α} (f : String → Option α) (s : String) : Option (List α) :=
  if s = "_" then some [] else (s.splitOn "+").mapM f

/-- fkSetQueryPath over the list bucket `field` of the row's entity -/
def setLevel (rows : List (Bytes × List Bytes)) : Level := fun row =>
  match row with
  | none => []
  | some r => match List.lookup r rows with
    | some xs => tagged typeString (dedupSort xs)
    | none => []

/-- fkQueryPath over a scalar string field: exactly one key, `[TypeNil]` for a nil / missing value -/
def scalarLevel (rows : List (Bytes × Option Bytes)) : Level := fun row =>
  match row.bind (fun r => List.lookup r rows) with
  | some (some v) => [prependFieldType typeString v]
  | _ => [[7]]

def stackedChain (path : String) (things : List ThingRow) (others : List OtherRow) : Option (List Level) :=
  let tOthers := setLevel (things.map fun t => (t.id, t.others))
  let tTags := setLevel (things.map fun t => (t.id, t.tags))
  let tBoss := scalarLevel (things.map fun t => (t.id, t.boss))
  let oTags := setLevel (others.map fun o => (o.id, o.tags))
  let oName := scalarLevel (others.map fun o => (o.id, o.name))
  let oThings := setLevel (others.map fun o => (o.id, (things.filter fun t => t.others.contains o.id).map (·.id)))
  match path with
  | "others.tags" => some [tOthers, oTags]
  | "others.name" => some [tOthers, oName]
  | "boss.tags" => some [tBoss, tTags]
  | "others.things.tags" => some [tOthers, oThings, tTags]
  | "others.things" => some [tOthers, oThings]
  | _ => none

def stackedStep (spec : Bool) (toks : List String) (o : String) : String :=
  match toks with
  | [path, root, th, ot] =>
    match Bytes.ofHex root, parseRows parseThing th, parseRows parseOther ot, parseOps o with
    | some r, some things, some others, some ops =>
      match stackedChain path things others with
      | some chain =>
        if spec then
          showRun ((Spec.plain ((stackedKeys chain (some r)).filterMap rowKeyOf')).openRun ops)
        else showRun ((stackedOpen chain (some r) (stackedFuel chain (some r))).run ops)
      | none => "bad-case"
    | _, _, _, _ => "bad-case"
  | _ => "bad-case"
where
  /-- the spec prints element values; nil and empty are the same element -/
  rowKeyOf' (k : Bytes) : Option Bytes := some ((rowKeyOf k).getD [])


/-! re-used cursor objects (`R` cases) -/

def parseSeg (s : String) : Option (Bytes × List Op) :=
  match s.splitOn ":" with
  | [k, o] => do pure (← Bytes.ofHex k, ← parseOps o)
  | _ => none

def parseSegs (s : String) : Option (List (Bytes × List Op)) := (s.splitOn "/").mapM parseSeg

/-- the elements a thing holds in a set field; `none`: no bucket (no such thing / never linked) -/
def setRows (path : String) (things : List ThingRow) : Option (Bytes → Option (List Bytes)) :=
  let find (root : Bytes) := things.find? (fun t => t.id == root)
  match path with
  | "tags" => some fun root => (find root).map (·.tags)
  | "others" => some fun root => (find root).map (·.others)
  | "rcOthers" => some fun root => (find root).bind (·.rc)
  | _ => none

/-- a provider that builds a new cursor per call -/
def providerDesc (path : String) (things : List ThingRow) : Option (Bytes → Desc) :=
  let find (root : Bytes) := things.find? (fun t => t.id == root)
  let mk (d : Dir) (row : Option (List Bytes)) : Desc :=
    match row, d with
    | none, _ => .empty
    | some xs, .fwd => .tfwd typeString xs
    | some xs, .rev => .trev typeString xs
  match path with
  | "relf" => some fun root => mk .fwd ((find root).map (·.tags))
  | "relr" => some fun root => mk .rev ((find root).map (·.tags))
  | "link" => some fun root => mk .fwd ((find root).map (·.others))
  | "rclinkf" => some fun root => mk .fwd ((find root).map fun t => t.rc.getD [])
  | "rclinkr" => some fun root => mk .rev ((find root).map fun t => t.rc.getD [])
  | _ => none

def maxOf (l : List Nat) : Nat := l.foldl max 0

def subQueryCfg (keep : List Bytes) (skip : Nat) (limit : Option Nat) : ScanCfg :=
  { skipRow := fun _ => false, filter := Desc.mem keep, targetOffset := skip, targetLimit := limit }

/-- `q` / `q.S.L` → (skip, limit) -/
def parsePaging (mode : String) : Option (Nat × Option Nat) :=
  match mode.splitOn "." with
  | ["q"] => some (0, none)
  | ["q", s, l] => do
    let s ← s.toNat?
    if l = "-1" then pure (s, none) else pure (s, some (← l.toNat?))
  | _ => none

/-- the window a paged cursor shows: drop `skip`, then at most `limit` -/
def pageOf (skip : Nat) (limit : Option Nat) (l : List Bytes) : List Bytes :=
  match limit with
  | none => l.drop skip
  | some n => (l.drop skip).take n

/-- the spec prints element values; nil and empty are the same element -/
def valueOf (k : Bytes) : Bytes := (rowKeyOf k).getD []

def reuseStep (spec : Bool) (toks : List String) (sg : String) : String :=
  match toks with
  | [mode, path, th, ot, kp] =>
    match parseRows parseThing th, parseRows parseOther ot, parseSet kp, parseSegs sg with
    | some things, some others, some keep, some segs =>
      let paging := parsePaging mode
      let isQ := paging.isSome
      let (skip, limit) := paging.getD (0, none)
      let paged := skip != 0 || limit.isSome
      let cfg := subQueryCfg keep skip limit
      if mode = "n" then
        match providerDesc path things with
        | some descOf =>
          showRun (segs.flatMap fun seg =>
            if spec then (descOf seg.1).spec.openRun seg.2 else (descOf seg.1).open.run seg.2)
        | none => "bad-case"
      else match setRows path things with
      | some rows =>
        if isQ then
          if spec then
            -- the linked ids of the row that the query accepts, in key order (an id is never empty);
            -- Seek: the set symbol's raw seek (compares with the stored keys), then the next accepted row
            showRun (segs.flatMap fun seg =>
              let E := ((rows seg.1).map dedupSort).getD []
              let ok := fun (x : Bytes) => !x.isEmpty && Desc.mem keep x
              if paged then (Spec.plain (pageOf skip limit (E.filter ok))).openRun seg.2 else
              ({ list := E.filter ok,
                 seek := some fun v _ => (E.dropWhile fun e => decide (prependFieldType typeString e < v)).filter ok,
                 seekS := none } : Spec).openRun seg.2)
          else
            let fuel := maxOf (segs.map fun seg => (setRowSpec (rows seg.1)).list.length) + 2
            showRun ((scanReusable (setSymReusable rows) cfg fuel).run segs
              { cursor := setSymNew, current := none, offset := 0, collected := 0 })
        else if spec then
          showRun (segs.flatMap fun seg => (setRowSpec (rows seg.1)).openRun seg.2)
        else showRun ((setSymReusable rows).run segs setSymNew)
      | none =>
        match stackedChain path things others with
        | some chain =>
          let rowOf : Bytes → Option Bytes := some
          let fuel := maxOf (segs.map fun seg => stackedFuel chain (some seg.1))
          if isQ then
            if spec then
              -- the values the walk yields that are keys of rows the query accepts; Seek is forward only
              showRun (segs.flatMap fun seg =>
                let vals := ((stackedKeys chain (some seg.1)).filterMap rowKeyOf).filter (Desc.mem keep)
                if paged then (Spec.plain (pageOf skip limit vals)).openRun seg.2 else
                ({ list := vals, seek := some fun v rem => rem.dropWhile (fun x => decide (x < v)), seekS := none } : Spec).openRun
                  seg.2)
            else
              let fuel' := maxOf (segs.map fun seg => (stackedKeys chain (some seg.1)).length) + 2
              showRun ((scanReusable (compReusable chain fuel rowOf) cfg fuel').run segs
                { cursor := { stack := [], key := none }, current := none, offset := 0, collected := 0 })
          else if spec then
            showRun (segs.flatMap fun seg => (Spec.plain ((stackedKeys chain (some seg.1)).map valueOf)).openRun seg.2)
          else showRun ((compReusable chain fuel rowOf).run segs { stack := [], key := none })
        | none => "bad-case"
    | _, _, _, _ => "bad-case"
  | _ => "bad-case"

def reuseCase (line : String) : Option (List String × String) :=
  match splitSp line with
  | [d, o] => match d.splitOn ";" with
    | "R" :: toks => some (toks, o)
    | _ => none
  | _ => none


/-! re-opened / re-sought after a write (`W` cases) -/

def toWorld (things : List ThingRow) (others : List OtherRow) : World :=
  { things := things.map fun t => { id := t.id, tags := t.tags, others := t.others, boss := t.boss, rc := t.rc },
    others := others.map fun o => { id := o.id, tags := o.tags, name := o.name } }

def thingRows (w : World) : List ThingRow :=
  w.things.map fun t => { id := t.id, tags := t.tags, others := t.others, boss := t.boss, rc := t.rc }

def otherRows (w : World) : List OtherRow := w.others.map fun o => { id := o.id, tags := o.tags, name := o.name }

def parseWrite (s : String) : Option Write :=
  match s.splitOn "=" with
  | ["U", i, t, o, b] => do pure (.update (← Bytes.ofHex i) (← parseSet t) (← parseSet o) (← parseOpt b))
  | ["T", i, t] => do pure (.setTags (← Bytes.ofHex i) (← parseSet t))
  | ["P", i, x] => do pure (.putTag (← Bytes.ofHex i) (← Bytes.ofHex x))
  | ["X", i, x] => do pure (.delTag (← Bytes.ofHex i) (← Bytes.ofHex x))
  | ["M", i, x, y] => do pure (.mapTag (← Bytes.ofHex i) (← Bytes.ofHex x) (← parseOpt y))
  | ["L+", i, o] => do pure (.addLink (← Bytes.ofHex i) (← Bytes.ofHex o))
  | ["L-", i, o] => do pure (.removeLink (← Bytes.ofHex i) (← Bytes.ofHex o))
  | ["R+", i, o] => do pure (.rcAdd (← Bytes.ofHex i) (← Bytes.ofHex o))
  | ["R-", i, o] => do pure (.rcDrop (← Bytes.ofHex i) (← Bytes.ofHex o))
  | ["D", i] => do pure (.delete (← Bytes.ofHex i))
  | ["C", i, t] => do pure (.create (← Bytes.ofHex i) (← parseSet t))
  | ["OU", i, t, n] => do pure (.updateOther (← Bytes.ofHex i) (← parseSet t) (← parseOpt n))
  | _ => none

def parseEntry (s : String) : Option (Entry Bytes) :=
  let v := Bytes.ofHex (s.drop 1).toString
  if s.startsWith "o" then v.map Entry.open
  else if s.startsWith "s" then v.map Entry.seek
  else if s.startsWith "t" then v.map Entry.seekS
  else none

def parseItem (s : String) : Option (Item Write Bytes) := do
  let (ws, rest) ← match s.splitOn ">" with
    | [rest] => some ([], rest)
    | [ws, rest] => do pure (← (ws.splitOn "&").mapM parseWrite, rest)
    | _ => none
  match rest.splitOn ":" with
  | [e, o] => do pure { writes := ws, entry := ← parseEntry e, ops := ← parseOps o }
  | _ => none

def parseItems (s : String) : Option (List (Item Write Bytes)) := (s.splitOn "/").mapM parseItem

/-- the world at each item (after its writes) -/
def worldsOf : List (Item Write Bytes) → World → List World
  | [], _ => []
  | it :: rest, w => let w' := applyAll World.applyWrite it.writes w; w' :: worldsOf rest w'

def entryRow : Entry Bytes → Option Bytes
  | .open k => some k
  | _ => none

def setRowsW (path : String) : Option ((World → Bytes → Option (List Bytes)) × (World → Bytes → World.Ident)) :=
  match path with
  | "tags" => some (World.tagsOf, World.tagsIdent)
  | "others" => some (World.othersOf, World.othersIdent)
  | "rcOthers" => some (World.rcOf, World.rcIdent)
  | _ => none

inductive ProvKind where
  | tf | tr | rf | rr

/-- a provider: which adapter it returns, over which elements, held by which bucket object -/
def providerW (path : String) : Option (ProvKind × (World → Bytes → List Bytes) × (World → Bytes → World.Ident)) :=
  let tags := fun (w : World) k => dedupSort ((w.tagsOf k).getD [])
  let others := fun (w : World) k => dedupSort ((w.othersOf k).getD [])
  let rc := fun (w : World) k => dedupSort ((w.rcOf k).getD [])
  match path with
  | "relf" | "blist" | "bdirf" | "btypedf" => some (.tf, tags, World.tagsIdent)
  | "relr" | "bdirr" | "btypedr" => some (.tr, tags, World.tagsIdent)
  | "bseekable" | "bopenf" => some (.rf, tags, World.tagsIdent)
  | "bopenr" => some (.rr, tags, World.tagsIdent)
  | "link" => some (.tf, others, World.othersIdent)
  | "rclinkf" => some (.tf, rc, World.othersIdent)   -- the provider creates the bucket when there is none
  | "rclinkr" => some (.tr, rc, World.othersIdent)
  | _ => none

/-- the filter of an id cursor, as a predicate on the row in the CURRENT world -/
def idFilter (f : String) : Option (World → Bytes → Bool) :=
  match f.splitOn "." with
  | ["true"] => some fun _ _ => true
  | ["any", t] => (Bytes.ofHex t).map fun t w id => ((w.tagsOf id).getD []).contains t
  | ["none", t] => (Bytes.ofHex t).map fun t w id => !((w.tagsOf id).getD []).contains t
  | ["empty"] => some fun w id => ((w.tagsOf id).getD []).isEmpty
  | ["cnt", n] => n.toNat?.map fun n w id => decide ((dedupSort ((w.tagsOf id).getD [])).length ≥ n)
  | ["lnk", o] => (Bytes.ofHex o).map fun o w id => ((w.othersOf id).getD []).contains o
  | _ => none

def writeStep (spec : Bool) (toks : List String) (sg : String) : String :=
  match toks with
  | [mode, path, th, ot, kp] =>
    match parseRows parseThing th, parseRows parseOther ot, parseSet kp, parseItems sg with
    | some things, some others, some keep, some items =>
      let w0 := toWorld things others
      let worlds := worldsOf items w0
      let paging := parsePaging mode
      let isQ := paging.isSome
      let (skip, limit) := paging.getD (0, none)
      let paged := skip != 0 || limit.isSome
      let cfg := subQueryCfg keep skip limit
      let rs : World → Bytes → Render := fun _ _ => some
      let chainOf := fun (w : World) => (stackedChain path (thingRows w) (otherRows w)).getD []
      let rowsAt := (items.zip worlds).filterMap fun (it, w) => (entryRow it.entry).map fun k => (w, k)
      if mode = "i" then
        match idFilter path with
        | some flt =>
          let fuel := maxOf (worlds.map fun w => w.ids.length) + 3
          if spec then
            showRun (specRunW (fun (w : World) (_ : Bytes) => Spec.seekable .fwd (w.ids.filter (flt w))) rs
              (fun _ _ => ()) true World.applyWrite items w0 none)
          else
            showRun ((scanW (fwdW (fun (w : World) (_ : Bytes) => w.ids) (fun _ _ => ()))
              (fun w => { skipRow := fun _ => false, filter := flt w, targetOffset := 0, targetLimit := none }) fuel).run
              World.applyWrite items w0 none
              { cursor := newForwardBoltCursor [], current := none, offset := 0, collected := 0 })
        | none => "bad-case"
      else if mode = "n" then
        match providerW path with
        | some (kind, elems, ident) =>
          let init := newForwardBoltCursor []
          match kind with
          | .tf =>
            if spec then showRun (specRunW (fun w k => Spec.seekable .fwd (elems w k)) rs ident true World.applyWrite items w0 none)
            else showRun ((tfwdW typeString elems ident).run World.applyWrite items w0 none init)
          | .tr =>
            if spec then showRun (specRunW (fun w k => Spec.seekable .rev (elems w k).reverse) rs ident true World.applyWrite items w0 none)
            else showRun ((trevW typeString elems ident).run World.applyWrite items w0 none init)
          | .rf =>
            if spec then showRun (specRunW (fun w k => Spec.seekable .fwd (tagged typeString (elems w k))) rs ident true World.applyWrite items w0 none)
            else showRun ((fwdW (fun w k => tagged typeString (elems w k)) ident).run World.applyWrite items w0 none init)
          | .rr =>
            if spec then showRun (specRunW (fun w k => Spec.seekable .rev (tagged typeString (elems w k)).reverse) rs ident true World.applyWrite items w0 none)
            else showRun ((revW (fun w k => tagged typeString (elems w k)) ident).run World.applyWrite items w0 none init)
        | none => "bad-case"
      else match setRowsW path with
      | some (rows, ident) =>
        if isQ then
          let ok := fun (x : Bytes) => !x.isEmpty && Desc.mem keep x
          let E := fun (w : World) k => ((rows w k).map dedupSort).getD []
          let fuel := maxOf (rowsAt.map fun (w, k) => (E w k).length) + 3
          if paged then
            if spec then
              showRun (specRunW (fun w k => Spec.plain (pageOf skip limit ((E w k).filter ok))) rs (fun _ _ => ()) false
                World.applyWrite items w0 none)
            else
              showRun ((WObject.ofFamily fun w => scanReusable (setSymReusable (rows w)) cfg fuel).run World.applyWrite items w0 none
                { cursor := setSymNew, current := none, offset := 0, collected := 0 })
          else if spec then
            -- the linked ids of the row that the query accepts, in key order; Seek: the set symbol's raw seek
            -- (compares with the stored keys), then the next accepted row — in the world as it is NOW
            showRun (specRunW (fun w k =>
              ({ list := (E w k).filter ok,
                 seek := some fun v _ => ((E w k).dropWhile fun e => decide (prependFieldType typeString e < v)).filter ok,
                 seekS := none } : Spec)) rs ident true World.applyWrite items w0 none)
          else
            showRun ((scanW (setSymW rows ident) (fun _ => cfg) fuel).run World.applyWrite items w0 none
              { cursor := setSymNew, current := none, offset := 0, collected := 0 })
        else if spec then
          showRun (specRunW (fun w k => setRowSpec (rows w k)) rs ident true World.applyWrite items w0 none)
        else showRun ((setSymW rows ident).run World.applyWrite items w0 none setSymNew)
      | none =>
        match stackedChain path things others with
        | some _ =>
          let fuel := maxOf (rowsAt.map fun (w, k) => stackedFuel (chainOf w) (some k))
          if isQ then
            let vals := fun (w : World) k => ((stackedKeys (chainOf w) (some k)).filterMap rowKeyOf).filter (Desc.mem keep)
            if spec then
              showRun (specRunW (fun w k =>
                if paged then Spec.plain (pageOf skip limit (vals w k)) else
                ({ list := vals w k, seek := some fun v rem => rem.dropWhile (fun x => decide (x < v)), seekS := none } : Spec))
                rs (fun _ _ => ()) false World.applyWrite items w0 none)
            else
              let fuel' := maxOf (rowsAt.map fun (w, k) => (stackedKeys (chainOf w) (some k)).length) + 3
              showRun ((WObject.ofFamily fun w => scanReusable (compReusable (chainOf w) fuel some) cfg fuel').run
                World.applyWrite items w0 none
                { cursor := { stack := [], key := none }, current := none, offset := 0, collected := 0 })
          else if spec then
            showRun (specRunW (fun w k => Spec.plain ((stackedKeys (chainOf w) (some k)).map valueOf)) rs (fun _ _ => ()) false
              World.applyWrite items w0 none)
          else
            showRun ((WObject.ofFamily fun w => compReusable (chainOf w) fuel some).run World.applyWrite items w0 none
              { stack := [], key := none })
        | none => "bad-case"
    | _, _, _, _ => "bad-case"
  | _ => "bad-case"

def writeCase (line : String) : Option (List String × String) :=
  match splitSp line with
  | [d, o] => match d.splitOn ";" with
    | "W" :: toks => some (toks, o)
    | _ => none
  | _ => none


/-! several cursors alive at once (`M` cases) -/

def openerDesc (xs : List Bytes) : String → Option Desc
  | "list" | "dirf" | "typedf" | "link" | "rclinkf" | "relf" => some (.tfwd typeString xs)
  | "dirr" | "typedr" | "rclinkr" | "relr" => some (.trev typeString xs)
  | "seekable" | "openf" => some (.fwd (xs.map (prependFieldType typeString)))
  | "openr" => some (.rev (xs.map (prependFieldType typeString)))
  | "setsym" => some (.setsym xs)
  | "ids" => some (.scan (.fwd xs) [] xs)
  | _ => none

def parseStep (s : String) : Option (Nat × Op) := do
  let i ← (s.take 1).toString.toNat?
  let op ← parseOp (s.drop 1).toString
  pure (i, op)

def parseScript (s : String) : Option (List (Nat × Op)) :=
  if s = "_" then some [] else (s.splitOn ",").mapM parseStep

def multiStep (spec : Bool) (toks : List String) (sc : String) : String :=
  match toks with
  | [openers, set] =>
    match parseSet set, parseScript sc with
    | some xs, some script =>
      match (openers.splitOn ",").mapM (openerDesc xs) with
      | some ds => showRun (if spec then (multiSpec ds script).map normNil' else multiRun ds script)
      | none => "bad-case"
    | _, _ => "bad-case"
  | _ => "bad-case"
where
  normNil' (o : Obs) : Obs := match o with
    | .value none => .value (some [])
    | o => o

def multiCase (line : String) : Option (List String × String) :=
  match splitSp line with
  | [d, o] => match d.splitOn ";" with
    | "M" :: toks => some (toks, o)
    | _ => none
  | _ => none

structure Case where
  desc : Desc
  spec : Spec
  ops : List Op

def parseDescSpec (d : String) : Option (Desc × Spec) := do
  let toks := d.splitOn ";"
  let (desc, rest) ← parseDesc toks
  if !rest.isEmpty then none
  let spec := (tableSpec toks).getD desc.spec
  pure (desc, spec)

def parseCase (line : String) : Option Case :=
  match splitSp line with
  | [d, o] => do
    let (desc, spec) ← parseDescSpec d
    let ops ← parseOps o
    pure { desc := desc, spec := spec, ops := ops }
  | _ => none

/-! exhaustive blocks -/

def fnvOffset : UInt64 := 14695981039346656037
def fnvPrime : UInt64 := 1099511628211

def fnv (s : String) : UInt64 :=
  s.toUTF8.foldl (fun h b => (h ^^^ b.toUInt64) * fnvPrime) fnvOffset

def normNil (o : Obs) : Obs :=
  match o with
  | .value none => .value (some [])
  | o => o

structure Digest where
  count : Nat := 0
  raw : UInt64 := 0
  norm : UInt64 := 0

def Digest.add (dg : Digest) (obs : List Obs) : Digest :=
  { count := dg.count + 1, raw := dg.raw + fnv (showRun obs), norm := dg.norm + fnv (showRun (obs.map normNil)) }

/-- all scripts of length ≤ k over `alpha`, in the order: script, then its extensions -/
partial def digest (runF : List Op → List Obs) (alpha : List Op) : Nat → List Op → Digest → Digest
  | k, revPrefix, dg =>
    let dg := dg.add (runF revPrefix.reverse)
    if k = 0 then dg
    else alpha.foldl (fun dg op => digest runF alpha (k - 1) (op :: revPrefix) dg) dg

def showDigest (dg : Digest) : String := s!"{dg.count} {dg.raw} {dg.norm}"

def blockStep (spec : Bool) (d k a : String) : String :=
  match parseDescSpec d, k.toNat?, parseOps a with
  | some (desc, sp), some k, some alpha =>
    let c := desc.open
    let runF : List Op → List Obs := if spec then sp.openRun else c.run
    showDigest (digest runF alpha k [] {})
  | _, _, _ => "bad-case"

def stackedCase (line : String) : Option (List String × String) :=
  match splitSp line with
  | [d, o] => match d.splitOn ";" with
    | "stacked" :: toks => some (toks, o)
    | _ => none
  | _ => none

def step (line : String) : String :=
  match splitSp line with
  | ["X", d, k, a] => blockStep false d k a
  | _ =>
    match writeCase line with
    | some (toks, o) => writeStep false toks o
    | none =>
    match multiCase line with
    | some (toks, o) => multiStep false toks o
    | none =>
    match reuseCase line with
    | some (toks, o) => reuseStep false toks o
    | none =>
    match stackedCase line with
    | some (toks, o) => stackedStep false toks o
    | none =>
    match parseCase line with
    | some c => showRun (c.desc.open.run c.ops)
    | none => "bad-case"

def specStep (line : String) : String :=
  match splitSp line with
  | ["X", d, k, a] => blockStep true d k a
  | _ =>
    match writeCase line with
    | some (toks, o) => writeStep true toks o
    | none =>
    match multiCase line with
    | some (toks, o) => multiStep true toks o
    | none =>
    match reuseCase line with
    | some (toks, o) => reuseStep true toks o
    | none =>
    match stackedCase line with
    | some (toks, o) => stackedStep true toks o
    | none =>
    match parseCase line with
    | some c => showRun (c.spec.openRun c.ops)
    | none => "bad-case"

def run (spec : Bool) : IO Unit := forEachLine (if spec then specStep else step)

end StorageModel.Driver.C14
