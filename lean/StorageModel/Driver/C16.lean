import StorageModel.Driver.Common
import StorageModel.C16.Load
/- model driver for C16: `run spec` reads case lines on stdin and prints one output line per case
   (spec = false: the engine model's output; spec = true: the spec's verdict).
   Case and output formats: see /verif/harness/c16.go. -/
namespace StorageModel.Driver.C16
open StorageModel StorageModel.Driver StorageModel.C16

abbrev Key := Bytes

/-- the stored form of a string field: a string, the key absent (`bucket.Delete`), or a nil value
    (what `SetStringP(nil)` of a version with a nullable field writes).  Only the `name` slot ever
    holds anything but `str` (raw writes `z:…`). -/
inductive NV
  | str (b : Bytes)
  | absent
  | nil
  deriving DecidableEq, Repr

abbrev Nm := NV
abbrev Tm := String

/-- the universe's strategy: `FillEntity` reads the name with `GetStringOrError` — a missing key and a
    nil value make it report "non-nullable field name is null" -/
def strat : Strat Nm := ⟨fun | .str _ => false | _ => true⟩

def NV.wire : NV → String
  | .str b => Bytes.toWire b
  | .absent => "!del"
  | .nil => "!nil"

/-- bbolt key order: bytewise lexicographic -/
def bytesLe : List UInt8 → List UInt8 → Bool
  | [], _ => true
  | _ :: _, [] => false
  | a :: as, b :: bs => if a < b then true else if b < a then false else bytesLe as bs

instance : KeyOrd Key := ⟨bytesLe⟩

def parseKey (s : String) : Key := (Bytes.ofHex s).getD []

/-- the checker lets a field through iff it is nil ("n") or lists the field -/
def checkerSets (c : String) (field : String) : Bool :=
  c = "n" || (c != "-" && (c.splitOn ",").contains field)

def parseNm (s : String) : Nm := .str (parseKey s)

def parseTag (s : String) : Option Nm := if s = "~" then none else some (parseNm s)

def parseOwner (s : String) : Option Key := if s = "-" then none else some (parseKey s)

def mkVals (flag name mig cAt uAt tag owner : String) : Vals Key Nm Tm :=
  { flag := flag = "t", migrate := mig = "t", cAt := cAt, uAt := uAt, tags := parseTag tag, name := parseNm name,
    owner := parseOwner owner }

/-- o: the transaction's context; s: its GetSystemContext(); n: nested Db.Update handed the system
    context; m: nested Db.Update handed the transaction's own context -/
def ctxSys (topSys : Bool) (ctx : String) : Bool := topSys || ctx = "s" || ctx = "n"

/-- `topSys`: the context handed to Db.Update is a system context, so every operation's context is.
    `stored id` = the in-memory entity `FindById` would return right now (for the write-back op `b`:
    `S.Update` of the entity just loaded, unchanged) -/
def parseOp (topSys : Bool) (stored : Key → Option (Vals Key Nm Tm)) (s : String) : Option (LOp Key Nm Tm) :=
  let sys := ctxSys topSys
  match s.splitOn ":" with
  | ["b", ctx, id, ch] =>
    let v := (stored (parseKey id)).getD (mkVals "f" "-" "f" "z" "z" "~" "-")
    some (.base <| .update (sys ctx) (parseKey id) v (checkerSets ch "name") (checkerSets ch "tags") (checkerSets ch "owner"))
  | ["c", ctx, id, flag, name, mig, cAt, uAt, tag] =>
    some (.base <| .create (sys ctx) (parseKey id) (parseKey id).isEmpty (mkVals flag name mig cAt uAt tag "-"))
  | ["c", ctx, id, flag, name, mig, cAt, uAt, tag, owner] =>
    some (.base <| .create (sys ctx) (parseKey id) (parseKey id).isEmpty (mkVals flag name mig cAt uAt tag owner))
  | ["u", ctx, id, flag, name, ch, mig, cAt, uAt, tag] =>
    some (.base <| .update (sys ctx) (parseKey id) (mkVals flag name mig cAt uAt tag "-") (checkerSets ch "name")
      (checkerSets ch "tags") (checkerSets ch "owner"))
  | ["u", ctx, id, flag, name, ch, mig, cAt, uAt, tag, owner] =>
    some (.base <| .update (sys ctx) (parseKey id) (mkVals flag name mig cAt uAt tag owner) (checkerSets ch "name")
      (checkerSets ch "tags") (checkerSets ch "owner"))
  | ["d", ctx, id] => some (.base <| .delete (sys ctx) (parseKey id))
  | ["C", ctx, id, flag, name, mig, cAt, uAt, tag, owner, lvl] =>
    some (.base <| .ccreate (sys ctx) (parseKey id) (parseKey id).isEmpty (mkVals flag name mig cAt uAt tag owner) (parseNm lvl))
  | ["U", ctx, id, flag, name, ch, mig, cAt, uAt, tag, owner, lvl] =>
    some (.base <| .cupdate (sys ctx) (parseKey id) (mkVals flag name mig cAt uAt tag owner) (checkerSets ch "name")
      (checkerSets ch "tags") (checkerSets ch "owner") (checkerSets ch "level") (parseNm lvl))
  | ["D", ctx, id] => some (.base <| .cdelete (sys ctx) (parseKey id))
  | ["oc", _, id] => some (.base <| .ocreate (parseKey id) (parseKey id).isEmpty)
  | ["od", ctx, id] => some (.base <| .odelete (sys ctx) (parseKey id))
  | ["w", ctx, "T"] => some (.base <| .deleteWhere (sys ctx) .all)
  | ["w", ctx, "n", n] => some (.base <| .deleteWhere (sys ctx) (.name (parseNm n)))
  | ["w", ctx, "o", o] => some (.base <| .deleteWhere (sys ctx) (.owner (parseKey o)))
  | ["w", ctx, "s", b] => some (.base <| .deleteWhere (sys ctx) (.flag (b = "t")))
  | ["l", sid, oid] => some (.base <| .link (parseKey sid) (parseKey oid))
  | ["x", sid, oid] => some (.base <| .unlink (parseKey sid) (parseKey oid))
  | ["r", id] => some (.base <| .read (parseKey id))
  -- raw writes of the `name` key in the entity bucket (bare transaction)
  | ["z", id, "del"] => some (.rawName (parseKey id) .absent)
  | ["z", id, "nil"] => some (.rawName (parseKey id) .nil)
  | ["z", id, "set", n] => some (.rawName (parseKey id) (parseNm n))
  | _ => none

def tf (b : Bool) : String := if b then "t" else "f"

def showErr : Err → String
  | .sysCreate => "!sysCreate"
  | .sysUpdate => "!sysUpdate"
  | .sysDelete => "!sysDelete"
  | .notFound => "!notFound"
  | .exists => "!exists"
  | .blank => "!blank"
  | .noOwner => "!noOwner"
  | .viaSysDelete => "!via:sysDelete"

def showLErr : LErr → String
  | .base e => showErr e
  | .load => "!loadErr"
  | .loadFinal => "!loadErr"
  | .viaLoad => "!via:loadErr"

def showStamp : Stamp Tm → String
  | .now => "now"
  | .given t => t

def showTag : Option Nm → String
  | none => "~"
  | some t => t.wire

def showOwner : Option Key → String
  | none => "-"
  | some o => Bytes.toWire o

def showPeers (ps : List Key) : String :=
  match sortKeys ps with
  | [] => "~"
  | l => ",".intercalate (l.map Bytes.toWire)

def viewOwners (owners : List Key) (opool : List Key) : String :=
  String.join (opool.map fun o => "@" ++ Bytes.toWire o ++ "=" ++ tf (owners.contains o) ++ ";")

def viewModel (s : St Key Nm Tm) (pool opool : List Key) : String :=
  String.join (pool.map fun id =>
    Bytes.toWire id ++ "=" ++ (match s.ents.get id with
      | none => "f/////////-"
      | some e => "t/" ++ tf e.isSystem ++ "/" ++ e.name.wire ++ "/" ++ showTag e.tags ++ "/" ++
          showStamp e.created ++ "/" ++ showStamp e.updated ++ "/" ++ showOwner e.owner ++ "/" ++ showTag e.level ++ "/" ++
          showPeers e.peers ++ "/" ++
          (match e.flag with | none => "-" | some true => "t" | some false => "f")) ++ ";")
  ++ viewOwners s.owners opool

def readModel (s : St Key Nm Tm) (id : Key) : String :=
  match s.ents.get id with
  | none => "none"
  | some e => tf e.isSystem ++ "/" ++ e.name.wire

def opResult (s : St Key Nm Tm) (op : LOp Key Nm Tm) (o : LOut Key Nm Tm) : String :=
  match o.err with
  | some e => showLErr e
  | none => match op with
    | .base (.read id) => readModel s id
    | _ => "ok"

/-- the loaded entity: what `LoadBaseValues` + the strategy's `FillEntity` put into the struct -/
def storedVals (s : St Key Nm Tm) (id : Key) : Option (Vals Key Nm Tm) :=
  (s.ents.get id).map fun e =>
    { flag := e.isSystem, migrate := false, cAt := "z", uAt := "z", tags := e.tags, name := e.name, owner := e.owner }

def runTxModel (s : St Key Nm Tm) (keepGoing : Bool) (topSys : Bool) (ops : List String) (pool opool : List Key) :
    St Key Nm Tm × String :=
  let rec go (cur : St Key Nm Tm) (ops : List String) (acc : List String) : St Key Nm Tm × List String × String :=
    match ops with
    | [] => (cur, acc.reverse, "")
    | ops0 :: rest =>
      match parseOp topSys (storedVals cur) ops0 with
      | none => go cur rest acc
      | some op =>
      let o := lstep strat cur op
      match o.err with
      | none => go o.st rest (opResult cur op o :: acc)
      | some e =>
        if keepGoing && e.ignorable then go o.st rest (showLErr e :: acc)
        else (s, (showLErr e :: acc).reverse, viewModel o.st pool opool)
  let r := go s ops []
  (r.1, ";".intercalate r.2.1 ++ "|" ++ r.2.2 ++ "|" ++ viewModel r.1 pool opool)

def parseTx (t : String) : Bool × Bool × List String :=
  match t.splitOn "!" with
  | [head, body] => (head.startsWith "S", head.endsWith "k", body.splitOn ";")
  | _ => (false, false, [])

def parsePools (p : String) : List Key × List Key :=
  match p.splitOn "/" with
  | [a] => ((a.splitOn ",").map parseKey, [])
  | [a, b] => ((a.splitOn ",").map parseKey, if b = "" then [] else (b.splitOn ",").map parseKey)
  | _ => ([], [])

/-- first token of a case line: where the system entity constraint is registered -/
def parseReg (kind0 : String) : Reg :=
  -- a trailing `W` = the WIDE entity strategies (harness/c16_wide.go: name / owner / level through
  -- `GetAndSetString` / `SetStringP`, derived copies through every other setter): which setters the
  -- strategy calls does not enter `step` (`refused_update_any_strategy`), same model
  let kind := if kind0.length > 1 && kind0.endsWith "W" then String.ofList kind0.toList.dropLast else kind0
  match kind with
  | "HC" => { onS := false, onC := true }
  | "HB" => { onS := true, onC := true }
  | "HN" => { onS := false, onC := false }
  | "HP" => { onS := true, onC := false, childStore := false }
  | _ => { onS := true, onC := false }

def step (line : String) : String :=
  match splitSp line with
  | kind :: p :: txs =>
    let (pool, opool) := parsePools p
    let r := txs.foldl (fun (acc : St Key Nm Tm × List String) t =>
      let (topSys, keep, ops) := parseTx t
      let o := runTxModel acc.1 keep topSys ops pool opool
      (o.1, acc.2 ++ [o.2])) ((St.empty (parseReg kind) : St Key Nm Tm), [])
    " ".intercalate r.2
  | _ => "bad-case"

/-! ### spec: failing calls only *fail* (`!`), uncommitted partial states are not described (`*`),
    and neither the storage form of the flag nor the link set is part of the property (last two
    fields of a view entry `_`) -/

def viewSpec (s : SSt Key Nm Tm) (pool opool : List Key) : String :=
  String.join (pool.map fun id =>
    Bytes.toWire id ++ "=" ++ (match s.ents.get id with
      | none => "f////////_/_"
      | some e => "t/" ++ tf e.isSys ++ "/" ++ e.name.wire ++ "/" ++ showTag e.tags ++ "/" ++
          showStamp e.created ++ "/" ++ showStamp e.updated ++ "/" ++ showOwner e.owner ++ "/" ++ showTag e.level ++
          "/_/_") ++ ";")
  ++ viewOwners s.owners opool

def sstoredVals (s : SSt Key Nm Tm) (id : Key) : Option (Vals Key Nm Tm) :=
  (s.ents.get id).map fun e =>
    { flag := e.isSys, migrate := false, cAt := "z", uAt := "z", tags := e.tags, name := e.name, owner := e.owner }

def runTxSpec (s : SSt Key Nm Tm) (keepGoing : Bool) (topSys : Bool) (ops : List String) (pool opool : List Key) :
    SSt Key Nm Tm × String :=
  let rec go (cur : SSt Key Nm Tm) (ops : List String) (acc : List String) : SSt Key Nm Tm × List String × String :=
    match ops with
    | [] => (cur, acc.reverse, "")
    | ops0 :: rest =>
      match parseOp topSys (sstoredVals cur) ops0 with
      | none => go cur rest acc
      | some op =>
      match lsstep strat cur op with
      | .ok s' =>
        let res := match op with
          | .base (.read id) => (match cur.ents.get id with | none => "none" | some e => tf e.isSys ++ "/" ++ e.name.wire)
          | _ => "ok"
        go s' rest (res :: acc)
      | .fail ignorable =>
        if keepGoing && ignorable then go cur rest ("!" :: acc)
        else (s, ("!" :: acc).reverse, "*")
  let r := go s ops []
  (r.1, ";".intercalate r.2.1 ++ "|" ++ r.2.2 ++ "|" ++ viewSpec r.1 pool opool)

def specStep (line : String) : String :=
  match splitSp line with
  | kind :: p :: txs =>
    let (pool, opool) := parsePools p
    let r := txs.foldl (fun (acc : SSt Key Nm Tm × List String) t =>
      let (topSys, keep, ops) := parseTx t
      let o := runTxSpec acc.1 keep topSys ops pool opool
      (o.1, acc.2 ++ [o.2])) ((SSt.empty (parseReg kind) : SSt Key Nm Tm), [])
    " ".intercalate r.2
  | _ => "bad-case"

def run (spec : Bool) : IO Unit := forEachLine (if spec then specStep else step)

end StorageModel.Driver.C16
