import StorageModel.Driver.Common
import StorageModel.C16.Model
/- model driver for C16: `run spec` reads case lines on stdin and prints one output line per case
   (spec = false: the engine model's output; spec = true: the spec's verdict).
   Case and output formats: see /verif/harness/c16.go. -/
namespace StorageModel.Driver.C16
open StorageModel StorageModel.Driver StorageModel.C16

abbrev Key := Bytes
abbrev Nm := Bytes
abbrev Tm := String

def parseKey (s : String) : Key := (Bytes.ofHex s).getD []

/-- the checker lets a field through iff it is nil ("n") or lists the field -/
def checkerSets (c : String) (field : String) : Bool :=
  c = "n" || (c != "-" && (c.splitOn ",").contains field)

def parseTag (s : String) : Option Nm := if s = "~" then none else some (parseKey s)

def mkVals (flag name mig cAt uAt tag : String) : Vals Nm Tm :=
  { flag := flag = "t", migrate := mig = "t", cAt := cAt, uAt := uAt, tags := parseTag tag, name := parseKey name }

/-- `topSys`: the context handed to Db.Update is a system context, so every operation's context is -/
def parseOp (topSys : Bool) (s : String) : Option (Op Key Nm Tm) :=
  match s.splitOn ":" with
  | ["c", ctx, id, flag, name, mig, cAt, uAt, tag] =>
    some (.create (topSys || ctx = "s") (parseKey id) (parseKey id).isEmpty (mkVals flag name mig cAt uAt tag))
  | ["u", ctx, id, flag, name, ch, mig, cAt, uAt, tag] =>
    some (.update (topSys || ctx = "s") (parseKey id) (mkVals flag name mig cAt uAt tag) (checkerSets ch "name")
      (checkerSets ch "tags"))
  | ["d", ctx, id] => some (.delete (topSys || ctx = "s") (parseKey id))
  | ["r", id] => some (.read (parseKey id))
  | _ => none

def tf (b : Bool) : String := if b then "t" else "f"

def showErr : Err → String
  | .sysCreate => "!sysCreate"
  | .sysUpdate => "!sysUpdate"
  | .sysDelete => "!sysDelete"
  | .notFound => "!notFound"
  | .exists => "!exists"
  | .blank => "!blank"

def showStamp : Stamp Tm → String
  | .now => "now"
  | .given t => t

def showTag : Option Nm → String
  | none => "~"
  | some t => Bytes.toWire t

def viewModel (s : St Key Nm Tm) (pool : List Key) : String :=
  String.join (pool.map fun id =>
    Bytes.toWire id ++ "=" ++ (match s.get id with
      | none => "f//////-"
      | some e => "t/" ++ tf e.isSystem ++ "/" ++ Bytes.toWire e.name ++ "/" ++ showTag e.tags ++ "/" ++
          showStamp e.created ++ "/" ++ showStamp e.updated ++ "/" ++
          (match e.flag with | none => "-" | some true => "t" | some false => "f")) ++ ";")

def readModel (s : St Key Nm Tm) (id : Key) : String :=
  match s.get id with
  | none => "none"
  | some e => tf e.isSystem ++ "/" ++ Bytes.toWire e.name

def opResult (s : St Key Nm Tm) (op : Op Key Nm Tm) (o : Out Key Nm Tm) : String :=
  match o.err with
  | some e => showErr e
  | none => match op with
    | .read id => readModel s id
    | _ => "ok"

def runTxModel (s : St Key Nm Tm) (keepGoing : Bool) (ops : List (Op Key Nm Tm)) (pool : List Key) : St Key Nm Tm × String :=
  let rec go (cur : St Key Nm Tm) (ops : List (Op Key Nm Tm)) (acc : List String) : St Key Nm Tm × List String × String :=
    match ops with
    | [] => (cur, acc.reverse, "")
    | op :: rest =>
      let o := StorageModel.C16.step cur op
      match o.err with
      | none => go o.st rest (opResult cur op o :: acc)
      | some e =>
        if keepGoing && e ≠ .sysCreate then go o.st rest (showErr e :: acc)
        else (s, (showErr e :: acc).reverse, viewModel o.st pool)
  let r := go s ops []
  (r.1, ";".intercalate r.2.1 ++ "|" ++ r.2.2 ++ "|" ++ viewModel r.1 pool)

def parseTx (t : String) : Bool × Bool × List String :=
  match t.splitOn "!" with
  | [head, body] => (head.startsWith "S", head.endsWith "k", body.splitOn ";")
  | _ => (false, false, [])

def step (line : String) : String :=
  match splitSp line with
  | _kind :: p :: txs =>
    let pool := (p.splitOn ",").map parseKey
    let r := txs.foldl (fun (acc : St Key Nm Tm × List String) t =>
      let (topSys, keep, ops) := parseTx t
      let o := runTxModel acc.1 keep (ops.filterMap (parseOp topSys)) pool
      (o.1, acc.2 ++ [o.2])) (([] : St Key Nm Tm), [])
    " ".intercalate r.2
  | _ => "bad-case"

/-! ### spec: failing calls only *fail* (`!`), uncommitted partial states are not described (`*`),
    and the storage form of the flag is not part of the property (last field of a view entry `_`) -/

def viewSpec (s : SSt Key Nm Tm) (pool : List Key) : String :=
  String.join (pool.map fun id =>
    Bytes.toWire id ++ "=" ++ (match s.get id with
      | none => "f//////_"
      | some e => "t/" ++ tf e.isSys ++ "/" ++ Bytes.toWire e.name ++ "/" ++ showTag e.tags ++ "/" ++
          showStamp e.created ++ "/" ++ showStamp e.updated ++ "/_") ++ ";")

def runTxSpec (s : SSt Key Nm Tm) (keepGoing : Bool) (ops : List (Op Key Nm Tm)) (pool : List Key) : SSt Key Nm Tm × String :=
  let rec go (cur : SSt Key Nm Tm) (ops : List (Op Key Nm Tm)) (acc : List String) : SSt Key Nm Tm × List String × String :=
    match ops with
    | [] => (cur, acc.reverse, "")
    | op :: rest =>
      match sstep cur op with
      | some s' =>
        let res := match op with
          | .read id => (match cur.get id with | none => "none" | some e => tf e.isSys ++ "/" ++ Bytes.toWire e.name)
          | _ => "ok"
        go s' rest (res :: acc)
      | none =>
        -- a refused create always aborts the body; other failures only in abort mode
        let isCreate := match op with | .create .. => true | _ => false
        let refusedCreate := match op with
          | .create sys id blank v => !blank && (cur.get id).isNone && v.flag && !sys
          | _ => false
        if keepGoing && !(isCreate && refusedCreate) then go cur rest ("!" :: acc)
        else (s, ("!" :: acc).reverse, "*")
  let r := go s ops []
  (r.1, ";".intercalate r.2.1 ++ "|" ++ r.2.2 ++ "|" ++ viewSpec r.1 pool)

def specStep (line : String) : String :=
  match splitSp line with
  | _kind :: p :: txs =>
    let pool := (p.splitOn ",").map parseKey
    let r := txs.foldl (fun (acc : SSt Key Nm Tm × List String) t =>
      let (topSys, keep, ops) := parseTx t
      let o := runTxSpec acc.1 keep (ops.filterMap (parseOp topSys)) pool
      (o.1, acc.2 ++ [o.2])) (([] : SSt Key Nm Tm), [])
    " ".intercalate r.2
  | _ => "bad-case"

def run (spec : Bool) : IO Unit := forEachLine (if spec then specStep else step)

end StorageModel.Driver.C16
