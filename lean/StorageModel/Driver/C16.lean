import StorageModel.Driver.Common
import StorageModel.C16.Model
/- model driver for C16: `run spec` reads case lines on stdin and prints one output line per case
   (spec = false: the engine model's output; spec = true: the spec's verdict).
   Case and output formats: see /verif/harness/c16.go. -/
namespace StorageModel.Driver.C16
open StorageModel StorageModel.Driver StorageModel.C16

abbrev Key := Bytes
abbrev Nm := Bytes

def parseKey (s : String) : Key := (Bytes.ofHex s).getD []

/-- the checker lets `name` through iff it is nil ("n") or lists "name" -/
def checkerSetsName (c : String) : Bool :=
  c = "n" || (c != "-" && (c.splitOn ",").contains "name")

/-- `topSys`: the context handed to Db.Update is a system context, so every operation's context is -/
def parseOp (topSys : Bool) (s : String) : Option (Op Key Nm) :=
  match s.splitOn ":" with
  | ["c", ctx, id, flag, name] =>
    some (.create (topSys || ctx = "s") (parseKey id) (parseKey id).isEmpty (flag = "t") (parseKey name))
  | ["u", ctx, id, flag, name, ch] =>
    some (.update (topSys || ctx = "s") (parseKey id) (flag = "t") (parseKey name) (checkerSetsName ch))
  | ["d", ctx, id] => some (.delete (topSys || ctx = "s") (parseKey id))
  | ["r", id] => some (.read (parseKey id))
  | _ => none

def tf (b : Bool) : String := if b then "t" else "f"

def showErr : Err → String
  | .sysCreate => "!sysCreate"
  | .sysUpdate => "!sysUpdate"
  | .sysDelete => "!sysDelete"
  | .notFound => "!notFound"
  | .exists => "!exists"
  | .blank => "!blank"

def viewModel (s : St Key Nm) (pool : List Key) : String :=
  String.join (pool.map fun id =>
    Bytes.toWire id ++ "=" ++ (match s.get id with
      | none => "f///-"
      | some e => "t/" ++ tf e.isSystem ++ "/" ++ Bytes.toWire e.name ++ "/" ++
          (match e.flag with | none => "-" | some true => "t" | some false => "f")) ++ ";")

def readModel (s : St Key Nm) (id : Key) : String :=
  match s.get id with
  | none => "none"
  | some e => tf e.isSystem ++ "/" ++ Bytes.toWire e.name

def opResult (s : St Key Nm) (op : Op Key Nm) (o : Out Key Nm) : String :=
  match o.err with
  | some e => showErr e
  | none => match op with
    | .read id => readModel s id
    | _ => "ok"

def runTxModel (s : St Key Nm) (keepGoing : Bool) (ops : List (Op Key Nm)) (pool : List Key) : St Key Nm × String :=
  let rec go (cur : St Key Nm) (ops : List (Op Key Nm)) (acc : List String) : St Key Nm × List String × String :=
    match ops with
    | [] => (cur, acc.reverse, "")
    | op :: rest =>
      let o := StorageModel.C16.step cur op
      match o.err with
      | none => go o.st rest (opResult cur op o :: acc)
      | some e =>
        if keepGoing && e ≠ .sysCreate then go o.st rest (showErr e :: acc)
        else (s, (showErr e :: acc).reverse, viewModel o.st pool)
  let r := go s ops []
  (r.1, ";".intercalate r.2.1 ++ "|" ++ r.2.2 ++ "|" ++ viewModel r.1 pool)

def parseTx (t : String) : Bool × Bool × List String :=
  match t.splitOn "!" with
  | [head, body] => (head.startsWith "S", head.endsWith "k", body.splitOn ";")
  | _ => (false, false, [])

def step (line : String) : String :=
  match splitSp line with
  | _kind :: p :: txs =>
    let pool := (p.splitOn ",").map parseKey
    let r := txs.foldl (fun (acc : St Key Nm × List String) t =>
      let (topSys, keep, ops) := parseTx t
      let o := runTxModel acc.1 keep (ops.filterMap (parseOp topSys)) pool
      (o.1, acc.2 ++ [o.2])) (([] : St Key Nm), [])
    " ".intercalate r.2
  | _ => "bad-case"

/-! ### spec: failing calls only *fail* (`!`), uncommitted partial states are not described (`*`),
    and the storage form of the flag is not part of the property (last field of a view entry `_`) -/

def viewSpec (s : SSt Key Nm) (pool : List Key) : String :=
  String.join (pool.map fun id =>
    Bytes.toWire id ++ "=" ++ (match s.get id with
      | none => "f///_"
      | some e => "t/" ++ tf e.1 ++ "/" ++ Bytes.toWire e.2 ++ "/_") ++ ";")

def runTxSpec (s : SSt Key Nm) (keepGoing : Bool) (ops : List (Op Key Nm)) (pool : List Key) : SSt Key Nm × String :=
  let rec go (cur : SSt Key Nm) (ops : List (Op Key Nm)) (acc : List String) : SSt Key Nm × List String × String :=
    match ops with
    | [] => (cur, acc.reverse, "")
    | op :: rest =>
      match sstep cur op with
      | some s' =>
        let res := match op with
          | .read id => (match cur.get id with | none => "none" | some e => tf e.1 ++ "/" ++ Bytes.toWire e.2)
          | _ => "ok"
        go s' rest (res :: acc)
      | none =>
        -- a refused create always aborts the body; other failures only in abort mode
        let isCreate := match op with | .create .. => true | _ => false
        let refusedCreate := match op with
          | .create sys id blank flag _ => !blank && (cur.get id).isNone && flag && !sys
          | _ => false
        if keepGoing && !(isCreate && refusedCreate) then go cur rest ("!" :: acc)
        else (s, ("!" :: acc).reverse, "*")
  let r := go s ops []
  (r.1, ";".intercalate r.2.1 ++ "|" ++ r.2.2 ++ "|" ++ viewSpec r.1 pool)

def specStep (line : String) : String :=
  match splitSp line with
  | _kind :: p :: txs =>
    let pool := (p.splitOn ",").map parseKey
    let r := txs.foldl (fun (acc : SSt Key Nm × List String) t =>
      let (topSys, keep, ops) := parseTx t
      let o := runTxSpec acc.1 keep (ops.filterMap (parseOp topSys)) pool
      (o.1, acc.2 ++ [o.2])) (([] : SSt Key Nm), [])
    " ".intercalate r.2
  | _ => "bad-case"

def run (spec : Bool) : IO Unit := forEachLine (if spec then specStep else step)

end StorageModel.Driver.C16
