import StorageModel.Driver.Common
import StorageModel.C18.Store
/- model driver for C18 (line protocol documented in /verif/harness/c18.go).

   default mode : case line                  -> `v<number of committed transactions>` for an mv case, `done` for a race case
   `spec` mode  : case line TAB impl output  -> `ok`, or `fail@<reader.tx>:<query>` naming the first read
                  transaction / observation that is not the model's answer on the version the transaction
                  was tagged with (or whose two tag reads differ, or whose tag is no committed version) -/
namespace StorageModel.Driver.C18
open StorageModel.Driver StorageModel.C18

def parseNums (s : String) : Option (List Nat) :=
  if s.isEmpty then some [] else (s.splitOn "+").mapM (·.toNat?)

def parseWOp (tok : String) : Option WOp :=
  match tok.toList with
  | 'p' :: rest =>
    match (String.ofList rest).splitOn "." with
    | [id, name, rank, roles] => do pure (.put (← id.toNat?) (← name.toNat?) (← rank.toNat?) (← parseNums roles))
    | _ => none
  | 'd' :: rest => do pure (.del (← (String.ofList rest).toNat?))
  | 'l' :: rest =>
    match (String.ofList rest).splitOn "." with
    | [id, gs] => do pure (.link (← id.toNat?) (← parseNums gs))
    | _ => none
  | _ => none

def parseTx (tok : String) : Option (Bool × List WOp) :=
  match tok.toList with
  | c :: ':' :: rest =>
    let body := String.ofList rest
    let ops := if body.isEmpty then some [] else ((body.splitOn "/").filter (· ≠ "")).mapM parseWOp
    ops.map fun o => (c == 'c', o)
  | _ => none

def parseQ (s : String) : Option Qry :=
  let kind := String.ofList (s.toList.takeWhile (fun c => !c.isDigit))
  let arg := (String.ofList (s.toList.dropWhile (fun c => !c.isDigit))).toNat?
  match kind, arg with
  | "N", some n => some (.qName n)
  | "K", some n => some (.qRankGe n)
  | "R", some n => some (.qRole n)
  | "G", some n => some (.qGroup n)
  | "H", some n => some (.qGroupLabel n)
  | "T", some n => some (.qTop n)
  | "iN", some n => some (.iName n)
  | "iR", some n => some (.iRole n)
  | "lG", some n => some (.lGroups n)
  | "lM", some n => some (.lMembers n)
  | "E", some n => some (.load n)
  | "A", some _ => some .qAll
  | "P", some n => some (.qPage (n / 10) (n % 10))
  | "Q", some n => some (.qRankPage (n / 100) (n / 10 % 10) (n % 10))
  | "X", some n => some (.qEven n)
  | "Z", some n => some (.qEvenRank (n / 10) (n % 10))
  | "Y", some n => some (.qExt n)
  | "V", some n => some (.vEven (n / 100) (n % 100))
  | "W", some n => some (.vExt (n / 100) (n % 100))
  | "M", some n => some (.qMap (n / 10) (n % 10))
  | "S", some n => some (.qShared n)
  | "U", some n => some (.qSpelled n)
  | "O", some n => some (.sortFieldsTwice n)
  | "FA", some n => some (.fAll n)
  | "JA", some n => some (.fAll n)
  | "FO", some n => some (.fAny n)
  | "JO", some n => some (.fAny n)
  | "I", some n => some (.iMap (n / 1000) (n / 100 % 10) (n % 100))
  | "C", some n => some (.cWalk (n / 100) (n % 100))
  | "D", some n => some (.cSeek (n / 10000) (n / 100 % 100) (n % 100))
  | _, _ => none

def parseAns (s : String) : Option (List Nat) :=
  if s == "-" then some [] else (s.splitOn ".").mapM (·.toNat?)

def parseRead (s : String) : Option (Qry × List Nat) :=
  match s.splitOn "=" with
  | [q, a] => do pure (← parseQ q, ← parseAns a)
  | _ => none

def parseReadTx (tok : String) : Option (String × ReadTx) :=
  match tok.splitOn ":" with
  | [who, ts, te, reads] => do
    let rs ← (reads.splitOn "|").mapM parseRead
    pure (who, { tagStart := ← ts.toNat?, tagEnd := ← te.toNat?, reads := rs })
  | _ => none

/-! ### cw cases: a script of writer and reader events played by ONE goroutine (several read transactions open at once,
    the writer committing — or in the middle of a transaction — between their reads).  The driver RUNS the MVCC model
    (`C18.run` over `applyOp` / `evalQ`) on the script and prints the log in the harness' format, so for these cases the
    implementation's output is compared with the model's output as a whole.

      c:<ops> / a:<ops>   a whole write transaction (begin, operations, commit / rollback)
      wb  w:<op>  wc  wa  the same in pieces: reader events may come in between
      rb<r>  re<r>        reader r begins / ends a read transaction
      r<r>:<q>            reader r observes q (any observation kind; C<k><aa> opens and walks a cursor, D<k><aa><xx> seeks the
                          reader's cursor for (k, aa) — walked to its end before — to a<xx> and walks it again) -/

def parseCwEvent (tok : String) : Option (List (Ev WOp Qry × String)) :=
  match tok.toList with
  | 'w' :: 'b' :: [] => some [(.wbegin, "")]
  | 'w' :: 'c' :: [] => some [(.wcommit, "")]
  | 'w' :: 'a' :: [] => some [(.wabort, "")]
  | 'w' :: ':' :: rest => (parseWOp (String.ofList rest)).map fun o => [(.wop o, "")]
  | 'r' :: 'b' :: rest => (String.ofList rest).toNat?.map fun r => [(.rbegin r, "")]
  | 'r' :: 'e' :: rest => (String.ofList rest).toNat?.map fun r => [(.rend r, "")]
  | 'r' :: rest =>
    match (String.ofList rest).splitOn ":" with
    | [r, q] => do pure [(.rread (← r.toNat?) (← parseQ q), q)]
    | _ => none
  | _ =>
    match parseTx tok with
    | some (true, ops) => some ([(.wbegin, "")] ++ ops.map (fun o => (.wop o, "")) ++ [(.wcommit, "")])
    | some (false, ops) => some ([(.wbegin, "")] ++ ops.map (fun o => (.wop o, "")) ++ [(.wabort, "")])
    | none => none

def parseCw (toks : List String) : Option (List (Ev WOp Qry × String)) :=
  (toks.mapM parseCwEvent).map List.flatten

def showAns (a : List Nat) : String :=
  if a.isEmpty then "-" else ".".intercalate (a.map toString)

/-- the model's log of a cw script in the harness' output format: `v<committed>` then one token per read transaction that
    observed something, in the order the read transactions began: `<reader>.<serial>:<tag>:<tag>:<q>=<answer>|…` -/
def cwModelLine (evs : List (Ev WOp Qry × String)) : String :=
  let s := C18.run applyOp evalQ (St.init [] : St Ver WOp Qry (List Nat)) (evs.map (·.1))
  -- the spelling of the k-th observation of the log = the k-th rread of the script that had a pin; replay to know which
  let spell : List String := Id.run do
    let mut st : St Ver WOp Qry (List Nat) := St.init []
    let mut out : List String := []
    for (e, txt) in evs do
      let st' := C18.step applyOp evalQ st e
      if st'.log.length > st.log.length then out := out ++ [txt]
      st := st'
    pure out
  let obs := s.log.reverse.zip spell
  let rtxs := (obs.map (·.1.rtx)).eraseDups
  let sorted := rtxs.foldl (fun acc x => (acc.filter (· < x)) ++ [x] ++ (acc.filter (· > x))) []
  let toks := sorted.map fun n =>
    let mine := obs.filter (·.1.rtx == n)
    match mine with
    | [] => ""
    | (o, _) :: _ => s!"{o.reader}.{n}:{o.tag}:{o.tag}:" ++ "|".intercalate (mine.map fun (o, txt) => s!"{txt}={showAns o.a}")
  " ".intercalate (s!"v{s.txs.length}" :: toks)

/-- the committed / aborted write transactions of a cw script, in order (what `judge` needs) -/
def cwTxsGo (evs : List (Ev WOp Qry)) (cur : Option (List WOp)) (acc : List (Bool × List WOp)) : List (Bool × List WOp) :=
  match evs with
  | [] => acc
  | .wbegin :: r => cwTxsGo r (match cur with | none => some [] | c => c) acc
  | .wop o :: r => cwTxsGo r (cur.map (· ++ [o])) acc
  | .wcommit :: r => (match cur with | some ops => cwTxsGo r none (acc ++ [(true, ops)]) | none => cwTxsGo r none acc)
  | .wabort :: r => (match cur with | some ops => cwTxsGo r none (acc ++ [(false, ops)]) | none => cwTxsGo r none acc)
  | _ :: r => cwTxsGo r cur acc

def cwTxs (evs : List (Ev WOp Qry)) : List (Bool × List WOp) := cwTxsGo evs none []

def step (line : String) : String :=
  match splitSp line with
  | "cw" :: _ :: toks =>
    match parseCw toks with
    | some evs => cwModelLine evs
    | none => "bad-case"
  | "mv" :: _ :: _ :: _ :: txs =>
    match txs.mapM parseTx with
    | some ts => s!"v{(committedTxs ts).length}"
    | none => "bad-case"
  | "cr" :: _ :: _ :: _ :: _ :: txs =>
    match txs.mapM parseTx with
    | some ts => s!"v{(committedTxs ts).length}"
    | none => "bad-case"
  | "sq" :: _ :: _ :: _ :: txs =>
    match txs.mapM parseTx with
    | some ts => s!"v{(committedTxs ts).length}"
    | none => "bad-case"
  | "race" :: _ => "done"
  | _ => "bad-case"

def firstBadRead (txs : List (Bool × List WOp)) (t : ReadTx) : String :=
  if t.tagStart != t.tagEnd then "tag-moved"
  else if (committedTxs txs).length < t.tagStart then "tag-not-a-committed-version"
  else match t.reads.find? (fun qa => evalQ qa.1 (versionOf txs t.tagStart) != qa.2) with
    | some qa => s!"read-differs(got:{qa.2},model:{evalQ qa.1 (versionOf txs t.tagStart)},obs#{(t.reads.takeWhile (fun qb => evalQ qb.1 (versionOf txs t.tagStart) == qb.2)).length})"
    | none => "?"

def judgeParsed (ts : List (Bool × List WOp)) (impl : String) : String :=
    match splitSp impl with
    | v :: toks =>
      if v != s!"v{(committedTxs ts).length}" then s!"fail:final-version:{v}"
      else match toks.mapM parseReadTx with
        | none => "unparsed"
        | some rts =>
          match rts.find? (fun rt => !readTxOk ts rt.2) with
          | none => "ok"
          | some rt => s!"fail@{rt.1}:{firstBadRead ts rt.2}"
    | [] => "unparsed"

def judge (txs : List String) (impl : String) : String :=
  match txs.mapM parseTx with
  | none => "bad-case"
  | some ts => judgeParsed ts impl

def specStep (line : String) : String :=
  match line.splitOn "\t" with
  | [case, impl] =>
    match splitSp case with
    | "mv" :: _ :: _ :: _ :: txs => judge txs impl
    | "cr" :: _ :: _ :: _ :: _ :: txs => judge txs impl
    | "sq" :: _ :: _ :: _ :: txs => judge txs impl
    | "cw" :: _ :: toks =>
      match parseCw toks with
      | some evs => judgeParsed (cwTxs (evs.map (·.1))) impl
      | none => "bad-case"
    | "race" :: _ => if impl == "done" then "ok" else "fail:" ++ impl
    | _ => "bad-case"
  | _ => "bad-case"

def run (spec : Bool) : IO Unit := forEachLine (if spec then specStep else step)

end StorageModel.Driver.C18
