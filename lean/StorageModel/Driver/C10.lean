import StorageModel.Driver.Common
import StorageModel.C10.Listener
import StorageModel.C10.TreeCursor
import StorageModel.C10.Dump
import StorageModel.C10.Pipeline
import StorageModel.C10.Session
import StorageModel.C10.BoltScan
import StorageModel.C10.Config
import StorageModel.Generated.C10Sites
/- model driver for C10: `run spec` reads case lines on stdin and prints one output line per case
   (spec = false: the engine model's output; spec = true: the spec's verdict). -/
namespace StorageModel.Driver.C10
open StorageModel StorageModel.Driver StorageModel.C10

def decodeText (w : String) : Option (List Char) :=
  match Bytes.ofHex w with
  | some b => (String.fromUTF8? (ByteArray.mk b.toArray)).map (·.toList)
  | none => none

def encodeText (s : List Char) : String := Bytes.toWire (Bytes.ofString (String.ofList s))

def tokString (r : Except Nat (List Token)) (partialToks : List Token) : String :=
  let nums (ts : List Token) := if ts.isEmpty then "-" else ".".intercalate (ts.map fun t => toString t.kind.num)
  match r with
  | .ok ts => nums ts
  | .error e => nums partialToks ++ "!" ++ toString e

/-- tokens recognised before the first error (for the comparison with the real lexer) -/
def lexPrefix : Nat → List Char → List Token
  | 0, _ => []
  | _ + 1, [] => []
  | n + 1, s@(_ :: _) =>
    match pick s with
    | none => []
    | some (k, r) => ⟨k, s.take (s.length - r.length)⟩ :: lexPrefix n r

def evName : Ev → String
  | .term k text => s!"T{k.num}.{encodeText text}"
  | .eSA => "eSA" | .eNA => "eNA" | .eDA => "eDA" | .xSA => "xSA" | .xNA => "xNA" | .xDA => "xDA"
  | .xOr => "xOr" | .xAnd => "xAnd" | .xIn => "xIn" | .xBtw => "xBtw" | .xBin => "xBin" | .xSF => "xSF"
  | .eSB => "eSB" | .xSB => "xSB" | .xSFd => "xSFd" | .xSk => "xSk" | .xLi => "xLi" | .xQ => "xQ"
  | .xSQ => "xSQ" | .xNot => "xNot" | .xGrp => "xGrp"

def evString (evs : List Ev) : String := if evs.isEmpty then "-" else ",".intercalate (evs.map evName)

def tkOfNum (n : Nat) : Option TK := TK.all[n - 1]?

def parseEv (s : String) : Option Ev :=
  match s with
  | "eSA" => some .eSA | "eNA" => some .eNA | "eDA" => some .eDA | "xSA" => some .xSA | "xNA" => some .xNA
  | "xDA" => some .xDA | "xOr" => some .xOr | "xAnd" => some .xAnd | "xIn" => some .xIn | "xBtw" => some .xBtw
  | "xBin" => some .xBin | "xSF" => some .xSF | "eSB" => some .eSB | "xSB" => some .xSB | "xSFd" => some .xSFd
  | "xSk" => some .xSk | "xLi" => some .xLi | "xQ" => some .xQ | "xSQ" => some .xSQ | "xNot" => some .xNot
  | "xGrp" => some .xGrp
  | _ =>
    if s.startsWith "T" then
      match (s.drop 1).toString.splitOn "." with
      | [n, txt] =>
        match n.toNat?, decodeText txt with
        | some k, some t => (tkOfNum k).map fun tk => Ev.term tk t
        | _, _ => none
      | _ => none
    else none

def parseEvs (s : String) : Option (List Ev) :=
  if s == "-" then some [] else (s.splitOn ",").mapM parseEv

def b01 (b : Bool) : String := if b then "1" else "0"

/-- front end shared by L and Q cases: returns the output prefix and the untyped query if any -/
def front (text : List Char) : String × Option (Outcome U) :=
  let lx := lex text
  let tok := tokString lx (lexPrefix (text.length + 1) text)
  match lx with
  | .error _ => (s!"tok={tok} acc=0 ev=? le=?", none)
  | .ok ts =>
    match parseStart ts with
    | none => (s!"tok={tok} acc=0 ev=? le=?", none)
    | some tree =>
      let evs := tree.events
      let res := listen evs
      let le := match run .init evs with
        | .ok st => b01 st.err
        | .err _ => "1"
        | .panic _ => "panic"
      (s!"tok={tok} acc=1 ev={evString evs} le={le}", some res)

def stepE (evs : String) : String :=
  match parseEvs evs with
  | none => "bad-events"
  | some es =>
    let c := b01 (clean false es)
    match run .init es with
    | .ok st => s!"le={b01 st.err} clean={c}"
    | .err _ => s!"le=1 clean={c}"
    | .panic site => s!"panic clean={c} site={site}"


/-- the result class of ast.Parse under the debug configuration (`ast.EnableQueryDebug` on), by the model that carries
    the configuration bit and the regenerated fact about what the debug branch reads -/
def cfgRes (st : SymTab) (text : List Char) : String :=
  match parseModelCfg Generated.C10.astParseDebugReadsOnlyInput ⟨true⟩ st text with
  | .ok _ => "ok"
  | .err e =>
    if e == "syntax" then "syn" else if e == "listener" then "lerr"
    else if e == "symbol validation" then "verr" else "terr"
  | .panic _ => "P"

/-! ### Q cases: schema, rows -/

def nodeTypeOfCode (c : Char) : NodeType :=
  match c with
  | 's' => .string | 'i' => .int64 | 'f' => .float64 | 'b' => .bool | 'd' => .datetime | 'a' => .anyType
  | _ => .other

structure Entry where
  name : Name
  type : NodeType
  isSet : Bool
  sub : Option Nat

def parseEntry (s : String) : Option Entry :=
  match s.splitOn ":" with
  | [] => none
  | parts =>
    let spec := parts.getLast!.toList
    let name := (":".intercalate parts.dropLast).toList
    match spec with
    | [] => none
    | c :: rest =>
      let (isSet, rest1) := match rest with | '*' :: r => (true, r) | r => (false, r)
      let sub := match rest1 with | '@' :: r => (String.ofList r).toNat? | _ => none
      some ⟨name, nodeTypeOfCode c, isSet, sub⟩

def parseTables (s : String) : List (List Entry) :=
  (s.splitOn "/").map fun t => if t == "" || t == "-" then [] else (t.splitOn ",").filterMap parseEntry

/-- the symbol table `i`, unfolded `depth` levels -/
def mkTab (tables : List (List Entry)) : Nat → Nat → SymTab
  | 0, i =>
    let es := tables.getD i []
    .mk (fun n => (es.find? (·.name == n)).map (·.type)) (fun n => (es.find? (·.name == n)).map (·.isSet)) (fun _ => none)
  | d + 1, i =>
    let es := tables.getD i []
    .mk (fun n => (es.find? (·.name == n)).map (·.type)) (fun n => (es.find? (·.name == n)).map (·.isSet))
      (fun n => match es.find? (·.name == n) with
        | some e => match e.sub with
          | some k => if k < tables.length then some (mkTab tables d k) else none
          | none => none
        | none => none)

def parseFV (s : String) : FV :=
  match s.toList with
  | 'S' :: r => match decodeText (String.ofList r) with | some t => .str t | none => .null
  | 'I' :: r => match (String.ofList r).toInt? with | some i => .int i | none => .null
  | 'F' :: r => match classifyNumber r with | .int i => .flt (i : Rat) | .float q => .flt q | .bad => .null
  | 'B' :: r => .bool (r == ['1'])
  | 'D' :: r => match (String.ofList r).toInt? with | some i => .dt i | none => .null
  | _ => .null

inductive FieldSpec where
  | scalar (n : Name) (v : FV)
  | set (n : Name) (vs : List FV)
  | kids (n : Name) (ix : List Nat)

def parseField (s : String) : Option FieldSpec :=
  match s.splitOn "=" with
  | name :: rest =>
    let v := "=".intercalate rest
    if v.startsWith "[" then
      let inner := ((v.drop 1).dropEnd 1).toString
      some (.set name.toList (if inner == "" then [] else (inner.splitOn "|").map parseFV))
    else if v.startsWith "{" then
      let inner := ((v.drop 1).dropEnd 1).toString
      some (.kids name.toList (if inner == "" then [] else (inner.splitOn "|").filterMap (·.toNat?)))
    else some (.scalar name.toList (parseFV v))
  | [] => none

def parseRowSpecs (s : String) : List (List FieldSpec) :=
  if s == "-" then [] else (s.splitOn ";").map fun r => if r == "_" then [] else (r.splitOn "&").filterMap parseField

/-- row `i` of the table (children have larger indices, so `fuel` bounds the nesting) -/
def buildRow (specs : List (List FieldSpec)) : Nat → Nat → Row
  | 0, _ => .mk [] [] []
  | fuel + 1, i =>
    let fs := specs.getD i []
    .mk (fs.filterMap fun | .scalar n v => some (n, v) | _ => none)
        (fs.filterMap fun | .set n vs => some (n, vs) | _ => none)
        (fs.filterMap fun
          | .kids n ix => some (n, (ix.filter (fun k => k > i && k < specs.length)).map (buildRow specs fuel))
          | _ => none)

def evalRows (seek : Bool) (t : T) (rows : List Row) : String :=
  if rows.isEmpty then "-" else
  String.join (rows.map fun r => match evalRow seek t r with
    | .ok b => b01 b
    | .err _ => "E"
    | .panic _ => "P")

def traceString (t : T) : String :=
  let tr := t.trace
  if tr.isEmpty then "-" else ",".intercalate tr

def stepQ (spec : Bool) (schema seek rowsS w : String) : String :=
  match decodeText w with
  | none => "bad-case"
  | some text =>
    let tables := parseTables schema
    let st := mkTab tables 8 0
    let specs := parseRowSpecs rowsS
    let rows := (List.range specs.length).map (buildRow specs 4)
    if spec then s!"acc={b01 (accepts text)} nopanic" else
    let (pre, _) := front text
    -- the function the theorems are about
    match parseModel st text with
    | .ok t => s!"{pre} res=ok typed={traceString t} eval={evalRows (seek == "1") t rows} cfg={cfgRes st text}"
    | .err e =>
      let kind := if e == "syntax" then "syn" else if e == "listener" then "lerr"
        else if e == "symbol validation" then "verr" else "terr"
      s!"{pre} res={kind} typed=- eval=- cfg={cfgRes st text}"
    | .panic site => s!"{pre} res=panic:{site.replace " " "_"} typed=- eval=- cfg={cfgRes st text}"

/-! ### N cases: read APIs against never-created structural buckets -/

def nBuckets (state store : String) : Buckets :=
  let full := state == "full"
  if store == "kids" then
    let e := state == "child" || full
    ⟨e, e, false, full, full⟩
  else
    let e := state == "parent" || full
    ⟨e, e, full, full, full⟩

def nSortSym (n : String) : SortSym :=
  if n == "id" || n == "s" then .typed .string
  else if n == "n" then .typed .int64
  else if n == "b" then .typed .bool
  else if n == "ss" || n == "kids" then .set
  else .missing

def ansStr : Outcome Ans → String
  | .ok .empty => "E"
  | .ok .scanned => "S"
  | .err _ => "X"
  | .panic _ => "P"

def nQuery (store sort skip limit : String) : Q :=
  let fields : List (String × Bool) := if sort == "-" then [] else
    (sort.splitOn ",").map fun f => match f.splitOn ":" with
      | [n, d] => (n, d != "d")
      | _ => (f, true)
  let sk : Option Int := if skip == "-" then none else skip.toInt?
  let li : Option Int := if limit == "-" then none else if limit == "none" then some (-1) else limit.toInt?
  ⟨fields.map fun (n, a) => (n == "id", a), fields.map fun (n, a) => (nSortSym n, a), sk, li, store == "ext", false⟩

/-- the cursor the harness' provider (`GetRelatedEntitiesCursor` of the probe id) yields -/
def nProviderCur (b : Buckets) (q : Q) : Cur :=
  match relatedCursor codeGuards b q with
  | .ok .scanned => .rowsC
  | _ => .emptyC

def nApis (b : Buckets) (q : Q) : List (String × Api) :=
  [("qc", .queryIdsC), ("qw", .queryCursor (nProviderCur b q)), ("qn", .queryCursor .nilC), ("it", .iterateIds),
   ("iv", .iterateValidIds), ("fb", .findById), ("rl", .relatedIds), ("rc", .relatedCursor), ("ux", .uniqueRead), ("sx", .setRead)]

def stepN (spec : Bool) (state store sort skip limit : String) : String :=
  let b := nBuckets state store
  let q := nQuery store sort skip limit
  if spec then
    "must=" ++ ",".intercalate ((nApis b q).map fun (n, api) => s!"{n}:{b01 (api.missing b)}")
  else
    "fresh=" ++ ",".intercalate ((nApis b q).map fun (n, api) => s!"{n}:{ansStr (readApi codeGuards api b q)}")

/-! ### H cases: a history of ast.Parse calls in one process -/

def resString : Outcome T → String
  | .ok t => s!"ok:{traceString t}"
  | .err e =>
    if e == "syntax" then "syn" else if e == "listener" then "lerr"
    else if e == "symbol validation" then "verr" else "terr"
  | .panic site => s!"panic:{site.replace " " "_"}"

/-- model: `parseHistory` with the listener policy regenerated from ast/helper.go (the callbacks of
    recovered trees are not known to the driver: `[]`; with a listener per call they are irrelevant —
    `parse_history_independent`).  spec: every text answered as if it were parsed alone.  A text written
    `k~<hex>` is parsed against the k-th of the `~`-separated schemas. -/
def stepH (spec : Bool) (schemas : String) (ws : List String) : String :=
  let tabs := (schemas.splitOn "~").map fun sc => mkTab (parseTables sc) 8 0
  let tab0 := tabs.headD (mkTab [] 0 0)
  let decode (w : String) : Option Call :=
    match w.splitOn "~" with
    | [t] => (decodeText t).map fun x => ⟨tab0, x, []⟩
    | [k, t] =>
      match k.toNat?, decodeText t with
      | some i, some x => some ⟨tabs.getD i tab0, x, []⟩
      | _, _ => none
    | _ => none
  match ws.mapM decode with
  | none => "bad-case"
  | some calls =>
    let rs := if spec then standalone calls else parseHistory Generated.C10.astParseListenerPerCall .init calls
    "h=" ++ "|".intercalate (rs.map resString)

def treeLine (vals : List Bytes) (after : List Bool) (size : Nat) : String :=
  let vs := if vals.isEmpty then "-" else ".".intercalate (vals.map Bytes.toWire)
  let as := if after.isEmpty then "-" else bits after
  s!"vals={vs} after={as} size={size}"

def stepT (spec : Bool) (fwd extra : String) (vals : List String) : String :=
  match extra.toNat?, vals.mapM Bytes.ofHex with
  | some n, some vs =>
    let lt : Bytes → Bytes → Bool := if fwd == "1" then bytesLt else fun a b => bytesLt b a
    if spec then
      let sorted := vs.foldl (fun acc v => insertSorted lt v acc) []
      treeLine sorted (List.replicate n false) sorted.length
    else
      let t := vs.foldl (fun acc v => bstInsert lt v acc) LTree.nil
      match tcScript t n with
      | .ok (es, bs) => treeLine es bs t.size
      | .err e => "err " ++ e
      | .panic site => "panic " ++ site
  | _, _ => "bad-case"

def step (line : String) : String :=
  match splitSp line with
  | "T" :: fwd :: extra :: vals => stepT false fwd extra vals
  | ["L", w] =>
    match decodeText w with
    | some text => (front text).1
    | none => "bad-case"
  | ["E", evs] => stepE evs
  | ["Q", schema, seek, rows, w] => stepQ false schema seek rows w
  | "H" :: schema :: ws => stepH false schema ws
  | ["B", _, _] => "nopanic"
  | ["O", _, _] => "nopanic"
  | ["N", state, store, _, sort, skip, limit, _] => stepN false state store sort skip limit
  | _ => "bad-case"

/-- the spec: a string is accepted iff it is a sentence (reference lexer + recogniser); nothing
    may panic -/
def specStep (line : String) : String :=
  match splitSp line with
  | "T" :: fwd :: extra :: vals => stepT true fwd extra vals
  | ["L", w] =>
    match decodeText w with
    | some text => s!"acc={b01 (accepts text)}"
    | none => "bad-case"
  | ["E", _] => "nopanic"
  | ["Q", schema, seek, rows, w] => stepQ true schema seek rows w
  | "H" :: schema :: ws => stepH true schema ws
  | ["B", _, _] => "nopanic"
  | ["O", _, _] => "nopanic"
  | ["N", state, store, _, sort, skip, limit, _] => stepN true state store sort skip limit
  | _ => "bad-case"

def run (spec : Bool) : IO Unit := forEachLine (if spec then specStep else step)

end StorageModel.Driver.C10
