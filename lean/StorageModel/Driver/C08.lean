import StorageModel.Driver.C07
/- model driver for C08: same protocol, model and spec as C07 (one transaction / event model). -/
namespace StorageModel.Driver.C08
open StorageModel.Driver

def step (line : String) : String := StorageModel.Driver.C07.step line
def specStep (line : String) : String := StorageModel.Driver.C07.specStep line

def run (spec : Bool) : IO Unit := forEachLine (if spec then specStep else step)

end StorageModel.Driver.C08
