import StorageModel.Driver.Common
import StorageModel.Tx.Wire
import StorageModel.Generated.CrudReturns
/- model driver for C07 (and, through Driver/C08, for C08): `run spec` reads case lines on stdin and
   prints one output line per case (spec = false: the engine model's output under the regenerated
   return table; spec = true: the spec's verdict). -/
namespace StorageModel.Driver.C07
open StorageModel.Driver

def step (line : String) : String := StorageModel.Tx.Wire.modelLine StorageModel.Generated.crudReturns line
def specStep (line : String) : String := StorageModel.Tx.Wire.specLine line

def run (spec : Bool) : IO Unit := forEachLine (if spec then specStep else step)

end StorageModel.Driver.C07
