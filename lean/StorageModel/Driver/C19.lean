import StorageModel.Driver.Common
import StorageModel.Query.Wire
/- model driver for C19: `run spec` reads case lines on stdin and prints one output line per case
   (spec = false: the engine models of boltz and objectz; spec = true: the spec's verdict). -/
namespace StorageModel.Driver.C19
open StorageModel StorageModel.Driver StorageModel.Query StorageModel.Query.Wire

def rotate (l : List α) (k : Nat) : List α := l.drop (k % (max l.length 1)) ++ l.take (k % (max l.length 1))

def orderObjs (order : String) (rows : List Row) : List Row :=
  if order == "rev" then rows.reverse
  else if order.startsWith "rot" then rotate rows (((order.drop 3).toString).toNat?.getD 0)
  else rows

def renderObj (r : ObjOutcome (List Row × Int)) : String :=
  match r with
  | .ok a => renderAnswer a
  | .err _ => "err"
  | .panic => "panic"

def objSortParses (sort : List SortField) : Bool := sort.all fun f => (objSymbolsDecl.lookup f.name).isSome

def modelLine (c : Case) (order : String) : String :=
  match parsePaging c.skip c.limit with
  | .error _ => "bolt=err|obj=err|objc=err"
  | .ok paging =>
    let q : Query := ⟨c.filter, c.sort, paging⟩
    let bolt := if !sortParses wireSchema c.sort then "err" else renderExcept (queryIdsC Generated.boltzPaging c.bolt q)
    if !objSortParses c.sort then s!"bolt={bolt}|obj=err|objc=err" else
    let ost : ObjStore := ⟨objSymbolsDecl, some (orderObjs order ((c.rows.getD []).map (·.row)))⟩
    let pf := Generated.objectzPaging
    let obj := renderObj (objQuery pf ost q)
    let paging1 := (setPaging pf paging).1
    let r2 := renderObj (objQuery pf ost { q with paging := paging1 })
    let paging2 := (setPaging pf paging1).1
    s!"bolt={bolt}|obj={obj}|objc={obj}/{r2}/{renderOpt paging2.skip}:{renderOpt paging2.limit}"

def specLine (c : Case) : String :=
  match parsePaging c.skip c.limit with
  | .error _ => "bolt=err|obj=err|objc=err"
  | .ok _ =>
    let berr := !sortParses wireSchema c.sort
    let oerr := !objSortParses c.sort
    match newRowComparator wireSchema c.sort with
    | .ok cmp =>
      let rows := (c.rows.getD []).map (·.row)
      let m := rows.filter fun r => sat r c.filter
      let skip := specSkip c.skip
      let limit := specLimit c.limit
      let ans := renderIds (page cmp skip limit m) ++ "#" ++ toString (total m)
      let state := toString (skip.getD 0) ++ ":" ++ (match limitRows limit with | none => toString maxI64 | some n => toString n)
      let bolt := if berr then "err" else ans
      if oerr then s!"bolt={bolt}|obj=err|objc=err" else s!"bolt={bolt}|obj={ans}|objc={ans}/{ans}/{state}"
    | .error _ => "bolt=err|obj=err|objc=err"

def parseLine (line : String) : Option (Case × String) :=
  match splitSp line with
  | ["o", rows, filter, sort, skip, limit, order] =>
    (parseCase [rows, filter, sort, skip, limit, "-", "-"]).map fun c => (c, order)
  | _ => none

def step (line : String) : String :=
  match parseLine line with
  | some (c, order) => modelLine c order
  | none => "bad-case"

def specStep (line : String) : String :=
  match parseLine line with
  | some (c, _) => specLine c
  | none => "bad-case"

def run (spec : Bool) : IO Unit := forEachLine (if spec then specStep else step)

end StorageModel.Driver.C19
