import StorageModel.Driver.Common
import StorageModel.Query.Wire
import StorageModel.Query.ObjectzTime
/- model driver for C19: `run spec` reads case lines on stdin and prints one output line per case
   (spec = false: the engine models of boltz and objectz; spec = true: the spec's verdict). -/
namespace StorageModel.Driver.C19
open StorageModel StorageModel.Driver StorageModel.Query StorageModel.Query.Wire

def rotate (l : List α) (k : Nat) : List α := l.drop (k % (max l.length 1)) ++ l.take (k % (max l.length 1))

def orderObjs {α : Type} (order : String) (rows : List α) : List α :=
  if order == "rev" then rows.reverse
  else if order.startsWith "rot" then rotate rows (((order.drop 3).toString).toNat?.getD 0)
  else rows

/-- representation of the `time.Time` values of the objects: `-` | `<id>:<rep>,…` with rep `z1` | `z2` | `z3` (three
    `FixedZone` pointers) | `z4` (`time.Local`) | `m` (derived from `time.Now()` with `Add`: `time.Local` and a monotonic
    reading — which `Add` keeps only while the wall seconds fit the 33-bit field counting from 1885) -/
def parseReps (s : String) : List (Bytes × String) :=
  if s == "-" then [] else (s.splitOn ",").filterMap fun e =>
    match e.splitOn ":" with
    | [id, rep] => some (asciiBytes id, rep)
    | _ => none

def monoWindow (ns : Int) : Bool :=
  let sec := ns / 1000000000 + 2682288000
  decide (0 ≤ sec) && decide (sec ≤ 8589934591)

def repOfTok (rep : String) (ns : Int) : TimeRep :=
  if rep == "z1" then { loc := 1 } else if rep == "z2" then { loc := 2 } else if rep == "z3" then { loc := 3 }
  else if rep == "z4" then { loc := 4 }
  -- the reading itself: the harness derives every such value from ONE clock reading, so readings and instants differ by a constant
  else if rep == "m" then { loc := 4, mono := if monoWindow ns then some ns else none }
  else {}

def toTObj (reps : List (Bytes × String)) (r : Row) : TObj :=
  let rep := (reps.lookup r.id).getD "-"
  ⟨r, fun name => match fieldToDatetime (evalSym name r) with
    | some ns => repOfTok rep ns
    | none => {}⟩

def renderObj (r : ObjOutcome (List Row × Int)) : String :=
  match r with
  | .ok a => renderAnswer a
  | .err e => errKind e
  | .panic => "panic"

def objSortParses (decl : List (String × SymType)) (sort : List SortField) : Bool :=
  sort.all fun f => (decl.lookup f.name).isSome

def boltDecl : List (String × SymType) := wireSchema.filterMap fun (n, i) => if i.isSet then none else some (n, i.ty)

/-- `ast.Parse` against the bolt store accepts the query -/
def boltParses (c : Case) : Bool :=
  match c.setFn with
  | some (_, sym) => setFunctionAccepted (boltIsSet wireSchema sym)
  | none => atomTyped boltDecl c.filter && sortParses "root" c.sort

/-- `ast.Parse` against the object store of the given variant accepts the query -/
def objParses (c : Case) (variant : String) : Bool :=
  match c.setFn with
  | some (_, sym) => setFunctionAccepted (objIsSet sym)
  | none => atomTyped (objDeclOf variant) c.filter && objSortParses (objDeclOf variant) c.sort

/-- the sorted-list model of the theorems and the llrb port must agree on every case -/
def crossCheck (listOut treeOut : String) : String := if listOut == treeOut then listOut else s!"MODEL-SPLIT[{listOut}|{treeOut}]"

def modelLine (c : Case) (order variant : String) (reps : List (Bytes × String) := []) : String :=
  match parsePaging c.skip c.limit with
  | .error _ => "bolt=err|obj=err|objc=err"
  | .ok paging =>
    let q : Query := ⟨c.filter, c.sort, paging⟩
    -- the sorted-list model of the theorems, cross-checked against the llrb port
    let boltQ (q : Query) : String :=
      crossCheck (renderExcept (queryIdsC Generated.boltzPaging c.bolt q)) (renderExcept (queryIdsCT Generated.boltzPaging c.bolt q))
    let bolt := if !boltParses c then "err" else boltQ q
    if !objParses c variant then s!"bolt={bolt}|obj=err|objc=err" else
    -- order `nil`: the store's iterator function returns nil
    let ost : ObjStore := ⟨objDeclOf variant, if order == "nil" then none else some (orderObjs order ((c.rows.getD []).map (·.row)))⟩
    let pf := Generated.objectzPaging
    -- with `time.Time` representations: the model over `TObj` (Query/ObjectzTime.lean)
    let tobjs : Option (List TObj) := ost.objs.map fun rows => rows.map (toTObj reps)
    let objQ (q : Query) : String :=
      if reps.isEmpty then crossCheck (renderObj (objQuery pf ost q)) (renderObj (objQueryT pf ost q))
      else crossCheck
        (renderObj ((objQueryTP pf ost.symbols tobjs (fun s => evalFilter s q.filter) q.sort q.paging).mapRows (·.row)))
        (renderObj ((objQueryTPT pf ost.symbols tobjs (fun s => evalFilter s q.filter) q.sort q.paging).mapRows (·.row)))
    let obj := objQ q
    let paging1 := (setPaging pf paging).1
    let r2 := objQ { q with paging := paging1 }
    let paging2 := (setPaging pf paging1).1
    s!"bolt={bolt}|obj={obj}|objc={obj}/{r2}/{renderOpt paging2.skip}:{renderOpt paging2.limit}"

/-- the specification: the object store answers what the bolt store answers (the page of the satisfying rows in
    the requested order, and their number).  The three ways an object store can fall short of being "a store
    holding the same field values" are spelled out: a query mentioning a symbol the object store does not declare
    is rejected; an object store without an `id` symbol cannot order anything ("no such sort field"). -/
def specLine (c : Case) (variant : String) : String :=
  match parsePaging c.skip c.limit with
  | .error _ => "bolt=err|obj=err|objc=err"
  | .ok _ =>
    let berr := !boltParses c
    let oerr := !objParses c variant
    let rows := c.modelRows
    let m := rows.filter fun r => sat r c.filter
    let skip := specSkip c.skip
    let limit := specLimit c.limit
    let state := toString (skip.getD 0) ++ ":" ++ (match limitRows limit with | none => toString maxI64 | some n => toString n)
    let ansOf (schema : Schema) (sort : List SortField) : String := match newRowComparator schema sort with
      | .ok cmp => renderIds (page cmp skip limit m) ++ "#" ++ toString (total m)
      | .error e => errKind e
    -- the bolt store answers a query without sort field, or with `id` first, in id order whatever follows (C02)
    let byIdOnly : Bool := match c.sort with
      | [] => true
      | f :: _ => f.name == "id"
    let bolt := if berr then "err" else ansOf wireSchema (if byIdOnly then c.sort.take 1 else c.sort)
    if oerr then s!"bolt={bolt}|obj=err|objc=err" else
    let ans := ansOf ((objDeclOf variant).map fun (n, t) => (n, ⟨t, false⟩)) c.sort
    s!"bolt={bolt}|obj={ans}|objc={ans}/{ans}/{state}"

def parseLine (line : String) : Option (Case × String × String × List (Bytes × String)) :=
  match splitSp line with
  | ["o", rows, filter, sort, skip, limit, order, variant, reps] =>
    (parseCase [rows, filter, sort, skip, limit, "-", "-"]).map fun c => (c, order, variant, parseReps reps)
  | ["o", rows, filter, sort, skip, limit, order] =>
    (parseCase [rows, filter, sort, skip, limit, "-", "-"]).map fun c => (c, order, "full", [])
  | ["o", rows, filter, sort, skip, limit, order, variant] =>
    (parseCase [rows, filter, sort, skip, limit, "-", "-"]).map fun c => (c, order, variant, [])
  | _ => none

def step (line : String) : String :=
  match parseLine line with
  | some (c, order, variant, reps) => modelLine c order variant reps
  | none => "bad-case"

def specStep (line : String) : String :=
  match parseLine line with
  | some (c, _, variant, _) => specLine c variant
  | none => "bad-case"

def run (spec : Bool) : IO Unit := forEachLine (if spec then specStep else step)

end StorageModel.Driver.C19
