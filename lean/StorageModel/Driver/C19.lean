import StorageModel.Driver.Common
import StorageModel.Query.Wire
import StorageModel.Query.ObjectzTime
import StorageModel.Query.ObjectzHistory
/- model driver for C19: `run spec` reads case lines on stdin and prints one output line per case
   (spec = false: the engine models of boltz and objectz; spec = true: the spec's verdict). -/
namespace StorageModel.Driver.C19
open StorageModel StorageModel.Driver StorageModel.Query StorageModel.Query.Wire

def rotate (l : List α) (k : Nat) : List α := l.drop (k % (max l.length 1)) ++ l.take (k % (max l.length 1))

def orderObjs {α : Type} (order : String) (rows : List α) : List α :=
  if order == "rev" then rows.reverse
  else if order.startsWith "rot" then rotate rows (((order.drop 3).toString).toNat?.getD 0)
  else rows

/-- representation of the `time.Time` values of the objects: `-` | `<id>:<rep>,…` with rep `z1` | `z2` | `z3` (three
    `FixedZone` pointers) | `z4` (`time.Local`) | `m` (derived from `time.Now()` with `Add`: `time.Local` and a monotonic
    reading — which `Add` keeps only while the wall seconds fit the 33-bit field counting from 1885) -/
def parseReps (s : String) : List (Bytes × String) :=
  if s == "-" then [] else (s.splitOn ",").filterMap fun e =>
    match e.splitOn ":" with
    | [id, rep] => some (asciiBytes id, rep)
    | _ => none

def monoWindow (ns : Int) : Bool :=
  let sec := ns / 1000000000 + 2682288000
  decide (0 ≤ sec) && decide (sec ≤ 8589934591)

def repOfTok (rep : String) (ns : Int) : TimeRep :=
  if rep == "z1" then { loc := 1 } else if rep == "z2" then { loc := 2 } else if rep == "z3" then { loc := 3 }
  else if rep == "z4" then { loc := 4 }
  -- the reading itself: the harness derives every such value from ONE clock reading, so readings and instants differ by a constant
  else if rep == "m" then { loc := 4, mono := if monoWindow ns then some ns else none }
  else {}

def toTObj (reps : List (Bytes × String)) (r : Row) : TObj :=
  let rep := (reps.lookup r.id).getD "-"
  ⟨r, fun name => match fieldToDatetime (evalSym name r) with
    | some ns => repOfTok rep ns
    | none => {}⟩

def renderObj (r : ObjOutcome (List Row × Int)) : String :=
  match r with
  | .ok a => renderAnswer a
  | .err e => errKind e
  | .panic => "panic"

def objSortParses (decl : List (String × SymType)) (sort : List SortField) : Bool :=
  sort.all fun f => (decl.lookup f.name).isSome

def boltDecl : List (String × SymType) := wireSchema.filterMap fun (n, i) => if i.isSet then none else some (n, i.ty)

/-- `ast.Parse` against the bolt store accepts the query -/
def boltParses (c : Case) : Bool :=
  match c.setFn with
  | some (_, sym) => setFunctionAccepted (boltIsSet wireSchema sym)
  | none => atomTyped boltDecl c.filter && sortParses "root" c.sort

/-- `ast.Parse` against the object store of the given variant accepts the query -/
def objParses (c : Case) (variant : String) : Bool :=
  match c.setFn with
  | some (_, sym) => setFunctionAccepted (objIsSet sym)
  | none => atomTyped (objDeclOf variant) c.filter && objSortParses (objDeclOf variant) c.sort

/-- the sorted-list model of the theorems and the llrb port must agree on every case -/
def crossCheck (listOut treeOut : String) : String := if listOut == treeOut then listOut else s!"MODEL-SPLIT[{listOut}|{treeOut}]"

def modelLine (c : Case) (order variant : String) (reps : List (Bytes × String) := []) : String :=
  match parsePaging c.skip c.limit with
  | .error _ => "bolt=err|obj=err|objc=err"
  | .ok paging =>
    let q : Query := ⟨c.filter, c.sort, paging⟩
    -- the sorted-list model of the theorems, cross-checked against the llrb port
    let boltQ (q : Query) : String :=
      crossCheck (renderExcept (queryIdsC Generated.boltzPaging c.bolt q)) (renderExcept (queryIdsCT Generated.boltzPaging c.bolt q))
    let bolt := if !boltParses c then "err" else boltQ q
    if !objParses c variant then s!"bolt={bolt}|obj=err|objc=err" else
    -- order `nil`: the store's iterator function returns nil
    let ost : ObjStore := ⟨objDeclOf variant, if order == "nil" then none else some (orderObjs order ((c.rows.getD []).map (·.row)))⟩
    let pf := Generated.objectzPaging
    -- with `time.Time` representations: the model over `TObj` (Query/ObjectzTime.lean)
    let tobjs : Option (List TObj) := ost.objs.map fun rows => rows.map (toTObj reps)
    let objQ (q : Query) : String :=
      if reps.isEmpty then crossCheck (renderObj (objQuery pf ost q)) (renderObj (objQueryT pf ost q))
      else crossCheck
        (renderObj ((objQueryTP pf ost.symbols tobjs (fun s => evalFilter s q.filter) q.sort q.paging).mapRows (·.row)))
        (renderObj ((objQueryTPT pf ost.symbols tobjs (fun s => evalFilter s q.filter) q.sort q.paging).mapRows (·.row)))
    let obj := objQ q
    let paging1 := (setPaging pf paging).1
    let r2 := objQ { q with paging := paging1 }
    let paging2 := (setPaging pf paging1).1
    s!"bolt={bolt}|obj={obj}|objc={obj}/{r2}/{renderOpt paging2.skip}:{renderOpt paging2.limit}"

/-- the specification: the object store answers what the bolt store answers (the page of the satisfying rows in
    the requested order, and their number).  The three ways an object store can fall short of being "a store
    holding the same field values" are spelled out: a query mentioning a symbol the object store does not declare
    is rejected; an object store without an `id` symbol cannot order anything ("no such sort field"). -/
def specLine (c : Case) (variant : String) : String :=
  match parsePaging c.skip c.limit with
  | .error _ => "bolt=err|obj=err|objc=err"
  | .ok _ =>
    let berr := !boltParses c
    let oerr := !objParses c variant
    let rows := c.modelRows
    let m := rows.filter fun r => sat r c.filter
    let skip := specSkip c.skip
    let limit := specLimit c.limit
    let state := toString (skip.getD 0) ++ ":" ++ (match limitRows limit with | none => toString maxI64 | some n => toString n)
    let ansOf (schema : Schema) (sort : List SortField) : String := match newRowComparator schema sort with
      | .ok cmp => renderIds (page cmp skip limit m) ++ "#" ++ toString (total m)
      | .error e => errKind e
    -- the bolt store answers a query without sort field, or with `id` first, in id order whatever follows (C02)
    let byIdOnly : Bool := match c.sort with
      | [] => true
      | f :: _ => f.name == "id"
    let bolt := if berr then "err" else ansOf wireSchema (if byIdOnly then c.sort.take 1 else c.sort)
    if oerr then s!"bolt={bolt}|obj=err|objc=err" else
    let ans := ansOf ((objDeclOf variant).map fun (n, t) => (n, ⟨t, false⟩)) c.sort
    s!"bolt={bolt}|obj={ans}|objc={ans}/{ans}/{state}"

/-! ### histories of calls on one set of store objects (`H` lines, see /verif/harness/c19_history.go) -/

def parseXAtom (s : String) : Option XFilter :=
  match s.splitOn "." with
  | ["fn", sym, kind, c] => do
    let v ← strTok c
    if kind == "c" then some (.strFn sym .contains false v)
    else if kind == "nc" then some (.strFn sym .contains true v)
    else if kind == "ic" then some (.strFn sym .icontains false v)
    else if kind == "nic" then some (.strFn sym .icontains true v)
    else none
  | _ => (parseAtom s).map .base

def parseXPrefix : Nat → List String → Option (XFilter × List String)
  | 0, _ => none
  | _, [] => none
  | fuel + 1, tok :: rest =>
    if tok == "and" || tok == "or" then do
      let (a, r1) ← parseXPrefix fuel rest
      let (b, r2) ← parseXPrefix fuel r1
      pure (if tok == "and" then .and a b else .or a b, r2)
    else if tok == "not" then do
      let (a, r1) ← parseXPrefix fuel rest
      pure (.not a, r1)
    else (parseXAtom tok).map fun a => (a, rest)

def parseXFilter (s : String) : Option XFilter :=
  let toks := s.splitOn "~"
  match parseXPrefix (toks.length + 1) toks with
  | some (f, []) => some f
  | _ => none

/-- the typing `ast.Parse` imposes -/
def xTyped (decl : List (String × SymType)) : XFilter → Bool
  | .base f => atomTyped decl f
  | .strFn n _ _ _ => decl.lookup n == some .string
  | .and a b | .or a b => xTyped decl a && xTyped decl b
  | .not a => xTyped decl a

/-- a query text, by what it denotes (its spelling — whitespace, keyword case, redundant parentheses, spelling of the
    numbers — is the harness's business and reaches neither model nor spec) -/
structure HText where
  filter : XFilter
  sort : List SortField
  skip : Option NumTok
  limit : Option LimitTok

def parseHText (filter sort skip limit : String) : Option HText := do
  let f ← parseXFilter filter
  let s ← parseSort sort
  let sk ← parseNum skip
  let li ← parseLimit limit
  pure ⟨f, s, sk, li⟩

def storeIndex (t : Char) : Nat := if t == 's' then 1 else if t == 'n' then 2 else 0
def storeVariant (t : Char) : String := if t == 's' then "sub" else if t == 'n' then "noid" else "full"
def storeRef (t : Char) : StoreRef := if t == 'b' then .bolt else .obj (storeIndex t)

/-- `ast.Parse(<store t>, text)` accepts the text -/
def textParses (t : Char) (x : HText) : Bool :=
  (match parsePaging x.skip x.limit with | .ok _ => true | .error _ => false) &&
  (if t == 'b' then xTyped boltDecl x.filter && sortParses "root" x.sort
   else xTyped (objDeclOf (storeVariant t)) x.filter && objSortParses (objDeclOf (storeVariant t)) x.sort)

/-- the model's `parse`: a text together with the store whose symbol table reads it -/
def hParse (tx : HText × Char) : Option CQuery :=
  if textParses tx.2 tx.1 then
    match parsePaging tx.1.skip tx.1.limit with
    | .ok p => some ⟨fun s => evalX s tx.1.filter, tx.1.sort, p⟩
    | .error _ => none
  else none

def hStores : HStores :=
  ⟨fun k => objDeclOf (if k == 1 then "sub" else if k == 2 then "noid" else "full"), wireSchema⟩

def renderHAnswer (forText : Bool) : Answer → String
  | .obj r => renderObj r
  | .bolt r => renderExcept r
  | .parseError => if forText then "err" else "perr"
  | .noQuery => "noq"
  | .done => "."

/-- the request a slot stands for, as the caller made it -/
structure SpecReq where
  filter : XFilter
  sort : List SortField
  skip : Option Int
  limit : Option Int

structure HDriver where
  st : HState                            -- model
  rows : List Row := []                  -- spec: the collection
  reqs : List (Nat × SpecReq) := []      -- spec: the requests kept in slots
  started : Bool := false

/-- **specification** of one execution on store `t`: the page of the rows satisfying the filter in the requested order, and
    their number (a sort list the store cannot order by is refused) -/
def specExec (t : Char) (rows : List Row) (r : SpecReq) : String :=
  let m := rows.filter fun row => satX row r.filter
  let ansOf (schema : Schema) (sort : List SortField) : String := match newRowComparator schema sort with
    | .ok cmp => renderIds (page cmp r.skip r.limit m) ++ "#" ++ toString (total m)
    | .error e => errKind e
  if t == 'b' then
    let byIdOnly : Bool := match r.sort with
      | [] => true
      | f :: _ => f.name == "id"
    ansOf wireSchema (if byIdOnly then r.sort.take 1 else r.sort)
  else ansOf ((objDeclOf (storeVariant t)).map fun (n, ty) => (n, ⟨ty, false⟩)) r.sort

def reqOf (x : HText) : SpecReq := ⟨x.filter, x.sort, specSkip x.skip, specLimit x.limit⟩

def setReq (reqs : List (Nat × SpecReq)) (k : Nat) (r : Option SpecReq) : List (Nat × SpecReq) :=
  let rest := reqs.filter (·.1 != k)
  match r with
  | some r => (k, r) :: rest
  | none => rest

def hStep (spec : Bool) (d : HDriver) (step : String) : Option (HDriver × String) :=
  let pf := Generated.objectzPaging
  let bf := Generated.boltzPaging
  let run (st : HState) (c : Call (HText × Char)) := Query.step hParse pf bf hStores st c
  match step.splitOn "/" with
  | ["D", rows, order] => do
    let c ← parseCase [rows, "true", "-", "-", "-", "-", "-"]
    if c.rows.isNone && d.started then none else     -- the entities bucket cannot be removed
    let objs : Option (List Row) := if order == "nil" then none else some (orderObjs order ((c.rows.getD []).map (·.row)))
    let (st, _) := run d.st (.setData objs c.bolt.bucket)
    pure ({ d with st := st, rows := c.modelRows, started := true }, ".")
  | ["T", targets, filter, sort, skip, limit, _spell] => do
    let x ← parseHText filter sort skip limit
    let ts := targets.toList
    if spec then
      pure (d, ";".intercalate (ts.map fun t =>
        String.singleton t ++ "=" ++ (if textParses t x then specExec t d.rows (reqOf x) else "err")))
    else
      let (st, outs) := ts.foldl (fun (acc : HState × List String) t =>
        let (st', a) := run acc.1 (.text (storeRef t) (x, t))
        (st', acc.2 ++ [String.singleton t ++ "=" ++ renderHAnswer true a])) (d.st, [])
      pure ({ d with st := st }, ";".intercalate outs)
  | ["P", slot, store, filter, sort, skip, limit, _spell] => do
    let x ← parseHText filter sort skip limit
    let k ← slot.toNat?
    let t := store.toList.headD 'o'
    let ok := textParses t x
    let (st, a) := run d.st (.parse k (x, t))
    pure ({ d with st := st, reqs := setReq d.reqs k (if ok then some (reqOf x) else none) },
          if spec then (if ok then "." else "perr") else renderHAnswer false a)
  | ["C", slot, targets] => do
    let k ← slot.toNat?
    let ts := targets.toList
    if spec then
      match d.reqs.lookup k with
      | none => pure (d, "noq")
      | some r => pure (d, ";".intercalate (ts.map fun t => String.singleton t ++ "=" ++ specExec t d.rows r))
    else
      match d.st.slots k with
      | none => pure (d, "noq")
      | some _ =>
        let (st, outs) := ts.foldl (fun (acc : HState × List String) t =>
          let (st', a) := run acc.1 (.exec k (storeRef t))
          (st', acc.2 ++ [String.singleton t ++ "=" ++ renderHAnswer true a])) (d.st, [])
        pure ({ d with st := st }, ";".intercalate outs)
  | ["S", slot, v] => do
    let k ← slot.toNat?
    let v ← v.toInt?
    let (st, _) := run d.st (.setSkip k v)
    pure ({ d with st := st, reqs := match d.reqs.lookup k with
      | some r => setReq d.reqs k (some { r with skip := some v })
      | none => d.reqs }, ".")
  | ["L", slot, v] => do
    let k ← slot.toNat?
    let v ← v.toInt?
    let (st, _) := run d.st (.setLimit k v)
    pure ({ d with st := st, reqs := match d.reqs.lookup k with
      | some r => setReq d.reqs k (some { r with limit := some v })
      | none => d.reqs }, ".")
  | _ => none

def histLine (spec : Bool) (steps : List String) : String :=
  match steps with
  | [] => "bad-case"
  | first :: _ =>
    if !first.startsWith "D/" then "bad-case" else
    let init : HDriver := { st := ⟨none, none, fun _ => none⟩ }
    let r := steps.foldl (fun (acc : Option (HDriver × List String)) s =>
      match acc with
      | none => none
      | some (d, outs) => (hStep spec d s).map fun (d', o) => (d', outs ++ [o])) (some (init, []))
    match r with
    | some (_, outs) => "|".intercalate outs
    | none => "bad-case"

def parseLine (line : String) : Option (Case × String × String × List (Bytes × String)) :=
  match splitSp line with
  | ["o", rows, filter, sort, skip, limit, order, variant, reps] =>
    (parseCase [rows, filter, sort, skip, limit, "-", "-"]).map fun c => (c, order, variant, parseReps reps)
  | ["o", rows, filter, sort, skip, limit, order] =>
    (parseCase [rows, filter, sort, skip, limit, "-", "-"]).map fun c => (c, order, "full", [])
  | ["o", rows, filter, sort, skip, limit, order, variant] =>
    (parseCase [rows, filter, sort, skip, limit, "-", "-"]).map fun c => (c, order, variant, [])
  | _ => none

def step (line : String) : String :=
  if line.startsWith "H " then histLine false ((splitSp line).drop 1) else
  match parseLine line with
  | some (c, order, variant, reps) => modelLine c order variant reps
  | none => "bad-case"

def specStep (line : String) : String :=
  if line.startsWith "H " then histLine true ((splitSp line).drop 1) else
  match parseLine line with
  | some (c, _, variant, _) => specLine c variant
  | none => "bad-case"

def run (spec : Bool) : IO Unit := forEachLine (if spec then specStep else step)

end StorageModel.Driver.C19
