import StorageModel.Driver.Common
import StorageModel.C12.Spec
import StorageModel.C12.Lex
import StorageModel.C12.Classes
import StorageModel.Generated.Grammar
/- model driver for C12: `run spec` reads case lines on stdin and prints one output line per case
   (spec = false: the engine model's output; spec = true: the spec's verdict).

   k <n> <skeleton>
       token skeleton in compact form: `a`..`y` boolean symbols (index = letter - 'a'), `z` a
       symbol of string type, `T` `F` the BOOL constants, `&` and, `|` or, `!` not, `(` `)`.
       Output: `ok <tree> <truth table over the 2^n assignments of a.. >` | `parse-error` |
       `type-error`  (assignment m gives atom i the value of bit i of m).
   r <base skeleton> <hex of the spelled text> <truth vectors a=0101,b=0011,...>
       a re-spelling of the base skeleton: keywords in any case, any whitespace, redundant
       parentheses; atoms are written as placeholder identifiers `x<letter>_<variant>`.
       Model: lexer model + whitespace discipline + parser model on the spelled text.
       Spec: intended reading of the *base* skeleton.  Output `ok - <bits over the rows>` | …
   x <hex of a damaged spelling> <truth vectors>
       model as for `r`; the spec has no opinion (`any`).
   c <letter>
       the typed class of operation atom <letter> (round 8): `class <Go struct> <GetType() constant>`; the struct
       from `rClass` below, the constant from the regenerated class table.  Spec: `any`.
   D <case>
       the case `<case>` under the process-wide switch `ast.EnableQueryDebug = true`: same answers. -/
namespace StorageModel.Driver.C12
open StorageModel.Driver StorageModel.C12

/-- atom letters of the compact skeletons: `a`..`z` ↦ 0..25 (25 = `z`, the string-typed symbol),
    `A`..`Z` except the BOOL constants `T` `F` ↦ 26.. (further operation atoms of the r-cases) -/
def atomIndex (ch : Char) : Option Nat :=
  if 'a' ≤ ch ∧ ch ≤ 'z' then some (ch.toNat - 'a'.toNat)
  else if 'A' ≤ ch ∧ ch ≤ 'Z' ∧ ch ≠ 'T' ∧ ch ≠ 'F' then some (26 + (ch.toNat - 'A'.toNat))
  else none

def tokOfChar (ch : Char) : Option (Tok Nat) :=
  if ch = '&' then some (.op .and)
  else if ch = '|' then some (.op .or)
  else if ch = '!' then some .not
  else if ch = '(' then some .lp
  else if ch = ')' then some .rp
  else if ch = 'T' then some (.atom (.const true))
  else if ch = 'F' then some (.atom (.const false))
  else (atomIndex ch).map fun i => .atom (.sym i)

def toksOfString (s : String) : Option (List (Tok Nat)) :=
  s.toList.mapM tokOfChar

def isBoolSym (i : Nat) : Bool := i != 25

/-- k-cases: the symbols `pa`..`py` are of bool type (typed `BoolSymbolNode`), `strz` (index 25) of string type -/
def kClass (i : Nat) : String := if i == 25 then "StringSymbolNode" else "BoolSymbolNode"

/-- r / x cases: the Go struct the typing stage builds for operation atom <letter> (index = `atomIndex`) of
    harness/c12_atoms.go — compared with the real typed node by the `c` cases on every run -/
def rClassTable : List (Nat × String) := [
  (0, "BoolSymbolNode"),
  (1, "BoolSymbolNode"),
  (2, "BinaryInt64ExprNode"),
  (3, "BinaryStringExprNode"),
  (4, "InInt64ArrayExprNode"),
  (5, "Int64BetweenExprNode"),
  (6, "BinaryStringExprNode"),
  (7, "NotExprNode"),
  (8, "BinaryStringExprNode"),
  (9, "BinaryStringExprNode"),
  (10, "BinaryInt64ExprNode"),
  (11, "BinaryStringExprNode"),
  (12, "NotExprNode"),
  (13, "InStringArrayExprNode"),
  (14, "BinaryInt64ExprNode"),
  (15, "BinaryInt64ExprNode"),
  (16, "BinaryInt64ExprNode"),
  (17, "BinaryStringExprNode"),
  (18, "BinaryStringExprNode"),
  (19, "BinaryInt64ExprNode"),
  (20, "BinaryBoolExprNode"),
  (21, "BinaryBoolExprNode"),
  (22, "AnyOfSetExprNode"),
  (23, "IsEmptySetExprNode"),
  (24, "AllOfSetExprNode"),
  (26, "BinaryDatetimeExprNode"),
  (27, "BinaryDatetimeExprNode"),
  (28, "BinaryDatetimeExprNode"),
  (29, "InDatetimeArrayExprNode"),
  (30, "DatetimeBetweenExprNode"),
  (32, "NotExprNode"),
  (33, "BinaryDatetimeExprNode"),
  (34, "BinaryInt64ExprNode"),
  (35, "BinaryInt64ExprNode"),
  (36, "IsEmptySetExprNode"),
  (37, "AnyOfSetExprNode"),
  (38, "IsNilExprNode"),
  (39, "IsNilExprNode"),
  (40, "AnyOfSetExprNode"),
  (41, "BinaryFloat64ExprNode"),
  (42, "BinaryFloat64ExprNode"),
  (43, "BinaryFloat64ExprNode"),
  (44, "BinaryFloat64ExprNode"),
  (46, "BinaryFloat64ExprNode"),
  (47, "Float64BetweenExprNode"),
  (48, "InFloat64ArrayExprNode"),
  (49, "NotExprNode"),
  (50, "BinaryFloat64ExprNode"),
  (51, "BinaryFloat64ExprNode")]

/-- any other word of an r / x case is one of the harness's extra symbols (boolean) -/
def rClass (i : Nat) : String := (rClassTable.lookup i).getD "BoolSymbolNode"

def showAtom : Atom Nat → String
  | .sym i => String.singleton (Char.ofNat ('a'.toNat + i))
  | .const true => "T"
  | .const false => "F"

def showT : T Nat → String
  | .atom a => showAtom a
  | .not e => "!(" ++ showT e ++ ")"
  | .and l r => "&(" ++ showT l ++ "," ++ showT r ++ ")"
  | .or l r => "|(" ++ showT l ++ "," ++ showT r ++ ")"

def envOf (m : Nat) (i : Nat) : Bool := (m >>> i) % 2 == 1

def truthTable (n : Nat) (t : T Nat) : String :=
  bits ((List.range (2 ^ n)).map fun m => t.eval (envOf m))

def showRes (n : Nat) : Res Nat → String
  | .parseError => "parse-error"
  | .typeError => "type-error"
  | .ok t => "ok " ++ showT t ++ " " ++ truthTable n t

/-- truth vectors `a=0101,b=0011` → env per row -/
def parseVecs (s : String) : List (Nat × List Bool) :=
  (s.splitOn ",").filterMap fun item =>
    match item.toList with
    | ch :: '=' :: bs => some ((atomIndex ch).getD 0, bs.map (· == '1'))
    | _ => none

def rowEnv (vecs : List (Nat × List Bool)) (row : Nat) (i : Nat) : Bool :=
  match vecs.lookup i with
  | some v => v.getD row false
  | none => false

def numRows (vecs : List (Nat × List Bool)) : Nat :=
  match vecs with
  | (_, v) :: _ => v.length
  | [] => 1

def showRows (vecs : List (Nat × List Bool)) : Res Nat → String
  | .parseError => "parse-error"
  | .typeError => "type-error"
  | .ok t => "ok - " ++ bits ((List.range (numRows vecs)).map fun r => t.eval (rowEnv vecs r))

/-- placeholder identifier `x<letter>_<variant>` → atom index; any other word is one of the
    harness's extra symbols (boolean, false in every row): index 99 -/
def placeholder (w : List Char) : Option Nat :=
  match w with
  | ['x', ch, '_', _] => some ((atomIndex ch).getD 99)
  | _ => some 99

def mapAtoms (ts : List (Tok (List Char))) : Option (List (Tok Nat)) :=
  ts.mapM fun t =>
    match t with
    | .atom (.sym w) => (placeholder w).map fun i => .atom (.sym i)
    | .atom (.const b) => some (.atom (.const b))
    | .op o => some (.op o)
    | .not => some .not
    | .lp => some .lp
    | .rp => some .rp

/-- the model of the whole of `ast.Parse` on a token skeleton whose atoms are typed as `cls` says
    (round 8: `queryCT` = `queryT` with the interface assertion `.(BoolNode)` of the pinned
    TypeTransformBool bodies decided from the regenerated class table), instantiated with everything
    /verif/extract regenerates (parser numbers, listener shape, typing / evaluation shape);
    `none` = a regenerated shape the model has no interpretation for -/
def modelQuery (cls : Nat → String) (ts : List (Tok Nat)) : Option (Res Nat) :=
  queryCT Generated.boolTransform Generated.C10.classTable Generated.boolListener Generated.boolExprParser cls ts

partial def step (line : String) : String :=
  match splitSp line with
  | ["k", n, sk] =>
    match toksOfString sk with
    | some ts =>
      match modelQuery kClass ts with
      | some res => showRes n.toNat! res
      | none => "no-model"
    | none => "bad-case"
  | ["c", letter] =>
    match letter.toList with
    | [ch] =>
      match atomIndex ch with
      | some i =>
        if (rClassTable.lookup i).isSome then
          "class " ++ rClass i ++ " " ++ ClassTable.getType Generated.C10.classTable (rClass i)
        else "bad-case"
      | none => "bad-case"
    | _ => "bad-case"
  | ["x", spelled, vecs] => step ("r - " ++ spelled ++ " " ++ vecs)
  | ["r", _base, spelled, vecs] =>
    match StorageModel.Bytes.ofHex spelled with
    | some bs =>
      let chars := bs.map fun b => Char.ofNat b.toNat
      let vs := parseVecs vecs
      match lexSkeleton Generated.keywords chars with
      | none => "parse-error"
      | some ts =>
        match mapAtoms ts with
        | none => "parse-error"
        | some ts' =>
          match modelQuery rClass ts' with
          | some res => showRows vs res
          | none => "no-model"
    | none => "bad-case"
  | _ => "bad-case"

def specStep (line : String) : String :=
  match splitSp line with
  | ["k", n, sk] =>
    match toksOfString sk with
    | some ts => showRes n.toNat! (specQuery isBoolSym ts)
    | none => "bad-case"
  | ["x", _, _] => "any"
  | ["c", _] => "any"
  | ["r", base, _spelled, vecs] =>
    match toksOfString base with
    | some ts => showRows (parseVecs vecs) (specQuery isBoolSym ts)
    | none => "bad-case"
  | _ => "bad-case"

/-- `D <case>`: the same case, executed by the harness with `ast.EnableQueryDebug` switched on.
    The model of `ast.Parse` has no configuration parameter: model and spec answer as for `<case>`. -/
def stripD (line : String) : String :=
  if line.startsWith "D " then (line.drop 2).toString else line

def run (spec : Bool) : IO Unit := forEachLine (fun l => (if spec then specStep else step) (stripD l))

end StorageModel.Driver.C12
