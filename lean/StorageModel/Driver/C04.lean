import StorageModel.Driver.Common
import StorageModel.C04.Model
import StorageModel.C04.Marks
import StorageModel.C04.Spec
import StorageModel.C04.Render
import StorageModel.C04.Tier
import StorageModel.C04.Gen
/- model driver for C04: `run spec` reads case lines on stdin and prints one output line per case
   (spec = false: the engine model's output; spec = true: the spec's verdict).

   case:    h|v <variant> <tx> <tx> ...     (see /verif/harness/c04.go)
   output:  one token per transaction:  <res>#<fine>#<coarse>@<nA>,<nB>  (model)   <res>#*#<coarse>@<nA>,<nB>  (spec) -/
namespace StorageModel.Driver.C04
open StorageModel StorageModel.Driver StorageModel.C04

def parseFV (w : String) : Option FV :=
  if w = "~" then some none else (Bytes.ofHex w).map some

/-- `<id>:<owner>:<boss>:<dep>:<tag>[:<mentor>:<guard>]` -/
def parseCreateC (c : Child) : List String → Option Op
  | [id, o, b, d, t] => do
    pure (Op.createC c (← Bytes.ofHex id) { owner := ← parseFV o, boss := some (← Bytes.ofHex b), dep := ← parseFV d }
      { tag := ← parseFV t })
  | [id, o, b, d, t, m, g] => do
    pure (Op.createC c (← Bytes.ofHex id) { owner := ← parseFV o, boss := some (← Bytes.ofHex b), dep := ← parseFV d }
      { tag := ← parseFV t, m := ← parseFV m, g := ← parseFV g })
  | _ => none

/-- a checker word `<m>` or `<m>/<k>/<y>` (fields listed by caller-side name / stored key / symbol name) resolved
    under the naming: which field bits are selected (`Naming.selects`); `tag` (16) has one name only -/
def parseSel (nm : Naming) (w : String) : Option (Nat × (Nat → Bool)) := do
  let (m, k, y) ← (match w.splitOn "/" with
    | [m] => do pure (← m.toNat?, 0, 0)
    | [m, k, y] => do pure (← m.toNat?, ← k.toNat?, ← y.toNat?)
    | _ => none)
  let bit := fun (x b : Nat) => (x / b) % 2 = 1
  pure (m, fun b => if b = 16 then (bit m b || bit k b || bit y b) else nm.selects (bit m b) (bit k b) (bit y b))

/-- `<id>:<mask>:<owner>:<boss>:<dep>:<tag>[:<mentor>:<guard>]`, mask bits: 1 owner, 2 boss, 4 dep, 8 nil checker
    (every field), 16 tag, 32 mentor, 64 guard -/
def parseUpdateC (nm : Naming) (c : Child) (l : List String) : Option Op := do
  let (id, m, o, b, d, t, mm, g) ← (match l with
    | [id, m, o, b, d, t] => some (id, m, o, b, d, t, "~", "~")
    | [id, m, o, b, d, t, mm, g] => some (id, m, o, b, d, t, mm, g)
    | _ => none)
  let (m, sel) ← parseSel nm m
  let all := (m / 8) % 2 = 1
  let bit := fun (k : Nat) => all || sel k
  pure (Op.updateC c (← Bytes.ofHex id) { owner := ← parseFV o, boss := some (← Bytes.ofHex b), dep := ← parseFV d }
    { tag := ← parseFV t, m := ← parseFV mm, g := ← parseFV g } (bit 1) (bit 2) (bit 4) (bit 16) (bit 32) (bit 64))

def parseOp (nm : Naming) (tok : String) : Option Op :=
  match tok.splitOn ":" with
  | ["cb", id] => (Bytes.ofHex id).map Op.createB
  | ["ca", id, o, b, d] => do
    let id ← Bytes.ofHex id
    let o ← parseFV o
    let b ← Bytes.ofHex b
    let d ← parseFV d
    pure (Op.createA id { owner := o, boss := some b, dep := d })
  | ["ua", id, m, o, b, d] => do
    let id ← Bytes.ofHex id
    let (m, sel) ← parseSel nm m
    let o ← parseFV o
    let b ← Bytes.ofHex b
    let d ← parseFV d
    let all := m ≥ 8
    pure (Op.updateA id { owner := o, boss := some b, dep := d }
      (all || sel 1) (all || sel 2) (all || sel 4))
  | "cc" :: rest => parseCreateC .c1 rest
  | "c2" :: rest => parseCreateC .c2 rest
  | "uc" :: rest => parseUpdateC nm .c1 rest
  | "u2" :: rest => parseUpdateC nm .c2 rest
  | ["d2", id] => (Bytes.ofHex id).map Op.deleteC
  | ["dc", id] => (Bytes.ofHex id).map Op.deleteC
  | ["da", id] => (Bytes.ofHex id).map Op.deleteA
  | ["db", id] => (Bytes.ofHex id).map Op.deleteB
  | ["xa", id, v] => do pure (Op.deleteAV (← Bytes.ofHex id) (← Bytes.ofHex v))
  | ["xb", id, v] => do pure (Op.deleteBV (← Bytes.ofHex id) (← Bytes.ofHex v))
  | _ => none

def parseTx (nm : Naming) (tok : String) : Option (List Op) := (tok.splitOn ",").mapM (parseOp nm)

def parseVariant (w : String) : Option Schema := do
  let v ← w.toNat?
  if v > 1023 then none
  else pure { naming := (match (v / 256) % 4 with | 0 => .same | 1 => .keyed | 2 => .overridden | _ => .allDifferent),
              depCascade := v % 2 = 1, depNullable := (v / 2) % 2 = 1, depFirst := (v / 4) % 2 = 1,
              idx1 := (v / 8) % 2 = 1, idx2 := (v / 16) % 2 = 1, fk1 := (v / 32) % 2 = 1, fk2 := (v / 64) % 2 = 1,
              c2First := (v / 128) % 2 = 1 }

def obsToken (verbose : Bool) (res : Option (Nat × Err)) (fine : Option String) (coarse : String)
    (nA nB : Nat) : String :=
  let enc := fun (t : String) => if verbose then "{" ++ t.replace "\n" "|" ++ "}" else hex16 (fnv64 t)
  resToken res ++ "#" ++ (match fine with | some f => enc f | none => "*") ++ "#" ++ enc coarse ++
    "@" ++ toString nA ++ "," ++ toString nB

/-- the state-passing model (`Marks.lean`): the in-progress map of the mutate context is threaded through the
    operations of a transaction and — `reuse` — through the transactions of the history -/
def runModel (verbose reuse : Bool) (σ : Schema) (txs : List (List Op)) : List String :=
  (txs.foldl (fun (acc : (St × Ctx) × List String) tx =>
    let ((s', r), m') := runTxM σ (if reuse then acc.1.2 else {}) acc.1.1 tx
    ((s', m'), obsToken verbose r (some (fineText σ.naming s')) (coarseText s') s'.as.length s'.bs.length :: acc.2))
    (({}, {}), [])).2.reverse

def runSpec (verbose : Bool) (σ : Schema) (txs : List (List Op)) : List String :=
  (txs.foldl (fun (acc : SSt × List String) tx =>
    let (s', r) := specRunTx σ acc.1 tx
    (s', obsToken verbose r none (coarseText (deriveσ σ s')) s'.as.length s'.bs.length :: acc.2)) ({}, [])).2.reverse

/-! ### kind `t` / `T`: the three-store chain (`C04/Tier.lean`, harness `c04_tier.go`) -/

def parseTOp (tok : String) : Option TOp :=
  match tok.splitOn ":" with
  | ["n0", id] => (Bytes.ofHex id).map TOp.create0
  | ["n1", id, r] => do pure (TOp.create1 (← Bytes.ofHex id) (← parseFV r))
  | ["n2", id, r] => do pure (TOp.create2 (← Bytes.ofHex id) (← parseFV r))
  | ["m1", id, r] => do pure (TOp.update1 (← Bytes.ofHex id) (← parseFV r))
  | ["m2", id, r] => do pure (TOp.update2 (← Bytes.ofHex id) (← parseFV r))
  | ["r0", id] => (Bytes.ofHex id).map TOp.delete0
  | ["r1", id] => (Bytes.ofHex id).map TOp.delete1
  | ["r2", id] => (Bytes.ofHex id).map TOp.delete2
  | _ => none

def parseTVariant (w : String) : Option TSchema := do
  let v ← w.toNat?
  if v > 15 then none
  else pure { casc1 := v % 2 = 1, null1 := (v / 2) % 2 = 1, casc2 := (v / 4) % 2 = 1, null2 := (v / 8) % 2 = 1 }

def tierPath (name : String) : Bytes := Bytes.ofString ("/u/" ++ name)

def tierFineRows (name : String) (m : Map FV) : List String :=
  m.keys.flatMap fun x =>
    match m.lookup x with
    | none => []
    | some r =>
      [ "B:" ++ Bytes.toHex (tierPath name) ++ ":" ++ Bytes.toHex x,
        "K:" ++ Bytes.toHex (tierPath name ++ slash ++ x) ++ ":" ++ hexS "ref" ++ ":" ++ typedHex r ]

def tierFine (s : TSt) : String :=
  "\n".intercalate (sortS (s.t0.keys.map (fun x => "B:" ++ Bytes.toHex (tierPath "zowners") ++ ":" ++ Bytes.toHex x) ++
    tierFineRows "zitems" s.t1 ++ tierFineRows "znotes" s.t2))

def tierRows (lvl : String) (m : Map FV) : List String :=
  (sortB m.keys).filterMap fun x => (m.lookup x).map fun r => lvl ++ ":" ++ Bytes.toWire x ++ ":" ++ fvWire r

def tierCoarse (s : TSt) : String :=
  "\n".intercalate (["S0:" ++ wireList s.t0.keys, "S1:" ++ wireList s.t1.keys] ++ tierRows "1" s.t1 ++
    ["S2:" ++ wireList s.t2.keys] ++ tierRows "2" s.t2)

def runTier (spec verbose : Bool) (σ : TSchema) (txs : List (List TOp)) : List String :=
  (txs.foldl (fun (acc : TSt × List String) tx =>
    let (s', r) := if spec then tSpecRunTx σ acc.1 tx else tRunTx σ acc.1 tx
    (s', obsToken verbose r (if spec then none else some (tierFine s')) (tierCoarse s')
      (s'.t0.length + s'.t1.length) s'.t2.length :: acc.2)) ({}, [])).2.reverse

def tierStep (spec : Bool) (kind v : String) (txs : List String) : String :=
  match (parseTVariant v).bind (fun σ => (txs.mapM (fun (t : String) => (t.splitOn ",").mapM parseTOp)).map (fun t => (σ, t))) with
  | some (σ, txs) =>
    let out := runTier spec (kind = "T") σ txs
    if out.isEmpty then "empty" else " ".intercalate out
  | none => "bad-case"

/-! ### kind `g` / `G`: random schemas over the schema-parametric model (`C04/Gen.lean`, harness `c04_gen.go`) -/

def parseGDecl (w : String) : Option GDecl :=
  match w.splitOn "." with
  | [a, b, k, n, r] => do
    if k ≠ "i" ∧ k ≠ "c" then none
    if r ≠ "d" ∧ r ≠ "r" then none
    pure { src := ← a.toNat?, tgt := ← b.toNat?, index := k = "i", nullable := n = "1", cascade := r = "d" }
  | _ => none

/-- `<reuse 0|1>;<number of stores>;<decl>;<decl>…` -/
def parseGSchema (w : String) : Option (Bool × Nat × GSchema) :=
  match w.splitOn ";" with
  | r :: n :: ds => do
    let n ← n.toNat?
    let σ ← ds.mapM parseGDecl
    if σ.any (fun d => d.src ≥ n || d.tgt ≥ n) then none
    pure (r = "1", n, σ)
  | _ => none

def gFields (σ : GSchema) (t : Nat) : List Nat := ((gDecls σ).filter (fun p => p.2.src == t)).map (·.1)

def gRowOf (σ : GSchema) (t : Nat) (w : String) : Option GRow := do
  let fs := gFields σ t
  let vs ← (if w = "_" then some [] else (w.splitOn "/").mapM parseFV)
  if vs.length ≠ fs.length then none
  pure (fun i => ((fs.zip vs).lookup i).getD none)

def gSelOf (σ : GSchema) (t : Nat) (w : String) : Option (Nat → Bool) :=
  let fs := gFields σ t
  let bs := if w = "_" then [] else w.toList.map (· == '1')
  if bs.length ≠ fs.length then none
  else some (fun i => ((fs.zip bs).lookup i).getD false)

def parseGOp (σ : GSchema) (tok : String) : Option GOp :=
  match tok.splitOn ":" with
  | ["c", t, id, vs] => do let t ← t.toNat?; pure (GOp.create t (← Bytes.ofHex id) (← gRowOf σ t vs))
  | ["u", t, id, vs] => do let t ← t.toNat?; pure (GOp.update t (← Bytes.ofHex id) (fun _ => true) (← gRowOf σ t vs))
  | ["p", t, id, m, vs] => do let t ← t.toNat?; pure (GOp.update t (← Bytes.ofHex id) (← gSelOf σ t m) (← gRowOf σ t vs))
  | ["d", t, id] => do pure (GOp.delete (← t.toNat?) (← Bytes.ofHex id))
  | _ => none

def gLiveIds (s : GSt) (t : Nat) : List Bytes :=
  sortB (((s.ids.filter (fun k => k.1 == t && s.live k.1 k.2)).map (·.2)).eraseDups)

def gCoarse (n : Nat) (σ : GSchema) (s : GSt) : String :=
  "\n".intercalate (
    ((List.range n).flatMap fun t =>
      ("S" ++ toString t ++ ":" ++ wireList (gLiveIds s t)) ::
      (gLiveIds s t).map fun x =>
        toString t ++ ":" ++ Bytes.toWire x ++ ":" ++
          "/".intercalate ((gFields σ t).map fun i => fvWire (((s.ent t x).getD (fun _ => none)) i))) ++
    ((gDecls σ).filter (fun p => p.2.index)).flatMap fun p =>
      (gLiveIds s p.2.tgt).map fun y => "K" ++ toString p.1 ++ ":" ++ Bytes.toWire y ++ ":" ++ wireList (s.back p.1 y))

def gCount (n : Nat) (s : GSt) : Nat := ((List.range n).map fun t => (gLiveIds s t).length).foldl (· + ·) 0

/-- the spec is a relation: every branch of allowed outcomes is followed (branches with the same observation merge);
    more than 16 live branches: the rest of the history is undecided (`?`, accepted and counted by the check) -/
def gSpecOpsN (σ : GSchema) (s0 : GSt) : Nat → List GOp → GSt → List (GSt × Option (Nat × Err))
  | _, [], st => [(st, none)]
  | k, op :: rest, st =>
    (gSpecOutcomes σ st op).flatMap fun r =>
      match r with
      | .ok st' => gSpecOpsN σ s0 (k + 1) rest st'
      | .error e => [(s0, some (k, e))]

def runGenSpec (verbose : Bool) (n : Nat) (σ : GSchema) (txs : List (List GOp)) : List String :=
  (txs.foldl (fun (acc : (List GSt × Bool) × List String) tx =>
    if acc.1.2 then (acc.1, "?" :: acc.2) else
    let outs := acc.1.1.flatMap (fun s => gSpecOpsN σ s 0 tx s)
    let toks := outs.map (fun o => (obsToken verbose o.2 none (gCoarse n σ (gDerive σ o.1)) (gCount n o.1) 0, o.1))
    let ded := toks.foldl (fun (l : List (String × GSt)) p => if l.any (fun q => q.1 == p.1) then l else l ++ [p]) []
    if ded.length > 16 then ((acc.1.1, true), "?" :: acc.2)
    else ((ded.map (·.2), false), "%%".intercalate (ded.map (·.1)) :: acc.2))
    (([GSt.empty], false), [])).2.reverse

def runGen (spec verbose reuse : Bool) (n : Nat) (σ : GSchema) (txs : List (List GOp)) : List String :=
  if spec then runGenSpec verbose n σ txs else
  (txs.foldl (fun (acc : (GSt × GMarks) × List String) tx =>
      let ((s', r), m') := gRunTx σ (if reuse then acc.1.2 else []) acc.1.1 tx
      ((s', m'), obsToken verbose r none (gCoarse n σ s') (gCount n s') m'.length :: acc.2))
    ((GSt.empty, []), [])).2.reverse

def genStep (spec : Bool) (kind v : String) (txs : List String) : String :=
  match (parseGSchema v).bind (fun (r, n, σ) => (txs.mapM (fun (t : String) => (t.splitOn ",").mapM (parseGOp σ))).map (fun t => (r, n, σ, t))) with
  | some (r, n, σ, txs) =>
    let out := runGen spec (kind = "G") r n σ txs
    if out.isEmpty then "empty" else " ".intercalate out
  | none => "bad-case"

def stepWith (spec : Bool) (line : String) : String :=
  match (splitSp line).filter (· ≠ "") with
  | kind :: v :: txs =>
    if kind = "t" ∨ kind = "T" then tierStep spec kind v txs else
    if kind = "g" ∨ kind = "G" then genStep spec kind v txs else
    if kind ≠ "h" ∧ kind ≠ "v" ∧ kind ≠ "k" ∧ kind ≠ "w" then "bad-case" else
    let verbose := kind = "v" ∨ kind = "w"
    let reuse := kind = "k" ∨ kind = "w"
    match (parseVariant v).bind (fun σ => (txs.mapM (parseTx σ.naming)).map (fun t => (σ, t))) with
    | some (σ, txs) =>
      let out := if spec then runSpec verbose σ txs else runModel verbose reuse σ txs
      if out.isEmpty then "empty" else " ".intercalate out
    | none => "bad-case"
  | _ => "bad-case"

def step (line : String) : String := stepWith false line
def specStep (line : String) : String := stepWith true line

def run (spec : Bool) : IO Unit := forEachLine (if spec then specStep else step)

end StorageModel.Driver.C04
