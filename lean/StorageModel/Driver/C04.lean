import StorageModel.Driver.Common
import StorageModel.C04.Model
import StorageModel.C04.Spec
import StorageModel.C04.Render
/- model driver for C04: `run spec` reads case lines on stdin and prints one output line per case
   (spec = false: the engine model's output; spec = true: the spec's verdict).

   case:    h|v <variant> <tx> <tx> ...     (see /verif/harness/c04.go)
   output:  one token per transaction:  <res>#<fine>#<coarse>@<nA>,<nB>  (model)   <res>#*#<coarse>@<nA>,<nB>  (spec) -/
namespace StorageModel.Driver.C04
open StorageModel StorageModel.Driver StorageModel.C04

def parseFV (w : String) : Option FV :=
  if w = "~" then some none else (Bytes.ofHex w).map some

def parseOp (tok : String) : Option Op :=
  match tok.splitOn ":" with
  | ["cb", id] => (Bytes.ofHex id).map Op.createB
  | ["ca", id, o, b, d] => do
    let id ← Bytes.ofHex id
    let o ← parseFV o
    let b ← Bytes.ofHex b
    let d ← parseFV d
    pure (Op.createA id { owner := o, boss := some b, dep := d })
  | ["ua", id, m, o, b, d] => do
    let id ← Bytes.ofHex id
    let m ← m.toNat?
    let o ← parseFV o
    let b ← Bytes.ofHex b
    let d ← parseFV d
    let all := m ≥ 8
    pure (Op.updateA id { owner := o, boss := some b, dep := d }
      (all || m % 2 = 1) (all || (m / 2) % 2 = 1) (all || (m / 4) % 2 = 1))
  | ["cc", id, o, b, d, t] => do
    let id ← Bytes.ofHex id
    let o ← parseFV o
    let b ← Bytes.ofHex b
    let d ← parseFV d
    let t ← parseFV t
    pure (Op.createC id { owner := o, boss := some b, dep := d } t)
  | ["uc", id, m, o, b, d, t] => do
    let id ← Bytes.ofHex id
    let m ← m.toNat?
    let o ← parseFV o
    let b ← Bytes.ofHex b
    let d ← parseFV d
    let t ← parseFV t
    let all := (m / 8) % 2 = 1
    pure (Op.updateC id { owner := o, boss := some b, dep := d } t
      (all || m % 2 = 1) (all || (m / 2) % 2 = 1) (all || (m / 4) % 2 = 1) (all || (m / 16) % 2 = 1))
  | ["dc", id] => (Bytes.ofHex id).map Op.deleteC
  | ["da", id] => (Bytes.ofHex id).map Op.deleteA
  | ["db", id] => (Bytes.ofHex id).map Op.deleteB
  | _ => none

def parseTx (tok : String) : Option (List Op) := (tok.splitOn ",").mapM parseOp

def parseVariant (w : String) : Option Schema := do
  let v ← w.toNat?
  if v > 7 then none
  else pure { depCascade := v % 2 = 1, depNullable := (v / 2) % 2 = 1, depFirst := (v / 4) % 2 = 1 }

def obsToken (verbose : Bool) (res : Option (Nat × Err)) (fine : Option String) (coarse : String)
    (nA nB : Nat) : String :=
  let enc := fun (t : String) => if verbose then "{" ++ t.replace "\n" "|" ++ "}" else hex16 (fnv64 t)
  resToken res ++ "#" ++ (match fine with | some f => enc f | none => "*") ++ "#" ++ enc coarse ++
    "@" ++ toString nA ++ "," ++ toString nB

def runModel (verbose : Bool) (σ : Schema) (txs : List (List Op)) : List String :=
  (txs.foldl (fun (acc : St × List String) tx =>
    let (s', r) := runTx σ acc.1 tx
    (s', obsToken verbose r (some (fineText s')) (coarseText s') s'.as.length s'.bs.length :: acc.2)) ({}, [])).2.reverse

def runSpec (verbose : Bool) (σ : Schema) (txs : List (List Op)) : List String :=
  (txs.foldl (fun (acc : SSt × List String) tx =>
    let (s', r) := specRunTx σ acc.1 tx
    (s', obsToken verbose r none (coarseText (derive s')) s'.as.length s'.bs.length :: acc.2)) ({}, [])).2.reverse

def stepWith (spec : Bool) (line : String) : String :=
  match (splitSp line).filter (· ≠ "") with
  | kind :: v :: txs =>
    if kind ≠ "h" ∧ kind ≠ "v" then "bad-case" else
    match parseVariant v, txs.mapM parseTx with
    | some σ, some txs =>
      let out := if spec then runSpec (kind = "v") σ txs else runModel (kind = "v") σ txs
      if out.isEmpty then "empty" else " ".intercalate out
    | _, _ => "bad-case"
  | _ => "bad-case"

def step (line : String) : String := stepWith false line
def specStep (line : String) : String := stepWith true line

def run (spec : Bool) : IO Unit := forEachLine (if spec then specStep else step)

end StorageModel.Driver.C04
