import StorageModel.Driver.Common
import StorageModel.C04.Model
import StorageModel.C04.Spec
import StorageModel.C04.Render
/- model driver for C04: `run spec` reads case lines on stdin and prints one output line per case
   (spec = false: the engine model's output; spec = true: the spec's verdict).

   case:    h|v <variant> <tx> <tx> ...     (see /verif/harness/c04.go)
   output:  one token per transaction:  <res>#<fine>#<coarse>@<nA>,<nB>  (model)   <res>#*#<coarse>@<nA>,<nB>  (spec) -/
namespace StorageModel.Driver.C04
open StorageModel StorageModel.Driver StorageModel.C04

def parseFV (w : String) : Option FV :=
  if w = "~" then some none else (Bytes.ofHex w).map some

/-- `<id>:<owner>:<boss>:<dep>:<tag>[:<mentor>:<guard>]` -/
def parseCreateC (c : Child) : List String → Option Op
  | [id, o, b, d, t] => do
    pure (Op.createC c (← Bytes.ofHex id) { owner := ← parseFV o, boss := some (← Bytes.ofHex b), dep := ← parseFV d }
      { tag := ← parseFV t })
  | [id, o, b, d, t, m, g] => do
    pure (Op.createC c (← Bytes.ofHex id) { owner := ← parseFV o, boss := some (← Bytes.ofHex b), dep := ← parseFV d }
      { tag := ← parseFV t, m := ← parseFV m, g := ← parseFV g })
  | _ => none

/-- `<id>:<mask>:<owner>:<boss>:<dep>:<tag>[:<mentor>:<guard>]`, mask bits: 1 owner, 2 boss, 4 dep, 8 nil checker
    (every field), 16 tag, 32 mentor, 64 guard -/
def parseUpdateC (c : Child) (l : List String) : Option Op := do
  let (id, m, o, b, d, t, mm, g) ← (match l with
    | [id, m, o, b, d, t] => some (id, m, o, b, d, t, "~", "~")
    | [id, m, o, b, d, t, mm, g] => some (id, m, o, b, d, t, mm, g)
    | _ => none)
  let m ← m.toNat?
  let all := (m / 8) % 2 = 1
  let bit := fun (k : Nat) => all || (m / k) % 2 = 1
  pure (Op.updateC c (← Bytes.ofHex id) { owner := ← parseFV o, boss := some (← Bytes.ofHex b), dep := ← parseFV d }
    { tag := ← parseFV t, m := ← parseFV mm, g := ← parseFV g } (bit 1) (bit 2) (bit 4) (bit 16) (bit 32) (bit 64))

def parseOp (tok : String) : Option Op :=
  match tok.splitOn ":" with
  | ["cb", id] => (Bytes.ofHex id).map Op.createB
  | ["ca", id, o, b, d] => do
    let id ← Bytes.ofHex id
    let o ← parseFV o
    let b ← Bytes.ofHex b
    let d ← parseFV d
    pure (Op.createA id { owner := o, boss := some b, dep := d })
  | ["ua", id, m, o, b, d] => do
    let id ← Bytes.ofHex id
    let m ← m.toNat?
    let o ← parseFV o
    let b ← Bytes.ofHex b
    let d ← parseFV d
    let all := m ≥ 8
    pure (Op.updateA id { owner := o, boss := some b, dep := d }
      (all || m % 2 = 1) (all || (m / 2) % 2 = 1) (all || (m / 4) % 2 = 1))
  | "cc" :: rest => parseCreateC .c1 rest
  | "c2" :: rest => parseCreateC .c2 rest
  | "uc" :: rest => parseUpdateC .c1 rest
  | "u2" :: rest => parseUpdateC .c2 rest
  | ["d2", id] => (Bytes.ofHex id).map Op.deleteC
  | ["dc", id] => (Bytes.ofHex id).map Op.deleteC
  | ["da", id] => (Bytes.ofHex id).map Op.deleteA
  | ["db", id] => (Bytes.ofHex id).map Op.deleteB
  | _ => none

def parseTx (tok : String) : Option (List Op) := (tok.splitOn ",").mapM parseOp

def parseVariant (w : String) : Option Schema := do
  let v ← w.toNat?
  if v > 255 then none
  else pure { depCascade := v % 2 = 1, depNullable := (v / 2) % 2 = 1, depFirst := (v / 4) % 2 = 1,
              idx1 := (v / 8) % 2 = 1, idx2 := (v / 16) % 2 = 1, fk1 := (v / 32) % 2 = 1, fk2 := (v / 64) % 2 = 1,
              c2First := (v / 128) % 2 = 1 }

def obsToken (verbose : Bool) (res : Option (Nat × Err)) (fine : Option String) (coarse : String)
    (nA nB : Nat) : String :=
  let enc := fun (t : String) => if verbose then "{" ++ t.replace "\n" "|" ++ "}" else hex16 (fnv64 t)
  resToken res ++ "#" ++ (match fine with | some f => enc f | none => "*") ++ "#" ++ enc coarse ++
    "@" ++ toString nA ++ "," ++ toString nB

def runModel (verbose : Bool) (σ : Schema) (txs : List (List Op)) : List String :=
  (txs.foldl (fun (acc : St × List String) tx =>
    let (s', r) := runTx σ acc.1 tx
    (s', obsToken verbose r (some (fineText s')) (coarseText s') s'.as.length s'.bs.length :: acc.2)) ({}, [])).2.reverse

def runSpec (verbose : Bool) (σ : Schema) (txs : List (List Op)) : List String :=
  (txs.foldl (fun (acc : SSt × List String) tx =>
    let (s', r) := specRunTx σ acc.1 tx
    (s', obsToken verbose r none (coarseText (deriveσ σ s')) s'.as.length s'.bs.length :: acc.2)) ({}, [])).2.reverse

def stepWith (spec : Bool) (line : String) : String :=
  match (splitSp line).filter (· ≠ "") with
  | kind :: v :: txs =>
    if kind ≠ "h" ∧ kind ≠ "v" then "bad-case" else
    match parseVariant v, txs.mapM parseTx with
    | some σ, some txs =>
      let out := if spec then runSpec (kind = "v") σ txs else runModel (kind = "v") σ txs
      if out.isEmpty then "empty" else " ".intercalate out
    | _, _ => "bad-case"
  | _ => "bad-case"

def step (line : String) : String := stepWith false line
def specStep (line : String) : String := stepWith true line

def run (spec : Bool) : IO Unit := forEachLine (if spec then specStep else step)

end StorageModel.Driver.C04
