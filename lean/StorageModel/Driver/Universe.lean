import StorageModel.Driver.Common
import StorageModel.Universe.Oracle
/- oracle driver of the universe stream (checks/universe.py):

   input line:   <schema token> ... @D <dump token> ...     (formats: harness/shared_universe.go)
   output line:  ok inc=<n>   |   FAIL inc=<n> | <classes> <predicate> <detail> | ...   |   bad-input

   `inc` = number of members of `C09.inconsistencies` of the state the dump denotes. -/
namespace StorageModel.Driver.Universe
open StorageModel StorageModel.Driver StorageModel.Universe

def judgeLine (line : String) : String :=
  match line.splitOn " @D " with
  | [sch, dump] =>
    match parseSchema ((splitSp sch).filter (· ≠ "")), parseDump ((splitSp dump).filter (· ≠ "")) with
    | some S, some d => renderVerdict (judge S d)
    | _, _ => "bad-input"
  | _ => "bad-input"

def run : IO Unit := forEachLine judgeLine

end StorageModel.Driver.Universe
