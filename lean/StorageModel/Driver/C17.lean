import StorageModel.Driver.Common
import StorageModel.C17.Snapshot
import StorageModel.C17.Staged
import StorageModel.C17.Paths
import StorageModel.C17.PathTable
import StorageModel.C17.TimelineConc
import StorageModel.C17.LockTable
import StorageModel.Generated.DbLocks
/- model driver for C17 (line protocol documented in /verif/harness/c17.go).

   ops of the enlarged vocabulary (C17/Staged.lean):
     restc:<k>:<pre>:<chunk>:<d|s>:<cbs>   RestoreFromReader(reader issuing calls); cbs = `-` or `;`-joined
                                           <pos>=<op with ~ for :>, pos = f | m<permille> | e
                                           -> restoredc:<fired>:<dump>:<what the calls returned, |-joined, ~ for :>
     snaptc:<k>:<pre>:<post>  snapuc:<k>:<ws>:<pre>:<post>  streamc:<k>:<pre>:<post>
                                           reading calls (g = GetSnapshotId, d = dump; `-` none) inside the
                                           transaction before / after the copy -> intx:<pre obs>:<main obs>:<post obs>

     tlconc <K> <modes> <pre>              K GetTimelineId requests released together after a restore -> ok | ok|tlrace

     snapp:<k>:<tmpl>  snaptp:<k>:<tmpl>  snapup:<k>:<ws>:<tmpl>
                                           Snapshot / View+SnapshotInTx / Update+SnapshotInTx with a path TEMPLATE
                                           (C17/Paths.lean; relative to the db directory unless it starts with
                                           DB_DIR/ or __DB_DIR__/); slot k = the file under the RETURNED path
                                           -> snapped:<id>:<dump>@<returned path>@<other directory entries created, `,`-joined or ->
                                           (directory shown as $D, date / time strings as <D> / <T>)

   default mode : case line                  -> the model's observations
   `spec` mode  : case line TAB impl output  -> `ok`, or `fail@<i>:<op>` naming the first operation at
                                                which the property's clauses fail on the IMPLEMENTATION's
                                                observations (`specHolds`), `unparsed` when the
                                                observations are not in the vocabulary -/
namespace StorageModel.Driver.C17
open StorageModel.Driver StorageModel.C17 StorageModel.C17.Lock

def parseWrite (w : String) : Option Write :=
  match w.toList with
  | 'p' :: rest =>
    match (String.ofList rest).splitOn "." with
    | [k, v] => do pure (.put (← k.toNat?) (← v.toNat?))
    | _ => none
  | 'd' :: rest => do pure (.del (← (String.ofList rest).toNat?))
  | _ => none

def parseWrites (s : String) : Option (List Write) :=
  if s.isEmpty then some [] else (s.splitOn "/").filter (· ≠ "") |>.mapM parseWrite

def parseMode : String → Option Mode
  | "d" => some .default
  | "i" => some .initIfEmpty
  | "f" => some .forceReset
  | _ => none

def bigReader : Reader := { chunk := 2 ^ 40 }

def parseOp (tok : String) : Option Op :=
  match tok.splitOn ":" with
  | ["tx", ws, c] => do pure (.tx (← parseWrites ws) (c == "c"))
  | ["snap", k] => do pure (.snap (← k.toNat?) false)
  | ["snapt", k] => do pure (.snap (← k.toNat?) true)
  | ["snapu", k, ws] => do pure (.snapUpd (← k.toNat?) (← parseWrites ws))
  | ["snapf"] => some .snapFail
  | ["stream", k] => do pure (.stream (← k.toNat?))
  | ["rest", k] => do pure (.restore (← k.toNat?) bigReader)       -- bytes.Buffer: everything, then (0, EOF)
  | ["restr", k] => do pure (.restore (← k.toNat?) bigReader)      -- *os.File
  | ["restr", k, pre, chunk, e] => do
    let pre ← if pre == "-" then some [] else (pre.splitOn "+").mapM (·.toNat?)
    let c ← if chunk == "w" then some (2 ^ 40) else chunk.toNat?
    pure (.restore (← k.toNat?) { pre := pre, chunk := c - 1, eofWithData := e == "d" })
  | ["gsid"] => some .gsid
  | ["gtl", m, ok] => do pure (.gtl (← parseMode m) (ok == "1"))
  | ["listen"] => some .listen
  | ["dump"] => some .dump
  | _ => none

def parsePos (p : String) : Option Pos :=
  match p.toList with
  | ['f'] => some .first
  | ['e'] => some .eof
  | 'm' :: r => (String.ofList r).toNat?.map .at
  | _ => none

def parseCb (c : String) : Option Cb :=
  match c.splitOn "=" with
  | [p, o] => do pure ⟨← parsePos p, ← parseOp (o.replace "~" ":")⟩
  | _ => none

def parseCbs (c : String) : Option (List Cb) :=
  if c == "-" then some [] else (c.splitOn ";").mapM parseCb

def parseRo (r : String) : Option (List RoAct) :=
  if r == "-" then some [] else r.toList.mapM fun ch =>
    match ch with
    | 'g' => some RoAct.gsid
    | 'd' => some RoAct.dump
    | _ => none

def parseXOp (tok : String) : Option XOp :=
  match tok.splitOn ":" with
  | ["restc", k, pre, chunk, e, cbs] => do
    let pre ← if pre == "-" then some [] else (pre.splitOn "+").mapM (·.toNat?)
    let c ← if chunk == "w" then some (2 ^ 40) else chunk.toNat?
    pure (.restoreCb (← k.toNat?) { pre := pre, chunk := c - 1, eofWithData := e == "d" } (← parseCbs cbs))
  | ["snaptc", k, a, b] => do pure (.inTx (.viewSnap (← k.toNat?)) (← parseRo a) (← parseRo b))
  | ["snapuc", k, ws, a, b] => do pure (.inTx (.updSnap (← k.toNat?) (← parseWrites ws)) (← parseRo a) (← parseRo b))
  | ["streamc", k, a, b] => do pure (.inTx (.stream (← k.toNat?)) (← parseRo a) (← parseRo b))
  | _ => (parseOp tok).map .plain

def optNat (o : Option Nat) : String := match o with | some n => toString n | none => "-"

def renderDb (d : Db) : String :=
  let c := if d.content.isEmpty then "-" else ",".intercalate (d.content.map fun kv => s!"{kv.1}={kv.2}")
  let m := if d.mt.present then
      "s" ++ optNat d.mt.sid ++ ",r" ++ (match d.mt.rt with | some true => "1" | some false => "0" | none => "-") ++
      ",t" ++ optNat d.mt.tl
    else "-"
  c ++ ";" ++ m

def renderObs : Obs → String
  | .ok => "ok"
  | .err => "err"
  | .snapped id d => s!"snapped:{id}:{renderDb d}"
  | .streamed d => s!"streamed:{renderDb d}"
  | .restored f d => s!"restored:{f}:{renderDb d}"
  | .nofile => "nofile"
  | .sid id => "sid:" ++ (match id with | some n => toString n | none => "nil")
  | .tl id c => s!"tl:{optNat id}:{c}"
  | .tlerr c => s!"tlerr:{c}"
  | .dump d => s!"dump:{renderDb d}"

def renderInner (l : List Obs) : String :=
  if l.isEmpty then "-" else "|".intercalate (l.map fun o => (renderObs o).replace ":" "~")

def renderXObs : XObs → String
  | .plain o => renderObs o
  | .restoredCb during f d => s!"restoredc:{f}:{renderDb d}:{renderInner during}"
  | .restoreFailed during => s!"restorefailed:{renderInner during}"
  | .inTx a m b => s!"intx:{renderInner a}:{(renderObs m).replace ":" "~"}:{renderInner b}"

def parseOptNat (s : String) : Option (Option Nat) :=
  if s == "-" then some none else (s.toNat?).map some

def parseKv (s : String) : Option (Nat × Nat) :=
  match s.splitOn "=" with
  | [k, v] => do pure (← k.toNat?, ← v.toNat?)
  | _ => none

def parseDb (s : String) : Option Db :=
  match s.splitOn ";" with
  | [c, m] => do
    let content ← if c == "-" then some [] else (c.splitOn ",").mapM parseKv
    let mt ← if m == "-" then some ({} : Meta) else
      match m.splitOn "," with
      | [a, b, t] =>
        match a.toList, b.toList, t.toList with
        | 's' :: a', 'r' :: b', 't' :: t' => do
          let sid ← parseOptNat (String.ofList a')
          let rt ← (match String.ofList b' with
            | "1" => some (some true) | "0" => some (some false) | "-" => some none | _ => none)
          let tl ← parseOptNat (String.ofList t')
          pure { present := true, sid := sid, rt := rt, tl := tl }
        | _, _, _ => none
      | _ => none
    pure { content := content, mt := mt }
  | _ => none

def parseObs (tok : String) : Option Obs :=
  match tok.splitOn ":" with
  | ["ok"] => some .ok
  | ["err"] => some .err
  | ["snapped", id, d] => do pure (.snapped (← id.toNat?) (← parseDb d))
  | ["streamed", d] => do pure (.streamed (← parseDb d))
  | ["restored", f, d] => do pure (.restored (← f.toNat?) (← parseDb d))
  | ["nofile"] => some .nofile
  | ["sid", "nil"] => some (.sid none)
  | ["sid", n] => do pure (.sid (some (← n.toNat?)))
  | ["tl", id, c] => do pure (.tl (← parseOptNat id) (← c.toNat?))
  | ["tlerr", c] => do pure (.tlerr (← c.toNat?))
  | ["dump", d] => do pure (.dump (← parseDb d))
  | _ => none

def parseInner (s : String) : Option (List Obs) :=
  if s == "-" then some [] else (s.splitOn "|").mapM fun o => parseObs (o.replace "~" ":")

def parseXObs (tok : String) : Option XObs :=
  match tok.splitOn ":" with
  | ["restoredc", f, d, during] => do pure (.restoredCb (← parseInner during) (← f.toNat?) (← parseDb d))
  | ["intx", a, m, b] => do pure (.inTx (← parseInner a) (← parseObs (m.replace "~" ":")) (← parseInner b))
  | _ => (parseObs tok).map .plain

/-- allowed outcomes of a concurrent population, from the regenerated lock table: only `ok` when
    every program is flat (theorems `no_mixed_view`, `no_deadlock_flat`), `ok|hang` when some
    program takes the read lock re-entrantly (deadlock reachable, see Properties/C17) -/
def kindEntry : Char → String
  | 'r' => "View" | 'w' => "Update" | 'b' => "Batch" | 's' => "Snapshot" | 't' => "StreamToWriter"
  | 'g' => "GetSnapshotId" | 'l' => "GetTimelineId" | _ => ""

def concOutcomes (kinds : String) : String :=
  let t := Generated.dbLockPrograms
  if !(restoreModelled t && txProgsGuarded t) then "unmodelled"
  else
    let txs := kinds.toList.filter (· != 'R')
    if txs.all (fun c => txProgFlat t (kindEntry c)) then "ok" else "ok|hang"

/-- `stage api:<Method>`: a transaction is open, a restore has reached reloadLock.Lock(), the transaction body
    calls the method.  From the regenerated in-transaction path of the method: it returns (`ok`) when that path
    takes no read lock, it may never return (`hang`: recursive RLock behind the waiting writer) when it does. -/
def apiOutcomes (name : String) : String :=
  match LockTable.get Generated.dbInTxPrograms name with
  | none => "unmodelled"
  | some evs => if evs.contains .rlock || evs.contains .wlock then "ok|hang" else "ok"

/-- the property demands a return of every method that opens no transaction of its own on its in-transaction path
    (`mustReturnInTx`); the transaction entry points nest a transaction when called from a transaction body and take
    the read lock recursively by design (so does `Stats`): there a hang is what the model predicts and is accepted -/
def apiSpec (name impl : String) : String :=
  if impl == "ok" then "ok"
  else if (impl.splitOn ":").headD "" == "hang" && !mustReturnInTx Generated.dbInTxPrograms name
          && apiOutcomes name == "ok|hang" then "ok"
  else "fail:" ++ ((impl.splitOn ":").headD "?")

def stageOutcomes (which : String) : String :=
  let t := Generated.dbLockPrograms
  if !(restoreModelled t && txProgsGuarded t) then "unmodelled"
  else if which.startsWith "api:" then apiOutcomes (which.drop 4).toString
  else match which with
    | "snapintx" => if takesReadLock t "SnapshotInTx" then "ok|hang" else "ok"
    | "rootbucket" => if takesReadLock t "RootBucket" then "ok|hang" else "ok"
    -- migrationManager.Migrate: Update{ RootBucket(tx); SnapshotInTx(tx, GetDefaultSnapshotPath()) }
    | "migrate" =>
      if ["RootBucket", "SnapshotInTx", "GetDefaultSnapshotPath"].all (fun n => apiOutcomes n == "ok") then "ok" else "ok|hang"
    | _ => "ok"

/-- all interleavings of two requesters, `n` steps in total -/
def scheds2 : Nat → List (List Nat)
  | 0 => [[]]
  | n + 1 => (scheds2 n).flatMap fun s => [0 :: s, 1 :: s]

/-- `tlconc`: K GetTimelineId requests released together after a restore.  The requester program is read
    off the regenerated table; the transition system says whether some interleaving of two requesters
    generates more than one id (`tlrace`) -/
def tlconcOutcomes : String :=
  match readTlProgram (MetaOps.get Generated.dbMetaOps "GetTimelineId") with
  | none => "unmodelled"
  | some prog =>
    let sys : Sys := { db := { mt := { present := true, sid := some 1, rt := some true } } }
    let racy := (scheds2 (2 * prog.length)).any fun sc =>
      let s := texec (tinit sys prog [.default, .default]) sc
      s.sys.idf != 1 || s.reqs.any fun r => r != .done (some 1) && (match r with | .done _ => true | _ => false)
    if racy then "ok|tlrace" else "ok"

/-- the environment of the expansion in canonical form: the harness shows the temporary directory as
    `$D` and the date / time strings of the call as `<D>` / `<T>` (digits only in reality, so like these
    they contain no placeholder) -/
def symEnv : Env := { date := "<D>".toList, time := "<T>".toList, dbDir := "$D".toList, dbFile := "live.db".toList }

def fullTemplate (tmpl : String) : Path :=
  if tmpl.startsWith "DB_DIR/" || tmpl.startsWith "__DB_DIR__/" then tmpl.toList else "$D/".toList ++ tmpl.toList

/-- a token with a path template = the slot-level token + the template -/
def splitPathTok (tok : String) : String × Option String :=
  match tok.splitOn ":" with
  | ["snapp", k, t] => (s!"snap:{k}", some t)
  | ["snaptp", k, t] => (s!"snapt:{k}", some t)
  | ["snapup", k, ws, t] => (s!"snapu:{k}:{ws}", some t)
  | _ => (tok, none)

/-- what the path-level model says about the call: the returned path (expansion by the chain of ReplaceAll calls
    read off the regenerated table) and the other files it leaves in an empty directory -/
def pathObs (tmpl : String) : String :=
  match (readPathProgram Generated.dbSnapshotPathOps).bind (fun reps => expandTable symEnv reps (fullTemplate tmpl)) with
  | none => "@unmodelled@-"
  | some p =>
    let r := snapshotFiles ⟨p, p, p⟩ 1 {} []
    let others := (r.2.filter (fun pd => pd.1 != r.1)).map (fun pd => String.ofList pd.1)
    "@" ++ String.ofList r.1 ++ "@" ++ (if others.isEmpty then "-" else ",".intercalate others)

def stripPathObs (o : String) : String := (o.splitOn "@").headD o

def step (line : String) : String :=
  match splitSp line with
  | "seq" :: toks =>
    let sp := toks.map splitPathTok
    match (sp.map (·.1)).mapM parseXOp with
    | some ops =>
      let obs := (StorageModel.C17.xrun {} ops).2.map renderXObs
      " ".intercalate ((obs.zip (sp.map (·.2))).map fun ot =>
        match ot.2 with
        | some t => if ot.1.startsWith "snapped" then ot.1 ++ pathObs t else ot.1
        | none => ot.1)
    | none => "bad-case"
  | ["conc", kinds, _, _] => concOutcomes kinds
  | ["stage", which] => stageOutcomes which
  | ["tlconc", _, _, _] => tlconcOutcomes
  | _ => "bad-case"

def specStep (line : String) : String :=
  match line.splitOn "\t" with
  | [case, impl] =>
    match splitSp case with
    | "seq" :: toks =>
      -- the property speaks about the file the caller finds under the returned path, not about its name:
      -- the path part of the observation is compared with the model only
      match (toks.map fun t => (splitPathTok t).1).mapM parseXOp, ((splitSp impl).map stripPathObs).mapM parseXObs with
      | some ops, some obs =>
        if obs.length != ops.length then "unparsed"
        else match xspecFirstFail {} ops obs 0 with
          | none => "ok"
          | some i => s!"fail@{i}:{toks.getD i "?"}"
      | _, _ => "unparsed"
    | "conc" :: _ => if impl == "ok" then "ok" else "fail:" ++ ((impl.splitOn ":").headD "?")
    | ["stage", which] =>
      if which.startsWith "api:" then apiSpec (which.drop 4).toString impl
      else if impl == "ok" then "ok" else "fail:" ++ ((impl.splitOn ":").headD "?")
    | "stage" :: _ => if impl == "ok" then "ok" else "fail:" ++ ((impl.splitOn ":").headD "?")
    | "tlconc" :: _ => if impl == "ok" then "ok" else "fail:" ++ ((impl.splitOn ":").headD "?")
    | _ => "bad-case"
  | _ => "bad-case"

def run (spec : Bool) : IO Unit := forEachLine (if spec then specStep else step)

end StorageModel.Driver.C17
