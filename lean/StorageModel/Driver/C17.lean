import StorageModel.Driver.Common
/- model driver for C17: `run spec` reads case lines on stdin and prints one output line per case
   (spec = false: the engine model's output; spec = true: the spec's verdict). -/
namespace StorageModel.Driver.C17
open StorageModel.Driver

def step (_line : String) : String := "not-implemented"
def specStep (_line : String) : String := "not-implemented"

def run (spec : Bool) : IO Unit := forEachLine (if spec then specStep else step)

end StorageModel.Driver.C17
