import StorageModel.Base.Bytes
/- Line-protocol plumbing shared by the per-property drivers (never used by a proof). -/
namespace StorageModel.Driver

partial def forEachLine (f : String → String) : IO Unit := do
  let stdin ← IO.getStdin
  let stdout ← IO.getStdout
  let rec loop : IO Unit := do
    let line ← stdin.getLine
    if line.isEmpty then return ()
    let l := (line.dropEndWhile (fun c => c == '\n' || c == '\r')).toString
    if l.isEmpty then loop else do
      stdout.putStrLn (f l)
      loop
  loop
  stdout.flush

def splitSp (s : String) : List String := s.splitOn " "

def bits (l : List Bool) : String := String.ofList (l.map fun b => if b then '1' else '0')

end StorageModel.Driver
