import StorageModel.Driver.Common
import StorageModel.C15.Spec
import StorageModel.C15.Config
import StorageModel.C15.Cursor
import StorageModel.C15.Paging
import StorageModel.C15.Order
import StorageModel.C15.Extended
import StorageModel.C15.Layout
import StorageModel.C15.Depth
/- model driver for C15: `run spec` reads case lines on stdin and prints one output line per case
   (spec = false: the engine model's output; spec = true: the spec's verdict).

   case line:   h <tx>;<tx>;…          tx = <op>,<op>,…
     op:  c/<s>/<id>/<name>/<roles>/<child>            create through store s (0 = A, 1 = A1, 2 = A2)
          u/<s>/<id>/<name>/<roles>/<child>/<chk>      update; chk = * (nil checker) | subset of "nrc" | -
          d/<s>/<id>                                   delete
          w/<s>/<filter>                               DeleteWhere through store s; filter = t | n1 | r1
     name 9 is the name the parent strategy refuses; so are more than three roles
     roles = - | r.r.r     child = n (nil) | <value>     ids 0..4 (0 = ""), values 0..4 (0 = "")
   output line: one segment per transaction, joined by " ;; ":
     <results> commit|abort E <events delivered> F <FindById…> L <LoadById|LoadEntity|IsEntityPresent,GetEntityBucket…> Q <QueryIds…> I <Iterate…> X <index reads…> D <bucket dump>

   case line:   g <history>             as h, with the child stores registered in the order A2, A1

   every kind token may carry the shape of the layering: <kind>~<p1>~<p2>~<base>  (BasePath of A1, of A2,
   of the parent store; segments separated by `.`; default ext1, ext2, u)

   case line:   k <history> <item>;<item>;…      the history, then in one read transaction
     item: <s>/i/<filter>/<steps>     IterateIds(filter) through store s, driven by the script
           <s>/v/<filter>/<steps>     IterateValidIds(filter)
              steps = - | step.step.…   step = n (Next) | s<k> (Seek to id k; ids 1..8, 0 = before all, 9 = after all)
              observation: Current() (or - when invalid) after opening and after every step
           <s>/q/<filter>/<u|s>/<provider>   QueryWithCursorC (u: no sort, s: sort by name) over
              provider = l<id.id.…> (these ids, those that exist, in this order) | x<r> (the roles index cursor of role r)
           <s>/p/<filter>/<skip>/<limit>/<steps>   IterateIds(query) with the compiled query `<filter> skip <skip> limit <limit>`
              (limit - = no limit clause), driven by the script; store 0, 1 or 2
           <s>/P/<filter>/<skip>/<limit>/<steps>   IterateValidIds(query), stores 0 and 1 (not extended: the same scanner)
           <s>/Q/<filter>/<skip>/<limit>           QueryIds of the same query: ids of the page, #count of all matching rows
     filter = t | n1 | r1
   output line: the history's segments, then a last segment  K <item>=<observation> …           -/
namespace StorageModel.Driver.C15
open StorageModel.Driver StorageModel.C15

def nIds : Nat := 4
def nVals : Nat := 4

def parseNat? (s : String) : Option Nat := s.toNat?

def parseRoles (s : String) : Option (List Nat) :=
  if s == "-" then some [] else (s.splitOn ".").mapM parseNat?

def parseChild (s : String) : Option (Option Nat) :=
  if s == "n" then some none else (parseNat? s).map some

def parseSel (s : String) : Option Sel :=
  match s with
  | "0" => some .A
  | "1" => some .A1
  | "2" => some .A2
  | _ => none

def parseChk (s : String) : Option Checker :=
  if s == "*" then none
  else some ⟨s.contains 'n', s.contains 'r', s.contains 'c'⟩

def parseFilter : String → Option Filter
  | "t" => some .tt
  | "n1" => some (.nameEq 1)
  | "r1" => some (.hasRole 1)
  | _ => none

def parseOp (s : String) : Option OpX :=
  match s.splitOn "/" with
  | ["c", sel, id, name, roles, child] => do
    let sel ← parseSel sel
    let id ← parseNat? id
    let name ← parseNat? name
    let roles ← parseRoles roles
    let child ← parseChild child
    pure (.create sel id ⟨name, roles, child⟩)
  | ["u", sel, id, name, roles, child, chk] => do
    let sel ← parseSel sel
    let id ← parseNat? id
    let name ← parseNat? name
    let roles ← parseRoles roles
    let child ← parseChild child
    pure (.update sel id ⟨name, roles, child⟩ (parseChk chk))
  | ["d", sel, id] => do
    let sel ← parseSel sel
    let id ← parseNat? id
    pure (.delete sel id)
  | ["w", sel, f] => do
    let sel ← parseSel sel
    let f ← parseFilter f
    pure (.deleteWhere sel f)
  | _ => none

def parseHist (s : String) : Option (List (List OpX)) :=
  (s.splitOn ";").mapM fun tx => (tx.splitOn ",").mapM parseOp

/-! rendering -/

def errStr : Err → String
  | .blank => "blank"
  | .exists_ => "exists"
  | .notfound => "notfound"
  | .dupName => "dup:name"
  | .dupCode => "dup:code"
  | .nonnull => "nonnull"
  | .invalidName => "invalid:name"
  | .invalidRoles => "invalid:roles"

def natList (l : List Nat) : String :=
  if l.isEmpty then "-" else ".".intercalate (l.map toString)

def optVal : Option Nat → String
  | none => "n"
  | some v => toString v

def sels : List (Nat × Sel) := [(0, .A), (1, .A1), (2, .A2)]
def idRange : List Nat := (List.range nIds).map (· + 1)
def valRange : List Nat := (List.range nVals).map (· + 1)

def filters : List (String × Filter) := [("t", .tt), ("n1", .nameEq 1), ("r1", .hasRole 1)]

def obsFind (st : St) : String :=
  " ".intercalate <| sels.flatMap fun (k, s) => idRange.map fun id =>
    s!"{k}.{id}=" ++ (match findById st s id with
      | none => "-"
      | some (n, r, c) => s!"{n}/{natList r}/" ++ (if s == .A then "_" else optVal c))

def foundS (s : Sel) : Option Found → String
  | none => "-"
  | some (n, r, c) => s!"{n}/{natList r}/" ++ (if s == .A then "_" else optVal c)

/-- every lookup API, per store and id: `<s>.<id>=<LoadById>|<LoadEntity>|<IsEntityPresent><GetEntityBucket != nil>`
    (FindById is the `F` segment) -/
def obsLookups (st : St) : String :=
  " ".intercalate <| sels.flatMap fun (k, s) => idRange.map fun id =>
    s!"{k}.{id}=" ++ (match loadById st s id with
      | .ok x => foundS s (some x)
      | .error e => errStr e) ++ "|" ++ foundS s (loadEntity st s id) ++ "|" ++
      (if isEntityPresent st s id then "P" else "-") ++ (if entityBucketNonNil st s id then "B" else "-")

/-- the specification's answers, from the table and the `owns` predicate alone -/
def specLookups (ents : Ents) : String :=
  " ".intercalate <| sels.flatMap fun (k, s) => idRange.map fun id =>
    s!"{k}.{id}=" ++ (match ownedLookup ents s id with
      | some x => foundS s (some x)
      | none => "notfound") ++ "|" ++ foundS s (ownedLookup ents s id) ++ "|" ++
      (if ownsData ents s id then "PB" else "--")

def obsQuery (st : St) : String :=
  " ".intercalate <| sels.flatMap fun (k, s) =>
    (filters.map fun (qn, f) => s!"{k}.{qn}={natList (queryIds st s f)}") ++
    [s!"{k}.s={natList (querySorted st s .tt)}"]

def obsIter (st : St) : String :=
  " ".intercalate <| sels.flatMap fun (k, s) =>
    [s!"{k}.i={natList (queryIds st s .tt)}", s!"{k}.v={natList (iterateValidIds st s .tt)}"]

def optId : Option Nat → String
  | none => "-"
  | some v => toString v

def obsIdx (st : St) : String :=
  " ".intercalate <|
    (valRange.map fun v => s!"n.{v}={optId (mget st.nameIdx v)}") ++
    (valRange.map fun v => s!"r.{v}={natList (canon ((st.rolesIdx.filter (·.1 == v)).map (·.2)))}") ++
    (valRange.map fun v => s!"c.{v}={optId (mget st.codeIdx v)}")

def idS (k : Nat) : String := if k == 0 then "" else s!"e{k}"
def valS (k : Nat) : String := if k == 0 then "" else s!"v{k}"
def roleS (k : Nat) : String := if k == 0 then "" else s!"r{k}"

def fieldP : Option Nat → String
  | none => "\\x07"
  | some v => "\\x05" ++ valS v

/-- the shape of the layering drawn for a case: child data paths (`BasePath` of A1 / A2) and the
    parent's base path -/
structure Shape where
  sch : Schema
  base : List String

def Shape.default : Shape := ⟨⟨["ext1"], ["ext2"]⟩, ["u"]⟩

def parsePath (s : String) : List String := s.splitOn "."

/-- kind token: `<kind>` or `<kind>~<p1>~<p2>~<base>` (segments separated by `.`) -/
def parseKind (s : String) : Option (String × Shape) :=
  match s.splitOn "~" with
  | [k] => some (k, Shape.default)
  | [k, p1, p2, b] =>
    let sh : Shape := ⟨⟨parsePath p1, parsePath p2⟩, parsePath b⟩
    if sh.sch.wellFormed && !sh.base.isEmpty then some (k, sh) else none
  | _ => none

def joinPath (p : List String) : String := "/".intercalate p

/-- all non-empty prefixes of a path -/
def prefixesOf : List String → List (List String)
  | [] => []
  | x :: t => [x] :: (prefixesOf t).map (x :: ·)

/-- the lines of one entity bucket, from the model's bucket tree (real paths) -/
def treeLines (b : String) (t : Tree) : List String :=
  let sub (q : List String) : String := if q.isEmpty then b else b ++ joinPath q ++ "/"
  [b] ++ (t.made.flatMap fun m => (prefixesOf m).map sub) ++
  (t.fields.flatMap fun ((q, k), c) =>
    match c with
    | .str v => [sub q ++ k ++ "=" ++ fieldP v]
    | .list l => (sub q ++ k ++ "/") :: (l.map fun r => sub q ++ k ++ "/\\x05" ++ roleS r ++ "="))

/-- the lines of one entity bucket as the specification lays an entity out: shared fields in the
    entity bucket, each child's field in that child's data bucket at its path -/
def entLines (sch : Schema) (b : String) (e : Ent) : List String :=
  let sub (q : List String) : String := b ++ joinPath q ++ "/"
  [b, b ++ "name=\\x05" ++ valS e.name, b ++ "roles/"] ++
  (e.roles.map fun r => b ++ "roles/\\x05" ++ roleS r ++ "=") ++
  (match e.c1 with
   | none => []
   | some c => (prefixesOf sch.p1).map sub ++ [sub sch.p1 ++ "code=" ++ fieldP c]) ++
  (match e.c2 with
   | none => []
   | some c => (prefixesOf sch.p2).map sub ++ [sub sch.p2 ++ "colour=" ++ fieldP c])

def dumpLines (base : List String) (entityLines : List String) (st : St) : List String :=
  let r := "/" ++ joinPath base ++ "/"
  let fixed := ((prefixesOf base).map fun q => "/" ++ joinPath q ++ "/") ++
    [r ++ "indexes/", r ++ "indexes/things/", r ++ "indexes/things/name/",
     r ++ "indexes/things/roles/", r ++ "indexes/things/code/", r ++ "things/"]
  let names := (canon (mkeys st.nameIdx)).flatMap fun v =>
    match mget st.nameIdx v with
    | none => []
    | some id => [r ++ s!"indexes/things/name/{valS v}={idS id}"]
  let codes := (canon (mkeys st.codeIdx)).flatMap fun v =>
    match mget st.codeIdx v with
    | none => []
    | some id => [r ++ s!"indexes/things/code/{valS v}={idS id}"]
  let roleVals := canon (st.rolesIdx.map (·.1))
  let roles := roleVals.flatMap fun rv =>
    (r ++ s!"indexes/things/roles/{roleS rv}/") ::
      ((canon ((st.rolesIdx.filter (·.1 == rv)).map (·.2))).map fun id =>
        r ++ s!"indexes/things/roles/{roleS rv}/\\x05{idS id}=")
  fixed ++ entityLines ++ names ++ codes ++ roles

def strLe (a b : String) : Bool := a < b || a == b

def dedupSorted : List String → List String
  | a :: b :: t => if a == b then dedupSorted (b :: t) else a :: dedupSorted (b :: t)
  | l => l

def renderDump (lines : List String) : String := ",".intercalate (dedupSorted (lines.mergeSort strLe))

/-- model side: the entity buckets are the bucket trees of the stores over real paths -/
def dumpC (sh : Shape) (stc : StC) : String :=
  let b (id : Nat) := "/" ++ joinPath sh.base ++ s!"/things/{idS id}/"
  renderDump (dumpLines sh.base
    ((canon (mkeys stc.trees)).flatMap fun id =>
      match mget stc.trees id with
      | none => []
      | some t => treeLines (b id) t) (absSt sh.sch stc))

/-- spec side: the entity table laid out by the schema -/
def dumpS (sh : Shape) (ents : Ents) : String :=
  let b (id : Nat) := "/" ++ joinPath sh.base ++ s!"/things/{idS id}/"
  renderDump (dumpLines sh.base
    ((canon (mkeys ents)).flatMap fun id =>
      match mget ents id with
      | none => []
      | some e => entLines sh.sch (b id) e) (derive ents))

def observe (st : St) (lookups : String) (dump : String) : String :=
  s!"F {obsFind st} L {lookups} Q {obsQuery st} I {obsIter st} X {obsIdx st} D {dump}"

def selS : Sel → String
  | .A => "0"
  | .A1 => "1"
  | .A2 => "2"

def evS (e : Ev) : String :=
  selS e.store ++ (match e.kind with | .created => "c" | .updated => "u" | .deleted => "d") ++ toString e.id

/-- run the operations of one transaction, collecting the per-operation results and the events
    queued for delivery at commit -/
def runOps {σ : Type} (f : σ → OpX → Except Err σ) (view : σ → St) (st : σ) (evf : St → OpX → List Ev) :
    List OpX → List String → List Ev → (Option σ × List String × List Ev)
  | [], acc, evs => (some st, acc.reverse, evs)
  | op :: rest, acc, evs =>
    match f st op with
    | .ok st' => runOps f view st' evf rest ("ok" :: acc) (evs ++ evf (view st) op)
    | .error e => (none, (errStr e :: acc).reverse, [])

def runHist {σ : Type} (f : σ → OpX → Except Err σ) (view : σ → St) (dump : σ → String × String) (st : σ)
    (evf : St → OpX → List Ev) : List (List OpX) → List String → List String
  | [], acc => acc.reverse
  | tx :: rest, acc =>
    let (r, res, evs) := runOps f view st evf tx [] []
    let st' := r.getD st
    let evText := if evs.isEmpty then "-" else ",".intercalate (evs.map evS)
    let seg := ",".intercalate res ++ (if r.isSome then " commit " else " abort ") ++ "E " ++ evText ++ " " ++
      observe (view st') (dump st').1 (dump st').2
    runHist f view dump st' evf rest (seg :: acc)

/-! cursor scripts and provider queries (`k` lines) -/

inductive Prov
  | list (l : List Nat)
  | roles (r : Nat)

inductive Item
  | cur (s : Sel) (validOnly : Bool) (f : Filter) (steps : List Step)
  | qry (s : Sel) (f : Filter) (sorted : Bool) (p : Prov)
  | pcur (s : Sel) (f : Filter) (pg : Page) (steps : List Step)
  | pqry (s : Sel) (f : Filter) (pg : Page)

def parseStep (x : String) : Option Step :=
  match x.toList with
  | ['n'] => some .next
  | 's' :: rest => (String.ofList rest).toNat?.map .seek
  | _ => none

def parseSteps (s : String) : Option (List Step) :=
  if s == "-" then some [] else (s.splitOn ".").mapM parseStep

def parseProv (x : String) : Option Prov :=
  match x.toList with
  | 'l' :: rest => (parseRoles (String.ofList rest)).map .list
  | 'x' :: rest => (String.ofList rest).toNat?.map .roles
  | _ => none

def parseLimit (s : String) : Option (Option Nat) :=
  if s == "-" then some none else s.toNat?.map some

def parseNotExtended (s : String) : Option Sel :=
  match s with
  | "0" => some .A
  | "1" => some .A1
  | _ => none

def parseItem (x : String) : Option (String × Item) :=
  match x.splitOn "/" with
  | [sel, "p", f, sk, li, steps] => do
    pure (x, .pcur (← parseSel sel) (← parseFilter f) ⟨← sk.toNat?, ← parseLimit li⟩ (← parseSteps steps))
  | [sel, "P", f, sk, li, steps] => do
    pure (x, .pcur (← parseNotExtended sel) (← parseFilter f) ⟨← sk.toNat?, ← parseLimit li⟩ (← parseSteps steps))
  | [sel, "Q", f, sk, li] => do
    pure (x, .pqry (← parseSel sel) (← parseFilter f) ⟨← sk.toNat?, ← parseLimit li⟩)
  | [sel, "i", f, steps] => do pure (x, .cur (← parseSel sel) false (← parseFilter f) (← parseSteps steps))
  | [sel, "v", f, steps] => do pure (x, .cur (← parseSel sel) true (← parseFilter f) (← parseSteps steps))
  | [sel, "q", f, "u", p] => do pure (x, .qry (← parseSel sel) (← parseFilter f) false (← parseProv p))
  | [sel, "q", f, "s", p] => do pure (x, .qry (← parseSel sel) (← parseFilter f) true (← parseProv p))
  | _ => none

def parseItems (s : String) : Option (List (String × Item)) := (s.splitOn ";").mapM parseItem

def traceS (t : List (Option Nat)) : String := ".".intercalate (t.map optId)

/-- the engine model's answer: the cursor state machines of C15/Cursor.lean, the scanners over
    the provided ids, the maintained roles index -/
def modelItem (st : St) : Item → String
  | .cur s false f steps => traceS (IdCur.trace st s f (.plain (iterateIdsCur st s f)) steps)
  | .cur s true f steps => traceS (IdCur.trace st s f (iterateValidIdsCur st s f) steps)
  | .qry s f sorted p =>
    let provided := match p with
      | .list l => l.filter fun id => (mget st.ents id).isSome
      | .roles r => rolesIndexIds st r
    natList (if sorted then queryWithCursorSorted st s f provided else queryWithCursor st s f provided)
  | .pcur s f pg steps => traceS ((iterateIdsPaged st s f pg).trace st s f pg steps)
  | .pqry s f pg =>
    let r := queryIdsPaged st s f pg
    natList r.1 ++ "#" ++ toString r.2

def specLe (ents : Ents) (a b : Nat) : Bool :=
  let na := ((mget ents a).map (·.name)).getD 0
  let nb := ((mget ents b).map (·.name)).getD 0
  na < nb || (na == nb && a ≤ b)

/-- the specification's answer, from the entity table alone: a list cursor over the owned ids;
    the provided ids the store owns (sorted by name, id on request); a role's holders -/
def specItem (ents : Ents) : Item → String
  | .cur s validOnly f steps => traceS ((ListCur.start (ownedIds ents s validOnly f)).trace steps)
  | .qry s f sorted p =>
    let provided := match p with
      | .list l => l.filter fun id => (mget ents id).isSome
      | .roles r => (canon (mkeys ents)).filter fun id =>
          match mget ents id with
          | some e => e.roles.contains r
          | none => false
    let rows := provided.filter (ownedPred ents s false f)
    natList (if sorted then rows.mergeSort (specLe ents) else rows)
  | .pcur s f pg steps => traceS ((PListCur.start pg (ownedIds ents s false f)).trace pg steps)
  | .pqry s f pg =>
    let owned := ownedIds ents s false f
    natList (pg.of owned) ++ "#" ++ toString owned.length

def itemsOut (f : Item → String) (items : List (String × Item)) : String :=
  "K " ++ " ".intercalate (items.map fun (src, it) => src ++ "=" ++ f it)


/-! ## three-level chains (`t<c><g><i><shape>` cases; C15/Depth.lean) -/
section chain
open StorageModel.C15.Depth

structure ChainCfg where
  lv : Chain
  base : List String
  pc : List String
  pg : List String

def parseChain (tok : String) : Option ChainCfg :=
  match tok.toList with
  | ['t', c, g, i, sh] =>
    let lv : Chain := [⟨c == 'x', true⟩, ⟨g == 'x', i == 'i'⟩]
    match sh with
    | '0' => some ⟨lv, ["u"], ["ext"], ["ext", "g"]⟩
    | '1' => some ⟨lv, ["u"], ["c1"], ["c1", "d", "g"]⟩
    | '2' => some ⟨lv, ["u", "v"], ["x", "y"], ["x", "y", "z"]⟩
    | _ => none
  | _ => none

def parseChilds (s : String) : Option (List (Option Nat)) := (s.splitOn ":").mapM parseChild

def parseDOp (s : String) : Option DOp :=
  match s.splitOn "/" with
  | ["c", sel, id, name, roles, child] => do
    pure (.create (← parseNat? sel) (← parseNat? id) ⟨← parseNat? name, ← parseRoles roles, ← parseChilds child⟩)
  | ["u", sel, id, name, roles, child, chk] => do
    pure (.update (← parseNat? sel) (← parseNat? id) ⟨← parseNat? name, ← parseRoles roles, ← parseChilds child⟩ (parseChk chk))
  | ["d", sel, id] => do pure (.delete (← parseNat? sel) (← parseNat? id))
  | _ => none

def parseDHist (s : String) : Option (List (List DOp)) :=
  (s.splitOn ";").mapM fun tx => (tx.splitOn ",").mapM parseDOp

def dErrStr : DErr → String
  | .blank => "blank"
  | .exists_ => "exists"
  | .notfound => "notfound"
  | .dupName => "dup:name"
  | .nonnull => "nonnull"
  | .dupLevel 0 => "dup:code"
  | .dupLevel _ => "dup:tag"

def foundD (k : Nat) : Option (Val × List Val × List (Option Val)) → String
  | none => "-"
  | some (n, r, fs) => s!"{n}/{natList r}/" ++ (if k == 0 then "_" else ":".intercalate (fs.map optVal))

def storeRange : List Nat := [0, 1, 2]

/-- the observations of one state: `find` / `present` / `query` / `sorted` / `valid` are the model's
    (scan loops, bucket lookups) or the specification's (the `owns` predicate over the table) -/
def observeD (cfg : ChainCfg) (st : DSt)
    (find : Nat → Nat → Option (Val × List Val × List (Option Val))) (present : Nat → Nat → Bool)
    (query : Nat → Filter → List Nat) (sorted : Nat → List Nat) (valid : Nat → List Nat) : String :=
  let f := " ".intercalate <| storeRange.flatMap fun k => idRange.map fun id => s!"{k}.{id}=" ++ foundD k (find k id)
  let p := " ".intercalate <| storeRange.flatMap fun k => idRange.map fun id =>
    s!"{k}.{id}=" ++ (if present k id then "P" else "-")
  let q := " ".intercalate <| storeRange.flatMap fun k =>
    (filters.map fun (qn, fl) => s!"{k}.{qn}={natList (query k fl)}") ++ [s!"{k}.s={natList (sorted k)}"]
  let i := " ".intercalate <| storeRange.flatMap fun k =>
    [s!"{k}.i={natList (query k .tt)}", s!"{k}.v={natList (valid k)}"]
  let lx (tag : String) (m : Map Val Id) := valRange.map fun v => s!"{tag}.{v}={optId (mget m v)}"
  let x := " ".intercalate <|
    lx "n" st.nameIdx ++
    (valRange.map fun v => s!"r.{v}={natList (canon ((st.rolesIdx.filter (·.1 == v)).map (·.2)))}") ++
    lx "c" (st.lidx.getD 0 []) ++ lx "g" (st.lidx.getD 1 [])
  -- dump
  let r := "/" ++ joinPath cfg.base ++ "/"
  let idxLines (nm : String) (m : Map Val Id) : List String :=
    (r ++ s!"indexes/things/{nm}/") :: ((canon (mkeys m)).flatMap fun v =>
      match mget m v with
      | none => []
      | some id => [r ++ s!"indexes/things/{nm}/{valS v}={idS id}"])
  let fixed := ((prefixesOf cfg.base).map fun q => "/" ++ joinPath q ++ "/") ++ [r ++ "indexes/", r ++ "indexes/things/", r ++ "indexes/things/roles/", r ++ "things/"]
  let roleVals := canon (st.rolesIdx.map (·.1))
  let roles := roleVals.flatMap fun rv =>
    (r ++ s!"indexes/things/roles/{roleS rv}/") ::
      ((canon ((st.rolesIdx.filter (·.1 == rv)).map (·.2))).map fun id => r ++ s!"indexes/things/roles/{roleS rv}/\\x05{idS id}=")
  let gIdx := isIdx cfg.lv 1
  let ents := (canon (mkeys st.ents)).flatMap fun id =>
    match mget st.ents id with
    | none => []
    | some e =>
      let b := r ++ s!"things/{idS id}/"
      let sub (qp : List String) : String := b ++ joinPath qp ++ "/"
      [b, b ++ "name=\\x05" ++ valS e.name, b ++ "roles/"] ++ (e.roles.map fun rr => b ++ "roles/\\x05" ++ roleS rr ++ "=") ++
      (if e.present 1 then (prefixesOf cfg.pc).map sub ++ [sub cfg.pc ++ "code=" ++ fieldP (e.fieldAt 0)] else []) ++
      (if e.present 2 then (prefixesOf cfg.pg).map sub ++ [sub cfg.pg ++ "tag=" ++ fieldP (e.fieldAt 1)] else [])
  let d := renderDump (fixed ++ idxLines "name" st.nameIdx ++ idxLines "code" (st.lidx.getD 0 []) ++
    (if gIdx then idxLines "tag" (st.lidx.getD 1 []) else []) ++ roles ++ ents)
  s!"F {f} P {p} Q {q} I {i} X {x} D {d}"

def observeModelD (cfg : ChainCfg) (st : DSt) : String :=
  observeD cfg st (fun k id => findById cfg.lv st k id) (fun k id => isPresent st k id)
    (fun k f => queryIdsD cfg.lv st k f) (fun k => querySortedD cfg.lv st k .tt) (fun k => iterateValidIdsD cfg.lv st k .tt)

def specSorted (ents : DEnts) (ids : List Nat) : List Nat :=
  ids.foldl (fun acc id => insRowD ⟨ents, [], [], []⟩ id acc) []

def observeSpecD (cfg : ChainCfg) (ents : DEnts) : String :=
  observeD cfg (deriveD cfg.lv ents) (fun k id => specFindById cfg.lv ents k id)
    (fun k id => match mget ents id with | some e => e.present k | none => false)
    (fun k f => specQueryIds cfg.lv ents k f false) (fun k => specSorted ents (specQueryIds cfg.lv ents k .tt false))
    (fun k => specQueryIds cfg.lv ents k .tt (isExt cfg.lv k))

def runOpsD {σ : Type} (f : σ → DOp → Except DErr σ) (st : σ) : List DOp → List String → (Option σ × List String)
  | [], acc => (some st, acc.reverse)
  | op :: rest, acc =>
    match f st op with
    | .ok st' => runOpsD f st' rest ("ok" :: acc)
    | .error e => (none, (dErrStr e :: acc).reverse)

def runHistD {σ : Type} (f : σ → DOp → Except DErr σ) (obs : σ → String) (st : σ) : List (List DOp) → List String → List String
  | [], acc => acc.reverse
  | tx :: rest, acc =>
    let (r, res) := runOpsD f st tx []
    let st' := r.getD st
    runHistD f obs st' rest ((",".intercalate res ++ (if r.isSome then " commit " else " abort ") ++ obs st') :: acc)

def chainStep (spec : Bool) (line : String) : String :=
  match splitSp line with
  | [tok, h] =>
    match parseChain tok, parseDHist h with
    | some cfg, some hist =>
      if spec then " ;; ".intercalate (runHistD (specStepD cfg.lv) (observeSpecD cfg) ([] : DEnts) hist [])
      else " ;; ".intercalate (runHistD (stepD cfg.lv) (observeModelD cfg) (DSt.init cfg.lv) hist [])
    | _, _ => "bad-case"
  | _ => "bad-case"

end chain

/-- model side: the stores over real bucket trees (`stepC`, C15/Layout.lean) with the case's shape.
    `g`: A2 registered before A1 — the state does not depend on the order
    (`stepOpXOrd_order_irrelevant`), the events are delivered in it. -/
def step (line : String) : String :=
  match splitSp line with
  | kind :: h :: rest =>
    match parseKind kind, parseHist h with
    | some (k, sh), some hist =>
      let go (evf : St → OpX → List Ev) :=
        runHist (stepC Config.current sh.sch) (absSt sh.sch) (fun stc => (obsLookups (absSt sh.sch stc), dumpC sh stc))
          StC.init evf hist []
      match k, rest with
      | "h", [] => " ;; ".intercalate (go (eventsOfXWith eventsOf))
      | "g", [] => " ;; ".intercalate (go (eventsOfXWith (eventsOfOrd true)))
      | "k", [its] =>
        match parseItems its with
        | some items =>
          " ;; ".intercalate (go (eventsOfXWith eventsOf) ++
            [itemsOut (modelItem (absSt sh.sch (runC Config.current sh.sch StC.init hist))) items])
        | none => "bad-case"
      | _, _ => "bad-case"
    | _, _ => "bad-case"
  | _ => "bad-case"

/-- spec side: the entity table; it knows neither registration order nor bucket trees — the dump
    lays each entity out by the schema -/
def specStep (line : String) : String :=
  match splitSp line with
  | kind :: h :: rest =>
    match parseKind kind, parseHist h with
    | some (k, sh), some hist =>
      let go (evf : St → OpX → List Ev) :=
        runHist specOpX derive (fun ents => (specLookups ents, dumpS sh ents)) ([] : Ents) evf hist []
      match k, rest with
      | "h", [] => " ;; ".intercalate (go (eventsOfXWith eventsOf))
      | "g", [] => " ;; ".intercalate (go (eventsOfXWith (eventsOfOrd true)))
      | "k", [its] =>
        match parseItems its with
        | some items =>
          " ;; ".intercalate (go (eventsOfXWith eventsOf) ++ [itemsOut (specItem (specRunX [] hist)) items])
        | none => "bad-case"
      | _, _ => "bad-case"
    | _, _ => "bad-case"
  | _ => "bad-case"

def run (spec : Bool) : IO Unit :=
  forEachLine fun line => if line.startsWith "t" then chainStep spec line else (if spec then specStep else step) line

end StorageModel.Driver.C15
