import StorageModel.Driver.Common
import StorageModel.Query.Wire
import StorageModel.Query.History
/- model driver for C02: `run spec` reads case lines on stdin and prints one output line per case
   (spec = false: the engine model's output; spec = true: the spec's verdict). -/
namespace StorageModel.Driver.C02
open StorageModel StorageModel.Driver StorageModel.Query StorageModel.Query.Wire

def errLine (c : Case) (alien : String := "err") : String :=
  "ids=err|idsc=err|cur=err|prov=" ++ (if c.prov.isNone then "-" else "err") ++ "|iter=err|seek=" ++
    (if c.seek.isNone then "-" else "err") ++ "|sub=" ++ (match c.prov with | some (.rel _) => "err" | _ => "-") ++
    "|alien=" ++ alien

def beforeKey (v : Bytes) (r : Row) : Bool := cmpBytes r.id v == .lt

/-- the engine model, API by API -/
def modelLine (c : Case) : String :=
  let pf := Generated.boltzPaging
  match parsePaging c.skip c.limit with
  | .error _ => errLine c
  | .ok paging =>
    -- QueryIdsC with a query object parsed against a foreign, all-accepting symbol table (filter `true`): the
    -- sort list reaches newRowComparator unvalidated
    let alien := renderExcept (queryIdsC pf c.bolt ⟨.tt, c.sort, paging⟩)
    if !sortParses c.store c.sort then errLine c alien else
    let st := c.bolt
    let q : Query := ⟨c.filter, c.sort, paging⟩
    -- the sorted-list model of the theorems, cross-checked against the llrb port (Query/Llrb.lean) on every case
    let ids :=
      let l := renderExcept (queryIdsC pf st q)
      let t := renderExcept (queryIdsCT pf st q)
      if l == t then l else s!"MODEL-SPLIT[{l}|{t}]"
    -- the query object after the first QueryIdsC: untouched when Scan returned early (no bucket)
    let paging1 := if st.bucket.isNone then paging else (setPaging pf paging).1
    let r2 := renderExcept (queryIdsC pf st { q with paging := paging1 })
    let paging2 := if st.bucket.isNone then paging1 else (setPaging pf paging1).1
    let idsc := ids ++ "/" ++ r2 ++ "/" ++ renderOpt paging2.skip ++ ":" ++ renderOpt paging2.limit
    let cur := match st.bucket with
      | none => "nobucket"
      | some rows => renderExcept (queryWithCursorC pf st q fun fwd => some (bucketCursor rows fwd))
    let prov := match c.prov with
      | none => "-"
      | some p => renderExcept (queryWithCursorC pf st q (p.provider.cursor c.indexes (st.bucket.getD [])))
    let iter := renderIds (iterateIds pf st q)
    let seek := match c.seek with
      | none => "-"
      | some v =>
        match st.bucket with
        | none => ""
        | some rows =>
          let env := st.env c.filter
          let (tg, cur0) := openPaged pf env none rows
          renderIds (drain tg env (rows.length + 1) (cur0.seek tg env (beforeKey v)))
    -- newCursorScanner: the owner's `things` set cursor, the sub-query evaluated in the linked (root) store
    let sub := match c.prov with
      | some (.rel o) =>
        if !ownerIds.contains o then "none" else
        let rows := st.bucket.getD []
        let root : BoltStore := { st with childSkip := fun _ => false }
        match (Provider.related (asciiBytes o) "things").cursor c.indexes rows true with
        | some members => renderIds (subQueryCursor pf root q members)
        | none => "nil"
      | _ => "-"
    s!"ids={ids}|idsc={idsc}|cur={cur}|prov={prov}|iter={iter}|seek={seek}|sub={sub}|alien={alien}"

/-- the specification: sort the satisfying rows, drop, take; count them.  A query with no sort field or
    with `id` first is answered in id order whatever follows; any other query whose sort list (with the
    trailing `id`) contains a field that is not a plain symbol of a sortable type fails with the error of
    the first such field. -/
def specLine (c : Case) : String :=
  match parsePaging c.skip c.limit with
  | .error _ => errLine c
  | .ok paging =>
    let schema := schemaOf c.store
    let byIdOnly : Bool := match c.sort with
      | [] => true
      | f :: _ => f.name == "id"
    let sortErr : Option SortErr :=
      if byIdOnly then none else (c.sort ++ [(⟨"id", true⟩ : SortField)]).findSome? (fieldErr schema)
    match newRowComparator schema (if byIdOnly then c.sort.take 1 else c.sort), newRowComparator schema [] with
    | cmp?, .ok byId =>
      let rows := c.modelRows
      let skip := specSkip c.skip
      let limit := specLimit c.limit
      let ans (xs : List Row) := match sortErr, cmp? with
        | some e, _ => errKind e
        | none, .ok cmp => renderIds (page cmp skip limit xs) ++ "#" ++ toString (total xs)
        | none, .error _ => "spec-error"
      -- every entity of the queried store (filter `true`), whatever the parser would say about the sort list
      let alien := if c.rows.isNone then "#0" else ans (rows.filter fun r => !c.childSkip r)
      if !sortParses c.store c.sort then errLine c alien else
      -- the entities of the queried store that satisfy the filter
      let m := rows.filter fun r => !c.childSkip r && sat r c.filter
      let ids := ans m
      let state := if c.rows.isNone then renderOpt paging.skip ++ ":" ++ renderOpt paging.limit
        else toString (skip.getD 0) ++ ":" ++ (match limitRows limit with | none => toString maxI64 | some n => toString n)
      let cur := if c.rows.isNone then "nobucket" else ids
      let prov := match c.prov with
        | none => "-"
        | some p => ans (m.filter fun r => c.inProv p r.id)
      let iter := renderIds (page byId skip limit m)
      let seek := match c.seek with
        | none => "-"
        | some v => renderIds (m.filter fun r => !beforeKey v r)
      -- the sub-query cursor of owner o: its things that satisfy the filter (in the root store), id order, paged
      let sub := match c.prov with
        | some (.rel o) =>
          if !ownerIds.contains o then "none" else
          renderIds (page byId skip limit ((rows.filter fun r => sat r c.filter).filter fun r => c.inProv (.rel o) r.id))
        | _ => "-"
      s!"ids={ids}|idsc={ids}/{ids}/{state}|cur={cur}|prov={prov}|iter={iter}|seek={seek}|sub={sub}|alien={alien}"
    | _, _ => "spec-error"

/-! ### histories on one query object:  `h <rows> <filter> <sort> <skip> <limit> <store> <op>/<op>/…`

    ops: `run` QueryIdsC | `cur` QueryWithCursorC (bucket cursor) | `it` IterateIds drained | `get` GetSortFields |
    `ad:<sort>` AdoptSortFields(parse(store, "true sort by …")) | `ada:<sort>` the same with a query parsed against
    the foreign all-accepting symbol table | `adx:<sort>` as `ad:`, the other query object having paging of its own and
    being executed / changed afterwards (a different object: no effect on this one) | `sk:<int64>` SetSkip | `li:<int64>` SetLimit | `pr:<filter>` SetPredicate.
    One output section per op. -/

/-- `none` = an `ad:` whose source query `ast.Parse` refuses (nothing is adopted; section `perr`) -/
def parseHOp (store : String) (tok : String) : Option (Option QOp) :=
  match tok.splitOn ":" with
  | ["run"] => some (some .run)
  | ["cur"] => some (some .cur)
  | ["it"] => some (some .iter)
  | ["get"] => some (some .getSort)
  | ["ad", s] => (parseSort s).map fun sort => if sortParses store sort then some (.adopt sort) else none
  | ["adx", s] => (parseSort s).map fun sort => if sortParses store sort then some (.adopt sort) else none
  | ["ada", s] => (parseSort s).map fun sort => some (.adopt sort)
  | ["sk", v] => v.toInt?.map fun v => some (.setSkip v)
  | ["li", v] => v.toInt?.map fun v => some (.setLimit v)
  | ["pr", f] => (parseFilter f).map fun f => some (.setPredicate f)
  | _ => none

def renderObs : QObs → String
  | .answer r => renderExcept r
  | .rows l => renderIds l
  | .sort _ => "."      -- a read of the sort clause is not an observation of the property; the executions after it are
  | .noBucket => "nobucket"
  | .done => "."

def weave : List (Option QOp) → List String → List String
  | [], _ => []
  | none :: r, obs => "perr" :: weave r obs
  | some _ :: r, o :: obs => o :: weave r obs
  | some _ :: r, [] => "?" :: weave r []

def histLine (spec : Bool) (toks : List String) : String :=
  match toks with
  | [rows, filter, sort, skip, limit, store, ops] =>
    match parseCase [rows, filter, sort, skip, limit, "-", "-", store], (ops.splitOn "/").mapM (parseHOp store) with
    | some c, some hops =>
      match parsePaging c.skip c.limit with
      | .error _ => "perr"
      | .ok paging =>
        if !sortParses c.store c.sort then "perr" else
        let q : Query := ⟨c.filter, c.sort, paging⟩
        let ops := hops.filterMap id
        let obs := if spec then specHistory c.bolt q ops else runHistory Generated.boltzPaging c.bolt q ops
        "|".intercalate (weave hops (obs.map renderObs))
    | _, _ => "bad-case"
  | _ => "bad-case"

def step (line : String) : String :=
  match splitSp line with
  | "q" :: rest => match parseCase rest with
    | some c => modelLine c
    | none => "bad-case"
  | "h" :: rest => histLine false rest
  | _ => "bad-case"

def specStep (line : String) : String :=
  match splitSp line with
  | "q" :: rest => match parseCase rest with
    | some c => specLine c
    | none => "bad-case"
  | "h" :: rest => histLine true rest
  | _ => "bad-case"

def run (spec : Bool) : IO Unit := forEachLine (if spec then specStep else step)

end StorageModel.Driver.C02
