import StorageModel.Driver.Common
import StorageModel.Query.Wire
/- model driver for C02: `run spec` reads case lines on stdin and prints one output line per case
   (spec = false: the engine model's output; spec = true: the spec's verdict). -/
namespace StorageModel.Driver.C02
open StorageModel StorageModel.Driver StorageModel.Query StorageModel.Query.Wire

def errLine (c : Case) : String :=
  "ids=err|idsc=err|cur=err|prov=" ++ (if c.prov.isNone then "-" else "err") ++ "|iter=err|seek=" ++
    (if c.seek.isNone then "-" else "err")

def beforeKey (v : Bytes) (r : Row) : Bool := cmpBytes r.id v == .lt

/-- the engine model, API by API -/
def modelLine (c : Case) : String :=
  let pf := Generated.boltzPaging
  match parsePaging c.skip c.limit with
  | .error _ => errLine c
  | .ok paging =>
    if !sortParses wireSchema c.sort then errLine c else
    let st := c.bolt
    let q : Query := ⟨c.filter, c.sort, paging⟩
    let ids := renderExcept (queryIdsC pf st q)
    -- the query object after the first QueryIdsC: untouched when Scan returned early (no bucket)
    let paging1 := if st.bucket.isNone then paging else (setPaging pf paging).1
    let r2 := renderExcept (queryIdsC pf st { q with paging := paging1 })
    let paging2 := if st.bucket.isNone then paging1 else (setPaging pf paging1).1
    let idsc := ids ++ "/" ++ r2 ++ "/" ++ renderOpt paging2.skip ++ ":" ++ renderOpt paging2.limit
    let cur := match st.bucket with
      | none => "nobucket"
      | some rows => renderExcept (queryWithCursorC pf st q fun fwd => some (bucketCursor rows fwd))
    let prov := match c.prov with
      | none => "-"
      | some p =>
        let sub := (st.bucket.getD []).filter fun (r : Row) => c.inProv p r.id
        renderExcept (queryWithCursorC pf st q fun fwd => some (bucketCursor sub fwd))
    let iter := renderIds (iterateIds pf st q)
    let seek := match c.seek with
      | none => "-"
      | some v =>
        match st.bucket with
        | none => ""
        | some rows =>
          let env := st.env c.filter
          let (tg, cur0) := openPaged pf env none rows
          renderIds (drain tg env (rows.length + 1) (cur0.seek tg env (beforeKey v)))
    s!"ids={ids}|idsc={idsc}|cur={cur}|prov={prov}|iter={iter}|seek={seek}"

/-- the specification: sort the satisfying rows, drop, take; count them -/
def specLine (c : Case) : String :=
  match parsePaging c.skip c.limit with
  | .error _ => errLine c
  | .ok paging =>
    if !sortParses wireSchema c.sort then errLine c else
    match newRowComparator wireSchema c.sort, newRowComparator wireSchema [] with
    | .ok cmp, .ok byId =>
      let rows := (c.rows.getD []).map (·.row)
      -- the entities of the queried store that satisfy the filter
      let m := rows.filter fun r => !c.childSkip r && sat r c.filter
      let skip := specSkip c.skip
      let limit := specLimit c.limit
      let ans (xs : List Row) := renderIds (page cmp skip limit xs) ++ "#" ++ toString (total xs)
      let ids := ans m
      let state := if c.rows.isNone then renderOpt paging.skip ++ ":" ++ renderOpt paging.limit
        else toString (skip.getD 0) ++ ":" ++ (match limitRows limit with | none => toString maxI64 | some n => toString n)
      let cur := if c.rows.isNone then "nobucket" else ids
      let prov := match c.prov with
        | none => "-"
        | some p => ans (m.filter fun r => c.inProv p r.id)
      let iter := renderIds (page byId skip limit m)
      let seek := match c.seek with
        | none => "-"
        | some v => renderIds (m.filter fun r => !beforeKey v r)
      s!"ids={ids}|idsc={ids}/{ids}/{state}|cur={cur}|prov={prov}|iter={iter}|seek={seek}"
    | _, _ => "spec-error"

def step (line : String) : String :=
  match splitSp line with
  | "q" :: rest => match parseCase rest with
    | some c => modelLine c
    | none => "bad-case"
  | _ => "bad-case"

def specStep (line : String) : String :=
  match splitSp line with
  | "q" :: rest => match parseCase rest with
    | some c => specLine c
    | none => "bad-case"
  | _ => "bad-case"

def run (spec : Bool) : IO Unit := forEachLine (if spec then specStep else step)

end StorageModel.Driver.C02
