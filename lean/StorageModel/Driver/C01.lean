import StorageModel.Driver.Common
import StorageModel.Filter.Db
/- model driver for C01: `run spec` reads case lines on stdin and prints one output line per case
   (spec = false: the engine model's output; spec = true: the spec's verdict).

   Case lines (tokens separated by one blank; byte strings hex, `-` = empty):

     m <nsym> {<name> <type> <isSet 0|1> <seekable 0|1>}* <nrows> {<row>}* <nfmt> {<bits> <hex>}* <filter> @ <zitiql-hex>
         row    = one <value> per scalar symbol / one <set> per set symbol, in symbol order
         value  = N | B0 | B1 | i32:<dec> | i64:<dec> | F:<bits> | S:<hex> | T:<nanos>:<hex>
         set    = L<k> <value>*k            (in cursor order)
         filter = prefix notation, see `parseU`
     b …  (bolt-backed store cases, see `Filter/Db.lean`)
-/
namespace StorageModel.Driver.C01
open StorageModel StorageModel.Driver StorageModel.Filter

abbrev P (α : Type) := List String → Option (α × List String)

def tok : P String
  | [] => none
  | t :: r => some (t, r)

def pNat : P Nat := fun ts => do
  let (t, r) ← tok ts
  let n ← t.toNat?
  pure (n, r)

def pInt? (s : String) : Option Int := s.toInt?

def pOptInt : P (Option Int) := fun ts => do
  let (t, r) ← tok ts
  if t = "-" then pure (none, r) else do
    let i ← pInt? t
    pure (some i, r)

def pBytes : P Bytes := fun ts => do
  let (t, r) ← tok ts
  let b ← Bytes.ofHex t
  pure (b, r)

def rep {α} (p : P α) : Nat → P (List α)
  | 0, ts => some ([], ts)
  | k + 1, ts => do
    let (a, r) ← p ts
    let (as, r') ← rep p k r
    pure (a :: as, r')

def ofBits (s : String) : Option Float := do
  let n ← s.toNat?
  pure (Float.ofBits (UInt64.ofNat n))

def afterColon (t : String) : List String := t.splitOn ":"

def pVal : P (SVal Float) := fun ts => do
  let (t, r) ← tok ts
  match afterColon t with
  | ["N"] => pure (.nil, r)
  | ["B0"] => pure (.bool false, r)
  | ["B1"] => pure (.bool true, r)
  | ["i32", d] => do let i ← pInt? d; pure (.int32 i, r)
  | ["i64", d] => do let i ← pInt? d; pure (.int64 i, r)
  | ["F", d] => do let f ← ofBits d; pure (.float f, r)
  | ["S", h] => do let b ← Bytes.ofHex h; pure (.str b, r)
  | ["T", d, h] => do let i ← pInt? d; let b ← Bytes.ofHex h; pure (.time i b, r)
  | _ => none

def pSet : P (List (SVal Float)) := fun ts => do
  let (t, r) ← tok ts
  if t.startsWith "L" then do
    let k ← (t.drop 1).toString.toNat?
    rep pVal k r
  else none

def pType (s : String) : Option NodeType :=
  match s with
  | "b" => some .bool | "t" => some .time | "f" => some .float | "i" => some .int
  | "s" => some .str | "a" => some .any | "o" => some .other
  | _ => none

def pOp (s : String) : Option Op :=
  match s with
  | "eq" => some .eq | "ne" => some .ne | "lt" => some .lt | "le" => some .le | "gt" => some .gt
  | "ge" => some .ge | "contains" => some .contains | "ncontains" => some .ncontains
  | "icontains" => some .icontains | "nicontains" => some .nicontains
  | _ => none

def pFn (s : String) : Option SetFn :=
  match s with
  | "allOf" => some .allOf | "anyOf" => some .anyOf | "count" => some .count | "isEmpty" => some .isEmpty
  | _ => none

def pLit : P (Lit Float) := fun ts => do
  let (t, r) ← tok ts
  match afterColon t with
  | ["null"] => pure (.null, r)
  | ["s", h] => do let b ← Bytes.ofHex h; pure (.str b, r)
  | ["i", d] => do let i ← pInt? d; pure (.int i, r)
  | ["f", d] => do let f ← ofBits d; pure (.float f, r)
  | ["t", d] => do let i ← pInt? d; pure (.time i, r)
  | ["b", "0"] => pure (.bool false, r)
  | ["b", "1"] => pure (.bool true, r)
  | _ => none

def pNum : P (Num Float) := fun ts => do
  let (t, r) ← tok ts
  match afterColon t with
  | ["i", d] => do let i ← pInt? d; pure (.int i, r)
  | ["f", d] => do let f ← ofBits d; pure (.float f, r)
  | _ => none

def pTimeTok : P Int := fun ts => do
  let (t, r) ← tok ts
  let i ← pInt? t
  pure (i, r)

def pArr : P (Arr Float) := fun ts => do
  let (t, r) ← tok ts
  let (k, r) ← pNat r
  match t with
  | "as" => do let (l, r) ← rep pBytes k r; pure (.strs l, r)
  | "an" => do let (l, r) ← rep pNum k r; pure (.nums l, r)
  | "at" => do let (l, r) ← rep pTimeTok k r; pure (.times l, r)
  | _ => none

/-- prefix notation of the untyped tree:
      sym n | fn f n | sub f n <nsort> {field asc|desc}* skip limit q | bc 0/1 | cmp op l lit | in l arr | bet l lo hi
      | notE e | unot e | and l r | or l r -/
partial def parseU : P (U Float) := fun ts => do
  let (t, r) ← tok ts
  match t with
  | "sym" => do let (n, r) ← tok r; pure (.sym n, r)
  | "fn" => do
    let (f, r) ← tok r; let fn ← pFn f
    let (n, r) ← tok r
    pure (.setFn fn n, r)
  | "sub" => do
    let (f, r) ← tok r; let fn ← pFn f
    let (n, r) ← tok r
    let (ns, r) ← pNat r
    let (so, r) ← rep (fun ts => do let (f, r) ← tok ts; let (d, r) ← tok r; pure ((f, d == "asc"), r)) ns r
    let (sk, r) ← pOptInt r
    let (li, r) ← pOptInt r
    let (q, r) ← parseU r
    pure (.setFnSub fn n q so sk li, r)
  | "bc" => do let (b, r) ← tok r; pure (.boolC (b == "1"), r)
  | "cmp" => do
    let (o, r) ← tok r; let op ← pOp o
    let (l, r) ← parseU r
    let (lit, r) ← pLit r
    pure (.cmp op l lit, r)
  | "in" => do
    let (l, r) ← parseU r
    let (a, r) ← pArr r
    pure (.inArr l a, r)
  | "bet" => do
    let (l, r) ← parseU r
    let (lo, r) ← pLit r
    let (hi, r) ← pLit r
    pure (.between l lo hi, r)
  | "notE" => do let (e, r) ← parseU r; pure (.notE e, r)
  | "unot" => do let (e, r) ← parseU r; pure (.unot e, r)
  | "and" => do let (a, r) ← parseU r; let (b, r) ← parseU r; pure (.logic false a b, r)
  | "or" => do let (a, r) ← parseU r; let (b, r) ← parseU r; pure (.logic true a b, r)
  | _ => none

def pFmt : P (UInt64 × Bytes) := fun ts => do
  let (t, r) ← tok ts
  let n ← t.toNat?
  let (b, r) ← pBytes r
  pure ((UInt64.ofNat n, b), r)

/-- IEEE float64 operations; `fmt` (Go's `FormatFloat(x,'f',-1,64)`) is data supplied by the harness -/
def floatOps (tbl : List (UInt64 × Bytes)) : FloatOps Float where
  eq a b := a == b
  lt a b := decide (a < b)
  le a b := decide (a ≤ b)
  ofInt := Float.ofInt
  fmt f :=
    -- NaN payloads are not preserved by `Float.toBits`: every NaN formats as "NaN" anyway
    if f.isNaN then ((tbl.find? fun e => (Float.ofBits e.1).isNaN).map (·.2)).getD (Bytes.ofString "NaN")
    else (tbl.lookup f.toBits).getD (Bytes.ofString "?")

/-! ### `m` cases: an in-memory ast.Symbols -/

structure MSym where
  name : String
  ty : NodeType
  isSet : Bool
  seekable : Bool

structure MRow where
  scalars : List (String × SVal Float)
  sets : List (String × List (SVal Float))

def pMSym : P MSym := fun ts => do
  let (n, r) ← tok ts
  let (t, r) ← tok r; let ty ← pType t
  let (s, r) ← tok r
  let (k, r) ← tok r
  pure ({ name := n, ty := ty, isSet := s == "1", seekable := k == "1" }, r)

def pMRow (syms : List MSym) : P MRow := fun ts =>
  let rec go : List MSym → MRow → P MRow
    | [], acc, ts => some (acc, ts)
    | s :: rest, acc, ts =>
      if s.isSet then
        match pSet ts with
        | some (l, r) => go rest { acc with sets := acc.sets ++ [(s.name, l)] } r
        | none => none
      else
        match pVal ts with
        | some (v, r) => go rest { acc with scalars := acc.scalars ++ [(s.name, v)] } r
        | none => none
  go syms { scalars := [], sets := [] } ts

def mSigma (syms : List MSym) : Sigma Unit where
  sym _ n := (syms.find? (·.name == n)).map fun s => (s.ty, s.isSet)
  setTypes _ _ := none

def mWorld (syms : List MSym) (useSeek : Bool) : World MRow Float where
  val c n := (c.scalars.lookup n).getD .nil
  elems c n := (c.sets.lookup n).getD []
  seekable _ n := useSeek && ((syms.find? (·.name == n)).map (·.seekable)).getD false
  subRows _ _ := []
  nilRow _ := false

structure MCase where
  syms : List MSym
  rows : List MRow
  fo : FloatOps Float
  f : U Float

def pMCase : P MCase := fun ts => do
  let (k, r) ← pNat ts
  let (syms, r) ← rep pMSym k r
  let (nr, r) ← pNat r
  let (rows, r) ← rep (pMRow syms) nr r
  let (nf, r) ← pNat r
  let (tbl, r) ← rep pFmt nf r
  let (f, r) ← parseU r
  pure ({ syms := syms, rows := rows, fo := floatOps tbl, f := f }, r)

def mStep (c : MCase) : String :=
  match typeCheck (mSigma c.syms) c.fo () c.f with
  | .err => "err"
  | .panic => "panic"
  | .ok p =>
    let w1 := mWorld c.syms true
    let w0 := mWorld c.syms false
    "ok " ++ p.shape ++ " " ++ bits (c.rows.map fun r => evalRow w1 c.fo r p) ++ " " ++
      bits (c.rows.map fun r => evalRow w0 c.fo r p)

def mSpec (c : MCase) : String :=
  let sg := mSigma c.syms
  if wellTyped sg c.fo () c.f then
    "wt " ++ bits (c.rows.map fun r => sat sg (mWorld c.syms false) c.fo () r c.f)
  else "ill"

/-! ### `b` cases: bbolt-backed stores

     b <nstores> {<store>}* <root store> <nfmt> {<bits> <hex>}* <filter> @ <zitiql-hex>
       store = <nsyms> {<name> id|field|set <type> <linked store|->}* <nmaps> {<name> <type> <key> <npfx> <pfx>*}*
               <parent store|-> <extended 0|1> <nearly> <npath> <path>* <nrows> {<row>}*
       row   = <id-hex> <nfields> {<key> <value>}* <nsets> {<key> <set>}* <nbuckets> {<key> <node>}*
       node  = v <value> | b <n> {<key> <node>}* | l <n> <node>*       (the non-set sub-buckets of the entity bucket) -/

/-- the table behind an external symbol: kind (b = NewBoolFuncSymbol, s = NewStringFuncSymbol, f = a
    custom EntitySymbol), the values for the listed ids, the value for every other id -/
structure ExtTab where
  kind : String
  entries : List (Bytes × SVal Float)
  dflt : SVal Float

def ExtTab.src (t : ExtTab) : ExtSrc Float :=
  let at_ (id : Bytes) : SVal Float := (t.entries.lookup id).getD t.dflt
  match t.kind with
  | "b" => .boolFn fun id => match at_ id with | .bool b => b | _ => false
  | "s" => .strFn fun id => match at_ id with | .str s => some s | _ => none
  | _ => .fn at_

/--   <name> id|field|set <type> <linked|->
    | <name> ext <type> - b|s|f <n> {<id-hex> <value>}*n <default value>
    | <name> mapped <type> <linked|-> <key> <mapper id> -/
def pSymDef : P ((String × SymDef) × Option ExtTab) := fun ts => do
  let (n, r) ← tok ts
  let (k, r) ← tok r
  let (t, r) ← tok r; let ty ← pType t
  let (l, r) ← tok r
  let linked : Option Nat := if l = "-" then none else l.toNat?
  match k with
  | "id" => pure (((n, .id), none), r)
  | "field" => pure (((n, .field ty linked), none), r)
  | "set" => pure (((n, .set ty linked), none), r)
  | "ext" => do
    let (fk, r) ← tok r
    let (cnt, r) ← pNat r
    let (es, r) ← rep (fun ts => do let (id, r) ← pBytes ts; let (v, r) ← pVal r; pure ((id, v), r)) cnt r
    let (d, r) ← pVal r
    pure (((n, .custom none ty none .ext), some { kind := fk, entries := es, dflt := d }), r)
  | "mapped" => do
    let (key, r) ← tok r
    let (m, r) ← pNat r
    pure (((n, .custom none ty linked (.mapped key m)), none), r)
  | _ => none

/-- the `SymbolMapper`s the harness registers: 0 = the exported `NotNilStringMapper`; 1 = strings get the
    prefix "M"; 2 = bools are negated, everything else becomes null -/
def mapperOf (m : Nat) (v : SVal Float) : SVal Float :=
  match m, v with
  | 0, .nil => .str []
  | 0, v => v
  | 1, .str s => .str (77 :: s)
  | 1, v => v
  | _, .bool b => .bool (!b)
  | _, _ => .nil

def pMapDef : P (String × MapDef) := fun ts => do
  let (n, r) ← tok ts
  let (t, r) ← tok r; let ty ← pType t
  let (k, r) ← tok r
  let (np, r) ← pNat r
  let (pfx, r) ← rep tok np r
  pure ((n, { ty := ty, key := k, pfx := pfx }), r)

def pKV : P (String × SVal Float) := fun ts => do
  let (k, r) ← tok ts
  let (v, r) ← pVal r
  pure ((k, v), r)

def pKSet : P (String × List (SVal Float)) := fun ts => do
  let (k, r) ← tok ts
  let (v, r) ← pSet r
  pure ((k, v), r)

/-- node = v <value> | b <n> {<key> <node>}*n | l <n> <node>*n   (a list is a bucket keyed by its
    indices and the list-size key, which no identifier spells: `#0`, `#1`, …, `#size`) -/
partial def pNode : P (MNode Float) := fun ts => do
  let (t, r) ← tok ts
  match t with
  | "v" => do let (v, r) ← pVal r; pure (.val v, r)
  | "b" => do
    let (n, r) ← pNat r
    let (kids, r) ← rep (fun ts => do let (k, r) ← tok ts; let (nd, r) ← pNode r; pure ((k, nd), r)) n r
    pure (.bucket kids, r)
  | "l" => do
    let (n, r) ← pNat r
    let (items, r) ← rep pNode n r
    let kids := (List.range n).zip items |>.map fun (i, nd) => ("#" ++ toString i, nd)
    pure (.bucket (kids ++ [("#size", .val (.int32 n))]), r)
  | _ => none

def pKMap : P (String × MNode Float) := fun ts => do
  let (k, r) ← tok ts
  let (nd, r) ← pNode r
  pure ((k, nd), r)

def pEntity : P (Entity Float) := fun ts => do
  let (id, r) ← pBytes ts
  let (nf, r) ← pNat r
  let (fields, r) ← rep pKV nf r
  let (ns, r) ← pNat r
  let (sets, r) ← rep pKSet ns r
  let (nm, r) ← pNat r
  let (maps, r) ← rep pKMap nm r
  pure ({ id := id, fields := fields, sets := sets, maps := maps }, r)

/-- a store as registered: own symbols (the first `nearly` before `parent.GrantSymbols(child)`), own
    map symbols (after it), parent, extended -/
structure RawStore where
  syms : List (String × SymDef)
  exts : List (String × ExtTab)
  maps : List (String × MapDef)
  parent : Option Nat
  extended : Bool
  nearly : Nat

def pStore : P (RawStore × List (Entity Float)) := fun ts => do
  let (k, r) ← pNat ts
  let (symsT, r) ← rep pSymDef k r
  let syms := symsT.map (·.1)
  let exts := symsT.filterMap fun e => e.2.map fun t => (e.1.1, t)
  let (nm, r) ← pNat r
  let (maps, r) ← rep pMapDef nm r
  let (par, r) ← tok r
  let (ext, r) ← tok r
  let (nearly, r) ← pNat r
  let (np, r) ← pNat r
  let (_path, r) ← rep tok np r          -- where the child data lives: used by the harness only
  let (nr, r) ← pNat r
  let (rows, r) ← rep pEntity nr r
  pure (({ syms := syms, exts := exts, maps := maps, parent := if par = "-" then none else par.toNat?, extended := ext == "1",
           nearly := nearly }, rows), r)

/-- the symbol tables after registration, stores in index order (a parent precedes its children):
    `symbols.Put` replaces an entry of the same name, i.e. the latest registration is found first -/
def buildDefs (raws : List RawStore) : List StoreDef :=
  raws.foldl (fun acc rs =>
    let early : StoreDef := { syms := (rs.syms.take rs.nearly).reverse, maps := [], parent := rs.parent, extended := rs.extended }
    let granted := match rs.parent.bind (fun p => acc[p]?.map fun pd => grantSymbols p pd early) with
      | some g => g
      | none => early
    acc ++ [{ granted with syms := (rs.syms.drop rs.nearly).reverse ++ granted.syms, maps := rs.maps.reverse ++ granted.maps }]) []

structure BCase where
  db : Db Float
  root : Nat
  fo : FloatOps Float
  f : U Float

def pBCase : P BCase := fun ts => do
  let (k, r) ← pNat ts
  let (stores, r) ← rep pStore k r
  let (root, r) ← pNat r
  let (nf, r) ← pNat r
  let (tbl, r) ← rep pFmt nf r
  let (f, r) ← parseU r
  let raws := stores.map (·.1)
  let tabs : List ((Nat × String) × ExtTab) :=
    ((List.range raws.length).zip raws).flatMap fun (i, rs) => rs.exts.map fun (n, t) => ((i, n), t)
  let ext : Nat → String → ExtSrc Float := fun st n =>
    match tabs.find? (fun e => e.1.1 == st && e.1.2 == n) with
    | some e => e.2.src
    | none => .fn fun _ => .nil
  pure ({ db := { defs := buildDefs raws, rows := stores.map (·.2), ext := ext, mappers := mapperOf },
          root := root, fo := floatOps tbl, f := f }, r)

def idsText (ids : List Bytes) : String :=
  if ids.isEmpty then "-" else ",".intercalate (ids.map Bytes.toWire)

def bStepModel (c : BCase) : String :=
  match query c.db c.fo c.root c.f with
  | .err => "err"
  | .panic => "panic"
  | .ok ids =>
    match typeCheck (dbSigma c.db.defs) c.fo c.root c.f with
    | .ok p => "ok " ++ p.shape ++ " " ++ idsText ids ++ " " ++ idsText ids
    | _ => "err"

/-- the proviso of `query_exact_partial` -/
def hypFlags (c : BCase) : String :=
  if extNamesOK c.db.defs c.root c.f then "" else " H:extlink"

def bStepSpec (c : BCase) : String :=
  if wellTyped (dbSpecSigma c.db.defs) c.fo c.root c.f then
    "wt " ++ idsText (specQuery c.db c.fo c.root c.f) ++ " n=" ++ toString (entitiesOf c.db c.root).length ++
      hypFlags c ++
      (if isChild c.db.defs c.root then " R:child" else "")
  else "ill n=" ++ toString (entitiesOf c.db c.root).length

def bStep (spec : Bool) (ts : List String) : String :=
  match pBCase ts with
  | some (c, _) => if spec then bStepSpec c else bStepModel c
  | none => "bad-case"

def step (line : String) : String :=
  match splitSp line with
  | "m" :: rest =>
    (match pMCase rest with
     | some (c, _) => mStep c
     | none => "bad-case")
  | "b" :: rest => bStep false rest
  | _ => "bad-case"

def specStep (line : String) : String :=
  match splitSp line with
  | "m" :: rest =>
    (match pMCase rest with
     | some (c, _) => mSpec c
     | none => "bad-case")
  | "b" :: rest => bStep true rest
  | _ => "bad-case"

def run (spec : Bool) : IO Unit := forEachLine (if spec then specStep else step)

end StorageModel.Driver.C01
