import StorageModel.Driver.Common
import StorageModel.C03.Model
import StorageModel.C03.Spec
/- model driver for C03: `run spec` reads case lines on stdin and prints one output line per case
   (spec = false: the engine model's output; spec = true: the spec's verdict).
   Line protocol: see /verif/harness/c03.go. -/
namespace StorageModel.Driver.C03
open StorageModel StorageModel.Driver StorageModel.C03

def hexB (b : Bytes) : String := Bytes.toWire b

def listW (l : List Bytes) : String :=
  if l.isEmpty then "." else "+".intercalate (l.map hexB)

def parseList (s : String) : Option (List Bytes) :=
  if s = "." then some [] else (s.splitOn "+").mapM Bytes.ofHex

def parseOpt (s : String) : Option (Option Bytes) :=
  if s = "~" then some none else (Bytes.ofHex s).map some

def parseChk (s : String) : Option Checker :=
  if s = "*" then none
  else some ⟨s.toList.contains 'n', s.toList.contains 'a', s.toList.contains 'r'⟩

def parseOp (s : String) : Option Op :=
  match s.splitOn ":" with
  | ["c", id, n, a, r] => do
    pure (.create (← Bytes.ofHex id) ⟨← Bytes.ofHex n, ← parseOpt a, ← parseList r⟩)
  | ["u", id, n, a, r, c] => do
    pure (.update (← Bytes.ofHex id) ⟨← Bytes.ofHex n, ← parseOpt a, ← parseList r⟩ (parseChk c))
  | ["d", id] => do pure (.delete (← Bytes.ofHex id))
  | _ => none

def parseTxs (s : String) : Option (List (List Op)) :=
  (s.splitOn "|").mapM fun t => (t.splitOn ",").mapM parseOp

def errName : Err → String
  | .dup => "dup" | .nullNotAllowed => "null" | .notFound => "notfound"
  | .exists => "exists" | .refExists => "refexists" | .other => "other" | .panic => "panic"

def pathW (p : List Bytes) : String := "/".intercalate (p.map hexB)

def lineW : Line → String
  | .bucket p => "B:" ++ pathW p
  | .kv p k v => "K:" ++ pathW (p ++ [k]) ++ "=" ++ hexB v

def sortStrings (l : List String) : List String := l.mergeSort (fun a b => decide (a ≤ b))

def dumpW (ls : List Line) : String :=
  if ls.isEmpty then "." else ",".intercalate (sortStrings (ls.map lineW))

def optIdW : Option Bytes → String
  | none => "~"
  | some b => hexB b

/-- `ReadIndex.Read`, `SetReadIndex.Read` (ids sorted), `ReadKeys` -/
def readsW (vals : List Bytes) (uName uAlias : Map Bytes Id) (sRoles : Map Bytes (List Id)) : String :=
  let per := vals.map fun v =>
    "n:" ++ hexB v ++ "=" ++ optIdW (uName.lookup v) ++ ";a:" ++ hexB v ++ "=" ++ optIdW (uAlias.lookup v) ++
    ";r:" ++ hexB v ++ "=" ++ listW (setOf ((sRoles.lookup v).getD [])) ++ ";"
  String.join per ++ "k=" ++ listW (setOf (Map.keys sRoles))

def logW (calls : List (Id × List Bytes × List Bytes)) : String :=
  if calls.isEmpty then "."
  else ",".intercalate (calls.map fun c => hexB c.1 ++ ":" ++ listW c.2.1 ++ ":" ++ listW c.2.2)

/-- listener calls of a transaction body, including those of the failing operation -/
def txLog : State → List Op → List (Id × List Bytes × List Bytes)
  | _, [] => []
  | s, op :: rest =>
    listenerCalls s op ++ (match stepRaw s op with
      | .ok s' => txLog s' rest
      | .error _ => [])

def resW (s : State) (ops : List Op) : String :=
  match applyOps s ops 0 with
  | .ok _ => "ok"
  | .error (i, e) => "err:" ++ errName e ++ "@" ++ toString i

def runModel (vals : List Bytes) (txs : List (List Op)) : String :=
  let rec go (s : State) (prev : String) (txs : List (List Op)) (acc : List String) : List String :=
    match txs with
    | [] => acc.reverse
    | ops :: rest =>
      let s' := (txStep s ops).1
      let dump := dumpW (Render s')
      let shown := if dump == prev then "=" else dump
      let rec_ := resW s ops ++ "#" ++ shown ++ "#" ++ readsW vals s'.uName s'.uAlias s'.sRoles ++ "#" ++ logW (txLog s ops)
      go s' dump rest (rec_ :: acc)
  "|".intercalate (go State.empty "" txs [])

/-! spec side: the entity table alone; indexes, reads and dump are *derived* from it -/

def specResW (t : Spec.SState) (ops : List Op) : String :=
  match Spec.applyOps t ops 0 with
  | .ok _ => "ok"
  | .error (i, es) => "err:" ++ "/".intercalate (es.map errName) ++ "@" ++ toString i

def runSpec (vals : List Bytes) (txs : List (List Op)) : String :=
  let rec go (t : Spec.SState) (prev : String) (txs : List (List Op)) (acc : List String) : List String :=
    match txs with
    | [] => acc.reverse
    | ops :: rest =>
      let t' := (Spec.txStep t ops).1
      let dump := dumpW (Spec.render t')
      let shown := if dump == prev then "=" else dump
      let rec_ := specResW t ops ++ "#" ++ shown ++ "#" ++
        readsW vals (Spec.nameIndex t'.ents) (Spec.aliasIndex t'.ents) (Spec.rolesIndex t'.ents) ++ "#-"
      go t' dump rest (rec_ :: acc)
  "|".intercalate (go Spec.SState.empty "" txs [])

def stepWith (f : List Bytes → List (List Op) → String) (line : String) : String :=
  match splitSp line with
  | ["h", vals, txs] =>
    match parseList vals, parseTxs txs with
    | some vs, some ts => f vs ts
    | _, _ => "bad-case"
  | _ => "bad-case"

def step (line : String) : String := stepWith runModel line
def specStep (line : String) : String := stepWith runSpec line

def run (spec : Bool) : IO Unit := forEachLine (if spec then specStep else step)

end StorageModel.Driver.C03
