import StorageModel.Driver.Common
import StorageModel.C03.Layered
import StorageModel.C03.LayeredSpec
import StorageModel.C03.Chain
/- model driver for C03: `run spec` reads case lines on stdin and prints one output line per case
   (spec = false: the engine model's output; spec = true: the spec's verdict).
   Line protocol: see /verif/harness/c03.go. -/
namespace StorageModel.Driver.C03
open StorageModel StorageModel.Driver StorageModel.C03.Layered
open StorageModel.C03 (Map Id Ent Vals Err Line setOf)

def hexB (b : Bytes) : String := Bytes.toWire b

def listW (l : List Bytes) : String :=
  if l.isEmpty then "." else "+".intercalate (l.map hexB)

def parseList (s : String) : Option (List Bytes) :=
  if s = "." then some [] else (s.splitOn "+").mapM Bytes.ofHex

def parseOpt (s : String) : Option (Option Bytes) :=
  if s = "~" then some none else (Bytes.ofHex s).map some

/-- the registration string: the registered indexes in registration order, letters `n a r`
    (`-`: none); the slots that are not registered are put last (their place does not matter) -/
def parseOrder (s : String) : Option (Bool × Bool × Bool × Perm) :=
  let ls := s.toList.filter (fun c => c == 'n' || c == 'a' || c == 'r')
  let full := ls ++ (['n', 'a', 'r'].filter (fun c => !ls.contains c))
  let perm : Option Perm :=
    match full with
    | ['n', 'a', 'r'] => some .nar | ['n', 'r', 'a'] => some .nra | ['a', 'n', 'r'] => some .anr
    | ['a', 'r', 'n'] => some .arn | ['r', 'n', 'a'] => some .rna | ['r', 'a', 'n'] => some .ran
    | _ => none
  perm.map fun p => (ls.contains 'n', ls.contains 'a', ls.contains 'r', p)

/-- the schema: `<names>[;<base path>;<registration>[;<spare capacity>]]` — eleven names (name: sym key chk,
    alias: sym key chk, roles: sym key chk, tag: key chk), the base path (default `u`), the registered
    indexes in registration order (default `nar`); the spare capacity of the base-path slice handed
    to the real store means nothing to the model -/
def parseSchema (s : String) : Option Schema :=
  let parts := s.splitOn ";"
  let names := parts.headD ""
  let base := (parts.drop 1).headD "75"
  let order := (parts.drop 2).headD "nar"
  match parseList names, parseList base, parseOrder order with
  | some [a, b, c, d, e, f, g, h, i, j, k], some bp, some (rn, ra, rr, p) =>
    some ⟨bp, ⟨a, b, c⟩, ⟨d, e, f⟩, ⟨g, h, i⟩, j, k, rn, ra, rr, p⟩
  | _, _, _ => none

/-- a checker: `*` = nil; otherwise letters naming fields —
    n a r t: the caller-side name of name / alias / roles / tag,
    N A R T: the stored key, x y z: the symbol name; any other letter (`0`) names nothing -/
def parseChk (sch : Schema) (s : String) : Option (List Bytes) :=
  if s = "*" then none
  else some (s.toList.filterMap fun c =>
    match c with
    | 'n' => some sch.name.chk | 'a' => some sch.alias.chk | 'r' => some sch.roles.chk | 't' => some sch.tagChk
    | 'N' => some sch.name.key | 'A' => some sch.alias.key | 'R' => some sch.roles.key | 'T' => some sch.tagKey
    | 'x' => some sch.name.sym | 'y' => some sch.alias.sym | 'z' => some sch.roles.sym
    | _ => none)

def parseOp (sch : Schema) (s : String) : Option Op :=
  match s.splitOn ":" with
  | ["c", id, n, a, r] => do
    pure (.create .parent (← Bytes.ofHex id) ⟨← Bytes.ofHex n, ← parseOpt a, ← parseList r⟩ [])
  | ["C", id, n, a, r, t] => do
    pure (.create .child (← Bytes.ofHex id) ⟨← Bytes.ofHex n, ← parseOpt a, ← parseList r⟩ (← Bytes.ofHex t))
  | ["u", id, n, a, r, c] => do
    pure (.update .parent (← Bytes.ofHex id) ⟨← Bytes.ofHex n, ← parseOpt a, ← parseList r⟩ [] (parseChk sch c))
  | ["U", id, n, a, r, t, c] => do
    pure (.update .child (← Bytes.ofHex id) ⟨← Bytes.ofHex n, ← parseOpt a, ← parseList r⟩ (← Bytes.ofHex t) (parseChk sch c))
  | ["d", id] => do pure (.delete .parent (← Bytes.ofHex id))
  | ["D", id] => do pure (.delete .child (← Bytes.ofHex id))
  | _ => none

def parseTxs (sch : Schema) (s : String) : Option (List (List Op)) :=
  (s.splitOn "|").mapM fun t => (t.splitOn ",").mapM (parseOp sch)

def errName : Err → String
  | .dup => "dup" | .nullNotAllowed => "null" | .notFound => "notfound"
  | .exists => "exists" | .refExists => "refexists" | .other => "other" | .panic => "panic"

def pathW (p : List Bytes) : String := "/".intercalate (p.map hexB)

def lineW : Line → String
  | .bucket p => "B:" ++ pathW p
  | .kv p k v => "K:" ++ pathW (p ++ [k]) ++ "=" ++ hexB v

def sortStrings (l : List String) : List String := l.mergeSort (fun a b => decide (a ≤ b))

def dumpW (ls : List Line) : String :=
  if ls.isEmpty then "." else ",".intercalate (sortStrings (ls.map lineW))

def optIdW : Option Bytes → String
  | none => "~"
  | some b => hexB b

/-- `ReadIndex.Read`, `SetReadIndex.Read` (ids sorted), `ReadKeys` -/
def readsW (vals : List Bytes) (uName uAlias : Map Bytes Id) (sRoles : Map Bytes (List Id)) : String :=
  let per := vals.map fun v =>
    "n:" ++ hexB v ++ "=" ++ optIdW (uName.lookup v) ++ ";a:" ++ hexB v ++ "=" ++ optIdW (uAlias.lookup v) ++
    ";r:" ++ hexB v ++ "=" ++ listW (setOf ((sRoles.lookup v).getD [])) ++ ";"
  String.join per ++ "k=" ++ listW (setOf (Map.keys sRoles))

def logW (calls : List (Id × List Bytes × List Bytes)) : String :=
  if calls.isEmpty then "."
  else ",".intercalate (calls.map fun c => hexB c.1 ++ ":" ++ listW c.2.1 ++ ":" ++ listW c.2.2)

/-- listener calls of a transaction body, including those of the failing operation -/
def txLog (sch : Schema) : State → List Op → List (Id × List Bytes × List Bytes)
  | _, [] => []
  | s, op :: rest =>
    listenerCalls sch s op ++ (match stepRaw sch s op with
      | .ok s' => txLog sch s' rest
      | .error _ => [])

def resW (sch : Schema) (s : State) (ops : List Op) : String :=
  match applyOps sch s ops 0 with
  | .ok _ => "ok"
  | .error (i, e) => "err:" ++ errName e ++ "@" ++ toString i

def runModel (sch : Schema) (vals : List Bytes) (txs : List (List Op)) : String :=
  let rec go (s : State) (prev : String) (txs : List (List Op)) (acc : List String) : List String :=
    match txs with
    | [] => acc.reverse
    | ops :: rest =>
      let s' := (txStep sch s ops).1
      let dump := dumpW (Render sch s')
      let shown := if dump == prev then "=" else dump
      let rec_ := resW sch s ops ++ "#" ++ shown ++ "#" ++ readsW vals s'.base.uName s'.base.uAlias s'.base.sRoles ++ "#" ++
        logW (txLog sch s ops)
      go s' dump rest (rec_ :: acc)
  "|".intercalate (go State.empty "" txs [])

/-! spec side: the entity table alone; indexes, reads and dump are *derived* from it -/

def specResW (sch : Schema) (t : Spec.SState) (ops : List Op) : String :=
  match Spec.applyOps sch t ops 0 with
  | .ok _ => "ok"
  | .error (i, es) => "err:" ++ "/".intercalate (es.map errName) ++ "@" ++ toString i

def runSpec (sch : Schema) (vals : List Bytes) (txs : List (List Op)) : String :=
  let rec go (t : Spec.SState) (prev : String) (txs : List (List Op)) (acc : List String) : List String :=
    match txs with
    | [] => acc.reverse
    | ops :: rest =>
      let t' := (Spec.txStep sch t ops).1
      let dump := dumpW (Spec.render sch t')
      let shown := if dump == prev then "=" else dump
      let rec_ := specResW sch t ops ++ "#" ++ shown ++ "#" ++
        readsW vals (Spec.nameIndex sch t'.ents) (Spec.aliasIndex sch t'.ents) (Spec.rolesIndex sch t'.ents) ++ "#-"
      go t' dump rest (rec_ :: acc)
  "|".intercalate (go Spec.SState.empty "" txs [])

/-! store chains (`k` lines; harness/c03_chain.go) -/
namespace ChainDrv

def parseRecs : List String → Option (List C03.Chain.Rec)
  | [] => some []
  | u :: s :: rest => do
    let r ← parseRecs rest
    pure (⟨← Bytes.ofHex u, ← parseList s⟩ :: r)
  | _ => none

def parseSel (s : String) : Option (List C03.Chain.Sel) :=
  if s = "*" then none
  else some (s.toList.map fun c => ⟨c == 'b' || c == 'u', c == 'b' || c == 's'⟩)

def parseOp (s : String) : Option C03.Chain.Op :=
  match s.splitOn ":" with
  | "c" :: id :: rest => do pure (.create (← Bytes.ofHex id) (← parseRecs rest))
  | "u" :: id :: chk :: rest => do pure (.update (← Bytes.ofHex id) (← parseRecs rest) (parseSel chk))
  | ["d", id, _] => do pure (.delete (← Bytes.ofHex id))
  | _ => none

def parseTxs (s : String) : Option (List (List C03.Chain.Op)) :=
  (s.splitOn "|").mapM fun t => (t.splitOn ",").mapM parseOp

def readsLevels (vals : List Bytes) : Nat → List (Map Bytes Id × Map Bytes (List Id)) → String
  | _, [] => "e"
  | j, (uq, st) :: rest =>
    String.join (vals.map fun v =>
      "u" ++ toString j ++ ":" ++ hexB v ++ "=" ++ optIdW (uq.lookup v) ++ ";s" ++ toString j ++ ":" ++ hexB v ++ "=" ++
      listW (setOf ((st.lookup v).getD [])) ++ ";") ++ readsLevels vals (j + 1) rest

def resW (s : C03.Chain.State) (ops : List C03.Chain.Op) : String :=
  match C03.Chain.applyOps s ops 0 with
  | .ok _ => "ok"
  | .error (i, e) => "err:" ++ errName e ++ "@" ++ toString i

def runModel (vals : List Bytes) (txs : List (List C03.Chain.Op)) : String :=
  let rec go (s : C03.Chain.State) (prev : String) (txs : List (List C03.Chain.Op)) (acc : List String) : List String :=
    match txs with
    | [] => acc.reverse
    | ops :: rest =>
      let s' := (C03.Chain.txStep s ops).1
      let dump := dumpW (C03.Chain.Render s')
      let shown := if dump == prev then "=" else dump
      let rec_ := resW s ops ++ "#" ++ shown ++ "#" ++ readsLevels vals 0 (s'.levels.map fun L => (L.uniq, L.set)) ++ "#."
      go s' dump rest (rec_ :: acc)
  "|".intercalate (go (C03.Chain.State.empty 3) "" txs [])

def specResW (t : C03.Chain.Spec.SState) (ops : List C03.Chain.Op) : String :=
  match C03.Chain.Spec.applyOps t ops 0 with
  | .ok _ => "ok"
  | .error (i, es) => "err:" ++ "/".intercalate (es.map errName) ++ "@" ++ toString i

def runSpec (vals : List Bytes) (txs : List (List C03.Chain.Op)) : String :=
  let rec go (t : C03.Chain.Spec.SState) (prev : String) (txs : List (List C03.Chain.Op)) (acc : List String) : List String :=
    match txs with
    | [] => acc.reverse
    | ops :: rest =>
      let t' := (C03.Chain.Spec.txStep t ops).1
      let dump := dumpW (C03.Chain.Spec.render t')
      let shown := if dump == prev then "=" else dump
      let rec_ := specResW t ops ++ "#" ++ shown ++ "#" ++
        readsLevels vals 0 (t'.tables.map fun tb => (C03.Chain.Spec.uniqIndex tb, C03.Chain.Spec.setIndex tb)) ++ "#-"
      go t' dump rest (rec_ :: acc)
  "|".intercalate (go (C03.Chain.Spec.SState.empty 3) "" txs [])

def stepLine (spec : Bool) (vals txs : String) : String :=
  match parseList vals, parseTxs txs with
  | some vs, some ts => if spec then runSpec vs ts else runModel vs ts
  | _, _ => "bad-case"

end ChainDrv

def stepWith (f : Schema → List Bytes → List (List Op) → String) (line : String) : String :=
  match splitSp line with
  | ["k", vals, txs] => ChainDrv.stepLine false vals txs
  | ["h", vals, txs] =>
    match parseList vals, parseTxs Schema.plain txs with
    | some vs, some ts => f Schema.plain vs ts
    | _, _ => "bad-case"
  | ["h", vals, schema, txs] =>
    match parseSchema schema with
    | none => "bad-case"
    | some sch =>
      match parseList vals, parseTxs sch txs with
      | some vs, some ts => f sch vs ts
      | _, _ => "bad-case"
  | _ => "bad-case"

def step (line : String) : String := stepWith runModel line
def specStep (line : String) : String :=
  match splitSp line with
  | ["k", vals, txs] => ChainDrv.stepLine true vals txs
  | _ => stepWith runSpec line

def run (spec : Bool) : IO Unit := forEachLine (if spec then specStep else step)

end StorageModel.Driver.C03
