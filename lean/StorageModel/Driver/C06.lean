import StorageModel.Driver.Common
import StorageModel.C06.Model
import StorageModel.C06.NoTrace
import StorageModel.C06.Depth
/- model driver for C06: `run spec` reads case lines on stdin and prints one output line per case
   (spec = false: the engine model's output; spec = true: the spec's verdict).
   Line protocol: see /verif/harness/c06.go. -/
namespace StorageModel.Driver.C06
open StorageModel StorageModel.Driver StorageModel.C06
open StorageModel.C03 (Map Id Err Line setOf)

def hexB (b : Bytes) : String := Bytes.toWire b

def listW (l : List Bytes) : String :=
  if l.isEmpty then "." else "+".intercalate (l.map hexB)

def parseList (s : String) : Option (List Bytes) :=
  if s = "." then some [] else (s.splitOn "+").mapM Bytes.ofHex

def parseOpt (s : String) : Option (Option Bytes) :=
  if s = "~" then some none else (Bytes.ofHex s).map some

def parseChkA (s : String) : Option ChkA :=
  if s = "*" then none
  else
    let c := s.toList
    some ⟨c.contains 'n', c.contains 'a', c.contains 'r', c.contains 'o', c.contains 'd', c.contains 'g', c.contains 'b', c.contains 'h'⟩

/-- `b`, `h`: the optional trailing boss and chief fields (absent = nil) -/
def parseVals (n a r o d g : String) (b : String := "~") (h : String := "~") : Option ValsA := do
  pure ⟨← Bytes.ofHex n, ← parseOpt a, ← parseList r, ← parseOpt o, ← parseOpt d, ← parseList g, ← parseOpt b, ← parseOpt h⟩

def parseOp (s : String) : Option Op :=
  match s.splitOn ":" with
  | ["ca", id, n, a, r, o, d, g] => do pure (.createA (← Bytes.ofHex id) (← parseVals n a r o d g))
  | ["ua", id, n, a, r, o, d, g, c] => do pure (.updateA (← Bytes.ofHex id) (← parseVals n a r o d g) (parseChkA c))
  | ["cc", id, n, a, r, o, d, g, code, pals] => do
    pure (.createA1 (← Bytes.ofHex id) (← parseVals n a r o d g) (← Bytes.ofHex code) (← parseList pals))
  | ["ca", id, n, a, r, o, d, g, b] => do pure (.createA (← Bytes.ofHex id) (← parseVals n a r o d g b))
  | ["ua", id, n, a, r, o, d, g, c, b] => do pure (.updateA (← Bytes.ofHex id) (← parseVals n a r o d g b) (parseChkA c))
  | ["cc", id, n, a, r, o, d, g, code, pals, b] => do
    pure (.createA1 (← Bytes.ofHex id) (← parseVals n a r o d g b) (← Bytes.ofHex code) (← parseList pals))
  | ["ca", id, n, a, r, o, d, g, b, h] => do pure (.createA (← Bytes.ofHex id) (← parseVals n a r o d g b h))
  | ["ua", id, n, a, r, o, d, g, c, b, h] => do pure (.updateA (← Bytes.ofHex id) (← parseVals n a r o d g b h) (parseChkA c))
  | ["cc", id, n, a, r, o, d, g, code, pals, b, h] => do
    pure (.createA1 (← Bytes.ofHex id) (← parseVals n a r o d g b h) (← Bytes.ofHex code) (← parseList pals))
  | ["c2", id, n, a, r, o, d, g, col, b, h] => do pure (.createA2 (← Bytes.ofHex id) (← parseVals n a r o d g b h) (← Bytes.ofHex col))
  | ["u2", id, n, a, r, o, d, g, col, c, b, h] => do
    pure (.updateA2 (← Bytes.ofHex id) (← parseVals n a r o d g b h) (← Bytes.ofHex col) (parseChkA c) (c.toList.contains 'c'))
  | ["c2", id, n, a, r, o, d, g, col] => do pure (.createA2 (← Bytes.ofHex id) (← parseVals n a r o d g) (← Bytes.ofHex col))
  | ["c2", id, n, a, r, o, d, g, col, b] => do pure (.createA2 (← Bytes.ofHex id) (← parseVals n a r o d g b) (← Bytes.ofHex col))
  | ["u2", id, n, a, r, o, d, g, col, c] => do
    pure (.updateA2 (← Bytes.ofHex id) (← parseVals n a r o d g) (← Bytes.ofHex col) (parseChkA c) (c.toList.contains 'c'))
  | ["u2", id, n, a, r, o, d, g, col, c, b] => do
    pure (.updateA2 (← Bytes.ofHex id) (← parseVals n a r o d g b) (← Bytes.ofHex col) (parseChkA c) (c.toList.contains 'c'))
  | ["d2", id] => do pure (.deleteA (← Bytes.ofHex id))
  | ["pa", id, ks] => do pure (.addPeers (← Bytes.ofHex id) (← parseList ks))
  | ["pr", id, ks] => do pure (.removePeers (← Bytes.ofHex id) (← parseList ks))
  | ["ps", id, ks] => do pure (.setPeers (← Bytes.ofHex id) (← parseList ks))
  | ["ms", id, ks] => do pure (.setMentors (← Bytes.ofHex id) (← parseList ks))
  | ["ri", a, b] => do pure (.rcInc (← Bytes.ofHex a) (← Bytes.ofHex b))
  | ["rd", a, b] => do pure (.rcDec (← Bytes.ofHex a) (← Bytes.ofHex b))
  | ["rs", a, b, n] => do pure (.rcSet (← Bytes.ofHex a) (← Bytes.ofHex b) (← n.toNat?))
  | ["da", id] => do pure (.deleteA (← Bytes.ofHex id))
  | ["dc", id] => do pure (.deleteA (← Bytes.ofHex id))
  | ["cb", id, l] => do pure (.createB (← Bytes.ofHex id) (← parseOpt l))
  | ["ub", id, l, c] => do
    pure (.updateB (← Bytes.ofHex id) (← parseOpt l) (if c = "*" then none else some (c.toList.contains 'l')))
  | ["db", id] => do pure (.deleteB (← Bytes.ofHex id))
  | _ => none

def parseTxs (s : String) : Option (List (List Op)) :=
  (s.splitOn "|").mapM fun t => (t.splitOn ",").mapM parseOp

/-- how a schema variant turns a case's value of `alias` / `code` / `colour` / `label` into the raw stored
    bytes: the identity for string symbols; for the typed variant the fixed-width little-endian form
    (the harness hands `SetInt64` / `SetInt32` / `SetFloat64` the number with these little-endian digits) -/
structure Enc where
  alias : Bytes → Bytes := id
  code : Bytes → Bytes := id
  colour : Bytes → Bytes := id
  label : Bytes → Bytes := id

def Enc.typedV : Enc := ⟨padTo 8, padTo 4, padTo 8, padTo 4⟩

def encVals (en : Enc) (v : ValsA) : ValsA := { v with alias := v.alias.map en.alias }

def encOp (en : Enc) : Op → Op
  | .createA id v => .createA id (encVals en v)
  | .updateA id v chk => .updateA id (encVals en v) chk
  | .createA1 id v code pals => .createA1 id (encVals en v) (en.code code) pals
  | .createA2 id v colour => .createA2 id (encVals en v) (en.colour colour)
  | .updateA2 id v colour chk cc => .updateA2 id (encVals en v) (en.colour colour) chk cc
  | .createB id l => .createB id (l.map en.label)
  | .updateB id l chk => .updateB id (l.map en.label) chk
  | op => op

def errName : Err → String
  | .dup => "dup" | .nullNotAllowed => "null" | .notFound => "notfound"
  | .exists => "exists" | .refExists => "refexists" | .other => "other" | .panic => "panic"

def pathW (p : List Bytes) : String := "/".intercalate (p.map hexB)

def lineW : Line → String
  | .bucket p => "B:" ++ pathW p
  | .kv p k v => "K:" ++ pathW (p ++ [k]) ++ "=" ++ hexB v

def sortStrings (l : List String) : List String := l.mergeSort (fun a b => decide (a ≤ b))

def dumpW (ls : List Line) : String :=
  if ls.isEmpty then "." else ",".intercalate (sortStrings (ls.map lineW))

def optIdW : Option Bytes → String
  | none => "~"
  | some b => hexB b

def readsW (en : Enc) (vals : List Bytes) (s : State) : String :=
  let per := vals.map fun v =>
    "n:" ++ hexB v ++ "=" ++ optIdW (s.uName.lookup v) ++ ";a:" ++ hexB v ++ "=" ++ optIdW (s.uAlias.lookup (en.alias v)) ++
    ";c:" ++ hexB v ++ "=" ++ optIdW (s.uCode.lookup (en.code v)) ++ ";l:" ++ hexB v ++ "=" ++ optIdW (s.uLabel.lookup (en.label v)) ++
    ";x:" ++ hexB v ++ "=" ++ optIdW (s.uColour.lookup (en.colour v)) ++ ";r:" ++ hexB v ++ "=" ++ listW (setOf ((s.sRoles.lookup v).getD [])) ++ ";"
  String.join per ++ "k=" ++ listW (setOf (Map.keys s.sRoles))

def resW (s : State) (ops : List Op) : String :=
  match applyOps s ops 0 with
  | .ok _ => "ok"
  | .error (i, e) => "err:" ++ errName e ++ "@" ++ toString i

/-- ids of both stores -/
def liveIds (s : State) : List Id := Map.keys s.a ++ Map.keys s.b

/-- where the id occurs in the dump: path / key / value (in this order of precedence), or clean -/
def scanW (id : Id) (ls : List Line) : String :=
  let t := C03.typed id
  let hit (x : Bytes) : Bool := x == id || x == t
  let inPath : Line → Bool
    | .bucket p => p.dropLast.any hit
    | .kv p _ _ => p.any hit
  let inKey : Line → Bool
    | .bucket p => (p.getLast?.map hit).getD false
    | .kv _ k _ => hit k
  let inValue : Line → Bool
    | .bucket _ => false
    | .kv _ _ v => hit v
  if ls.any inPath then "path" else if ls.any inKey then "key" else if ls.any inValue then "value" else "clean"

/-- every entity id present before the transaction and absent after it (cascades included) -/
def deletedW (nm : Names) (spec : Bool) (s s' : State) : String :=
  let now := liveIds s'
  let ids := (liveIds s).eraseDups.filter fun j => !now.contains j
  if ids.isEmpty then "."
  else
    let ls := Render nm s'
    let parts := ids.map fun j =>
      if spec then hexB j ++ "=ok/clean"
      else hexB j ++ "=" ++ (if ls.any (fun l => decide (Mentions j l)) then "found" else "ok") ++ "/" ++ scanW j ls ++
        -- the hypothesis of the no-trace theorems is evaluated for every validated delete
        (if noClashCheck nm j s' then "" else "!noclash")
    ",".intercalate (sortStrings parts)

def runModel (nm : Names) (en : Enc) (spec : Bool) (vals : List Bytes) (txs : List (List Op)) : String :=
  let rec go (s : State) (prev : String) (txs : List (List Op)) (acc : List String) : List String :=
    match txs with
    | [] => acc.reverse
    | ops :: rest =>
      let r := txStep s ops
      let s' := r.1
      let del := if r.2 == .ok then deletedW nm spec s s' else "."
      if spec then
        -- the spec's verdict concerns committed deletes only: no trace of the id anywhere
        go s' "" rest (("-#-#-#" ++ del) :: acc)
      else
        let dump := dumpW (Render nm s')
        let shown := if dump == prev then "=" else dump
        go s' dump rest ((resW s ops ++ "#" ++ shown ++ "#" ++ readsW en vals s' ++ "#" ++ del) :: acc)
  "|".intercalate (go State.empty "" txs [])

-- ------------------------------------------------------------------ three-level chains (case prefix g)
namespace DepthD
open StorageModel.C06.Depth

def parseCfg (s : String) : Option Cfg :=
  match s.splitOn "/" with
  | [kinds, d0, d1, d2, reg] =>
    match kinds.toList with
    | [k1, k2] =>
      let mk (p : Option Nat) (r : List Nat) (ext : Bool) (path : List Bytes) (tag : UInt8) (d : String) : StoreCfg :=
        let c := d.toList
        { parent := p, regWith := r, extended := ext, path := path, tag := tag,
          uniq := c.contains 'u', set := c.contains 's', link := c.contains 'l', fk := c.contains 'f' }
      let rg := reg.toList
      some [mk none [] false [] 48 d0, mk (some 0) [0] (k1 == 'e') [[101, 120, 116]] 49 d1,
            mk (some 1) ((if rg.contains 'c' then [1] else []) ++ (if rg.contains 'r' then [0] else []))
              (k2 == 'e') [[101, 120, 116], [103]] 50 d2]
    | _ => none
  | _ => none

def parseValsD : List String → Option (List Vals)
  | u :: s :: l :: f :: rest => do
    let v : Vals := ⟨← parseOpt u, ← parseList s, ← parseList l, ← parseOpt f⟩
    let r ← parseValsD rest
    pure (v :: r)
  | [] => some []
  | _ => none

def parseOpD (s : String) : Option Depth.Op :=
  match s.splitOn ":" with
  | hd :: idw :: rest =>
    match hd.toList with
    | [c, d] =>
      let k := d.toNat - 48
      if k > 2 then none else do
      let id ← Bytes.ofHex idw
      if c == 'd' then (if rest.isEmpty then some (.delete k id) else none)
      else if c == 'c' then do
        let vs ← parseValsD rest
        if vs.length == k + 1 then some (.create k id vs) else none
      else if c == 'u' then do
        let chk ← rest.getLast?
        let vs ← parseValsD rest.dropLast
        if vs.length != k + 1 then none else
        let ck : Option (List Nat) := if chk == "*" then none
          else some (chk.toList.filterMap fun ch => if 'a' ≤ ch && ch ≤ 'l' then some (ch.toNat - 97) else none)
        some (.update k id vs ck)
      else none
    | _ => none
  | _ => none

def parseTxsD (s : String) : Option (List (List Depth.Op)) :=
  (s.splitOn "|").mapM fun tx => (tx.splitOn ",").mapM parseOpD

def liveD (s : DState) : List Id := (s.data.filter (·.1 == 0)).map (·.2.1)

def deletedD (cfg : Cfg) (spec : Bool) (s s' : DState) : String :=
  let now := liveD s'
  let ids := (liveD s).eraseDups.filter fun j => !now.contains j
  if ids.isEmpty then "."
  else
    let ls := Depth.Render cfg s'
    let parts := ids.map fun j =>
      if spec then hexB j ++ "=ok/clean"
      else hexB j ++ "=" ++ (if ls.any (fun l => decide (Mentions j l)) then "found" else "ok") ++ "/" ++ scanW j ls ++
        -- the hypothesis of the theorems, evaluated: in a reachable configuration the state stays sound
        (if reachableB cfg && !decide (Sound cfg s') then "!unsound" else "")
    ",".intercalate (sortStrings parts)

def runD (cfg : Cfg) (spec : Bool) (txs : List (List Depth.Op)) : String :=
  let rec go (s : DState) (prev : String) (txs : List (List Depth.Op)) (acc : List String) : List String :=
    match txs with
    | [] => acc.reverse
    | ops :: rest =>
      let r := Depth.txStep cfg s ops
      let s' := r.1
      let del := if r.2.isNone then deletedD cfg spec s s' else "."
      if spec then go s' "" rest (("-#-#-#" ++ del) :: acc)
      else
        let dump := dumpW (Depth.Render cfg s')
        let shown := if dump == prev then "=" else dump
        let res := match r.2 with
          | none => "ok"
          | some (i, e) => "err:" ++ errName e ++ "@" ++ toString i
        go s' dump rest ((res ++ "#" ++ shown ++ "#.#" ++ del) :: acc)
  "|".intercalate (go {} "" txs [])

def stepD (spec : Bool) (cfg txs : String) : String :=
  match parseCfg cfg, parseTxsD txs with
  | some c, some ts => runD c spec ts
  | _, _ => "bad-case"

end DepthD

def stepWith (spec : Bool) (line : String) : String :=
  match splitSp line with
  | [h, vals, txs] =>
    if h = "g" then DepthD.stepD spec vals txs else
    -- `h`: the plain naming of the schema, `h1`: the variant with symbol ≠ key ≠ checker name
    -- `h2`: the typed variant (unique indexes over int64 / int32 / float64 symbols)
    let variant : Option (Names × Enc) :=
      if h = "h" then some (Names.std, {}) else if h = "h1" then some (Names.alt, {})
      else if h = "h2" then some (Names.typedV, Enc.typedV) else none
    match variant, parseList vals, parseTxs txs with
    | some (nm, en), some vs, some ts => runModel nm en spec vs (ts.map (·.map (encOp en)))
    | _, _, _ => "bad-case"
  | _ => "bad-case"

def step (line : String) : String := stepWith false line
def specStep (line : String) : String := stepWith true line

def run (spec : Bool) : IO Unit := forEachLine (if spec then specStep else step)

end StorageModel.Driver.C06
