import StorageModel.Driver.Common
import StorageModel.C09.Universe
import StorageModel.C09.ModelE
import StorageModel.C09.NamingDriver
/- model driver for C09: `run spec` reads case lines on stdin and prints one output line per case
   (spec = false: the engine model's output for the case's state; spec = true: the property's
   verdict on the *implementation's* observations, which the check appends after " @O ").

   Case line:    <mode> @H <history> @C <corruptions> @S <state tokens> [@O <implementation output>]
   Output line:  R1 <reports> | <ro1> | R2 <reports> | D2 <state> | R3 <reports> | <ro3> | R4 <reports> | <same4>
   (formats: harness/c09.go) -/
namespace StorageModel.Driver.C09
open StorageModel StorageModel.Driver StorageModel.C09

/-! ### parsing -/

def optWire (t : String) : Option FVal :=
  if t = "~" then some .nil else (Bytes.ofHex t).map .str

def parseList (t : String) : Option (List Bytes) :=
  if t = "" then some [] else (t.splitOn ",").mapM Bytes.ofHex

def parseSet (t : String) : Option (Option (List Bytes)) :=
  if t = "~" then some none
  else if t.startsWith "=" then (parseList (t.drop 1).toString).map some
  else none

structure Parsed where
  has : List (Name × Id × Name) := []
  ents : List (Name × List EntD) := []
  uniq : List ((Name × Name) × List (Bytes × Id)) := []
  setx : List ((Name × Name) × List (Bytes × SVal)) := []

def addEnt (l : List (Name × List EntD)) (st : Name) (p : EntD) : List (Name × List EntD) :=
  match l with
  | [] => [(st, [p])]
  | q :: t => if q.1 = st then (q.1, q.2 ++ [p]) :: t else q :: addEnt t st p

def takePairs (n : Nat) (toks : List String) : Option (List (String × String) × List String) :=
  match n, toks with
  | 0, r => some ([], r)
  | n + 1, a :: b :: r => (takePairs n r).map fun (ps, rest) => ((a, b) :: ps, rest)
  | _, _ => none

def splitIdx (idx : String) : Name × Name :=
  match idx.splitOn "." with
  | [a, b] => (a, b)
  | _ => (idx, "")

partial def parseState (toks : List String) (acc : Parsed) : Option Parsed :=
  match toks with
  | [] => some acc
  | "E" :: st :: id :: rest => do
    let idb ← Bytes.ofHex id
    let (fs, rest) ← takePairs (scalarsOf st).length rest
    let (ss, rest) ← takePairs (setsOf st).length rest
    let fields ← fs.mapM fun (f, v) => (optWire v).map fun x => (f, x)
    let sets ← ss.mapM fun (f, v) => (parseSet v).map fun x => (f, x)
    let has := sets.filterMap fun (f, x) => if x.isSome then some (st, idb, f) else none
    parseState rest { acc with ents := addEnt acc.ents st ⟨idb, fields, sets.map fun (f, x) => (f, x.getD [])⟩,
                               has := acc.has ++ has }
  | "U" :: idx :: n :: rest => do
    let (ps, rest) ← takePairs n.toNat! rest
    let ents ← ps.mapM fun (k, v) => do
      let kb ← Bytes.ofHex k
      let vb ← Bytes.ofHex v
      pure (kb, vb)
    parseState rest { acc with uniq := acc.uniq ++ [(splitIdx idx, ents)] }
  | "X" :: idx :: n :: rest => do
    let (ps, rest) ← takePairs n.toNat! rest
    let ents ← ps.mapM fun (k, v) => do
      let kb ← Bytes.ofHex k
      if v = "!" then pure (kb, SVal.junk)
      else if v.startsWith "=" then (parseList (v.drop 1).toString).map fun l => (kb, SVal.ids l)
      else none
    parseState rest { acc with setx := acc.setx ++ [(splitIdx idx, ents)] }
  | _ => none

/-- the state the model runs on: the records of the dump as the physical LAYERED database (child-store
    records = nested data buckets of the parent's entities), seen through the access paths of the code
    (`PSt.view`, C09/Layered.lean) -/
def toSt (p : Parsed) : St := ((StD.mk p.ents p.uniq p.setx).toPSt uniLayering).view uniLayering

/-! ### rendering -/

def joinSp (l : List String) : String := " ".intercalate l

def renderSet : Option (List Bytes) → String
  | none => "~"
  | some l => "=" ++ ",".intercalate (l.map Bytes.toWire)

def renderFVal : FVal → String
  | .nil => "~"
  | .str v => Bytes.toWire v

/-- `has`: the nested list buckets that exist (store, id, field) -/
def renderState (s : St) (has : List (Name × Id × Name)) : String :=
  let es := storeOrder.flatMap fun st =>
    (s.ents st).flatMap fun p =>
      ["E", st, Bytes.toWire p.1]
        ++ (scalarsOf st).flatMap (fun f => [f, renderFVal (p.2.fields f)])
        ++ (setsOf st).flatMap (fun f => [f, renderSet (if has.contains (st, p.1, f) || !(p.2.sets f).isEmpty then some (p.2.sets f) else none)])
  let us := uniqueIdxs.flatMap fun (st, f) =>
    ["U", st ++ "." ++ f, toString (s.uniq st f).length]
      ++ (s.uniq st f).flatMap fun kv => [Bytes.toWire kv.1, Bytes.toWire kv.2]
  let xs := setIdxs.flatMap fun (st, f) =>
    ["X", st ++ "." ++ f, toString (s.setx st f).length]
      ++ (s.setx st f).flatMap fun kv =>
        [Bytes.toWire kv.1, match kv.2 with
          | .junk => "!"
          | .ids l => "=" ++ ",".intercalate (l.map Bytes.toWire)]
  joinSp (es ++ us ++ xs)

def nilWire (b : Bytes) : String := if b.isEmpty then "~" else Bytes.toWire b

def renderMsg : Msg → String × List String
  | .uqDangling k id => ("uqDangling", [Bytes.toWire k, Bytes.toWire id])
  | .uqStale k id a => ("uqStale", [Bytes.toWire k, Bytes.toWire id, Bytes.toWire a])
  | .uqNull id => ("uqNull", [Bytes.toWire id])
  | .uqMissing v id => ("uqMissing", [Bytes.toWire v, Bytes.toWire id])
  | .uqDup v x id => ("uqDup", [Bytes.toWire v, Bytes.toWire x, Bytes.toWire id])
  | .sxDangling k id => ("sxDangling", [Bytes.toWire k, Bytes.toWire id])
  | .sxStale k id => ("sxStale", [Bytes.toWire k, Bytes.toWire id])
  | .sxEmpty k => ("sxEmpty", [Bytes.toWire k])
  | .sxJunk k => ("sxJunk", [Bytes.toWire k])
  | .sxMissing v id => ("sxMissing", [Bytes.toWire v, Bytes.toWire id])
  | .fkBackDangling t s => ("fkBackDangling", [Bytes.toWire t, Bytes.toWire s])
  | .fkBackStale t s a => ("fkBackStale", [Bytes.toWire t, Bytes.toWire s, nilWire a])
  | .fkNull id => ("fkNull", [Bytes.toWire id])
  | .fkDangling id t => ("fkDangling", [Bytes.toWire id, Bytes.toWire t])
  | .fkBackMissing id t => ("fkBackMissing", [Bytes.toWire id, Bytes.toWire t])
  | .lkDangling id l => ("lkDangling", [Bytes.toWire id, Bytes.toWire l])
  | .lkOneSided id l => ("lkOneSided", [Bytes.toWire id, Bytes.toWire l])
  | .lkNoInverse => ("lkNoInverse", [])

def isLink : Msg → Bool
  | .lkDangling .. | .lkOneSided .. | .lkNoInverse => true
  | _ => false

def renderReport (r : Report) : String :=
  let (c, args) := renderMsg r.msg
  let idx := if isLink r.msg then r.store else r.store ++ "." ++ r.field
  ":".intercalate ([c, idx] ++ args ++ [if r.fixed then "t" else "f"])

def renderReports (l : List Report) : String :=
  if l.isEmpty then "." else joinSp (l.map renderReport)

/-! ### the model's answer -/

def segment (line : String) (tag next : String) : Option String :=
  match line.splitOn (" " ++ tag) with
  | [_, rest] =>
    some (if next = "" then rest else ((rest.splitOn (" " ++ next)).headD "")).trimAscii.toString
  | _ => none

def stateOf (line : String) : Option (St × List (Name × Id × Name)) := do
  let seg ← segment line "@S" "@O"
  let toks := (seg.splitOn " ").filter (· ≠ "")
  (parseState toks {}).map fun p => (toSt p, p.has)

/-- mode `tx1r` runs the stores in the opposite order (owners, then things) -/
def schemaFor (line : String) : Schema :=
  if line.startsWith "tx1r " then uniSchema.reverse else uniSchema

/-- one phase: the run WITH the failure exits of the code (`checkAllE`, C09/ModelE.lean; by
    `Properties.C09.run_never_fails` it always completes, with the result of `checkAll`) -/
def phase (S : Schema) (fix : Bool) (s : St) : Option (St × List Report) :=
  match checkAllE S fix s with
  | .ok s' rs => some (s', rs)
  | .fail .. => none

def step (line : String) : String :=
  match stateOf line with
  | none => "bad-case"
  | some (s0, h0) =>
    let S := schemaFor line
    match phase S false s0 with
    | none => "model-run-fails 1"
    | some p1 =>
    let h1 := h0 ++ bucketsEnsured S p1.2
    let d0 := renderState s0 h0
    let d1 := renderState p1.1 h1
    match phase S true p1.1 with
    | none => "model-run-fails 2"
    | some p2 =>
    let h2 := h1 ++ bucketsEnsured S p2.2
    let d2 := renderState p2.1 h2
    match phase S false p2.1 with
    | none => "model-run-fails 3"
    | some p3 =>
    let h3 := h2 ++ bucketsEnsured S p3.2
    let d3 := renderState p3.1 h3
    match phase S true p3.1 with
    | none => "model-run-fails 4"
    | some p4 =>
    let h4 := h3 ++ bucketsEnsured S p4.2
    let d4 := renderState p4.1 h4
    " | ".intercalate
      [ "R1 " ++ renderReports p1.2,
        if d1 = d0 then "same" else "changed D " ++ d1,
        "R2 " ++ renderReports p2.2,
        "D2 " ++ d2,
        "R3 " ++ renderReports p3.2,
        if d3 = d2 then "same" else "changed D " ++ d3,
        "R4 " ++ renderReports p4.2,
        if d4 = d2 then "same" else "differs" ]

/-! ### the property's verdict on the implementation's observations -/

def linkFieldOf (st : Name) : Name :=
  match uniSchema.find? (·.name = st) with
  | some sd => (sd.links.headD ⟨st, "", "", ""⟩).f
  | none => ""

def unNil (t : String) : Option Bytes := if t = "~" then some [] else Bytes.ofHex t

def parseReport (t : String) : Option Report := do
  let parts := t.splitOn ":"
  let cls ← parts[0]?
  let idx ← parts[1]?
  let fl ← parts.getLast?
  let fixed ← if fl = "t" then some true else if fl = "f" then some false else none
  let args ← ((parts.drop 2).dropLast).mapM unNil
  let (st, f) := splitIdx idx
  let mk (m : Msg) : Option Report :=
    some ⟨st, if isLink m then linkFieldOf st else f, m, fixed⟩
  match cls, args with
  | "uqDangling", [k, id] => mk (.uqDangling k id)
  | "uqStale", [k, id, a] => mk (.uqStale k id a)
  | "uqNull", [id] => mk (.uqNull id)
  | "uqMissing", [v, id] => mk (.uqMissing v id)
  | "uqDup", [v, x, id] => mk (.uqDup v x id)
  | "sxDangling", [k, id] => mk (.sxDangling k id)
  | "sxStale", [k, id] => mk (.sxStale k id)
  | "sxEmpty", [k] => mk (.sxEmpty k)
  | "sxJunk", [k] => mk (.sxJunk k)
  | "sxMissing", [v, id] => mk (.sxMissing v id)
  | "fkBackDangling", [t, s] => mk (.fkBackDangling t s)
  | "fkBackStale", [t, s, a] => mk (.fkBackStale t s a)
  | "fkNull", [id] => mk (.fkNull id)
  | "fkDangling", [id, t] => mk (.fkDangling id t)
  | "fkBackMissing", [id, t] => mk (.fkBackMissing id t)
  | "lkDangling", [id, l] => mk (.lkDangling id l)
  | "lkOneSided", [id, l] => mk (.lkOneSided id l)
  | "lkNoInverse", [] => mk .lkNoInverse
  | _, _ => none

/-- the reports of one phase; the token `err` (CheckIntegrity RETURNED AN ERROR: the rest of that store's
    run did not happen and its transaction was rolled back) is not a report — see `abortedIn` -/
def parseReports (seg : String) (tag : String) : Option (List Report) :=
  if !seg.startsWith (tag ++ " ") then none
  else
    let body := (seg.drop (tag.length + 1)).toString
    if body = "." then some []
    else ((body.splitOn " ").filter (fun t => t ≠ "" && t ≠ "err")).mapM parseReport

/-- did a `CheckIntegrity` call of this phase return an error -/
def abortedIn (seg : String) : Bool := (seg.splitOn " ").contains "err"

def parseD (seg : String) (tag : String) : Option St :=
  if !seg.startsWith (tag ++ " ") then none
  else
    let toks := (((seg.drop (tag.length + 1)).toString).splitOn " ").filter (· ≠ "")
    (parseState toks {}).map toSt

def renderDisc : Disc → String
  | .uqExtra st f k id => s!"uqExtra:{st}.{f}:{Bytes.toWire k}:{Bytes.toWire id}"
  | .uqMissing st f v id => s!"uqMissing:{st}.{f}:{Bytes.toWire v}:{Bytes.toWire id}"
  | .sxExtra st f k id => s!"sxExtra:{st}.{f}:{Bytes.toWire k}:{Bytes.toWire id}"
  | .sxMissing st f v id => s!"sxMissing:{st}.{f}:{Bytes.toWire v}:{Bytes.toWire id}"
  | .sxEmptyKey st f k => s!"sxEmptyKey:{st}.{f}:{Bytes.toWire k}"
  | .sxJunkKey st f k => s!"sxJunkKey:{st}.{f}:{Bytes.toWire k}"
  | .fkBackExtra st f t x => s!"fkBackExtra:{st}.{f}:{Bytes.toWire t}:{Bytes.toWire x}"
  | .fkBackMissing st f x t => s!"fkBackMissing:{st}.{f}:{Bytes.toWire x}:{Bytes.toWire t}"
  | .fkDangling st f x t => s!"fkDangling:{st}.{f}:{Bytes.toWire x}:{Bytes.toWire t}"
  | .null st f id => s!"null:{st}.{f}:{Bytes.toWire id}"
  | .lkDangling st f id l => s!"lkDangling:{st}.{f}:{Bytes.toWire id}:{Bytes.toWire l}"
  | .lkOneSided st f id l => s!"lkOneSided:{st}.{f}:{Bytes.toWire id}:{Bytes.toWire l}"
  | .lkNoInverse st f => s!"lkNoInverse:{st}.{f}"

/-- executable form of `Disc.conflict` -/
def conflictB (S : Schema) (s : St) : Disc → Bool
  | .uqMissing st f v id => (s.uniq st f).any fun kv => kv.1 = v ∧ kv.2 ≠ id
  | .null _ _ _ => true
  | .fkDangling st f _ _ => S.nonNullFk st f
  | .lkNoInverse _ _ => true
  | _ => false

/-- is `(st, f)` a nullable foreign key -/
def nullableFk (S : Schema) (st f : Name) : Bool :=
  S.constraints.any fun c =>
    match c with
    | .fkIndex st' f' n _ _ => st' == st && f' == f && n
    | .fkCons st' f' n _ => st' == st && f' == f && n
    | _ => false

/-- a fix run must not touch the entities themselves, except for nulling a dangling nullable fk -/
def entitiesKept (s0 s2 : St) : Bool :=
  storeOrder.all fun st =>
    s0.ids st == s2.ids st &&
    (s0.ents st).all fun p =>
      match s2.ent st p.1 with
      | none => false
      | some e2 => (scalarsOf st).all fun f =>
          decide (e2.fields f = p.2.fields f) ||
            (nullableFk uniSchema st f && decide (e2.fields f = .nil))

def specStep (line : String) : String :=
  match stateOf line, segment line "@O" "" with
  | some (s0, _), some obs =>
    match obs.splitOn " | " with
    | [r1s, ro1, r2s, d2s, r3s, ro3, r4s, s4] =>
      match parseReports r1s "R1", parseReports r2s "R2", parseD d2s "D2", parseReports r3s "R3",
          parseReports r4s "R4" with
      | some r1, some r2, some d2, some r3, some _r4 =>
        let inc := inconsistencies uniSchema s0
        let inc2 := inconsistencies uniSchema d2
        let unsound := r1.filter fun r => !inc.contains r.about
        let unreported := inc.filter fun d => !(r1.any fun r => r.about = d)
        let roBad := (if ro1 = "same" then [] else ["ro1"]) ++ (if ro3 = "same" then [] else ["ro3"])
          ++ (if (r1 ++ r3).all (fun r => !r.fixed) then [] else ["fixed-flag"])
        -- fix-run reports: about inconsistencies of the initial state; `fixed` only when the re-check no
        -- longer reports it; not fixed only for genuine conflicts
        let fixUnsound := r2.filter fun r => !inc.contains r.about
        let flagBad := r2.filter fun r =>
          (r.fixed && r3.any fun r' => r'.about = r.about) || (!r.fixed && !decide (Unfixable uniSchema r))
        let left := r3.filter fun r => !decide (Unfixable uniSchema r)
        let leftD := inc2.filter fun d => !conflictB uniSchema d2 d
        let clause (name : String) (items : List String) : List String :=
          if items.isEmpty then [] else [name ++ "[" ++ ";".intercalate items ++ "]"]
        -- "it reports every inconsistency", "a single run repairs every repairable inconsistency": a run
        -- that returns an error does neither — it stops at the error and the caller rolls back
        let aborted := (if abortedIn r1s then ["R1"] else []) ++ (if abortedIn r2s then ["R2"] else [])
          ++ (if abortedIn r3s then ["R3"] else []) ++ (if abortedIn r4s then ["R4"] else [])
        let fails : List String :=
          clause "aborted" aborted
          ++ clause "sound" (unsound.map renderReport)
          ++ clause "complete" (unreported.map renderDisc)
          ++ clause "readonly" roBad
          ++ clause "fixsound" (fixUnsound.map renderReport)
          ++ clause "flags" (flagBad.map renderReport)
          ++ clause "converge" (left.map renderReport ++ leftD.map renderDisc)
          ++ clause "entities" (if entitiesKept s0 d2 then [] else ["changed"])
          ++ clause "idempotent" (if s4 = "same" then [] else ["differs"])
        if fails.isEmpty then "ok" else "fail:" ++ ",".intercalate fails
      | _, _, _, _, _ => "fail:observation-not-understood"
    | _ => "fail:observation-not-understood"
  | _, _ => "bad-case"

/-- cases over schemas with names, keys / paths and declaring stores start with `N:` (C09/NamingDriver.lean) -/
def dispatch (spec : Bool) (line : String) : String :=
  if line.startsWith "N:" then (if spec then ND.specStep line else ND.step line)
  else (if spec then specStep line else step line)

def run (spec : Bool) : IO Unit := forEachLine (dispatch spec)

end StorageModel.Driver.C09
