import StorageModel.Driver.Common
import StorageModel.Zql.Unescape
import StorageModel.Generated.UnescapeTable
namespace StorageModel.Driver.C11
open StorageModel StorageModel.Zql StorageModel.Driver

def parseOp : String → Option LitOp
  | "eq" => some .eq
  | "ne" => some .ne
  | "in" => some .inArr
  | "nin" => some .notInArr
  | "contains" => some .contains
  | "ncontains" => some .notContains
  | "icontains" => some .icontains
  | "nicontains" => some .notIcontains
  | _ => none

/-- what the documented semantics give for `f <op> literal` when the literal denotes `d` -/
def evalOp (op : String) (d field : Bytes) : Bool :=
  match parseOp op with
  | some o => evalLitOp o d field
  | none => false

def step (line : String) : String :=
  match splitSp line with
  | ["u", lit, _s] =>
    match Bytes.ofHex lit with
    | some l => Bytes.toWire (unescape Generated.unescapeTable l)
    | none => "bad-case"
  | "e" :: op :: lit :: _s :: flds =>
    match Bytes.ofHex lit with
    | some l =>
      let d := unescape Generated.unescapeTable l
      bits (flds.map fun f => match Bytes.ofHex f with
        | some fv => evalOp op d fv
        | none => false)
    | none => "bad-case"
  | "b" :: op :: lit :: _s :: flds =>
    -- a bolt store with one entity per value (id = name = value): the answers to `id <op> lit`
    -- and `name <op> lit`
    match Bytes.ofHex lit with
    | some l =>
      let d := unescape Generated.unescapeTable l
      let b := bits (flds.map fun f => match Bytes.ofHex f with
        | some fv => evalOp op d fv
        | none => false)
      b ++ " " ++ b
    | none => "bad-case"
  | "c" :: op :: lit :: _s :: lit2 :: _s2 :: flds =>
    -- two literals queried one after the other on the same store: four answers
    match Bytes.ofHex lit, Bytes.ofHex lit2 with
    | some l, some l2 =>
      let ans (l : Bytes) :=
        let d := unescape Generated.unescapeTable l
        bits (flds.map fun f => match Bytes.ofHex f with
          | some fv => evalOp op d fv
          | none => false)
      ans l ++ " " ++ ans l ++ " " ++ ans l2 ++ " " ++ ans l2
    | _, _ => "bad-case"
  | _ => "bad-case"

/-- spec verdict: the same, with the *intended* string `s` instead of the model's reading -/
def specStep (line : String) : String :=
  match splitSp line with
  | ["u", _lit, s] => s
  | "e" :: op :: _lit :: s :: flds =>
    match Bytes.ofHex s with
    | some d => bits (flds.map fun f => match Bytes.ofHex f with
        | some fv => evalOp op d fv
        | none => false)
    | none => "bad-case"
  | "b" :: op :: _lit :: s :: flds =>
    match Bytes.ofHex s with
    | some d =>
      let b := bits (flds.map fun f => match Bytes.ofHex f with
        | some fv => evalOp op d fv
        | none => false)
      b ++ " " ++ b
    | none => "bad-case"
  | "c" :: op :: _lit :: s :: _lit2 :: s2 :: flds =>
    match Bytes.ofHex s, Bytes.ofHex s2 with
    | some d, some d2 =>
      let ans (d : Bytes) := bits (flds.map fun f => match Bytes.ofHex f with
          | some fv => evalOp op d fv
          | none => false)
      ans d ++ " " ++ ans d ++ " " ++ ans d2 ++ " " ++ ans d2
    | _, _ => "bad-case"
  | _ => "bad-case"

def run (spec : Bool) : IO Unit := forEachLine (if spec then specStep else step)

end StorageModel.Driver.C11
