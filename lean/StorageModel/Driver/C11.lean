import StorageModel.Driver.Common
import StorageModel.Zql.Unescape
import StorageModel.Zql.LitFilter
import StorageModel.Zql.LitSet
import StorageModel.Generated.UnescapeTable
namespace StorageModel.Driver.C11
open StorageModel StorageModel.Zql StorageModel.Driver

def parseOp : String → Option LitOp
  | "eq" => some .eq
  | "ne" => some .ne
  | "in" => some .inArr
  | "nin" => some .notInArr
  | "contains" => some .contains
  | "ncontains" => some .notContains
  | "icontains" => some .icontains
  | "nicontains" => some .notIcontains
  | _ => none

/-- what the documented semantics give for `f <op> literal` when the literal denotes `d` -/
def evalOp (op : String) (d field : Bytes) : Bool :=
  match parseOp op with
  | some o => evalLitOp o d field
  | none => false


/-- the candidate values of a bolt case; a trailing `E` stands for an extra entity with id `~E` and an empty name -/
def splitExtra (flds : List String) : List String × Bool :=
  match flds.reverse with
  | "E" :: rest => (rest.reverse, true)
  | _ => (flds, false)

/-- membership bits of the two answers (`id <op> lit`, `name <op> lit`) of a bolt case -/
def boltAns (op : String) (d : Bytes) (flds : List String) : String :=
  let (vals, extra) := splitExtra flds
  let one (f : String) := match Bytes.ofHex f with
    | some fv => evalOp op d fv
    | none => false
  let base := vals.map one
  let idBits := if extra then base ++ [evalOp op d [126, 69]] else base
  let nameBits := if extra then base ++ [evalOp op d []] else base
  bits idBits ++ " " ++ bits nameBits

/-- `f = a or f = b`, `f in [a, b]`, `f != a and f != b` on the denoted strings -/
def evalTwo (form : String) (a b field : Bytes) : Bool :=
  match form with
  | "or" => field == a || field == b
  | "in" => field == a || field == b
  | _ => field != a && field != b

/-- `k` pairs `<lit> <s>` -/
def parsePairs : Nat → List String → Option (List Bytes × List Bytes × List String)
  | 0, rest => some ([], [], rest)
  | k + 1, l :: s :: rest => do
    let lv ← Bytes.ofHex l
    let sv ← Bytes.ofHex s
    let (ls, ss, rest') ← parsePairs k rest
    pure (lv :: ls, sv :: ss, rest')
  | _, _ => none

/-- a filter in prefix form: `A x y` | `O x y` | `N x` | `C <op> <lit> <s>` | `I <0|1> <k> (<lit> <s>)^k`;
    returns the filter over the literal texts, the filter over the intended strings, the remaining tokens -/
def parseFilter : Nat → List String → Option (Filter × Filter × List String)
  | 0, _ => none
  | fuel + 1, toks =>
    match toks with
    | "A" :: rest => do
      let (a, a', r1) ← parseFilter fuel rest
      let (b, b', r2) ← parseFilter fuel r1
      pure (.and a b, .and a' b', r2)
    | "O" :: rest => do
      let (a, a', r1) ← parseFilter fuel rest
      let (b, b', r2) ← parseFilter fuel r1
      pure (.or a b, .or a' b', r2)
    | "N" :: rest => do
      let (a, a', r1) ← parseFilter fuel rest
      pure (.not a, .not a', r1)
    | "C" :: op :: l :: s :: rest => do
      let o ← parseOp op
      let lv ← Bytes.ofHex l
      let sv ← Bytes.ofHex s
      pure (.cmp o lv, .cmp o sv, rest)
    | "I" :: neg :: k :: rest => do
      let (ls, ss, r1) ← parsePairs k.toNat! rest
      pure (.inl (neg == "1") ls, .inl (neg == "1") ss, r1)
    | _ => none

/-- `m <s> <filter tokens…> . <field>…` : a whole filter; `spec` chooses the documented semantics over
    the intended strings instead of the model of listener + transform + EvalBool over the literal texts -/
def mixed (spec : Bool) (toks : List String) : String :=
  match parseFilter (toks.length + 1) toks with
  | some (fl, fs, "." :: flds) =>
    bits (flds.map fun f => match Bytes.ofHex f with
      | some fv => if spec then specEval fv fs else runFilter Generated.unescapeTable fl fv
      | none => false)
  | _ => "bad-case"


/-! ### `s` cases: filters over set symbols -/

def parseSetOp : String → Option SetOp
  | "eq" => some .eq
  | "ne" => some .ne
  | "contains" => some .contains
  | "ncontains" => some .notContains
  | "icontains" => some .icontains
  | "nicontains" => some .notIcontains
  | _ => none

def parseQuant : String → Option Quant
  | "any" => some .any
  | "all" => some .all
  | _ => none

/-- prefix form: `A x y` | `O x y` | `N x` | `Q <any|all> <sym> <op> <lit> <s>` | `J <any|all> <sym> <k> (<lit> <s>)^k` -/
def parseSetFilter : Nat → List String → Option (SetFilter × SetFilter × List String)
  | 0, _ => none
  | fuel + 1, toks =>
    match toks with
    | "A" :: rest => do
      let (a, a', r1) ← parseSetFilter fuel rest
      let (b, b', r2) ← parseSetFilter fuel r1
      pure (.and a b, .and a' b', r2)
    | "O" :: rest => do
      let (a, a', r1) ← parseSetFilter fuel rest
      let (b, b', r2) ← parseSetFilter fuel r1
      pure (.or a b, .or a' b', r2)
    | "N" :: rest => do
      let (a, a', r1) ← parseSetFilter fuel rest
      pure (.not a, .not a', r1)
    | "Q" :: q :: sym :: op :: l :: s :: rest => do
      let qv ← parseQuant q
      let o ← parseSetOp op
      let lv ← Bytes.ofHex l
      let sv ← Bytes.ofHex s
      pure (.cmp qv sym.toNat! o lv, .cmp qv sym.toNat! o sv, rest)
    | "J" :: q :: sym :: k :: rest => do
      let qv ← parseQuant q
      let (ls, ss, r1) ← parsePairs k.toNat! rest
      pure (.inl qv sym.toNat! ls, .inl qv sym.toNat! ss, r1)
    | _ => none

def splitTok (t : String) : List String → List (List String)
  | [] => [[]]
  | x :: xs =>
    let r := splitTok t xs
    if x == t then [] :: r else
      match r with
      | h :: tl => (x :: h) :: tl
      | [] => [[x]]

/-- `R S <elem>… S <elem>… R …`: rows of sets; the elements are put in key order (what the bucket does) -/
def parseRows (toks : List String) : List SetRow :=
  ((splitTok "R" toks).drop 1).map fun row =>
    ((splitTok "S" row).drop 1).map fun set => sortElems (set.filterMap Bytes.ofHex)

/-- `s <s> <filter tokens…> . <rows>`: one verdict per row, the rows evaluated one after the other on the same runtime
    objects; printed twice (memory symbols, bolt store) -/
def setCase (spec : Bool) (toks : List String) : String :=
  match parseSetFilter (toks.length + 1) toks with
  | some (fl, fs, "." :: rest) =>
    let rows := parseRows rest
    let b := if spec then bits (rows.map fun r => specSet r fs)
      else bits (runRows false (fl.map (unescape Generated.unescapeTable)) rows Rt.init)
    b ++ " " ++ b
  | _ => "bad-case"

def step (line : String) : String :=
  match splitSp line with
  | ["u", lit, _s] =>
    match Bytes.ofHex lit with
    | some l => Bytes.toWire (unescape Generated.unescapeTable l)
    | none => "bad-case"
  | "e" :: op :: lit :: _s :: flds =>
    match Bytes.ofHex lit with
    | some l =>
      let d := unescape Generated.unescapeTable l
      bits (flds.map fun f => match Bytes.ofHex f with
        | some fv => evalOp op d fv
        | none => false)
    | none => "bad-case"
  | "b" :: op :: lit :: _s :: flds =>
    match Bytes.ofHex lit with
    | some l => boltAns op (unescape Generated.unescapeTable l) flds
    | none => "bad-case"
  | "c" :: op :: lit :: _s :: lit2 :: _s2 :: flds =>
    match Bytes.ofHex lit, Bytes.ofHex lit2 with
    | some l, some l2 =>
      boltAns op (unescape Generated.unescapeTable l) flds ++ " " ++ boltAns op (unescape Generated.unescapeTable l2) flds
    | _, _ => "bad-case"
  | "d" :: form :: lit :: _s :: lit2 :: _s2 :: flds =>
    match Bytes.ofHex lit, Bytes.ofHex lit2 with
    | some l, some l2 =>
      let a := unescape Generated.unescapeTable l
      let b := unescape Generated.unescapeTable l2
      bits (flds.map fun f => match Bytes.ofHex f with
        | some fv => evalTwo form a b fv
        | none => false)
    | _, _ => "bad-case"
  | "m" :: _s :: toks => mixed false toks
  | "s" :: _s :: toks => setCase false toks
  | _ => "bad-case"

/-- spec verdict: the same, with the *intended* string `s` instead of the model's reading -/
def specStep (line : String) : String :=
  match splitSp line with
  | ["u", _lit, s] => s
  | "e" :: op :: _lit :: s :: flds =>
    match Bytes.ofHex s with
    | some d => bits (flds.map fun f => match Bytes.ofHex f with
        | some fv => evalOp op d fv
        | none => false)
    | none => "bad-case"
  | "b" :: op :: _lit :: s :: flds =>
    match Bytes.ofHex s with
    | some d => boltAns op d flds
    | none => "bad-case"
  | "c" :: op :: _lit :: s :: _lit2 :: s2 :: flds =>
    match Bytes.ofHex s, Bytes.ofHex s2 with
    | some d, some d2 => boltAns op d flds ++ " " ++ boltAns op d2 flds
    | _, _ => "bad-case"
  | "d" :: form :: _lit :: s :: _lit2 :: s2 :: flds =>
    match Bytes.ofHex s, Bytes.ofHex s2 with
    | some a, some b =>
      bits (flds.map fun f => match Bytes.ofHex f with
        | some fv => evalTwo form a b fv
        | none => false)
    | _, _ => "bad-case"
  | "m" :: _s :: toks => mixed true toks
  | "s" :: _s :: toks => setCase true toks
  | _ => "bad-case"

def run (spec : Bool) : IO Unit := forEachLine (if spec then specStep else step)

end StorageModel.Driver.C11
