import StorageModel.Driver.Common
import StorageModel.C20.TypingCheck
import StorageModel.Generated.AcceptTable
/- model driver for C20 (line protocol; never used by a proof).

   case line:  <tag> <mask> <maps> <pub> <query> <tree…>
     tag    p = query text parsed by the real ast.Parse, s = real tree built field by field,
            u = untyped tree as the parse listener leaves it (only the traversal is observed)
     maps, pub   comma separated names `x<hex>`, `-` for the empty list
     tree   pre-order:  Z  |  N <kind> <#strs> {<field> x<hex>} <#kids> {<label> <tree>}
   model output:  ok v=<visited>  |  err x<hex> v=<visited>  |  panic  |  - v=<visited> (tag u)  |  bad-shape
   tag p lines carry a second tree after `//`: the untyped tree of the same text
   spec output:   wf=<0|1> cfg=<0|1> nc=<0|1> tt=<0|1> ty=<0|1> bad=<names> all=<names>
                  (tt: typed tree and query text reference the same symbols;
                   ty: `isTyping` accepts (untyped tree, typed tree), i.e. the relation `Typing` holds)
-/
namespace StorageModel.Driver.C20
open StorageModel StorageModel.Driver StorageModel.C20

def decodeName (s : String) : Option Bytes :=
  match s.toList with
  | 'x' :: cs => Bytes.ofHexChars cs
  | _ => none

def encodeName (b : Bytes) : String := "x" ++ Bytes.toHex b

def decodeNames (s : String) : Option (List Bytes) :=
  if s == "-" then some [] else (s.splitOn ",").mapM decodeName

def encodeNames (l : List Bytes) : String :=
  if l.isEmpty then "-" else ",".intercalate (l.map encodeName)

mutual
partial def parseTree : List String → Option (Tree × List String)
  | "Z" :: rest => some (.nil, rest)
  | "N" :: kind :: ns :: rest => do
    let n ← ns.toNat?
    let (strs, rest) ← parseStrs n rest
    match rest with
    | nk :: rest =>
      let k ← nk.toNat?
      let (kids, rest) ← parseKids k rest
      some (.node kind strs kids, rest)
    | [] => none
  | _ => none
partial def parseStrs : Nat → List String → Option (List (String × Bytes) × List String)
  | 0, rest => some ([], rest)
  | n + 1, f :: v :: rest => do
    let b ← decodeName v
    let (more, rest) ← parseStrs n rest
    some ((f, b) :: more, rest)
  | _, _ => none
partial def parseKids : Nat → List String → Option (Kids × List String)
  | 0, rest => some (.none, rest)
  | n + 1, g :: rest => do
    let (t, rest) ← parseTree rest
    let (more, rest) ← parseKids n rest
    some (.cons g t more, rest)
  | _, _ => none
end

structure Case where
  tag : String
  cfg : PubCfg
  tree : Tree
  source : Option Tree      -- tag p: the untyped tree of the same query text (what the text references)

def parseCase (line : String) : Option Case :=
  match splitSp line with
  | tag :: _mask :: maps :: pub :: _query :: toks => do
    let m ← decodeNames maps
    let p ← decodeNames pub
    let (t, rest) ← parseTree toks
    match rest with
    | [] => some { tag := tag, cfg := { maps := m, pub := p }, tree := t, source := none }
    | "//" :: more =>
      let (u, rest) ← parseTree more
      if rest.isEmpty then some { tag := tag, cfg := { maps := m, pub := p }, tree := t, source := some u } else none
    | _ => none
  | _ => none

def T : Table := Generated.acceptTable

def step (line : String) : String :=
  match parseCase line with
  | none => "bad-case"
  | some c =>
    if !shaped T c.tree then "bad-shape"
    else
      let v := " v=" ++ encodeNames (visit T c.tree)
      if c.tag == "u" then
        (if panics T c.tree then "panic" else "-" ++ v)
      else
        match validate T c.cfg c.tree with
        | .panic => "panic"
        | .ok none => "ok" ++ v
        | .ok (some s) => "err " ++ encodeName s ++ v

def b01 (b : Bool) : String := if b then "1" else "0"

def specStep (line : String) : String :=
  match parseCase line with
  | none => "bad-case"
  | some c =>
    let typed := (allSymbols T c.tree).eraseDups
    let src := match c.source with
      | some u => (allSymbols T u).eraseDups
      | none => typed
    -- what the query references: the symbols of the typed tree and, for parsed text, of the text itself
    let all := (typed ++ src).eraseDups
    let bad := all.filter (fun s => !specIsPublic c.cfg s)
    let tt := typed.all (fun s => src.contains s) && src.all (fun s => typed.contains s)
    -- the modelled typing relation holds between the real untyped and the real typed tree
    let ty := match c.source with
      | some u => isTyping T (line.length) u c.tree
      | none => true
    "wf=" ++ b01 (nilOk c.tree) ++ " cfg=" ++ b01 (pubWF c.cfg) ++ " nc=" ++ b01 (namesCovered T c.tree) ++
      " tt=" ++ b01 tt ++ " ty=" ++ b01 ty ++ " bad=" ++ encodeNames bad ++ " all=" ++ encodeNames all

def run (spec : Bool) : IO Unit := forEachLine (if spec then specStep else step)

end StorageModel.Driver.C20
