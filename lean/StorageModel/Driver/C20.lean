import StorageModel.Driver.Common
import StorageModel.C20.Transform
import StorageModel.C20.Shape
import StorageModel.C20.Api
import StorageModel.Generated.AcceptTable
/- model driver for C20 (line protocol; never used by a proof).

   case line:  <tag> <mask> <maps> <pub> <query> <tree…>
     tag    p = query text parsed by the real ast.Parse, s = real tree built field by field,
            u = untyped tree as the parse listener leaves it (only the traversal is observed),
            a = query assembled through the exported API (recipe in <query>; harness/c20_api.go)
     maps, pub   comma separated names `x<hex>`, `-` for the empty list; for a child store (StoreDefinition.Parent
            set) the lists of the stores up the parent chain follow, nearest first, separated by `^`
            (`<own>^<parent>^<grandparent>`; <mask> is then `<own>^<parent>^…` too) — the validating store is the first.
            A `<maps>` entry is `name` or `name=key` (the map symbol NAMED name is stored under KEY key); after `;` the
            (name, key) pairs of the store's other symbols follow (`x..=x..,…`); <mask> may start with `k<n>:`, the
            harness's naming schema (harness/c20_keyed.go).  Only the validating store's keys enter the model.
     tree   pre-order:  Z  |  T <kind> (typed nil pointer in an interface)  |  N <kind> <#strs> {<field> x<hex>} <#kids> {<label> <tree>}
   model output:  ok v=<visited> g=<…> gp=<0|1>  |  err x<hex> v=<visited> g=<…> gp=<0|1>  |  panic  |  - v=<visited> (tag u)  |  bad-shape
   tag a lines end with `// X <names> // G <names>`: the identifiers the recipe hands to the API (X) and the sort clause in
   force (G); the specification counts X as referenced
   tag p lines carry a second tree after `//`: the untyped tree of the same text
   spec output:   wf=<0|1> cfg=<0|1> nc=<0|1> tt=<0|1> ty=<0|1> bad=<names> all=<names>
                  (tt: typed tree and query text reference the same symbols;
                   ty: `transform` (C20/Transform.lean) of the untyped tree for the symbol types of the line
                       IS the typed tree; the symbol types follow the untyped tree after a second `//`)
-/
namespace StorageModel.Driver.C20
open StorageModel StorageModel.Driver StorageModel.C20

def decodeName (s : String) : Option Bytes :=
  match s.toList with
  | 'x' :: cs => Bytes.ofHexChars cs
  | _ => none

def encodeName (b : Bytes) : String := "x" ++ Bytes.toHex b

def decodeNames (s : String) : Option (List Bytes) :=
  if s == "-" then some [] else (s.splitOn ",").mapM decodeName

/-- `name` or `name=key` -/
def decodeEntry (s : String) : Option (Bytes × Bytes) :=
  match s.splitOn "=" with
  | [n] => (decodeName n).map fun b => (b, b)
  | [n, k] => do some (← decodeName n, ← decodeName k)
  | _ => none

def decodeEntries (s : String) : Option (List (Bytes × Bytes)) :=
  if s == "-" then some [] else (s.splitOn ",").mapM decodeEntry

/-- the `<maps>` field of one store: `<map entries>[;<symbol entries>]`, an entry is `name` (stored under its name) or
    `name=key`  →  (names of the map symbols, (name, key) of the map symbols, (name, key) of the other symbols) -/
def decodeMaps (s : String) : Option (List Bytes × List (Bytes × Bytes) × List (Bytes × Bytes)) :=
  match s.splitOn ";" with
  | [ms] => do
    let m ← decodeEntries ms
    some (m.map (·.1), m, [])
  | [ms, ss] => do
    let m ← decodeEntries ms
    let sy ← decodeEntries ss
    some (m.map (·.1), m, sy)
  | _ => none

def encodeNames (l : List Bytes) : String :=
  if l.isEmpty then "-" else ",".intercalate (l.map encodeName)

mutual
partial def parseTree : List String → Option (Tree × List String)
  | "Z" :: rest => some (.nil, rest)
  | "T" :: kind :: rest => some (.tnil kind, rest)
  | "N" :: kind :: ns :: rest => do
    let n ← ns.toNat?
    let (strs, rest) ← parseStrs n rest
    match rest with
    | nk :: rest =>
      let k ← nk.toNat?
      let (kids, rest) ← parseKids k rest
      some (.node kind strs kids, rest)
    | [] => none
  | _ => none
partial def parseStrs : Nat → List String → Option (List (String × Bytes) × List String)
  | 0, rest => some ([], rest)
  | n + 1, f :: v :: rest => do
    let b ← decodeName v
    let (more, rest) ← parseStrs n rest
    some ((f, b) :: more, rest)
  | _, _ => none
partial def parseKids : Nat → List String → Option (Kids × List String)
  | 0, rest => some (.none, rest)
  | n + 1, g :: rest => do
    let (t, rest) ← parseTree rest
    let (more, rest) ← parseKids n rest
    some (.cons g t more, rest)
  | _, _ => none
end

/-- symbol types as the harness read them off the real ast.SymbolTypes:
    `S <n> {x<hex> <NodeTypeXxx | -> <symtab | Z>}` -/
inductive TabEntry where
  | mk (name : Bytes) (ty : Option NT) (sub : Option (List TabEntry))

partial def parseTab : List String → Option (List TabEntry × List String)
  | "S" :: ns :: rest => do
    let n ← ns.toNat?
    let rec go : Nat → List String → Option (List TabEntry × List String)
      | 0, rest => some ([], rest)
      | k + 1, nm :: ty :: rest => do
        let name ← decodeName nm
        let t := if ty == "-" then none else some (NT.ofGo ty)
        let (sub, rest) ← match rest with
          | "Z" :: rest => some (none, rest)
          | rest => (parseTab rest).map fun (l, r) => (some l, r)
        let (more, rest) ← go k rest
        some (TabEntry.mk name t sub :: more, rest)
      | _, _ => none
    go n rest
  | _ => none

instance : Inhabited SymTab := ⟨.mk (fun _ => none) (fun _ => none)⟩

partial def toSymTab (l : List TabEntry) : SymTab :=
  .mk (fun nm => (l.find? fun | .mk n _ _ => n == nm).bind fun | .mk _ t _ => t)
      (fun nm => (l.find? fun | .mk n _ _ => n == nm).bind fun | .mk _ _ sub => sub.map toSymTab)

structure Case where
  tag : String
  cfg : PubCfg
  tree : Tree
  source : Option Tree      -- tag p: the untyped tree of the same query text (what the text references)
  symtab : Option SymTab := none    -- tag p: the symbol types the text was parsed against
  expected : List Bytes := []       -- tag a: the identifiers handed to the API calls of the recipe

def parseCase (line : String) : Option Case :=
  match splitSp line with
  | tag :: _mask :: maps :: pub :: _query :: toks => do
    let lv ← (maps.splitOn "^").mapM decodeMaps
    let (m, pm) ← match lv.map (·.1) with
      | m :: pm => some (m, pm)
      | [] => none
    let (mk, sk) := match lv with
      | (_, mk, sk) :: _ => (mk, sk)
      | [] => ([], [])
    let (p, pp) ← match ← (pub.splitOn "^").mapM decodeNames with
      | p :: pp => some (p, pp)
      | [] => none
    if pm.length != pp.length then none
    let cfg : PubCfg := { maps := m, pub := p, parents := pm.zip pp, mapKeys := mk, symKeys := sk }
    let (t, rest) ← parseTree toks
    match rest with
    | [] => some { tag := tag, cfg := cfg, tree := t, source := none }
    | ["//", "X", xs, "//", "G", _gs] =>
      -- tag a: what the assembled query references by construction (computed by the harness from the recipe's
      -- inputs); the specification judges against the tree's symbols AND these
      let x ← decodeNames xs
      some { tag := tag, cfg := cfg, tree := t, source := none, expected := x }
    | "//" :: more =>
      let (u, rest) ← parseTree more
      match rest with
      | [] => some { tag := tag, cfg := cfg, tree := t, source := some u }
      | "//" :: tab =>
        let (entries, rest) ← parseTab tab
        if rest.isEmpty then
          some { tag := tag, cfg := cfg, tree := t, source := some u, symtab := some (toSymTab entries) }
        else none
      | _ => none
    | _ => none
  | _ => none

def T : Table := Generated.acceptTable
def env : Env := { T := Generated.acceptTable, E := Generated.enumConsts }


def b01 (b : Bool) : String := if b then "1" else "0"

/-- what the Query interface hands out besides Accept (C20/Api.lean): ` g=<symbols of GetSortFields(), ! where Symbol() panics> gp=<GetPredicate() is the predicate child>` -/
def apiObs (n : Nat) (q : Tree) : String :=
  let syms := sortFieldSymbols Generated.symbolVia Generated.queryApi n q
  let g := if syms.isEmpty then "-" else ",".intercalate (syms.map fun
    | some s => encodeName s
    | none => "!")
  let gp := match getPredicate Generated.queryApi q, q with
    | [t], .node _ _ (.cons "Predicate" t' _) => treeEq t t'
    | _, _ => false
  " g=" ++ g ++ " gp=" ++ b01 gp

def step (line : String) : String :=
  match parseCase line with
  | none => "bad-case"
  | some c =>
    if !shaped T c.tree then "bad-shape"
    else
      let v := " v=" ++ encodeNames (visit T c.tree)
      if c.tag == "u" then
        (if panics T c.tree then "panic" else "-" ++ v)
      else
        -- the validator as regenerated from boltz/validate.go, boltz/store_query.go (C20/Shape.lean)
        match validateS T Generated.validatorShape c.cfg c.tree with
        | .panic => "panic"
        | .ok none => "ok" ++ v ++ apiObs line.length c.tree
        | .ok (some s) => "err " ++ encodeName s ++ v ++ apiObs line.length c.tree

def specStep (line : String) : String :=
  match parseCase line with
  | none => "bad-case"
  | some c =>
    let typed := (allSymbols T c.tree).eraseDups
    let src := match c.source with
      | some u => (allSymbols T u).eraseDups
      | none => typed
    -- what the query references: the symbols of the typed tree and, for parsed text, of the text itself
    let all := (typed ++ src ++ c.expected).eraseDups
    let bad := all.filter (fun s => !specIsPublic c.cfg s)
    let tt := typed.all (fun s => src.contains s) && src.all (fun s => typed.contains s)
    -- the modelled typing transformation, applied to the real untyped tree for the real symbol types,
    -- yields the real typed tree
    let ty := match c.source, c.symtab with
      | some u, some st =>
        okIs (transform env (line.length) st u) c.tree
      | _, _ => true
    "wf=" ++ b01 (nilOk c.tree) ++ " cfg=" ++ b01 (pubWF c.cfg) ++ " nc=" ++ b01 (namesCovered T c.tree) ++
      " tt=" ++ b01 tt ++ " ty=" ++ b01 ty ++ " bad=" ++ encodeNames bad ++ " all=" ++ encodeNames all

def run (spec : Bool) : IO Unit := forEachLine (if spec then specStep else step)

end StorageModel.Driver.C20
