import StorageModel.Driver.Common
import StorageModel.Codec.CompoundKey
import StorageModel.Codec.Bucket
import StorageModel.Codec.Context
/- model driver for C13: `run spec` reads case lines on stdin and prints one output line per case
   (spec = false: the engine model's output; spec = true: the tokens the property demands — the
   check requires every spec token to occur among the implementation's tokens).

   case lines
     k <w>...                 EncodeStringSlice + DecodeStringSlice of the result
     d <w>                    DecodeStringSlice of arbitrary bytes
     j <w>... | <w>...        are the two encodings equal?
     e c=<chk> m=<map> <op>.. entity script: ops `p…` (pre-state, own transaction, no checker) and
                              `w…` (the write under the checker); then every getter on every field
     h x=<path> c=<chk> <tok>..  entity write through derived contexts, on a parent / child store pair
                              (child entity bucket = `<path>` below the parent store's entity bucket,
                              `x=-`: the store has no parent; `X=`: the Update is issued on the parent
                              store and handed to the child store).  `@<p|w><^|.>[/<w>/..][~a>b,..]` opens a block:
                              phase (`p` = the Create that builds the pre-state, nil checker; `w` = the
                              Update under the checker), the context (`^` = ctx.GetParentContext(), `.` =
                              ctx), an optional GetOrCreatePath below its bucket, optional
                              WithFieldOverrides; `<code>:<field>:<value>` tokens are its field operations
     tm <sec> <nsec> <rep>    `time.Time.MarshalBinary` on the value as given, `UnmarshalBinary` of the bytes
     tu <w>                   `time.Time.UnmarshalBinary` of arbitrary bytes
   value text: N | S<wire> | i<int> | I<int> | n<int> | F<hex16> | B0 | B1 | T<hex>[/<rep>] | M(<wire>=V,…) | L(V,…) | U
   a time: <hex> = the UTC `MarshalBinary` bytes of the instant, <rep> = the representation the writer is
   handed: `u` UTC, `f<off>` / `l<off>` / `L<off>` a zone with that offset (FixedZone, `time.Local` set to
   one, the process's own Local), `n<off>` such a zone and a monotonic reading; without <rep> one of six
   zones picked by the payload bytes -/
namespace StorageModel.Driver.C13
open StorageModel StorageModel.Driver StorageModel.Codec

/-! ## text helpers -/

def wire (b : Bytes) : String := Bytes.toWire b
def listText (xs : List Bytes) : String := "[" ++ ",".intercalate (xs.map wire) ++ "]"

def hex16 (n : Nat) : String :=
  String.ofList ((List.range 16).map fun i => Bytes.hexDigit ((n / 16 ^ (15 - i)) % 16))

def parseHexNat (s : List Char) : Option Nat :=
  s.foldl (fun acc c => do let a ← acc; let d ← Bytes.hexVal c; pure (a * 16 + d)) (some 0)

def isTerm (c : Char) : Bool := c == ',' || c == ')' || c == '='

def spanTok (s : List Char) : List Char × List Char := s.span (fun c => !isTerm c)

def parseInt (s : List Char) : Option Int :=
  match s with
  | '-' :: r => (String.ofList r).toNat?.map fun n => -(n : Int)
  | r => (String.ofList r).toNat?.map fun n => (n : Int)

def parseWire (s : List Char) : Option Bytes := Bytes.ofHex (String.ofList s)

/-- the six zones of the older cases: UTC, +5:30, -8, +14, -3:27:13, `FixedZone("", 0)` -/
def legacyLoc (payload : Bytes) : Loc :=
  match (payload.foldl (fun a b => a + b.toNat) 0) % 6 with
  | 0 => .utc
  | 1 => .zone 19800
  | 2 => .zone (-28800)
  | 3 => .zone 50400
  | 4 => .zone (-12433)
  | _ => .zone 0

/-- representation suffix of a time -/
def parseRep (s : List Char) : Option (Loc × Bool) :=
  match s with
  | ['u'] => some (.utc, false)
  | 'f' :: r => (parseInt r).map fun o => (.zone o, false)
  | 'l' :: r => (parseInt r).map fun o => (.zone o, false)
  | 'L' :: r => (parseInt r).map fun o => (.zone o, false)
  | 'n' :: r => (parseInt r).map fun o => (.zone o, true)
  | _ => none

/-- `T<hex>[/<rep>]`: the instant from the bytes (through the model of `UnmarshalBinary`), the
    representation from the suffix -/
def parseTime (tok : List Char) : Option GoTime :=
  let (h, r) := tok.span (· != '/')
  match parseWire h with
  | none => none
  | some b =>
    match unmarshalBinary b with
    | .error _ => none
    | .ok t =>
      match r with
      | [] => some { t with loc := legacyLoc b }
      | _ :: rep => (parseRep rep).map fun (l, m) => { t with loc := l, mono := m }

/-- how a time is printed: the bytes of `value.UTC().MarshalBinary()` -/
def timeText (t : GoTime) : String :=
  match marshalBinary t.utc with
  | .ok p => "T" ++ wire p
  | .error _ => "T!marshal"

mutual
partial def parseV (s : List Char) : Option (Value × List Char) :=
  match s with
  | 'N' :: r => some (.nil, r)
  | 'U' :: r => some (.unsupported, r)
  | 'B' :: '0' :: r => some (.bool false, r)
  | 'B' :: '1' :: r => some (.bool true, r)
  | 'S' :: r => let (t, r') := spanTok r; (parseWire t).map fun b => (.str b, r')
  | 'T' :: r => let (t, r') := spanTok r; (parseTime t).map fun b => (.time b, r')
  | 'i' :: r => let (t, r') := spanTok r; (parseInt t).map fun i => (.i32 i, r')
  | 'I' :: r => let (t, r') := spanTok r; (parseInt t).map fun i => (.i64 i, r')
  | 'n' :: r => let (t, r') := spanTok r; (parseInt t).map fun i => (.goInt i, r')
  | 'F' :: r => let (t, r') := spanTok r; (parseHexNat t).map fun n => (.f64 n, r')
  | 'M' :: '(' :: ')' :: r => some (.map [], r)
  | 'M' :: '(' :: r => (parseKvs r).map fun (kvs, r') => (.map kvs, r')
  | 'L' :: '(' :: ')' :: r => some (.list [], r)
  | 'L' :: '(' :: r => (parseXs r).map fun (xs, r') => (.list xs, r')
  | _ => none
partial def parseKvs (s : List Char) : Option (List (Bytes × Value) × List Char) := do
  let (kt, r) := spanTok s
  let k ← parseWire kt
  match r with
  | '=' :: r1 =>
    let (v, r2) ← parseV r1
    match r2 with
    | ',' :: r3 => let (rest, r4) ← parseKvs r3; pure ((k, v) :: rest, r4)
    | ')' :: r3 => pure ([(k, v)], r3)
    | _ => none
  | _ => none
partial def parseXs (s : List Char) : Option (List Value × List Char) := do
  let (v, r2) ← parseV s
  match r2 with
  | ',' :: r3 => let (rest, r4) ← parseXs r3; pure (v :: rest, r4)
  | ')' :: r3 => pure ([v], r3)
  | _ => none
end

def parseValue (s : String) : Option Value :=
  match parseV s.toList with
  | some (v, []) => some v
  | _ => none

mutual
partial def showV : Value → String
  | .nil => "N"
  | .unsupported => "U"
  | .bool b => if b then "B1" else "B0"
  | .str s => "S" ++ wire s
  | .time t => timeText t
  | .i32 i => "i" ++ toString i
  | .i64 i => "I" ++ toString i
  | .goInt i => "n" ++ toString i
  | .f64 n => "F" ++ hex16 n
  | .map kvs => "M(" ++ ",".intercalate (kvs.map fun (k, v) => wire k ++ "=" ++ showV v) ++ ")"
  | .list xs => "L(" ++ ",".intercalate (xs.map showV) ++ ")"
end

partial def dumpB (es : Bkt) : String :=
  "(" ++ ",".intercalate (es.map fun (k, n) =>
    match n with
    | .val b => wire k ++ "=" ++ wire b
    | .sub c => wire k ++ dumpB c) ++ ")"

def errName : BErr → String
  | .keyRequired => "keyRequired"
  | .keyTooLarge => "keyTooLarge"
  | .incompatible => "incompatible"
  | .bucketNameRequired => "bucketNameRequired"
  | .nestedMaps => "nestedMaps"
  | .nestedLists => "nestedLists"
  | .unsupported => "unsupported"
  | .required => "required"
  | .timeMarshal => "timeMarshal"

def keyErrName : KeyErr → String
  | .encodeTooLong => "encodeTooLong"
  | .badVarint => "badVarint"
  | .decodeTooLong => "decodeTooLong"
  | .short => "short"

/-! ## compound keys -/

def parseWires (ws : List String) : Option (List Bytes) := ws.mapM Bytes.ofHex

def decText (r : Except KeyErr (List Bytes)) : String :=
  match r with
  | .ok xs => "dec=" ++ listText xs
  | .error e => "dec=err:" ++ keyErrName e

def stepK (ws : List String) : String :=
  match parseWires ws with
  | none => "bad-case"
  | some xs =>
    match encodeStringSlice xs with
    | .error e => "enc=err:" ++ keyErrName e ++ " dec=-"
    | .ok enc => "enc=" ++ wire enc ++ " " ++ decText (decodeStringSlice enc)

def specK (ws : List String) : String :=
  match parseWires ws with
  | none => "bad-case"
  | some xs =>
    if xs.all (fun x => x.length ≤ maxLinkedSetKeySize) then "dec=" ++ listText xs
    else "enc=err:encodeTooLong"

def splitBar (ws : List String) : List String × List String :=
  let (a, b) := ws.span (· != "|")
  (a, b.drop 1)

def stepJ (ws : List String) : String :=
  let (a, b) := splitBar ws
  match parseWires a, parseWires b with
  | some xs, some ys =>
    match encodeStringSlice xs, encodeStringSlice ys with
    | .ok e1, .ok e2 => if e1 = e2 then "eq=1" else "eq=0"
    | _, _ => "eq=err"
  | _, _ => "bad-case"

def specJ (ws : List String) : String :=
  let (a, b) := splitBar ws
  match parseWires a, parseWires b with
  | some xs, some ys =>
    if (xs ++ ys).all (fun x => x.length ≤ maxLinkedSetKeySize) then (if xs = ys then "eq=1" else "eq=0")
    else "eq=err"
  | _, _ => "bad-case"

/-! ## entity scripts -/

structure Op where
  pre : Bool
  code : String
  field : Bytes
  op : FieldOp

def strListOf (v : Value) : Option (List Bytes) :=
  match v with
  | .list xs => xs.mapM fun x => match x with
    | .str s => some s
    | _ => none
  | _ => none

def mkFieldOp (code : String) (v : Value) : Option FieldOp :=
  match code, v with
  | "str", .str s => some (.str s)
  | "strp", .str s => some (.strP (some s))
  | "strp", .nil => some (.strP none)
  | "rstr", .str s => some (.requiredStr s)
  | "gstr", .str s => some (.getAndSetStr s)
  | "i32", .i32 i => some (.i32 i)
  | "i64", .i64 i => some (.i64 i)
  | "f64", .f64 b => some (.f64 b)
  | "bool", .bool b => some (.bool b)
  | "time", .time p => some (.time p)
  | "timep", .time p => some (.timeP (some p))
  | "timep", .nil => some (.timeP none)
  | "sl", l => (strListOf l).map .strList
  | "gsl", l => (strListOf l).map .getAndSetStrList
  | "map", .map kvs => some (.map kvs true)
  | "mapf", .map kvs => some (.map kvs false)
  | "list", .list xs => some (.list xs)
  | "nil", .nil => some .setNil
  | _, _ => none

def parseOp (tok : String) : Option Op :=
  match tok.splitOn ":" with
  | [pc, fw, vt] =>
    match pc.toList with
    | ph :: code => do
      let f ← Bytes.ofHex fw
      let v ← parseValue vt
      let op ← mkFieldOp (String.ofList code) v
      pure { pre := ph == 'p', code := String.ofList code, field := f, op := op }
    | [] => none
  | _ => none

def parseChk (t : String) : Option Checker :=
  if t == "c=-" then some none
  else if t.startsWith "c=." then
    let body := (t.drop 3).toString
    let names := if body.isEmpty then some [] else (body.splitOn ",").mapM Bytes.ofHex
    names.map fun ns => some (fun f => ns.contains f)
  else none

def parseMappingsBody (b : String) : Option (List (Bytes × Bytes)) :=
  (b.splitOn ",").mapM fun p =>
    match p.splitOn ">" with
    | [a, b] => do pure ((← Bytes.ofHex a), (← Bytes.ofHex b))
    | _ => none

/-- `m=<t1>;<t2>;…`: one `WithFieldOverrides` call per table, in order -/
def parseMappingSeq (t : String) : Option (List (List (Bytes × Bytes))) :=
  if t == "m=-" then some []
  else if t.startsWith "m=" then ((t.drop 2).toString.splitOn ";").mapM fun b => parseMappingsBody b
  else none

def parseMappings (t : String) : Option (List (Bytes × Bytes)) :=
  if t == "m=-" then some []
  else if t.startsWith "m=" then
    ((t.drop 2).toString.splitOn ",").mapM fun p =>
      match p.splitOn ">" with
      | [a, b] => do pure ((← Bytes.ofHex a), (← Bytes.ofHex b))
      | _ => none
  else none

def strReadText : StrRead → String
  | .nil => "nil"
  | .str s => "S" ++ wire s
  | .ofBool b => "S" ++ wire (Bytes.ofString (if b then "true" else "false"))
  | .ofInt i => "S" ++ wire (Bytes.ofString (toString i))
  | .opaque => "*"
  | .panic => "panic"

def optText {α : Type} (f : α → String) : Option α → String
  | none => "nil"
  | some a => f a

def floatBits (r : FloatRead) : String :=
  match r with
  | .bits b => hex16 b
  | .ofInt i => hex16 (Float.ofInt i).toBits.toNat

def resText {α : Type} (f : α → String) : Res α → String
  | .ok a => f a
  | .panic => "panic"

def fieldReadsP (p : String) (es : Bkt) (f : Bytes) : List String :=
  let kind := match look es f with
    | none => "absent"
    | some (.val _) => "val"
    | some (.sub _) => "bucket"
  [ p ++ "k=" ++ kind,
    p ++ "raw=" ++ optText wire (bget es f),
    p ++ "s=" ++ strReadText (getString es f),
    p ++ "b=" ++ optText (fun b => if b then "1" else "0") (getBool es f),
    p ++ "i32=" ++ optText toString (getInt32 es f),
    p ++ "i64=" ++ optText toString (getInt64 es f),
    p ++ "f64=" ++ optText floatBits (getFloat64 es f),
    p ++ "t=" ++ optText timeText (getTime es f),
    p ++ "sl=" ++ listText ((getStringList es f).getD []),
    p ++ "m=" ++ resText showV (getMap es f),
    p ++ "l=" ++ resText (optText showV) (getList es f) ]

def fieldReads (es : Bkt) (f : Bytes) : List String := fieldReadsP ("f:" ++ wire f ++ ":") es f

def dedupKeep (xs : List Bytes) : List Bytes :=
  xs.foldl (fun acc x => if acc.contains x then acc else acc ++ [x]) []

/-- observation of a GetAndSet operation, taken on the state before it -/
def obsOf (tb : TB) (o : Op) (chk : Checker) (idx : Nat) : List String :=
  match o.op with
  | .getAndSetStr s =>
    match getAndSetStringObs tb o.field s chk with
    | (old, some c) => [s!"o{idx}=" ++ strReadText old ++ "/" ++ (if c then "1" else "0")]
    | (_, none) => [s!"o{idx}=*/*"]
  | .getAndSetStrList _ =>
    let (old, c) := getAndSetStringListObs tb o.field chk
    [s!"o{idx}=" ++ listText (old.getD []) ++ "/" ++ (if c then "1" else "0")]
  | _ => []

def runOps (tb : TB) (ops : List Op) (chkPre chkW : Checker) (idx : Nat) (obs : List String) : TB × List String :=
  match ops with
  | [] => (tb, obs)
  | o :: r =>
    let chk := if o.pre then chkPre else chkW
    let ob := if tb.err.isNone then obsOf tb o chk idx else []
    runOps (applyOp tb o.field o.op chk) r chkPre chkW (idx + 1) (obs ++ ob)

structure Script where
  chk : Checker
  ops : List Op

def parseScript (toks : List String) : Option Script :=
  match toks with
  | c :: m :: rest => do
    let chk ← parseChk c
    let mps ← parseMappingSeq m
    let ops ← rest.mapM parseOp
    let chk' := mps.foldl withFieldOverrides chk
    pure { chk := chk', ops := ops }
  | _ => none

def stepE (toks : List String) : String :=
  match parseScript toks with
  | none => "bad-case"
  | some sc =>
    let (tb, obs) := runOps { es := [] } sc.ops none sc.chk 0 []
    match tb.err with
    | some e => "err=" ++ errName e
    | none =>
      let fields := dedupKeep (sc.ops.map (·.field))
      " ".intercalate (["err=none"] ++ obs ++ (fields.flatMap (fieldReads tb.es)) ++ ["dump=" ++ dumpB tb.es])

/-! ### the spec of an entity script: the last effective write of each field decides what its
    primary getter returns; a field without effective write is absent -/

def demandsP (p : String) (op : Option FieldOp) : List String :=
  let allNil := [p ++ "s=nil", p ++ "b=nil", p ++ "i32=nil", p ++ "i64=nil", p ++ "f64=nil", p ++ "t=nil"]
  match op with
  | none => [p ++ "k=absent"]
  | some (.str s) | some (.strP (some s)) | some (.requiredStr s) | some (.getAndSetStr s) => [p ++ "s=S" ++ wire s]
  | some (.strP none) | some (.timeP none) | some .setNil => allNil
  | some (.i32 i) => [p ++ "i32=" ++ toString i, p ++ "i64=" ++ toString i]
  | some (.i64 i) => [p ++ "i64=" ++ toString i]
  | some (.f64 b) => [p ++ "f64=" ++ hex16 b]
  | some (.bool b) => [p ++ "b=" ++ (if b then "1" else "0")]
  -- the instant that was written, whatever its representation
  | some (.time t) | some (.timeP (some t)) => [p ++ "t=" ++ timeText { sec := t.sec, nsec := t.nsec }]
  | some (.strList xs) | some (.getAndSetStrList xs) => [p ++ "sl=" ++ listText (sortDedup xs)]
  | some (.map kvs _) => [p ++ "m=" ++ showV (normalize (.map kvs))]
  | some (.list xs) => [p ++ "l=" ++ showV (normalize (.list xs))]

def demands (f : Bytes) (op : Option FieldOp) : List String := demandsP ("f:" ++ wire f ++ ":") op

def specE (toks : List String) : String :=
  match parseScript toks with
  | none => "bad-case"
  | some sc =>
    let (tb, _) := runOps { es := [] } sc.ops none sc.chk 0 []
    match tb.err with
    | some _ => "-"      -- the property makes no demand on a refused write
    | none =>
      let fields := dedupKeep (sc.ops.map (·.field))
      let eff (f : Bytes) : Option FieldOp :=
        sc.ops.foldl (fun cur o =>
          if o.field = f && (o.pre || (match o.op with
              | .setNil => true
              | _ => match sc.chk with
                | none => true
                | some g => g f)) then some o.op else cur) none
      let sup (op : Option FieldOp) : Bool := match op with
        | some (.map kvs _) => supported (.map kvs)
        | some (.list xs) => supported (.list xs)
        | _ => true
      " ".intercalate (["err=none"] ++ fields.flatMap fun f => if sup (eff f) then demands f (eff f) else [])

/-! ## hierarchy scripts: writes through derived contexts -/

def pathText (p : List Bytes) : String := "/".intercalate (p.map wire)

def parsePath (t : String) : Option (List Bytes) :=
  if t.isEmpty then some [] else (t.splitOn "/").mapM Bytes.ofHex

structure HGroup where
  pre : Bool
  g : Group

/-- `@<p|w><^|.>[/<w>/..][~a>b,..][~c>a,..]…` (one `WithFieldOverrides` call per `~` table, in order) -/
def parseHeader (tok : String) : Option HGroup :=
  match tok.toList with
  | '@' :: ph :: tg :: rest =>
    let body := String.ofList rest
    let (pt, ov) := match body.splitOn "~" with
      | a :: tables => (a, tables)
      | [] => ("?", [])
    let np := if pt.isEmpty then some [] else if pt.startsWith "/" then parsePath (pt.drop 1).toString else none
    let ovr : Option (List (List (Bytes × Bytes))) := ov.mapM fun b => parseMappings ("m=" ++ b)
    match np, ovr with
    | some np, some ovr =>
      if (ph == 'p' || ph == 'w') && (tg == '^' || tg == '.') then
        some { pre := ph == 'p', g := { parent := tg == '^', ovr := ovr, np := np, ops := [] } }
      else none
    | _, _ => none
  | _ => none

def parseHOp (tok : String) : Option (Bytes × FieldOp) :=
  match tok.splitOn ":" with
  | [code, fw, vt] => do
    let f ← Bytes.ofHex fw
    let v ← parseValue vt
    let op ← mkFieldOp code v
    pure (f, op)
  | _ => none

def parseGroups (toks : List String) (cur : Option HGroup) (acc : List HGroup) : Option (List HGroup) :=
  match toks with
  | [] => some (acc ++ cur.toList)
  | t :: r =>
    if t.startsWith "@" then
      match parseHeader t with
      | none => none
      | some h => parseGroups r (some h) (acc ++ cur.toList)
    else
      match cur, parseHOp t with
      | some h, some fo => parseGroups r (some { h with g := { h.g with ops := h.g.ops ++ [fo] } }) acc
      | _, _ => none

structure HScript where
  own : List Bytes
  parentPath : Option (List Bytes)
  chk : Checker
  groups : List HGroup

def parseHScript (toks : List String) : Option HScript :=
  match toks with
  | x :: c :: rest => do
    let chk ← parseChk c
    let gs ← parseGroups rest none []
    if x == "x=-" then pure { own := [], parentPath := none, chk := chk, groups := gs }
    else if x.startsWith "x=" || x.startsWith "X=" then do   -- X: the Update goes through the parent store's ChildStoreUpdateHandler
      let p ← parsePath (x.drop 2).toString
      pure { own := p, parentPath := some [], chk := chk, groups := gs }
    else none
  | _ => none

/-- the bucket a block writes into, as a path below the root entity bucket -/
def groupBucket (sc : HScript) (g : Group) : List Bytes :=
  (if g.parent then sc.parentPath.getD [] else sc.own) ++ g.np

structure HRun where
  st : RunState
  failed : Option String     -- "panic" / "err=…" of the phase that stopped the script

def runH (sc : HScript) : HRun :=
  -- Create: the store's entity bucket is there before the strategy runs
  let root := (getOrCreatePath [] sc.own).1
  let pre := (sc.groups.filter (·.pre)).map (·.g)
  let wr := (sc.groups.filter (!·.pre)).map (·.g)
  let s1 := runGroups { tb := { es := root }, ctx := { path := sc.own, parentPath := sc.parentPath, chk := none, isCreate := true } } pre
  if s1.panicked then { st := s1, failed := some "panic" }
  else match s1.tb.err with
    | some e => { st := s1, failed := some ("err=" ++ errName e) }
    | none =>
      let s2 := runGroups { tb := s1.tb, ctx := { path := sc.own, parentPath := sc.parentPath, chk := sc.chk }, nested := s1.nested } wr
      if s2.panicked then { st := s2, failed := some "panic" }
      else match s2.tb.err with
        | some e => { st := s2, failed := some ("err=" ++ errName e) }
        | none => { st := s2, failed := none }

def dedupPairs (xs : List (List Bytes × Bytes)) : List (List Bytes × Bytes) :=
  xs.foldl (fun acc x => if acc.contains x then acc else acc ++ [x]) []

/-- every (bucket, field) the script names, in order; the blocks run phase by phase -/
def hFields (sc : HScript) : List (List Bytes × Bytes) :=
  let ordered := sc.groups.filter (·.pre) ++ sc.groups.filter (!·.pre)
  dedupPairs (ordered.flatMap fun h => h.g.ops.map fun o => (groupBucket sc h.g, o.1))

def hPrefix (bp : List Bytes) (f : Bytes) : String := "f:" ++ pathText bp ++ "|" ++ wire f ++ ":"

def stepH (toks : List String) : String :=
  match parseHScript toks with
  | none => "bad-case"
  | some sc =>
    let r := runH sc
    match r.failed with
    | some f => f
    | none =>
      let root := r.st.tb.es
      let nested := (List.range r.st.nested.length).zip r.st.nested |>.map fun (i, e) =>
        s!"n{i}=" ++ (match e with | none => "none" | some e => errName e)
      let reads := (hFields sc).flatMap fun (bp, f) =>
        match subAt root bp with
        | none => ["b:" ++ pathText bp ++ "|" ++ wire f ++ "=absent"]
        | some b => fieldReadsP (hPrefix bp f) b f
      -- the tree after a refused write is not modelled: only the error classes are compared then
      if r.st.nested.any (·.isSome) then " ".intercalate (["err=none"] ++ nested)
      else " ".intercalate (["err=none"] ++ nested ++ reads ++ ["dump=" ++ dumpB root])

/-- the checker each write-phase block runs under: `WithFieldOverrides` on the context itself stays
    for the later blocks, a parent context inherits the context's checker of that moment -/
def groupCheckers (chk : Checker) : List Group → List (Group × Checker)
  | [] => []
  | g :: r =>
    let c := g.ovr.foldl withFieldOverrides chk
    (g, c) :: groupCheckers (if g.parent then chk else c) r

def isPrefixOf (a b : List Bytes) : Bool := a.length ≤ b.length && b.take a.length == a

/-- what the property demands of a hierarchy script: in every bucket a field holds what its last
    effective write left (pre-state writes, writes the block's checker selects, `SetNil`); a field
    without one is absent.  No demand when a write was refused, and none when a written entry is
    (an ancestor of) a bucket another block writes into. -/
def specH (toks : List String) : String :=
  match parseHScript toks with
  | none => "bad-case"
  | some sc =>
    let r := runH sc
    if r.failed.isSome || r.st.nested.any (·.isSome) then "-"
    else
      let buckets := [sc.own, sc.parentPath.getD []] ++ sc.groups.map (fun h => groupBucket sc h.g)
      let entries := sc.groups.flatMap fun h => h.g.ops.map fun o => groupBucket sc h.g ++ [o.1]
      if entries.any (fun e => buckets.any (isPrefixOf e)) then "-"
      else
        let pre := (sc.groups.filter (·.pre)).map (·.g)
        let wr := groupCheckers sc.chk ((sc.groups.filter (!·.pre)).map (·.g))
        let writes : List (List Bytes × Bytes × FieldOp × Bool) :=
          (pre.flatMap fun g => g.ops.map fun o => (groupBucket sc g, o.1, o.2, true)) ++
          (wr.flatMap fun (g, c) => g.ops.map fun o => (groupBucket sc g, o.1, o.2,
            match o.2 with
            | .setNil => true
            | _ => match c with
              | none => true
              | some f => f o.1))
        let eff (bp : List Bytes) (f : Bytes) : Option FieldOp :=
          writes.foldl (fun cur w => if w.1 = bp && w.2.1 = f && w.2.2.2 then some w.2.2.1 else cur) none
        let sup (op : Option FieldOp) : Bool := match op with
          | some (.map kvs _) => supported (.map kvs)
          | some (.list xs) => supported (.list xs)
          | _ => true
        " ".intercalate (["err=none"] ++ (hFields sc).flatMap fun (bp, f) =>
          if sup (eff bp f) then demandsP (hPrefix bp f) (eff bp f) else [])

/-! ## `time.Time.MarshalBinary` / `UnmarshalBinary` themselves -/

def locText : Loc → String
  | .utc => "u"
  | .zone o => toString o

def timeFieldsText (t : GoTime) : String := s!"{t.sec}/{t.nsec}/" ++ locText t.loc

def unmarshalText (b : Bytes) : String × Option GoTime :=
  match unmarshalBinary b with
  | .error .noData => ("ub=err:noData", none)
  | .error .version => ("ub=err:version", none)
  | .error .length => ("ub=err:length", none)
  | .error .zoneOffset => ("ub=err:other", none)
  | .ok t => ("ub=" ++ timeFieldsText t, some t)

def stepTM (toks : List String) : String :=
  match toks with
  | [s, n, r] =>
    match parseInt s.toList, n.toNat?, parseRep r.toList with
    | some sec, some nsec, some (l, m) =>
      let t : GoTime := { sec := sec, nsec := nsec, loc := l, mono := m }
      match marshalBinary t with
      | .error _ => "mb=err:zoneOffset"
      | .ok p =>
        let (ub, u) := unmarshalText p
        let same := match u with
          | none => "-"
          | some u => if u.sec = t.sec ∧ u.nsec = t.nsec then "1" else "0"
        "mb=" ++ wire p ++ " " ++ ub ++ " same=" ++ same
    | _, _, _ => "bad-case"
  | _ => "bad-case"

/-- what the property's codec relies on: a valid time marshalled as given is either refused or read
    back as the same instant; a UTC time is never refused -/
def specTM (toks : List String) : String :=
  match toks with
  | [_, _, "u"] => "same=1"
  | _ => "-"

def stepTU (w : String) : String :=
  match Bytes.ofHex w with
  | none => "bad-case"
  | some b =>
    match unmarshalText b with
    | (ub, none) => ub
    | (ub, some t) => ub ++ " rm=" ++ timeText t

def step (line : String) : String :=
  match splitSp line with
  | "k" :: ws => stepK ws
  | ["d", w] => match Bytes.ofHex w with
    | some b => decText (decodeStringSlice b)
    | none => "bad-case"
  | "j" :: ws => stepJ ws
  | "e" :: toks => stepE toks
  | "h" :: toks => stepH toks
  | "tm" :: toks => stepTM toks
  | ["tu", w] => stepTU w
  | _ => "bad-case"

def specStep (line : String) : String :=
  match splitSp line with
  | "k" :: ws => specK ws
  | ["d", _] => "-"
  | "j" :: ws => specJ ws
  | "e" :: toks => specE toks
  | "h" :: toks => specH toks
  | "tm" :: toks => specTM toks
  | ["tu", _] => "-"
  | _ => "bad-case"

def run (spec : Bool) : IO Unit := forEachLine (if spec then specStep else step)

end StorageModel.Driver.C13
