import Std.Data.HashSet
import StorageModel.Driver.Common
import StorageModel.C05.Model
import StorageModel.C05.Spec
import StorageModel.C05.SelfW
import StorageModel.C05.Schema
import StorageModel.C05.SchemaSpec
import StorageModel.C05.KeySize
import StorageModel.C05.Restrict
/- model driver for C05: `run spec` reads case lines on stdin and prints one output line per case
   (spec = false: the engine model's output; spec = true: the spec's verdict).
   Case and output formats: see /verif/harness/c05.go. -/
namespace StorageModel.Driver.C05
open StorageModel StorageModel.Driver StorageModel.C05

abbrev Key := Bytes

def wires (l : List Key) : String := ",".intercalate (l.map Bytes.toWire)

def parseList (s : String) : List Key :=
  if s.isEmpty then [] else (s.splitOn ",").filterMap Bytes.ofHex

def parseSide (s : String) : Side := if s = "A" then .A else .B

def parseKey (s : String) : Key := (Bytes.ofHex s).getD []

def parseOp (s : String) : Option (Op Key) :=
  match s.splitOn ":" with
  | ["c", sd, id] => some (.create (parseSide sd) (parseKey id) (parseKey id).isEmpty none)
  | ["cl", sd, id, ks] => some (.create (parseSide sd) (parseKey id) (parseKey id).isEmpty (some (parseList ks)))
  | ["u", sd, id, ks, p] => some (.update (parseSide sd) (parseKey id) (parseList ks) (p != "0"))
  | ["d", sd, id] => some (.delete (parseSide sd) (parseKey id))
  | ["al", sd, id, ks] => some (.addLinks (parseSide sd) (parseKey id) (parseList ks))
  | ["rl", sd, id, ks] => some (.removeLinks (parseSide sd) (parseKey id) (parseList ks))
  | ["sl", sd, id, ks] => some (.setLinks (parseSide sd) (parseKey id) (parseList ks))
  | ["a1", sd, id, k] => some (.addLink (parseSide sd) (parseKey id) (parseKey k))
  | ["r1", sd, id, k] => some (.removeLink (parseSide sd) (parseKey id) (parseKey k))
  | ["inc", sd, id, k] => some (.incr (parseSide sd) (parseKey id) (parseKey k))
  | ["dec", sd, id, k] => some (.decr (parseSide sd) (parseKey id) (parseKey k))
  | ["set", sd, id, k, n] => (n.toInt?).map fun c => .setCount (parseSide sd) (parseKey id) (parseKey k) c
  | ["gl", sd, id] => some (.getLinks (parseSide sd) (parseKey id))
  | ["il", sd, id, k] => some (.isLinked (parseSide sd) (parseKey id) (parseKey k))
  | ["gc", sd, id, k] => some (.getCounts (parseSide sd) (parseKey id) (parseKey k))
  | _ => none

def optI (o : Option Int) : String :=
  match o with
  | some i => toString i
  | none => "n"

def tf (b : Bool) : String := if b then "t" else "f"

def showRet : Ret Key → String
  | .unit => "u"
  | .bool b => tf b
  | .int i => toString i
  | .olds a b => optI a ++ "~" ++ optI b
  | .keys l => "[" ++ wires l ++ "]"

def showErr : Err → String
  | .missing => "!missing"
  | .notFound => "!notfound"
  | .mismatch => "!mismatch"
  | .exists => "!exists"
  | .blank => "!blank"

/-- insertion sort by a strict order (rendering only) -/
def sortBy {α : Type} (lt : α → α → Bool) (l : List α) : List α :=
  l.foldr (fun x acc =>
    let rec ins : List α → List α
      | [] => [x]
      | y :: ys => if lt y x then y :: ins ys else x :: y :: ys
    ins acc) []

def sideName : Side → String
  | .A => "A"
  | .B => "B"

def rcSorted (m : Map Key Int) : List (Key × Int) := sortBy (fun a b => bytesLt a.1 b.1) m

/-- view of a model state: what the read API would answer for every pool entity, then the dump -/
def viewModel (s : St Key) (poolA poolB : List Key) : String :=
  let part (sd : Side) (pool other : List Key) : String :=
    String.join (pool.map fun id =>
      let ls := linksOf s (sd, id)
      let rc := match s.get (sd, id) with
        | some e => rcSorted e.rc
        | none => []
      sideName sd ++ "." ++ Bytes.toWire id ++ "=" ++ tf (exists? s (sd, id)) ++ "/" ++ wires ls ++ "/" ++ wires ls ++ "/"
        ++ String.join (other.map fun k => tf (ls.contains k)) ++ "/"
        ++ wires ls ++ "/" ++ wires ls ++ "/" ++ String.join (other.map fun k => tf (ls.contains k)) ++ "/"
        ++ ",".intercalate (rc.map fun p => Bytes.toWire p.1 ++ ":" ++ toString p.2) ++ "/"
        ++ wires (rc.map (·.1)).reverse ++ "/"
        ++ ",".intercalate (other.map fun k => optI (rcOf s (sd, id) k) ++ "~" ++ optI (rcOf s (sd.other, k) id))
        ++ ";")
  let ents := sortBy (fun (a b : Ref Key × Ent Key) =>
      (a.1.1 == .A && b.1.1 == .B) || (a.1.1 == b.1.1 && bytesLt a.1.2 b.1.2)) s
  let dump := String.join (ents.map fun p =>
      sideName p.1.1 ++ "." ++ Bytes.toWire p.1.2 ++ "[" ++ wires p.2.links ++ "]["
        ++ ",".intercalate ((rcSorted p.2.rc).map fun q => Bytes.toWire q.1 ++ ":" ++ toString q.2) ++ "];")
  part .A poolA poolB ++ part .B poolB poolA ++ "#" ++ dump

/-- run one transaction body on the model, literally: results, partial view on failure -/
def runTxModel (s : St Key) (ops : List (Op Key)) (poolA poolB : List Key) : St Key × String :=
  let rec go (cur : St Key) (ops : List (Op Key)) (acc : List String) : St Key × List String × String :=
    match ops with
    | [] => (cur, acc.reverse, "")
    | op :: rest =>
      let o := step cur op
      match o.err with
      | some e => (s, ((showRet o.ret ++ showErr e) :: acc).reverse, viewModel o.st poolA poolB)
      | none => go o.st rest (showRet o.ret :: acc)
  let r := go s ops []
  (r.1, ";".intercalate r.2.1 ++ "|" ++ r.2.2 ++ "|" ++ viewModel r.1 poolA poolB)

def parseTx (t : String) : List (Op Key) := (t.splitOn ";").filterMap parseOp

/-! ### the self-referential wiring (`S` cases): C05/SelfW.lean.  The spec is the same executable
    definition (proved symmetric / exact / clean-after-delete in Properties/C05.lean) printed in the
    spec's normalised form (a failing call only fails, partial states are not described) -/

namespace SelfDrv
open StorageModel.C05.SelfW

def parseOp (s : String) : Option (SOp Key) :=
  match s.splitOn ":" with
  | ["c", id] => some (.create (parseKey id) (parseKey id).isEmpty none)
  | ["cl", id, ks] => some (.create (parseKey id) (parseKey id).isEmpty (some (parseList ks)))
  | ["d", id] => some (.delete (parseKey id))
  | ["al", id, ks] => some (.addLinks (parseKey id) (parseList ks))
  | ["rl", id, ks] => some (.removeLinks (parseKey id) (parseList ks))
  | ["sl", id, ks] => some (.setLinks (parseKey id) (parseList ks))
  | ["a1", id, k] => some (.addLink (parseKey id) (parseKey k))
  | ["r1", id, k] => some (.removeLink (parseKey id) (parseKey k))
  | ["gl", id] => some (.getLinks (parseKey id))
  | _ => none

def view (s : St Key) (pool : List Key) : String :=
  let part := String.join (pool.map fun id =>
    let ls := L s id
    Bytes.toWire id ++ "=" ++ tf (exists? s (R id)) ++ "/" ++ wires ls ++ "/"
      ++ String.join (pool.map fun k => tf (ls.contains k)) ++ ";")
  let ents := sortBy (fun (a b : Ref Key × Ent Key) => bytesLt a.1.2 b.1.2) s
  part ++ "#" ++ String.join (ents.map fun p => Bytes.toWire p.1.2 ++ "[" ++ wires p.2.links ++ "];")

def runTx (spec : Bool) (s : St Key) (ops : List (SOp Key)) (pool : List Key) : St Key × String :=
  let rec go (cur : St Key) (ops : List (SOp Key)) (acc : List String) : St Key × List String × String :=
    match ops with
    | [] => (cur, acc.reverse, "")
    | op :: rest =>
      let o := sstepW cur op
      match o.err with
      | some e =>
        if spec then (s, ("!" :: acc).reverse, "*")
        else (s, ((showRet o.ret ++ showErr e) :: acc).reverse, view o.st pool)
      | none => go o.st rest (showRet o.ret :: acc)
  let r := go s ops []
  (r.1, ";".intercalate r.2.1 ++ "|" ++ r.2.2 ++ "|" ++ view r.1 pool)

def stepLine (spec : Bool) (pa : String) (txs : List String) : String :=
  let pool := parseList pa
  let r := txs.foldl (fun (acc : St Key × List String) t =>
    let o := runTx spec acc.1 ((t.splitOn ";").filterMap parseOp) pool
    (o.1, acc.2 ++ [o.2])) (([] : St Key), [])
  " ".intercalate r.2

end SelfDrv


/-! ### schema-parametrised cases (`G <schema> <poolA> <poolB> <tx> …`): C05/Schema.lean and
    C05/SchemaSpec.lean.  Formats: see /verif/harness/c05_schema.go -/

namespace SchemaDrv
open StorageModel.C05.Schema

def parseBool (c : Char) : Bool := c == '1'

def parseColl (s : String) : Option Coll :=
  match ((s.splitOn ".").headD "").toList with
  | ['p', a, b] => some (.plain (parseBool a) (parseBool b))
  | ['r', a, b] => some (.rc (parseBool a) (parseBool b))
  | ['s', f, c] => some (.self (if f == 'A' then .A else .B) (parseBool c))
  | _ => none

/-- naming variants of a collection end (`<coll>.<vA><vB>`): 0 bucket named like the symbol,
    1 another key, 2 under the prefix `refs`, 3 another key under `refs/deep` -/
def mkNaming (name : String) (v : Char) : Naming :=
  match v with
  | '1' => { name := name, key := "k" ++ name }
  | '2' => { name := name, key := name, pre := ["refs"] }
  | '3' => { name := name, key := "k" ++ name, pre := ["refs", "deep"] }
  | _ => { name := name, key := name }

def storeIdx (x : Store) : Nat := (match x.side with | .A => 0 | .B => 1) + (if x.child then 2 else 0)

/-- the k-th collection registered on a store uses that store's symbol name `f<k>` (the harness
    counts the same way): per collection the names of its side-A and side-B symbols -/
def collNames (colls : List Coll) : List (String × String) :=
  let step := fun (acc : List Nat × List (String × String)) (c : Coll) =>
    let cnt := acc.1
    let take := fun (cnt : List Nat) (x : Store) =>
      let k := cnt.getD (storeIdx x) 0
      ("f" ++ toString k, cnt.set (storeIdx x) (k + 1))
    match c.storeAt .A, c.storeAt .B with
    | some xa, some xb =>
      let ra := take cnt xa
      let rb := take ra.2 xb
      (rb.2, acc.2 ++ [(ra.1, rb.1)])
    | some xa, none =>
      let ra := take cnt xa
      (ra.2, acc.2 ++ [(ra.1, ra.1)])
    | _, _ => (cnt, acc.2 ++ [("", "")])
  (colls.foldl step ([0, 0, 0, 0], [])).2

/-- `<collections>[@<extA><extB>]`: the declared collections ("-" = none), each optionally followed
    by `.<vA><vB>` (naming variants of its two ends) and, optionally, which family's child store is
    extended -/
def parseSchema (s : String) : Schema :=
  let parts := s.splitOn "@"
  let cs := parts.headD "-"
  let toks := if cs == "-" then [] else (cs.splitOn ",").filter fun t => (parseColl t).isSome
  let colls := toks.filterMap parseColl
  let vars := toks.map fun t => (((t.splitOn ".").getD 1 "00") ++ "00").toList
  let names := collNames colls
  let flags := (parts.getD 1 "00").toList
  let ea := parseBool (flags.getD 0 '0')
  let eb := parseBool (flags.getD 1 '0')
  { colls := colls, ext := fun sd => match sd with | .A => ea | .B => eb,
    naming := fun i sd =>
      let nm := names.getD i ("", "")
      let v := vars.getD i ['0', '0']
      match sd with
      | .A => mkNaming nm.1 (v.getD 0 '0')
      | .B => mkNaming nm.2 (v.getD 1 '0') }

def parseStore (s : String) : Store :=
  match s with
  | "A" => ⟨.A, false⟩
  | "B" => ⟨.B, false⟩
  | "a" => ⟨.A, true⟩
  | _ => ⟨.B, true⟩

def parseOp (s : String) : Option (GOp Key) :=
  match s.splitOn ":" with
  | ["c", x, id] => some (.create (parseStore x) (parseKey id) (parseKey id).isEmpty none)
  | ["cl", x, id, i, ks] => some (.create (parseStore x) (parseKey id) (parseKey id).isEmpty (some (i.toNat!, parseList ks)))
  | ["u", x, id, i, ks, p] => some (.update (parseStore x) (parseKey id) i.toNat! (parseList ks) (p != "0"))
  | ["d", x, id] => some (.delete (parseStore x) (parseKey id))
  | ["al", i, sd, id, ks] => some (.link i.toNat! (.addLinks (parseSide sd) (parseKey id) (parseList ks)))
  | ["rl", i, sd, id, ks] => some (.link i.toNat! (.removeLinks (parseSide sd) (parseKey id) (parseList ks)))
  | ["sl", i, sd, id, ks] => some (.link i.toNat! (.setLinks (parseSide sd) (parseKey id) (parseList ks)))
  | ["a1", i, sd, id, k] => some (.link i.toNat! (.addLink (parseSide sd) (parseKey id) (parseKey k)))
  | ["r1", i, sd, id, k] => some (.link i.toNat! (.removeLink (parseSide sd) (parseKey id) (parseKey k)))
  | ["gl", i, sd, id] => some (.link i.toNat! (.getLinks (parseSide sd) (parseKey id)))
  | ["il", i, sd, id, k] => some (.link i.toNat! (.isLinked (parseSide sd) (parseKey id) (parseKey k)))
  | ["inc", i, sd, id, k] => some (.count i.toNat! (.incr (parseSide sd) (parseKey id) (parseKey k)))
  | ["dec", i, sd, id, k] => some (.count i.toNat! (.decr (parseSide sd) (parseKey id) (parseKey k)))
  | ["set", i, sd, id, k, n] => (n.toInt?).map fun c => .count i.toNat! (.setCount (parseSide sd) (parseKey id) (parseKey k) c)
  | ["gc", i, sd, id, k] => some (.count i.toNat! (.getCounts (parseSide sd) (parseKey id) (parseKey k)))
  | _ => none

/-- what the read API answers, from a model state or from a spec state -/
structure Reader where
  has : Store → Key → Bool
  links : Nat → Side → Key → List Key
  counts : Nat → Side → Key → List (Key × Int)
  count : Nat → Side → Key → Key → Option Int

def ofModel (g : GSt Key) : Reader where
  has := g.ents
  links i sd id := linksOf (g.slots i) (sd, id)
  counts i sd id := match (g.slots i).get (sd, id) with
    | some e => rcSorted e.rc
    | none => []
  count i sd id k := rcOf (g.slots i) (sd, id) k

def ofSpec (sc : Schema) (g : GSSt Key) : Reader where
  has := g.ents
  links i sd id := match sc.colls[i]? with
    | some (.self _ _) => SelfW.L (g.selfs i) id
    | _ => Spec.partners (g.rels i) sd id
  counts i sd id := sortBy (fun (a b : Key × Int) => bytesLt a.1 b.1)
    (((g.rels i).cnt.filter fun e => Spec.mentions sd id e.1).map fun e => ((match sd with | .A => e.1.2 | .B => e.1.1), e.2))
  count i sd id k := Spec.count (g.rels i) sd id k

def famName : Side → String
  | .A => "A"
  | .B => "B"

def enumFrom {α : Type} (l : List α) : List (Nat × α) := (List.range l.length).zip l

def dedupKeys (l : List Key) : List Key :=
  (l.foldl (fun (acc : Std.HashSet Key × List Key) k =>
    if acc.1.contains k then acc else (acc.1.insert k, k :: acc.2)) ({}, [])).2.reverse

def view (sc : Schema) (r : Reader) (poolA poolB candA candB : List Key) : String :=
  let pool (sd : Side) := match sd with | .A => poolA | .B => poolB
  let cand (sd : Side) := match sd with | .A => candA | .B => candB
  let ents := String.join ([Side.A, Side.B].map fun f => String.join ((pool f).map fun id =>
    famName f ++ "." ++ Bytes.toWire id ++ "=" ++ tf (r.has ⟨f, false⟩ id) ++ tf (r.has ⟨f, true⟩ id) ++ ";"))
  let colls := String.join ((enumFrom sc.colls).map fun (i, c) =>
    "#" ++ toString i ++ ":" ++
    match c with
    | .plain _ _ => String.join ([Side.A, Side.B].map fun sd => String.join ((pool sd).map fun id =>
        let ls := r.links i sd id
        sideName sd ++ "." ++ Bytes.toWire id ++ "=" ++ wires ls ++ "/" ++ wires ls ++ "/"
          ++ String.join ((pool sd.other).map fun k => tf (ls.contains k)) ++ ";"))
    | .rc _ _ => String.join ([Side.A, Side.B].map fun sd => String.join ((pool sd).map fun id =>
        let rc := r.counts i sd id
        sideName sd ++ "." ++ Bytes.toWire id ++ "="
          ++ ",".intercalate (rc.map fun p => Bytes.toWire p.1 ++ ":" ++ toString p.2) ++ "/"
          ++ wires (rc.map (·.1)).reverse ++ "/"
          ++ ",".intercalate ((pool sd.other).map fun k => optI (r.count i sd id k) ++ "~" ++ optI (r.count i sd.other k id))
          ++ ";"))
    | .self f _ => String.join ((pool f).map fun id =>
        let ls := r.links i .A id
        Bytes.toWire id ++ "=" ++ wires ls ++ "/" ++ wires ls ++ "/"
          ++ String.join ((pool f).map fun k => tf (ls.contains k)) ++ ";"))
  let dump := String.join ([Side.A, Side.B].map fun f =>
    let ids := sortBy bytesLt ((cand f).filter fun id => r.has ⟨f, false⟩ id)
    String.join (ids.map fun id =>
      famName f ++ "." ++ Bytes.toWire id ++ (if r.has ⟨f, true⟩ id then "+" else "") ++
      String.join ((enumFrom sc.colls).map fun (i, c) =>
        match c.famSide f with
        | none => ""
        | some s =>
          let body := match c with
            | .rc _ _ => ",".intercalate ((r.counts i s id).map fun q => Bytes.toWire q.1 ++ ":" ++ toString q.2)
            | _ => wires (r.links i s id)
          if body.isEmpty then "" else "^" ++ "/".intercalate (sc.bucketPath i c s) ++ "=" ++ body) ++ ";"))
  ents ++ colls ++ "#D" ++ dump

/-- ids a history may create, per family: pools and every id of a create operation -/
def candidates (txs : List (List (GOp Key))) (pool : List Key) (f : Side) : List Key :=
  pool ++ (txs.flatten.filterMap fun op =>
    match op with
    | .create x id _ _ => if x.side = f then some id else none
    | _ => none)

/-- bbolt's `MaxKeySize` is 32768 and a link key is the type byte plus the id -/
def bigKey (k : Key) : Bool := decide (k.length ≥ 32768)

def showKErr : KErr → String
  | .base e => showErr e
  | .tooLarge => "!toolarge"

/-- evaluation plumbing only: the model's state holds its slots as a FUNCTION, so every operation
    wraps the previous one in a closure and a lookup would re-run the slot's whole history; this
    evaluates every declared slot once and stores the values (extensionally the same state) -/
def strictSlots (sc : Schema) (g : GSt Key) : GSt Key :=
  let arr := ((List.range sc.colls.length).map g.slots).toArray
  { ents := g.ents, slots := fun i => arr.getD i [] }

/-- the same for the entity buckets (a closure per operation): evaluated once per transaction for
    every id the history can create (pools and ids of create operations, the ids the dump lists) -/
def entSet (cands : List (Store × Key)) (ents : Store → Key → Bool) : Std.HashSet (Nat × Key) :=
  cands.foldl (fun acc p => if ents p.1 p.2 then acc.insert (storeIdx p.1, p.2) else acc) {}

/-- (the set is computed here, once, and captured by the closure: these return structures, not
    functions, so the compiler does not turn the `let` into per-call work) -/
def strictEntsM (cands : List (Store × Key)) (g : GSt Key) : GSt Key :=
  let set := entSet cands g.ents
  { g with ents := fun x k => set.contains (storeIdx x, k) }

def strictEntsS (cands : List (Store × Key)) (g : GSSt Key) : GSSt Key :=
  let set := entSet cands g.ents
  { g with ents := fun x k => set.contains (storeIdx x, k) }

def allCands (candA candB : List Key) : List (Store × Key) :=
  candA.flatMap (fun k => [(⟨.A, false⟩, k), (⟨.A, true⟩, k)]) ++
  candB.flatMap (fun k => [(⟨.B, false⟩, k), (⟨.B, true⟩, k)])

def strictSpec (sc : Schema) (g : GSSt Key) : GSSt Key :=
  let rels := ((List.range sc.colls.length).map g.rels).toArray
  let selfs := ((List.range sc.colls.length).map g.selfs).toArray
  { ents := g.ents, rels := fun i => rels.getD i {}, selfs := fun i => selfs.getD i [] }

def runTxModel (sc : Schema) (g : GSt Key) (ops : List (GOp Key)) (cands : List (Store × Key)) (vw : GSt Key → String) :
    GSt Key × String :=
  let rec go (cur : GSt Key) (ops : List (GOp Key)) (acc : List String) : GSt Key × List String × String :=
    match ops with
    | [] => (cur, acc.reverse, "")
    | op :: rest =>
      let o := gstepK sc bigKey cur op
      let st := strictSlots sc o.st
      match o.err with
      | some e => (g, ((showRet o.ret ++ showKErr e) :: acc).reverse, vw (strictEntsM cands st))
      | none => go st rest (showRet o.ret :: acc)
  let r := go g ops []
  let fin : GSt Key := strictEntsM cands r.1
  (fin, ";".intercalate r.2.1 ++ "|" ++ r.2.2 ++ "|" ++ vw fin)

def runTxSpec (sc : Schema) (g : GSSt Key) (ops : List (GOp Key)) (cands : List (Store × Key)) (vw : GSSt Key → String) :
    GSSt Key × String :=
  let rec go (cur : GSSt Key) (ops : List (GOp Key)) (acc : List String) : GSSt Key × List String × String :=
    match ops with
    | [] => (cur, acc.reverse, "")
    | op :: rest =>
      match gsstepK sc bigKey cur op with
      | none => (g, ("!" :: acc).reverse, "*")
      | some (g', ret) => go (strictSpec sc g') rest (showRet ret :: acc)
  let r := go g ops []
  let fin : GSSt Key := strictEntsS cands r.1
  (fin, ";".intercalate r.2.1 ++ "|" ++ r.2.2 ++ "|" ++ vw fin)

def stepLine (spec : Bool) (scs pa pb : String) (txs : List String) : String :=
  let sc := parseSchema scs
  if !sc.wf then "ill-formed-schema" else
  let poolA := parseList pa
  let poolB := parseList pb
  let ptxs := txs.map fun t => (t.splitOn ";").filterMap parseOp
  let candA := dedupKeys (candidates ptxs poolA .A)
  let candB := dedupKeys (candidates ptxs poolB .B)
  let cands := allCands candA candB
  if spec then
    let vw := fun (g : GSSt Key) => view sc (ofSpec sc g) poolA poolB candA candB
    let r := ptxs.foldl (fun (acc : GSSt Key × List String) t =>
      let o := runTxSpec sc acc.1 t cands vw
      (o.1, acc.2 ++ [o.2])) (({} : GSSt Key), [])
    " ".intercalate r.2
  else
    let vw := fun (g : GSt Key) => view sc (ofModel g) poolA poolB candA candB
    let r := ptxs.foldl (fun (acc : GSt Key × List String) t =>
      let o := runTxModel sc acc.1 t cands vw
      (o.1, acc.2 ++ [o.2])) ((g0 : GSt Key), [])
    " ".intercalate r.2

end SchemaDrv

/-! ### R-cases: the schema model plus a restricting fk, tolerated refused deletes and creates through a
    child store that persist the parent's link field (C05/Restrict.lean) -/
namespace RestrictDrv
open StorageModel.C05.Schema StorageModel.C05.Restrict SchemaDrv

def parseRSchema (s : String) : RSchema :=
  match s.splitOn "~" with
  | [sc, "AB"] => { sc := parseSchema sc, fk := some .A }
  | [sc, "BA"] => { sc := parseSchema sc, fk := some .B }
  | sc :: _ => { sc := parseSchema sc, fk := none }
  | [] => { sc := parseSchema "-", fk := none }

def parseROp (s : String) : Option (ROp Key) :=
  match s.splitOn ":" with
  | ["cr", _x, id, t] => some (.createRef (parseKey id) (parseKey id).isEmpty none (parseKey t))
  | ["crl", _x, id, t, i, ks] => some (.createRef (parseKey id) (parseKey id).isEmpty (some (i.toNat!, parseList ks)) (parseKey t))
  | ["cp", x, id, i, ks] => some (.createP (parseStore x) (parseKey id) (parseKey id).isEmpty i.toNat! (parseList ks))
  | ["dt", x, id] => some (.deleteT (parseStore x) (parseKey id))
  | _ => (SchemaDrv.parseOp s).map .g

def showRErr : RErr → String
  | .base e => showErr e
  | .referenced => "!referenced"
  | .fkMissing => "!notfound"

def rcandidates (rs : RSchema) (txs : List (List (ROp Key))) (pool : List Key) (f : Side) : List Key :=
  pool ++ (txs.flatten.filterMap fun op =>
    match op with
    | .g (.create x id _ _) => if x.side = f then some id else none
    | .createRef id _ _ _ => if rs.fk = some f then some id else none
    | .createP x id _ _ _ => if x.side = f then some id else none
    | _ => none)

def pairsView (l : List (Key × Key)) (sep : String) : String :=
  ";".intercalate (sortBy (fun (a b : String) => decide (a < b)) (l.map fun p => Bytes.toWire p.1 ++ sep ++ Bytes.toWire p.2))

def fkViewM (r : RSt Key) : String := "#F" ++ pairsView r.fkv ">" ++ "#I" ++ pairsView r.idx "<"
def fkViewS (r : RSSt Key) : String :=
  "#F" ++ pairsView r.refs ">" ++ "#I" ++ pairsView (r.refs.map fun p => (p.2, p.1)) "<"

def runTxModel (rs : RSchema) (r : RSt Key) (ops : List (ROp Key)) (cands : List (Store × Key)) (vw : RSt Key → String) :
    RSt Key × String :=
  let strict (x : RSt Key) : RSt Key := { x with g := strictSlots rs.sc x.g }
  let rec go (cur : RSt Key) (ops : List (ROp Key)) (acc : List String) : RSt Key × List String × String :=
    match ops with
    | [] => (cur, acc.reverse, "")
    | op :: rest =>
      let o := rstep rs cur op
      let st := strict o.st
      match o.err with
      | some e =>
        if op.tolerated then go st rest ((showRet o.ret ++ showRErr e) :: acc)
        else (r, ((showRet o.ret ++ showRErr e) :: acc).reverse, vw { st with g := strictEntsM cands st.g })
      | none => go st rest (showRet o.ret :: acc)
  let q := go r ops []
  let fin : RSt Key := { q.1 with g := strictEntsM cands q.1.g }
  (fin, ";".intercalate q.2.1 ++ "|" ++ q.2.2 ++ "|" ++ vw fin)

def runTxSpec (rs : RSchema) (r : RSSt Key) (ops : List (ROp Key)) (cands : List (Store × Key)) (vw : RSSt Key → String) :
    RSSt Key × String :=
  let rec go (cur : RSSt Key) (ops : List (ROp Key)) (acc : List String) : RSSt Key × List String × String :=
    match ops with
    | [] => (cur, acc.reverse, "")
    | op :: rest =>
      match rsstep rs cur op with
      | none => if op.tolerated then go cur rest ("!" :: acc) else (r, ("!" :: acc).reverse, "*")
      | some (r', ret) => go { r' with g := strictSpec rs.sc r'.g } rest (showRet ret :: acc)
  let q := go r ops []
  let fin : RSSt Key := { q.1 with g := strictEntsS cands q.1.g }
  (fin, ";".intercalate q.2.1 ++ "|" ++ q.2.2 ++ "|" ++ vw fin)

def stepLine (spec : Bool) (scs pa pb : String) (txs : List String) : String :=
  let rs := parseRSchema scs
  if !rs.sc.wf then "ill-formed-schema" else
  let poolA := parseList pa
  let poolB := parseList pb
  let ptxs := txs.map fun t => (t.splitOn ";").filterMap parseROp
  let candA := dedupKeys (rcandidates rs ptxs poolA .A)
  let candB := dedupKeys (rcandidates rs ptxs poolB .B)
  let cands := allCands candA candB
  if spec then
    let vw := fun (r : RSSt Key) => view rs.sc (ofSpec rs.sc r.g) poolA poolB candA candB ++ fkViewS r
    let r := ptxs.foldl (fun (acc : RSSt Key × List String) t =>
      let o := runTxSpec rs acc.1 t cands vw
      (o.1, acc.2 ++ [o.2])) (({} : RSSt Key), [])
    " ".intercalate r.2
  else
    let vw := fun (r : RSt Key) => view rs.sc (ofModel r.g) poolA poolB candA candB ++ fkViewM r
    let r := ptxs.foldl (fun (acc : RSt Key × List String) t =>
      let o := runTxModel rs acc.1 t cands vw
      (o.1, acc.2 ++ [o.2])) ((r0 : RSt Key), [])
    " ".intercalate r.2

end RestrictDrv

def step (line : String) : String :=
  match splitSp line with
  | "S" :: pa :: txs => SelfDrv.stepLine false pa txs
  | "G" :: sc :: pa :: pb :: txs => SchemaDrv.stepLine false sc pa pb txs
  | "R" :: sc :: pa :: pb :: txs => RestrictDrv.stepLine false sc pa pb txs
  | _kind :: pa :: pb :: txs =>
    let poolA := parseList pa
    let poolB := parseList pb
    let r := txs.foldl (fun (acc : St Key × List String) t =>
      let o := runTxModel acc.1 (parseTx t) poolA poolB
      (o.1, acc.2 ++ [o.2])) (([] : St Key), [])
    " ".intercalate r.2
  | _ => "bad-case"

/-! ### spec -/

open Spec in
def viewSpec (s : SSt Key) (poolA poolB : List Key) : String :=
  let part (sd : Side) (pool other : List Key) : String :=
    String.join (pool.map fun id =>
      let ls := partners s sd id
      let rc := sortBy (fun (a b : Key × Int) => bytesLt a.1 b.1)
        ((s.cnt.filter fun e => mentions sd id e.1).map fun e => ((match sd with | .A => e.1.2 | .B => e.1.1), e.2))
      sideName sd ++ "." ++ Bytes.toWire id ++ "=" ++ tf (has s (sd, id)) ++ "/" ++ wires ls ++ "/" ++ wires ls ++ "/"
        ++ String.join (other.map fun k => tf (linked s sd id k)) ++ "/"
        ++ wires ls ++ "/" ++ wires ls ++ "/" ++ String.join (other.map fun k => tf (linked s sd id k)) ++ "/"
        ++ ",".intercalate (rc.map fun p => Bytes.toWire p.1 ++ ":" ++ toString p.2) ++ "/"
        ++ wires (rc.map (·.1)).reverse ++ "/"
        ++ ",".intercalate (other.map fun k => optI (count s sd id k) ++ "~" ++ optI (count s sd id k))
        ++ ";")
  let ents := sortBy (fun (a b : Ref Key) =>
      (a.1 == .A && b.1 == .B) || (a.1 == b.1 && bytesLt a.2 b.2)) s.ents
  let dump := String.join (ents.map fun r =>
      let rc := sortBy (fun (a b : Key × Int) => bytesLt a.1 b.1)
        ((s.cnt.filter fun e => mentions r.1 r.2 e.1).map fun e => ((match r.1 with | .A => e.1.2 | .B => e.1.1), e.2))
      sideName r.1 ++ "." ++ Bytes.toWire r.2 ++ "[" ++ wires (partners s r.1 r.2) ++ "]["
        ++ ",".intercalate (rc.map fun q => Bytes.toWire q.1 ++ ":" ++ toString q.2) ++ "];")
  part .A poolA poolB ++ part .B poolB poolA ++ "#" ++ dump

/-- the spec has no opinion on return values of failing calls (`!`) nor on uncommitted partial
    states (`*`); the check normalises the implementation's line accordingly -/
def runTxSpec (s : Spec.SSt Key) (ops : List (Op Key)) (poolA poolB : List Key) : Spec.SSt Key × String :=
  let rec go (cur : Spec.SSt Key) (ops : List (Op Key)) (acc : List String) : Spec.SSt Key × List String × String :=
    match ops with
    | [] => (cur, acc.reverse, "")
    | op :: rest =>
      match Spec.sstep cur op with
      | none => (s, ("!" :: acc).reverse, "*")
      | some (s', ret) => go s' rest (showRet ret :: acc)
  let r := go s ops []
  (r.1, ";".intercalate r.2.1 ++ "|" ++ r.2.2 ++ "|" ++ viewSpec r.1 poolA poolB)

def specStep (line : String) : String :=
  match splitSp line with
  | "X" :: _ => "outside-vocabulary"
  | "S" :: pa :: txs => SelfDrv.stepLine true pa txs
  | "G" :: sc :: pa :: pb :: txs => SchemaDrv.stepLine true sc pa pb txs
  | "R" :: sc :: pa :: pb :: txs => RestrictDrv.stepLine true sc pa pb txs
  | _kind :: pa :: pb :: txs =>
    let poolA := parseList pa
    let poolB := parseList pb
    let r := txs.foldl (fun (acc : Spec.SSt Key × List String) t =>
      let o := runTxSpec acc.1 (parseTx t) poolA poolB
      (o.1, acc.2 ++ [o.2])) (({} : Spec.SSt Key), [])
    " ".intercalate r.2
  | _ => "bad-case"

def run (spec : Bool) : IO Unit := forEachLine (if spec then specStep else step)

end StorageModel.Driver.C05
