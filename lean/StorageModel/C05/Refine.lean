import StorageModel.C05.Hist
import StorageModel.C05.Spec
/-
  C05 — the model refines the relational specification (C05/Spec.lean): for every history inside
  the vocabulary, the model's committed state and the spec's state show the same entities, the same
  link sets on both sides and the same counts, and every operation returns the same value and
  fails in the same cases.
-/
set_option linter.unusedSectionVars false
namespace StorageModel.C05
open Spec

section
variable {K : Type} [KOrd K] [DecidableEq K]

/-- the abstraction relation: the spec's single relation / count map is side A's view -/
structure Rel (s : St K) (ss : SSt K) : Prop where
  ents : ∀ r, exists? s r = has ss r
  rel : ∀ a b, b ∈ linksOf s (.A, a) ↔ (a, b) ∈ ss.rel
  cnt : ∀ a b, rcOf s (.A, a) b = ss.cnt.get (a, b)

theorem rel_nil : Rel ([] : St K) ({} : SSt K) := by
  refine ⟨fun r => rfl, fun a b => ?_, fun a b => rfl⟩
  simp [linksOf, Map.get]

/-! ### pairs -/

theorem pair_eq (sd : Side) (id k a b : K) :
    pair sd id k = (a, b) ↔ (sd = .A ∧ id = a ∧ k = b) ∨ (sd = .B ∧ k = a ∧ id = b) := by
  cases sd <;> simp [pair]

theorem mentions_iff (sd : Side) (id a b : K) :
    mentions sd id (a, b) = true ↔ (sd = .A ∧ a = id) ∨ (sd = .B ∧ b = id) := by
  cases sd <;> simp [mentions]

/-- both orientations of the link relation, from side A's view and symmetry -/
theorem rel_side {s : St K} {ss : SSt K} (hr : Rel s ss) (hs : Sym s) (sd : Side) (x y : K) :
    y ∈ linksOf s (sd, x) ↔ pair sd x y ∈ ss.rel := by
  cases sd with
  | A => exact hr.rel x y
  | B =>
    have := hs .B x y
    simp only [Side.other] at this
    rw [this]; exact hr.rel y x

theorem cnt_side {s : St K} {ss : SSt K} {w : Int} (hr : Rel s ss) (hc : RcInv s w) (sd : Side) (x y : K) :
    rcOf s (sd, x) y = ss.cnt.get (pair sd x y) := by
  cases sd with
  | A => exact hr.cnt x y
  | B =>
    have := hc.1 .B x y
    simp only [Side.other] at this
    rw [this]; exact hr.cnt y x

theorem contains_iff {α : Type} [DecidableEq α] (l : List α) (x : α) : l.contains x = true ↔ x ∈ l := by
  simp

theorem linked_iff {s : St K} {ss : SSt K} (hr : Rel s ss) (hs : Sym s) (sd : Side) (id k : K) :
    linked ss sd id k = (linksOf s (sd, id)).contains k := by
  unfold linked
  have := rel_side hr hs sd id k
  cases h1 : ss.rel.contains (pair sd id k) <;> cases h2 : (linksOf s (sd, id)).contains k <;> simp_all

theorem count_eq {s : St K} {ss : SSt K} {w : Int} (hr : Rel s ss) (hc : RcInv s w) (sd : Side) (id k : K) :
    count ss sd id k = rcOf s (sd, id) k := (cnt_side hr hc sd id k).symm

/-! ### spec-side folds -/

theorem mem_addPair (ss : SSt K) (p q : K × K) : q ∈ (addPair ss p).rel ↔ q ∈ ss.rel ∨ q = p := by
  unfold addPair
  split
  · next h =>
    have : p ∈ ss.rel := by simpa using h
    constructor
    · intro hq; exact Or.inl hq
    · rintro (hq | rfl)
      · exact hq
      · exact this
  · simp only [List.mem_cons]
    constructor
    · rintro (h | h)
      · exact Or.inr h
      · exact Or.inl h
    · rintro (h | h)
      · exact Or.inr h
      · exact Or.inl h

theorem addPair_ents (ss : SSt K) (p : K × K) : (addPair ss p).ents = ss.ents := by
  unfold addPair; split <;> rfl

theorem addPair_cnt (ss : SSt K) (p : K × K) : (addPair ss p).cnt = ss.cnt := by
  unfold addPair; split <;> rfl

theorem foldl_addPair (sd : Side) (id : K) (keys : List K) (ss : SSt K) :
    (∀ q, q ∈ (keys.foldl (fun s k => addPair s (pair sd id k)) ss).rel ↔
      q ∈ ss.rel ∨ ∃ k ∈ keys, q = pair sd id k) ∧
    (keys.foldl (fun s k => addPair s (pair sd id k)) ss).ents = ss.ents ∧
    (keys.foldl (fun s k => addPair s (pair sd id k)) ss).cnt = ss.cnt := by
  induction keys generalizing ss with
  | nil => simp
  | cons k ks ih =>
    simp only [List.foldl_cons]
    obtain ⟨a, b, c⟩ := ih (addPair ss (pair sd id k))
    refine ⟨?_, by rw [b, addPair_ents], by rw [c, addPair_cnt]⟩
    intro q
    rw [a, mem_addPair]
    simp only [List.mem_cons]
    constructor
    · rintro ((h | h) | ⟨k', hk', h⟩)
      · exact Or.inl h
      · exact Or.inr ⟨k, Or.inl rfl, h⟩
      · exact Or.inr ⟨k', Or.inr hk', h⟩
    · rintro (h | ⟨k', rfl | hk', h⟩)
      · exact Or.inl (Or.inl h)
      · exact Or.inl (Or.inr h)
      · exact Or.inr ⟨k', hk', h⟩

theorem foldl_delPair (sd : Side) (id : K) (keys : List K) (ss : SSt K) :
    (∀ q, q ∈ (keys.foldl (fun s k => delPair s (pair sd id k)) ss).rel ↔
      q ∈ ss.rel ∧ ∀ k ∈ keys, q ≠ pair sd id k) ∧
    (keys.foldl (fun s k => delPair s (pair sd id k)) ss).ents = ss.ents ∧
    (keys.foldl (fun s k => delPair s (pair sd id k)) ss).cnt = ss.cnt := by
  induction keys generalizing ss with
  | nil => simp
  | cons k ks ih =>
    simp only [List.foldl_cons]
    obtain ⟨a, b, c⟩ := ih (delPair ss (pair sd id k))
    refine ⟨?_, by rw [b]; rfl, by rw [c]; rfl⟩
    intro q
    rw [a]
    simp only [delPair, List.mem_filter, decide_eq_true_eq, List.mem_cons]
    constructor
    · rintro ⟨⟨h1, h2⟩, h3⟩
      refine ⟨h1, ?_⟩
      rintro k' (rfl | hk')
      · exact h2
      · exact h3 k' hk'
    · rintro ⟨h1, h2⟩
      exact ⟨⟨h1, h2 k (Or.inl rfl)⟩, fun k' hk' => h2 k' (Or.inr hk')⟩

theorem get_filter_key {κ ν : Type} [DecidableEq κ] (m : Map κ ν) (p : κ → Bool) (k : κ) :
    Map.get (m.filter fun e => p e.1) k = if p k then Map.get m k else none := by
  induction m with
  | nil => simp [Map.get]
  | cons e m ih =>
    obtain ⟨a, v⟩ := e
    simp only [List.filter]
    by_cases ha : a = k
    · subst ha
      cases hp : p a with
      | true => simp [Map.get, hp]
      | false => simp only [hp]; rw [ih]; simp [hp]
    · cases hp : p a with
      | true => simp only [hp, Map.get, ha, if_false]; exact ih
      | false => simp only [hp]; rw [ih]; simp [Map.get, ha]

theorem has_cons (ss : SSt K) (r r' : Ref K) :
    has { ss with ents := r :: ss.ents } r' = (if r = r' then true else has ss r') := by
  unfold has
  by_cases h : r = r'
  · subst h; simp
  · have : ¬ r' = r := fun e => h e.symm
    simp [h, this]

theorem has_filter (ss : SSt K) (r r' : Ref K) (rel' : List (K × K)) (cnt' : Map (K × K) Int) :
    has { ents := ss.ents.filter (· ≠ r), rel := rel', cnt := cnt' } r' = (if r = r' then false else has ss r') := by
  unfold has
  by_cases h : r = r'
  · subst h; simp
  · have : ¬ r' = r := fun e => h e.symm
    simp [h, this]

theorem all_exist_iff {s : St K} {ss : SSt K} (hr : Rel s ss) (sd : Side) (keys : List K) :
    (keys.all fun k => has ss (sd.other, k)) = true ↔ ∀ k ∈ keys, exists? s (sd.other, k) = true := by
  simp only [List.all_eq_true]
  constructor
  · intro h k hk; rw [hr.ents]; exact h k hk
  · intro h k hk; rw [← hr.ents]; exact h k hk

theorem not_all_exist {s : St K} {ss : SSt K} (hr : Rel s ss) (sd : Side) (keys : List K)
    (h : (keys.all fun k => has ss (sd.other, k)) = false) : ∃ k ∈ keys, exists? s (sd.other, k) = false := by
  have : ¬ (∀ k ∈ keys, exists? s (sd.other, k) = true) := by
    intro hall; rw [(all_exist_iff hr sd keys).mpr hall] at h; cases h
  apply Classical.byContradiction
  intro hn
  apply this
  intro k hk
  cases he : exists? s (sd.other, k) with
  | true => rfl
  | false => exact absurd ⟨k, hk, he⟩ hn

end
end StorageModel.C05
