import StorageModel.C05.Model
/-
  C05 — frame lemmas: how `linksOf`, `rcOf`, `exists?` change under the primitive writes.
-/
set_option linter.unusedSectionVars false
namespace StorageModel.C05

section
variable {K : Type} [KOrd K] [DecidableEq K]

/-! ### put / del / upd -/

theorem linksOf_put (s : St K) (r r' : Ref K) (e : Ent K) :
    linksOf (s.put r e) r' = if r = r' then e.links else linksOf s r' := by
  unfold linksOf; rw [Map.get_put]; by_cases h : r = r' <;> simp [h]

theorem rcOf_put (s : St K) (r r' : Ref K) (e : Ent K) (k : K) :
    rcOf (s.put r e) r' k = if r = r' then e.rc.get k else rcOf s r' k := by
  unfold rcOf; rw [Map.get_put]; by_cases h : r = r' <;> simp [h]

theorem exists_put (s : St K) (r r' : Ref K) (e : Ent K) :
    exists? (s.put r e) r' = if r = r' then true else exists? s r' := by
  unfold exists?; rw [Map.get_put]; by_cases h : r = r' <;> simp [h]

theorem linksOf_del (s : St K) (r r' : Ref K) :
    linksOf (s.del r) r' = if r = r' then [] else linksOf s r' := by
  unfold linksOf; rw [Map.get_del]; by_cases h : r = r' <;> simp [h]

theorem rcOf_del (s : St K) (r r' : Ref K) (k : K) :
    rcOf (s.del r) r' k = if r = r' then none else rcOf s r' k := by
  unfold rcOf; rw [Map.get_del]; by_cases h : r = r' <;> simp [h]

theorem exists_del (s : St K) (r r' : Ref K) :
    exists? (s.del r) r' = if r = r' then false else exists? s r' := by
  unfold exists?; rw [Map.get_del]; by_cases h : r = r' <;> simp [h]

theorem exists_iff (s : St K) (r : Ref K) : exists? s r = true ↔ ∃ e, s.get r = some e := by
  unfold exists?; cases s.get r <;> simp

theorem linksOf_of_not_exists {s : St K} {r : Ref K} (h : exists? s r = false) : linksOf s r = [] := by
  unfold exists? at h; unfold linksOf; cases hg : s.get r <;> simp_all

theorem rcOf_of_not_exists {s : St K} {r : Ref K} (h : exists? s r = false) (k : K) : rcOf s r k = none := by
  unfold exists? at h; unfold rcOf; cases hg : s.get r <;> simp_all

theorem exists_of_mem_linksOf {s : St K} {r : Ref K} {k : K} (h : k ∈ linksOf s r) : exists? s r = true := by
  cases he : exists? s r with
  | true => rfl
  | false => rw [linksOf_of_not_exists he] at h; cases h

theorem exists_of_rcOf {s : St K} {r : Ref K} {k : K} {c : Int} (h : rcOf s r k = some c) : exists? s r = true := by
  cases he : exists? s r with
  | true => rfl
  | false => rw [rcOf_of_not_exists he] at h; cases h

/-- `upd` with a function that only rewrites the link list -/
theorem linksOf_updL (s : St K) (r r' : Ref K) (g : List K → List K) :
    linksOf (upd s r fun e => { e with links := g e.links }) r' =
      if r = r' ∧ exists? s r = true then g (linksOf s r) else linksOf s r' := by
  unfold upd
  cases hg : s.get r with
  | none =>
    have : exists? s r = false := by simp [exists?, hg]
    simp [this]
  | some e =>
    have : exists? s r = true := by simp [exists?, hg]
    rw [linksOf_put]
    by_cases h : r = r'
    · subst h; simp [this, linksOf, hg]
    · simp [h]

theorem rcOf_updL (s : St K) (r r' : Ref K) (g : List K → List K) (k : K) :
    rcOf (upd s r fun e => { e with links := g e.links }) r' k = rcOf s r' k := by
  unfold upd
  cases hg : s.get r with
  | none => rfl
  | some e =>
    rw [rcOf_put]
    by_cases h : r = r'
    · subst h; simp [rcOf, hg]
    · simp [h]

theorem exists_upd (s : St K) (r r' : Ref K) (f : Ent K → Ent K) :
    exists? (upd s r f) r' = exists? s r' := by
  unfold upd
  cases hg : s.get r with
  | none => rfl
  | some e =>
    rw [exists_put]
    by_cases h : r = r'
    · subst h; simp [exists?, hg]
    · simp [h]

/-- `upd` with a function that only rewrites the count map -/
theorem rcOf_updR (s : St K) (r r' : Ref K) (g : Map K Int → Map K Int) (k : K) :
    rcOf (upd s r fun e => { e with rc := g e.rc }) r' k =
      if r = r' then (match s.get r with | some e => (g e.rc).get k | none => none) else rcOf s r' k := by
  unfold upd
  cases hg : s.get r with
  | none =>
    by_cases h : r = r'
    · subst h; simp [rcOf, hg]
    · simp [h]
  | some e =>
    rw [rcOf_put]

theorem linksOf_updR (s : St K) (r r' : Ref K) (g : Map K Int → Map K Int) :
    linksOf (upd s r fun e => { e with rc := g e.rc }) r' = linksOf s r' := by
  unfold upd
  cases hg : s.get r with
  | none => rfl
  | some e =>
    rw [linksOf_put]
    by_cases h : r = r'
    · subst h; simp [linksOf, hg]
    · simp [h]

/-- sortedness of every link list -/
def AllSorted (s : St K) : Prop := ∀ r, SSorted (linksOf s r)

theorem allSorted_nil : AllSorted ([] : St K) := fun _ => List.Pairwise.nil

theorem allSorted_updL {s : St K} (h : AllSorted s) (r : Ref K) (g : List K → List K)
    (hg : ∀ l, SSorted l → SSorted (g l)) :
    AllSorted (upd s r fun e => { e with links := g e.links }) := by
  intro r'
  rw [linksOf_updL]
  split
  · exact hg _ (h r)
  · exact h r'

theorem allSorted_updR {s : St K} (h : AllSorted s) (r : Ref K) (g : Map K Int → Map K Int) :
    AllSorted (upd s r fun e => { e with rc := g e.rc }) := by
  intro r'; rw [linksOf_updR]; exact h r'

theorem allSorted_del {s : St K} (h : AllSorted s) (r : Ref K) : AllSorted (s.del r) := by
  intro r'; rw [linksOf_del]; split
  · exact List.Pairwise.nil
  · exact h r'

end
end StorageModel.C05
