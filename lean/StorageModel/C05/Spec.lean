import StorageModel.C05.Model
/-
  C05 — the specification: what the property text says, as a tiny executable reference.

  One relation `rel ⊆ A × B` ("a is linked with b") and one partial map `cnt : A × B → positive
  count`.  Both sides' views are *projections of the same relation*, so symmetry and agreement
  of the counts hold by construction; `setLinks` replaces the row of an entity by the requested
  set (duplicates and order irrelevant); linking to a missing entity fails; deleting an entity
  removes every pair that mentions it; a count that reaches zero removes the pair.
  A failing operation fails the transaction, which then changes nothing.
-/
set_option linter.unusedSectionVars false
namespace StorageModel.C05
namespace Spec

structure SSt (K : Type) where
  ents : List (Ref K) := []
  rel : List (K × K) := []
  cnt : Map (K × K) Int := []
  deriving Repr

section
variable {K : Type} [KOrd K] [DecidableEq K]

/-- orient a (local id, other key) pair as (A-side id, B-side id) -/
def pair (sd : Side) (id k : K) : K × K :=
  match sd with
  | .A => (id, k)
  | .B => (k, id)

def has (s : SSt K) (r : Ref K) : Bool := s.ents.contains r

/-- partners of an entity, as the sorted duplicate-free list a link bucket shows -/
def partners (s : SSt K) (sd : Side) (id : K) : List K :=
  match sd with
  | .A => dedupK (sortK ((s.rel.filter fun p => p.1 = id).map (·.2)))
  | .B => dedupK (sortK ((s.rel.filter fun p => p.2 = id).map (·.1)))

def linked (s : SSt K) (sd : Side) (id k : K) : Bool := s.rel.contains (pair sd id k)

def count (s : SSt K) (sd : Side) (id k : K) : Option Int := s.cnt.get (pair sd id k)

def addPair (s : SSt K) (p : K × K) : SSt K :=
  if s.rel.contains p then s else { s with rel := p :: s.rel }

def delPair (s : SSt K) (p : K × K) : SSt K := { s with rel := s.rel.filter (· ≠ p) }

def mentions (sd : Side) (id : K) (p : K × K) : Bool :=
  match sd with
  | .A => p.1 = id
  | .B => p.2 = id

/-- result of one operation: `none` = fails -/
def setRow (s : SSt K) (sd : Side) (id : K) (keys : List K) : Option (SSt K) :=
  if has s (sd, id) && keys.all (fun k => has s (sd.other, k)) then
    let cleared := { s with rel := s.rel.filter (fun p => !mentions sd id p) }
    some (keys.foldl (fun s k => addPair s (pair sd id k)) cleared)
  else none

def sstep (s : SSt K) : Op K → Option (SSt K × Ret K)
  | .create sd id blank links =>
    if blank || has s (sd, id) then none
    else
      let s1 := { s with ents := (sd, id) :: s.ents }
      match links with
      | none => some (s1, .unit)
      | some ks => (setRow s1 sd id ks).map (·, .unit)
  | .update sd id links proceed =>
    if !has s (sd, id) then none
    else if proceed then (setRow s sd id links).map (·, .unit) else some (s, .unit)
  | .delete sd id =>
    if !has s (sd, id) then none
    else some ({ ents := s.ents.filter (· ≠ (sd, id)),
                 rel := s.rel.filter (fun p => !mentions sd id p),
                 cnt := s.cnt.filter (fun e => !mentions sd id e.1) }, .unit)
  | .addLinks sd id keys =>
    if has s (sd, id) && keys.all (fun k => has s (sd.other, k)) then
      some (keys.foldl (fun s k => addPair s (pair sd id k)) s, .unit)
    else none
  | .removeLinks sd id keys =>
    if has s (sd, id) then some (keys.foldl (fun s k => delPair s (pair sd id k)) s, .unit) else none
  | .setLinks sd id keys => (setRow s sd id keys).map (·, .unit)
  | .addLink sd id k =>
    if has s (sd, id) && has s (sd.other, k) then
      some (addPair s (pair sd id k), .bool (!linked s sd id k))
    else none
  | .removeLink sd id k =>
    if has s (sd, id) then some (delPair s (pair sd id k), .bool (linked s sd id k)) else none
  | .incr sd id k =>
    if has s (sd, id) && has s (sd.other, k) then
      let n := (match count s sd id k with | some c => c | none => 0) + 1
      some ({ s with cnt := s.cnt.put (pair sd id k) n }, .int n)
    else none
  | .decr sd id k =>
    if has s (sd, id) then
      match count s sd id k with
      | none => some (s, .int (-1))
      | some c =>
        if c - 1 > 0 then some ({ s with cnt := s.cnt.put (pair sd id k) (c - 1) }, .int (c - 1))
        else some ({ s with cnt := s.cnt.del (pair sd id k) }, .int (c - 1))
    else none
  | .setCount sd id k c =>
    if has s (sd, id) && has s (sd.other, k) then
      let old := count s sd id k
      if c = 0 then some ({ s with cnt := s.cnt.del (pair sd id k) }, .olds old old)
      else some ({ s with cnt := s.cnt.put (pair sd id k) c }, .olds old old)
    else none
  | .getLinks sd id => some (s, .keys (partners s sd id))
  | .isLinked sd id k => some (s, .bool (linked s sd id k))
  | .getCounts sd id k => some (s, .olds (count s sd id k) (count s sd id k))

end
end Spec
end StorageModel.C05
