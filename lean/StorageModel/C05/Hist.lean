import StorageModel.C05.Delete
/-
  C05 — the invariants are preserved by every successful operation, hence by every transaction
  (a failing body is rolled back) and by every committed history.
-/
set_option linter.unusedSectionVars false
namespace StorageModel.C05

section
variable {K : Type} [KOrd K] [DecidableEq K]


/-! ### equations for transaction bodies -/

theorem runOps_cons_err {s : St K} {op : Op K} {ops : List (Op K)} {e : Err} (h : (step s op).err = some e) :
    runOps s (op :: ops) = ((step s op).st, true) := by
  simp only [runOps, h]

theorem runOps_cons_ok {s : St K} {op : Op K} {ops : List (Op K)} (h : (step s op).err = none) :
    runOps s (op :: ops) = runOps (step s op).st ops := by
  simp only [runOps, h]

theorem commitTx_failed {s : St K} {ops : List (Op K)} (h : (runOps s ops).2 = true) : commitTx s ops = s := by
  simp only [commitTx, h, if_true]

theorem commitTx_ok {s : St K} {ops : List (Op K)} (h : (runOps s ops).2 = false) :
    commitTx s ops = (runOps s ops).1 := by
  simp [commitTx, h]

/-- link-set part of the invariant: symmetric, and every bucket in key order -/
structure LInv (s : St K) : Prop where
  sym : Sym s
  sorted : AllSorted s

theorem lInv_nil : LInv ([] : St K) := ⟨sym_nil, allSorted_nil⟩

theorem lInv_of_linksOf_eq {s s' : St K} (h : LInv s) (he : ∀ r, linksOf s' r = linksOf s r) : LInv s' := by
  constructor
  · intro sd a b; rw [he, he]; exact h.sym sd a b
  · intro r; rw [he]; exact h.sorted r

/-! ### the ref-count operations never touch a link set (unconditionally) -/

theorem linksOf_put_same {s : St K} {r : Ref K} {e e' : Ent K} (hg : s.get r = some e) (hl : e'.links = e.links)
    (r' : Ref K) : linksOf (s.put r e') r' = linksOf s r' := by
  rw [linksOf_put]
  by_cases h : r = r'
  · subst h; simp [hl, linksOf, hg]
  · simp [h]

theorem bucketDecr_links (e : Ent K) (k : K) : (bucketDecr e k).1.links = e.links := (bucketDecr_write e k).1
theorem bucketSet_links (e : Ent K) (k : K) (c : Int) : (bucketSet e k c).1.links = e.links := (bucketSet_write e k c).1

theorem linksOf_rcIncr (s : St K) (sd : Side) (id k : K) (r : Ref K) :
    linksOf (rcIncr s sd id k).1 r = linksOf s r := by
  unfold rcIncr
  cases he : s.get (sd, id) with
  | none => rfl
  | some e =>
    simp only
    have h1 := linksOf_put_same (e' := (bucketIncr e k).1) he rfl
    cases ho : (s.put (sd, id) (bucketIncr e k).1).get (sd.other, k) with
    | none => simp only; exact h1 r
    | some o =>
      simp only
      have h2 := linksOf_put_same (e' := (bucketIncr o id).1) ho rfl
      split <;> (simp only; rw [h2, h1])

theorem linksOf_rcDecr (s : St K) (sd : Side) (id k : K) (r : Ref K) :
    linksOf (rcDecr s sd id k).1 r = linksOf s r := by
  unfold rcDecr
  cases he : s.get (sd, id) with
  | none => rfl
  | some e =>
    simp only
    have h1 := linksOf_put_same (e' := (bucketDecr e k).1) he (bucketDecr_links e k)
    cases ho : (s.put (sd, id) (bucketDecr e k).1).get (sd.other, k) with
    | none => simp only; split <;> exact h1 r
    | some o =>
      simp only
      have h2 := linksOf_put_same (e' := (bucketDecr o id).1) ho (bucketDecr_links o id)
      split <;> (simp only; rw [h2, h1])

theorem linksOf_rcSet (s : St K) (sd : Side) (id k : K) (c : Int) (r : Ref K) :
    linksOf (rcSet s sd id k c).1 r = linksOf s r := by
  unfold rcSet
  cases he : s.get (sd, id) with
  | none => rfl
  | some e =>
    simp only
    have h1 := linksOf_put_same (e' := (bucketSet e k c).1) he (bucketSet_links e k c)
    cases ho : (s.put (sd, id) (bucketSet e k c).1).get (sd.other, k) with
    | none => simp only; exact h1 r
    | some o =>
      simp only
      have h2 := linksOf_put_same (e' := (bucketSet o id c).1) ho (bucketSet_links o id c)
      rw [h2, h1]

/-! ### one successful operation -/

theorem addLink_err_none {s : St K} {sd : Side} {id k : K} (h : (addLink s sd id k).2.2 = none) :
    exists? s (sd, id) = true ∧ exists? s (sd.other, k) = true ∧ (addLink s sd id k).1 = (link s sd id k).1 := by
  cases hid : exists? s (sd, id) with
  | false => rw [addLink_missing_local k hid] at h; cases h
  | true =>
    obtain ⟨h1, h2⟩ := addLink_unfold k hid
    rw [h2] at h
    rcases link_err_or_ok s sd id k with ⟨e, _⟩ | ⟨_, e⟩
    · rw [e] at h; cases h
    · exact ⟨rfl, e, h1⟩

theorem createEntity_cases (s : St K) (sd : Side) (id : K) (blank : Bool) (links : Option (List K))
    (hok : (createEntity s sd id blank links).2 = none) :
    exists? s (sd, id) = false ∧
    ((links = none ∧ (createEntity s sd id blank links).1 = s.put (sd, id) {}) ∨
     (∃ ks, links = some ks ∧ (createEntity s sd id blank links) = setLinks (s.put (sd, id) {}) sd id ks)) := by
  unfold createEntity at hok ⊢
  cases blank with
  | true => simp at hok
  | false =>
    simp only [Bool.false_eq_true, if_false] at hok ⊢
    cases hg : s.get (sd, id) with
    | some e => rw [hg] at hok; simp at hok
    | none =>
      have : exists? s (sd, id) = false := by simp [exists?, hg]
      refine ⟨this, ?_⟩
      cases links with
      | none => left; exact ⟨rfl, rfl⟩
      | some ks => right; exact ⟨ks, rfl, rfl⟩

theorem step_lInv {s : St K} (h : LInv s) (op : Op K) (hok : (step s op).err = none) : LInv (step s op).st := by
  cases op with
  | create sd id blank links =>
    simp only [step] at hok ⊢
    obtain ⟨hne, hc⟩ := createEntity_cases s sd id blank links hok
    have h1 : LInv (s.put (sd, id) {}) := lInv_of_linksOf_eq h (create_fresh hne).1
    rcases hc with ⟨_, e⟩ | ⟨ks, _, e⟩
    · rw [e]; exact h1
    · rw [e] at hok ⊢; exact ⟨setLinks_sym h1.sym hok, setLinks_allSorted h1.sorted _ _ _⟩
  | update sd id links p =>
    simp only [step] at hok ⊢
    unfold updateEntity at hok ⊢
    cases hg : s.get (sd, id) with
    | none => rw [hg] at hok; simp at hok
    | some e =>
      rw [hg] at hok; simp only at hok ⊢
      cases p with
      | false => exact h
      | true => simp only [if_true] at hok ⊢; exact ⟨setLinks_sym h.sym hok, setLinks_allSorted h.sorted _ _ _⟩
  | delete sd id =>
    simp only [step] at hok ⊢
    exact ⟨deleteEntity_sym h.sym hok, deleteEntity_allSorted h.sorted⟩
  | addLinks sd id keys =>
    simp only [step] at hok ⊢
    cases hid : exists? s (sd, id) with
    | false => rw [addLinks_missing_local keys hid] at hok; cases hok
    | true =>
      rw [addLinks_unfold keys hid] at hok ⊢
      exact ⟨sym_linkAll sd id keys h.sym hid hok, allSorted_linkAll sd id keys h.sorted⟩
  | removeLinks sd id keys =>
    simp only [step] at hok ⊢
    cases hid : exists? s (sd, id) with
    | false => rw [removeLinks_missing_local keys hid] at hok; cases hok
    | true =>
      rw [removeLinks_unfold keys hid]
      exact ⟨sym_unlinkAll sd id keys h.sym, allSorted_unlinkAll sd id keys h.sorted⟩
  | setLinks sd id keys =>
    simp only [step] at hok ⊢
    exact ⟨setLinks_sym h.sym hok, setLinks_allSorted h.sorted _ _ _⟩
  | addLink sd id k =>
    simp only [step] at hok ⊢
    obtain ⟨hid, hk, e⟩ := addLink_err_none hok
    rw [e]; exact ⟨sym_link h.sym hk hid, allSorted_link h.sorted sd id k⟩
  | removeLink sd id k =>
    simp only [step] at hok ⊢
    cases hid : exists? s (sd, id) with
    | false => rw [removeLink_missing_local k hid] at hok; cases hok
    | true =>
      rw [(removeLink_unfold k hid).1]
      exact ⟨sym_unlink h.sym sd id k, allSorted_unlink h.sorted sd id k⟩
  | incr sd id k => simp only [step]; exact lInv_of_linksOf_eq h (linksOf_rcIncr s sd id k)
  | decr sd id k => simp only [step]; exact lInv_of_linksOf_eq h (linksOf_rcDecr s sd id k)
  | setCount sd id k c => simp only [step]; exact lInv_of_linksOf_eq h (linksOf_rcSet s sd id k c)
  | getLinks sd id => exact h
  | isLinked sd id k => exact h
  | getCounts sd id k => exact h

theorem runOps_lInv {s : St K} (h : LInv s) (ops : List (Op K)) (hok : (runOps s ops).2 = false) :
    LInv (runOps s ops).1 := by
  induction ops generalizing s with
  | nil => exact h
  | cons op ops ih =>
    cases he : (step s op).err with
    | some e => rw [runOps_cons_err he] at hok; simp at hok
    | none => rw [runOps_cons_ok he] at hok ⊢; exact ih (step_lInv h op he) hok

theorem commitTx_lInv {s : St K} (h : LInv s) (ops : List (Op K)) : LInv (commitTx s ops) := by
  cases hf : (runOps s ops).2 with
  | true => rw [commitTx_failed hf]; exact h
  | false => rw [commitTx_ok hf]; exact runOps_lInv h ops hf

theorem runHist_lInv {s : St K} (h : LInv s) (txs : List (List (Op K))) : LInv (runHist s txs) := by
  induction txs generalizing s with
  | nil => exact h
  | cons tx txs ih => exact ih (commitTx_lInv h tx)

/-! ### ref counts: vocabulary and weight -/

/-- the property's vocabulary: `SetLinkCount` is called with counts ≥ 0 -/
def OpVocab : Op K → Prop
  | .setCount _ _ _ c => 0 ≤ c
  | _ => True

/-- how far an operation can raise a count -/
def weight : Op K → Int
  | .incr _ _ _ => 1
  | .setCount _ _ _ c => c
  | _ => 0

def txWeight (ops : List (Op K)) : Int := (ops.map weight).sum
def histWeight (txs : List (List (Op K))) : Int := (txs.map txWeight).sum
def TxVocab (ops : List (Op K)) : Prop := ∀ op ∈ ops, OpVocab op
def HistVocab (txs : List (List (Op K))) : Prop := ∀ tx ∈ txs, TxVocab tx

theorem weight_nonneg {op : Op K} (h : OpVocab op) : 0 ≤ weight op := by
  cases op <;> simp [weight] <;> first | exact h | omega

theorem txWeight_nonneg {ops : List (Op K)} (h : TxVocab ops) : 0 ≤ txWeight ops := by
  induction ops with
  | nil => simp [txWeight]
  | cons op ops ih =>
    have h1 := weight_nonneg (h op (by simp))
    have h2 := ih (fun o ho => h o (by simp [ho]))
    simp only [txWeight, List.map_cons, List.sum_cons] at h2 ⊢; omega

theorem histWeight_nonneg {txs : List (List (Op K))} (h : HistVocab txs) : 0 ≤ histWeight txs := by
  induction txs with
  | nil => simp [histWeight]
  | cons tx txs ih =>
    have h1 := txWeight_nonneg (h tx (by simp))
    have h2 := ih (fun o ho => h o (by simp [ho]))
    simp only [histWeight, List.map_cons, List.sum_cons] at h2 ⊢; omega

theorem step_rcInv {s : St K} {w : Int} (h : RcInv s w) (hw0 : 0 ≤ w) (op : Op K) (hv : OpVocab op)
    (hw : w + weight op < 2147483648) (hok : (step s op).err = none) : RcInv (step s op).st (w + weight op) := by
  cases op with
  | create sd id blank links =>
    simp only [step, weight, Int.add_zero] at hok ⊢
    obtain ⟨hne, hc⟩ := createEntity_cases s sd id blank links hok
    have h1 : RcInv (s.put (sd, id) {}) w := rcInv_of_rcOf_eq h (create_fresh hne).2
    rcases hc with ⟨_, e⟩ | ⟨ks, _, e⟩
    · rw [e]; exact h1
    · rw [e]; exact rcInv_of_rcOf_eq h1 (setLinks_rcOf _ sd id ks)
  | update sd id links p =>
    simp only [step, weight, Int.add_zero] at hok ⊢
    unfold updateEntity
    cases hg : s.get (sd, id) with
    | none => exact h
    | some e =>
      simp only
      cases p with
      | false => exact h
      | true => simp only [if_true]; exact rcInv_of_rcOf_eq h (setLinks_rcOf _ sd id links)
  | delete sd id =>
    simp only [step, weight, Int.add_zero] at hok ⊢
    exact deleteEntity_rcInv h hok
  | addLinks sd id keys =>
    simp only [step, weight, Int.add_zero] at hok ⊢
    cases hid : exists? s (sd, id) with
    | false => rw [addLinks_missing_local keys hid]; exact h
    | true => rw [addLinks_unfold keys hid]; exact rcInv_of_rcOf_eq h (rcOf_linkAll sd id keys s)
  | removeLinks sd id keys =>
    simp only [step, weight, Int.add_zero] at hok ⊢
    cases hid : exists? s (sd, id) with
    | false => rw [removeLinks_missing_local keys hid]; exact h
    | true => rw [removeLinks_unfold keys hid]; exact rcInv_of_rcOf_eq h (rcOf_unlinkAll sd id keys s)
  | setLinks sd id keys =>
    simp only [step, weight, Int.add_zero] at hok ⊢
    exact rcInv_of_rcOf_eq h (setLinks_rcOf _ sd id keys)
  | addLink sd id k =>
    simp only [step, weight, Int.add_zero] at hok ⊢
    obtain ⟨_, _, e⟩ := addLink_err_none hok
    rw [e]; exact rcInv_of_rcOf_eq h (rcOf_link s sd id k)
  | removeLink sd id k =>
    simp only [step, weight, Int.add_zero] at hok ⊢
    cases hid : exists? s (sd, id) with
    | false => rw [removeLink_missing_local k hid]; exact h
    | true => rw [(removeLink_unfold k hid).1]; exact rcInv_of_rcOf_eq h (rcOf_unlink s sd id k)
  | incr sd id k =>
    simp only [step, weight] at hok hw ⊢
    exact rcIncr_inv h hw hw0 hok
  | decr sd id k =>
    simp only [step, weight, Int.add_zero] at hok hw ⊢
    exact rcDecr_inv h hw hok
  | setCount sd id k c =>
    simp only [step, weight] at hok hw ⊢
    exact rcSet_inv c h hv hw hw0 hok
  | getLinks sd id => simpa [step, weight] using h
  | isLinked sd id k => simpa [step, weight] using h
  | getCounts sd id k => simpa [step, weight] using h

theorem runOps_rcInv {s : St K} {w : Int} (h : RcInv s w) (hw0 : 0 ≤ w) (ops : List (Op K)) (hv : TxVocab ops)
    (hw : w + txWeight ops < 2147483648) (hok : (runOps s ops).2 = false) :
    RcInv (runOps s ops).1 (w + txWeight ops) := by
  induction ops generalizing s w with
  | nil => simpa [runOps, txWeight] using h
  | cons op ops ih =>
    have hvo := hv op (by simp)
    have hvr : TxVocab ops := fun o ho => hv o (by simp [ho])
    have hwo := weight_nonneg hvo
    have hwr := txWeight_nonneg hvr
    have hsplit : txWeight (op :: ops) = weight op + txWeight ops := by simp [txWeight]
    rw [hsplit] at hw ⊢
    cases he : (step s op).err with
    | some e => rw [runOps_cons_err he] at hok; simp at hok
    | none =>
      rw [runOps_cons_ok he] at hok ⊢
      have := ih (step_rcInv h hw0 op hvo (by omega) he) (by omega) hvr (by omega) hok
      rw [Int.add_assoc] at this; exact this

theorem commitTx_rcInv {s : St K} {w : Int} (h : RcInv s w) (hw0 : 0 ≤ w) (ops : List (Op K)) (hv : TxVocab ops)
    (hw : w + txWeight ops < 2147483648) : RcInv (commitTx s ops) (w + txWeight ops) := by
  cases hf : (runOps s ops).2 with
  | true =>
    rw [commitTx_failed hf]
    exact rcInv_mono h (by have := txWeight_nonneg hv; omega)
  | false => rw [commitTx_ok hf]; exact runOps_rcInv h hw0 ops hv hw hf

theorem runHist_rcInv {s : St K} {w : Int} (h : RcInv s w) (hw0 : 0 ≤ w) (txs : List (List (Op K)))
    (hv : HistVocab txs) (hw : w + histWeight txs < 2147483648) :
    RcInv (runHist s txs) (w + histWeight txs) := by
  induction txs generalizing s w with
  | nil => simpa [runHist, histWeight] using h
  | cons tx txs ih =>
    have hvt := hv tx (by simp)
    have hvr : HistVocab txs := fun o ho => hv o (by simp [ho])
    have h1 := txWeight_nonneg hvt
    have h2 := histWeight_nonneg hvr
    have hsplit : histWeight (tx :: txs) = txWeight tx + histWeight txs := by simp [histWeight]
    rw [hsplit] at hw ⊢
    have := ih (commitTx_rcInv h hw0 tx hvt (by omega)) (by omega) hvr (by omega)
    rw [Int.add_assoc] at this
    exact this

end
end StorageModel.C05
