import StorageModel.C05.Refine
/-
  C05 — simulation: one successful model operation = one spec operation with the same return value,
  a failing model operation = a failing spec operation; lifted to transactions and histories.
-/
set_option linter.unusedSectionVars false
namespace StorageModel.C05
open Spec

section
variable {K : Type} [KOrd K] [DecidableEq K]

/-- the model-side invariants needed to read both orientations off side A's view -/
structure MInv (s : St K) (w : Int) : Prop where
  l : LInv s
  c : RcInv s w

theorem setlinks_missing' {s : St K} (hinv : LInv s) {sd : Side} {id : K} {req : List K}
    (hid : exists? s (sd, id) = true) (hmiss : ∃ k ∈ req, exists? s (sd.other, k) = false) :
    (setLinks s sd id req).2 = some .notFound := by
  apply setLinks_missing hinv.sorted hid _ hmiss
  intro k hk
  exact exists_of_mem_linksOf ((hinv.sym sd id k).mp hk)

/-! ### SetLinks: full membership characterisation -/

theorem mem_setLinks {s : St K} (hinv : LInv s) {sd : Side} {id : K} {req : List K}
    (hid : exists? s (sd, id) = true) (hall : ∀ k ∈ req, exists? s (sd.other, k) = true) (sd' : Side) (x y : K) :
    y ∈ linksOf (setLinks s sd id req).1 (sd', x) ↔
      if sd' = sd then (if x = id then y ∈ req else y ∈ linksOf s (sd', x))
      else (if y = id then x ∈ req else y ∈ linksOf s (sd', x)) := by
  obtain ⟨hok, hrow, hframe⟩ := setLinks_ok hinv.sorted hid hall
  have hsym := setLinks_sym hinv.sym hok
  by_cases hsd : sd' = sd
  · subst hsd
    simp only [if_true]
    by_cases hx : x = id
    · subst hx; simp only [if_true]; rw [hrow, mem_dedup_sort]
    · simp only [hx, if_false]; exact hframe x hx y
  · have hso : sd' = sd.other := by cases sd <;> cases sd' <;> simp_all [Side.other]
    subst hso
    simp only [hsd, if_false]
    -- go through symmetry to the side of `id`
    have h1 := hsym sd y x
    rw [← h1]
    by_cases hy : y = id
    · subst hy; simp only [if_true]; rw [hrow, mem_dedup_sort]
    · simp only [hy, if_false]
      rw [hframe y hy x]
      exact hinv.sym sd y x

/-- `SetLinks` against the spec's `setRow` -/
theorem sim_setLinks {s : St K} {ss : SSt K} {w : Int} (hr : Rel s ss) (hm : MInv s w) (sd : Side) (id : K)
    (req : List K) :
    match (setLinks s sd id req).2 with
    | none => ∃ ss', setRow ss sd id req = some ss' ∧ Rel (setLinks s sd id req).1 ss'
    | some _ => setRow ss sd id req = none := by
  cases hid : exists? s (sd, id) with
  | false =>
    rw [setLinks_missing_local req hid]
    simp only [setRow]
    rw [← hr.ents, hid]; simp
  | true =>
    cases hall : (req.all fun k => has ss (sd.other, k)) with
    | false =>
      have hmiss := not_all_exist hr sd req hall
      rw [setlinks_missing' hm.l hid hmiss]
      simp only [setRow, hall]; simp
    | true =>
      have hall' := (all_exist_iff hr sd req).mp hall
      obtain ⟨hok, _, _⟩ := setLinks_ok hm.l.sorted hid hall'
      rw [hok]
      simp only [setRow]
      rw [← hr.ents, hid, hall]
      simp only [Bool.and_self, if_true]
      refine ⟨_, rfl, ?_⟩
      obtain ⟨fa, fb, fc⟩ := foldl_addPair sd id req { ss with rel := ss.rel.filter (fun p => !mentions sd id p) }
      refine ⟨?_, ?_, ?_⟩
      · intro r
        rw [setLinks_exists]
        unfold has; rw [fb]; exact hr.ents r
      · intro a b
        rw [mem_setLinks hm.l hid hall', fa]
        simp only [List.mem_filter, Bool.not_eq_true', ← hr.rel]
        have hment : mentions sd id (a, b) = false ↔ ¬ ((sd = .A ∧ a = id) ∨ (sd = .B ∧ b = id)) := by
          rw [← mentions_iff]; cases mentions sd id (a, b) <;> simp
        rw [hment]
        cases sd with
        | A =>
          simp only [true_and, if_true, reduceCtorEq, false_and, or_false, pair, Prod.mk.injEq]
          by_cases ha : a = id
          · subst ha
            simp only [if_true, not_true_eq_false, and_false, false_or]
            grind
          · simp only [ha, if_false, not_false_eq_true, and_true]
            grind
        | B =>
          simp only [reduceCtorEq, if_false, false_and, true_and, false_or, pair, Prod.mk.injEq]
          by_cases hb : b = id
          · subst hb
            simp only [if_true, not_true_eq_false, and_false, false_or]
            grind
          · simp only [hb, if_false, not_false_eq_true, and_true]
            grind
      · intro a b
        rw [setLinks_rcOf, fc]; exact hr.cnt a b

/-! ### Create / Update -/

theorem get_none_of_not_exists {s : St K} {r : Ref K} (h : exists? s r = false) : s.get r = none := by
  unfold exists? at h; cases hg : s.get r <;> simp_all

theorem createEntity_blank (s : St K) (sd : Side) (id : K) (links : Option (List K)) :
    createEntity s sd id true links = (s, some .blank) := by simp [createEntity]

theorem createEntity_exists {s : St K} {sd : Side} {id : K} (h : exists? s (sd, id) = true) (links : Option (List K)) :
    createEntity s sd id false links = (s, some .exists) := by
  obtain ⟨e, he, _⟩ := get_of_exists h
  simp [createEntity, he]

theorem createEntity_new {s : St K} {sd : Side} {id : K} (h : exists? s (sd, id) = false) (links : Option (List K)) :
    createEntity s sd id false links =
      match links with
      | none => (s.put (sd, id) {}, none)
      | some ks => setLinks (s.put (sd, id) {}) sd id ks := by
  cases links <;> simp [createEntity, get_none_of_not_exists h]

theorem rel_create {s : St K} {ss : SSt K} (hr : Rel s ss) {r : Ref K} (h : exists? s r = false) :
    Rel (s.put r {}) { ss with ents := r :: ss.ents } := by
  obtain ⟨f1, f2⟩ := create_fresh h
  refine ⟨?_, ?_, ?_⟩
  · intro r'; rw [exists_put, has_cons]
    by_cases hh : r = r' <;> simp [hh, hr.ents]
  · intro a b; rw [f1]; exact hr.rel a b
  · intro a b; rw [f2]; exact hr.cnt a b

theorem mInv_create {s : St K} {w : Int} (hm : MInv s w) {r : Ref K} (h : exists? s r = false) :
    MInv (s.put r {}) w :=
  ⟨lInv_of_linksOf_eq hm.l (create_fresh h).1, rcInv_of_rcOf_eq hm.c (create_fresh h).2⟩

theorem sim_create {s : St K} {ss : SSt K} {w : Int} (hr : Rel s ss) (hm : MInv s w) (sd : Side) (id : K)
    (blank : Bool) (links : Option (List K)) :
    match (createEntity s sd id blank links).2 with
    | none => ∃ ss', sstep ss (.create sd id blank links) = some (ss', .unit) ∧
        Rel (createEntity s sd id blank links).1 ss'
    | some _ => sstep ss (.create sd id blank links) = none := by
  cases blank with
  | true => rw [createEntity_blank]; simp [sstep]
  | false =>
    cases hex : exists? s (sd, id) with
    | true => rw [createEntity_exists hex]; simp [sstep, ← hr.ents, hex]
    | false =>
      rw [createEntity_new hex]
      have hr1 := rel_create hr hex
      have hm1 := mInv_create hm hex
      cases links with
      | none =>
        simp only [sstep, ← hr.ents, hex]
        exact ⟨_, by simp, hr1⟩
      | some ks =>
        simp only [sstep, ← hr.ents, hex]
        have := sim_setLinks hr1 hm1 sd id ks
        cases hres : (setLinks (s.put (sd, id) {}) sd id ks).2 with
        | none =>
          rw [hres] at this
          obtain ⟨ss', h1, h2⟩ := this
          exact ⟨ss', by simp [h1], h2⟩
        | some e =>
          rw [hres] at this
          simp [this]

theorem updateEntity_missing {s : St K} {sd : Side} {id : K} (h : exists? s (sd, id) = false) (links : List K)
    (p : Bool) : updateEntity s sd id links p = (s, some .notFound) := by
  simp [updateEntity, get_none_of_not_exists h]

theorem updateEntity_found {s : St K} {sd : Side} {id : K} (h : exists? s (sd, id) = true) (links : List K)
    (p : Bool) : updateEntity s sd id links p = if p then setLinks s sd id links else (s, none) := by
  obtain ⟨e, he, _⟩ := get_of_exists h
  simp [updateEntity, he]

theorem sim_update {s : St K} {ss : SSt K} {w : Int} (hr : Rel s ss) (hm : MInv s w) (sd : Side) (id : K)
    (links : List K) (p : Bool) :
    match (updateEntity s sd id links p).2 with
    | none => ∃ ss', sstep ss (.update sd id links p) = some (ss', .unit) ∧
        Rel (updateEntity s sd id links p).1 ss'
    | some _ => sstep ss (.update sd id links p) = none := by
  cases hex : exists? s (sd, id) with
  | false => rw [updateEntity_missing hex]; simp [sstep, ← hr.ents, hex]
  | true =>
    rw [updateEntity_found hex]
    cases p with
    | false => simp only [sstep, ← hr.ents, hex]; exact ⟨ss, by simp, hr⟩
    | true =>
      simp only [if_true, sstep, ← hr.ents, hex]
      have := sim_setLinks hr hm sd id links
      cases hres : (setLinks s sd id links).2 with
      | none =>
        rw [hres] at this
        obtain ⟨ss', h1, h2⟩ := this
        exact ⟨ss', by simp [h1], h2⟩
      | some e => rw [hres] at this; simp [this]

/-! ### DeleteById -/

theorem sim_delete {s : St K} {ss : SSt K} {w : Int} (hr : Rel s ss) (hm : MInv s w) (sd : Side) (id : K) :
    match (deleteEntity s sd id).2 with
    | none => ∃ ss', sstep ss (.delete sd id) = some (ss', .unit) ∧ Rel (deleteEntity s sd id).1 ss'
    | some _ => sstep ss (.delete sd id) = none := by
  cases hex : exists? s (sd, id) with
  | false => rw [deleteEntity_missing hex]; simp [sstep, ← hr.ents, hex]
  | true =>
    obtain ⟨h1, h2, h3, h4⟩ := deleteEntity_ok hex
    rw [h1]
    have hs : sstep ss (.delete sd id) = some (({ ents := ss.ents.filter (· ≠ (sd, id)), rel := ss.rel.filter (fun p => !mentions sd id p), cnt := ss.cnt.filter (fun e => !mentions sd id e.1) } : SSt K), .unit) := by
      simp [sstep, ← hr.ents, hex]
    rw [hs]
    refine ⟨_, rfl, ?_, ?_, ?_⟩
    · intro r; rw [h2, has_filter]
      by_cases hh : (sd, id) = r <;> simp [hh, hr.ents]
    · intro a b
      rw [h3]
      simp only [List.mem_filter, Bool.not_eq_true', ← hr.rel]
      have hment : mentions sd id (a, b) = false ↔ ¬ ((sd = .A ∧ a = id) ∨ (sd = .B ∧ b = id)) := by
        rw [← mentions_iff]; cases mentions sd id (a, b) <;> simp
      rw [hment]
      have hsym := hm.l.sym sd id a
      cases sd with
      | A => simp only [Side.other] at hsym ⊢; (try simp) <;> (try grind)
      | B => simp only [Side.other] at hsym ⊢; (try simp) <;> (try grind)
    · intro a b
      rw [h4]
      simp only
      rw [get_filter_key ss.cnt (fun k => !mentions sd id k)]
      have hment : mentions sd id (a, b) = true ↔ ((sd = .A ∧ a = id) ∨ (sd = .B ∧ b = id)) := mentions_iff sd id a b
      have hag := hm.c.1 sd id a
      rw [← hr.cnt]
      cases sd with
      | A =>
        simp only [Side.other] at hag ⊢
        by_cases ha : a = id
        · subst ha; simp [mentions]
        · have : ¬ id = a := fun e => ha e.symm
          simp [mentions, ha, this]
      | B =>
        simp only [Side.other] at hag ⊢
        by_cases hb : b = id
        · subst hb
          have hne : ¬ ((Side.B, b) = (Side.A, a)) := by simp
          rw [if_neg hne]
          simp only [mentions, decide_true, Bool.not_true, Bool.false_eq_true, if_false]
          by_cases hn : rcOf s (Side.B, b) a = none
          · rw [if_neg (by simp [hn])]; rw [← hag]; exact hn
          · rw [if_pos ⟨trivial, hn, trivial⟩]
        · simp [mentions, hb]

/-! ### AddLinks / RemoveLinks / AddLink / RemoveLink -/

theorem sim_addLinks {s : St K} {ss : SSt K} {w : Int} (hr : Rel s ss) (_hm : MInv s w) (sd : Side) (id : K)
    (keys : List K) :
    match (addLinks s sd id keys).2 with
    | none => ∃ ss', sstep ss (.addLinks sd id keys) = some (ss', .unit) ∧ Rel (addLinks s sd id keys).1 ss'
    | some _ => sstep ss (.addLinks sd id keys) = none := by
  cases hex : exists? s (sd, id) with
  | false => rw [addLinks_missing_local keys hex]; simp [sstep, ← hr.ents, hex]
  | true =>
    rw [addLinks_unfold keys hex]
    cases hall : (keys.all fun k => has ss (sd.other, k)) with
    | false =>
      rw [linkAll_missing sd id keys s (not_all_exist hr sd keys hall)]
      simp [sstep, hall]
    | true =>
      have hall' := (all_exist_iff hr sd keys).mp hall
      obtain ⟨hok, hmem⟩ := linkAll_ok sd id keys hex hall'
      rw [hok]
      have hs : sstep ss (.addLinks sd id keys) =
          some (keys.foldl (fun s k => addPair s (pair sd id k)) ss, .unit) := by
        have : has ss (sd, id) = true := by rw [← hr.ents]; exact hex
        simp [sstep, this, hall]
      rw [hs]
      obtain ⟨fa, fb, fc⟩ := foldl_addPair sd id keys ss
      refine ⟨_, rfl, ?_, ?_, ?_⟩
      · intro r; rw [exists_linkAll]; unfold has; rw [fb]; exact hr.ents r
      · intro a b
        rw [hmem, fa, ← hr.rel]
        cases sd with
        | A => simp only [Side.other, pair, Prod.mk.injEq]; (try simp) <;> (try grind)
        | B => simp only [Side.other, pair, Prod.mk.injEq]; (try simp) <;> (try grind)
      · intro a b; rw [rcOf_linkAll, fc]; exact hr.cnt a b

theorem sim_removeLinks {s : St K} {ss : SSt K} {w : Int} (hr : Rel s ss) (_hm : MInv s w) (sd : Side) (id : K)
    (keys : List K) :
    match (removeLinks s sd id keys).2 with
    | none => ∃ ss', sstep ss (.removeLinks sd id keys) = some (ss', .unit) ∧ Rel (removeLinks s sd id keys).1 ss'
    | some _ => sstep ss (.removeLinks sd id keys) = none := by
  cases hex : exists? s (sd, id) with
  | false => rw [removeLinks_missing_local keys hex]; simp [sstep, ← hr.ents, hex]
  | true =>
    rw [removeLinks_unfold keys hex]
    simp only [sstep, ← hr.ents, hex, if_true]
    obtain ⟨fa, fb, fc⟩ := foldl_delPair sd id keys ss
    refine ⟨_, rfl, ?_, ?_, ?_⟩
    · intro r; rw [exists_unlinkAll]; unfold has; rw [fb]; exact hr.ents r
    · intro a b
      rw [mem_unlinkAll, fa, ← hr.rel]
      cases sd with
      | A => simp only [Side.other, pair, Prod.mk.injEq, ne_eq]; (try simp) <;> (try grind)
      | B => simp only [Side.other, pair, Prod.mk.injEq, ne_eq]; (try simp) <;> (try grind)
    · intro a b; rw [rcOf_unlinkAll, fc]; exact hr.cnt a b

theorem addLink_ret {s : St K} {sd : Side} {id : K} (k : K) (hid : exists? s (sd, id) = true) :
    (addLink s sd id k).2.1 = !((linksOf s (sd, id)).contains k) := by
  obtain ⟨e, hg, hl⟩ := get_of_exists hid
  unfold addLink; rw [hg]; simp only; rw [hl]

theorem removeLink_ret {s : St K} {sd : Side} {id : K} (k : K) (hid : exists? s (sd, id) = true) :
    (removeLink s sd id k).2.1 = (linksOf s (sd, id)).contains k := by
  obtain ⟨e, hg, hl⟩ := get_of_exists hid
  unfold removeLink; rw [hg]; simp only; rw [hl]

theorem sim_addLink {s : St K} {ss : SSt K} {w : Int} (hr : Rel s ss) (hm : MInv s w) (sd : Side) (id k : K) :
    match (addLink s sd id k).2.2 with
    | none => ∃ ss', sstep ss (.addLink sd id k) = some (ss', .bool (addLink s sd id k).2.1) ∧
        Rel (addLink s sd id k).1 ss'
    | some _ => sstep ss (.addLink sd id k) = none := by
  cases hex : exists? s (sd, id) with
  | false => rw [addLink_missing_local k hex]; simp [sstep, ← hr.ents, hex]
  | true =>
    obtain ⟨h1, h2⟩ := addLink_unfold k hex
    rw [h2, h1, addLink_ret k hex]
    cases hk : exists? s (sd.other, k) with
    | false => rw [link_err hk]; simp [sstep, ← hr.ents, hk]
    | true =>
      rw [link_ok hk]
      simp only [sstep, ← hr.ents, hex, hk, Bool.and_self, if_true, linked_iff hr hm.l.sym]
      refine ⟨_, rfl, ?_, ?_, ?_⟩
      · intro r
        have := exists_link s sd id k r
        rw [link_ok hk] at this; simp only at this
        rw [this]; unfold has; rw [addPair_ents]; exact hr.ents r
      · intro a b
        have := mem_link hk hex .A a b
        rw [link_ok hk] at this; simp only at this
        rw [this, mem_addPair, ← hr.rel]
        cases sd with
        | A => simp only [Side.other, pair, Prod.mk.injEq]; (try simp) <;> (try grind)
        | B => simp only [Side.other, pair, Prod.mk.injEq]; (try simp) <;> (try grind)
      · intro a b
        have := rcOf_link s sd id k (.A, a) b
        rw [link_ok hk] at this; simp only at this
        rw [this, addPair_cnt]; exact hr.cnt a b

theorem sim_removeLink {s : St K} {ss : SSt K} {w : Int} (hr : Rel s ss) (hm : MInv s w) (sd : Side) (id k : K) :
    match (removeLink s sd id k).2.2 with
    | none => ∃ ss', sstep ss (.removeLink sd id k) = some (ss', .bool (removeLink s sd id k).2.1) ∧
        Rel (removeLink s sd id k).1 ss'
    | some _ => sstep ss (.removeLink sd id k) = none := by
  cases hex : exists? s (sd, id) with
  | false => rw [removeLink_missing_local k hex]; simp [sstep, ← hr.ents, hex]
  | true =>
    obtain ⟨h1, h2⟩ := removeLink_unfold k hex
    rw [h2, h1, removeLink_ret k hex]
    simp only [sstep, ← hr.ents, hex, if_true, linked_iff hr hm.l.sym]
    refine ⟨_, rfl, ?_, ?_, ?_⟩
    · intro r; rw [exists_unlink]; exact hr.ents r
    · intro a b
      rw [mem_unlink]
      simp only [delPair, List.mem_filter, decide_eq_true_eq, ← hr.rel]
      cases sd with
      | A => simp only [Side.other, pair, Prod.mk.injEq, ne_eq]; (try simp) <;> (try grind)
      | B => simp only [Side.other, pair, Prod.mk.injEq, ne_eq]; (try simp) <;> (try grind)
    · intro a b; rw [rcOf_unlink]; exact hr.cnt a b

/-! ### reference counts -/

theorem get_put_pair (m : Map (K × K) Int) (p q : K × K) (v : Int) :
    (m.put p v).get q = if p = q then some v else m.get q := Map.get_put m p q v

theorem sim_incr {s : St K} {ss : SSt K} {w : Int} (hr : Rel s ss) (hm : MInv s w) (hw : w + 1 < 2147483648)
    (sd : Side) (id k : K) :
    match (rcIncr s sd id k).2.2 with
    | none => ∃ ss', sstep ss (.incr sd id k) = some (ss', .int (rcIncr s sd id k).2.1) ∧
        Rel (rcIncr s sd id k).1 ss'
    | some _ => sstep ss (.incr sd id k) = none := by
  cases hex : exists? s (sd, id) with
  | false => rw [rcIncr_missing_local hex]; simp [sstep, ← hr.ents, hex]
  | true =>
    cases hk : exists? s (sd.other, k) with
    | false => rw [rcIncr_missing_other hex hk]; simp [sstep, ← hr.ents, hk]
    | true =>
      obtain ⟨n, h1, hn, h2, h3, h4⟩ := rcIncr_ok hm.c hw hex hk
      have e1 : (rcIncr s sd id k).2.2 = none := by rw [h1]
      have e2 : (rcIncr s sd id k).2.1 = n := by rw [h1]
      rw [e1, e2]
      have hcount := count_eq hr hm.c sd id k
      have hs : sstep ss (.incr sd id k) = some ({ ss with cnt := ss.cnt.put (pair sd id k) n }, .int n) := by
        have a1 : has ss (sd, id) = true := by rw [← hr.ents]; exact hex
        have a2 : has ss (sd.other, k) = true := by rw [← hr.ents]; exact hk
        simp only [sstep, a1, a2, Bool.and_self, if_true]
        rw [hcount]
        cases hc : rcOf s (sd, id) k with
        | none => rw [hc] at hn; simp only at hn; subst hn; simp
        | some c => rw [hc] at hn; simp only at hn; subst hn; simp
      rw [hs]
      refine ⟨_, rfl, ?_, ?_, ?_⟩
      · intro r; rw [h4]; exact hr.ents r
      · intro a b; rw [h3]; exact hr.rel a b
      · intro a b
        rw [h2]; simp only; rw [get_put_pair, ← hr.cnt]
        cases sd with
        | A => simp only [Side.other, pair, Prod.mk.injEq]; (try simp) <;> (try grind)
        | B => simp only [Side.other, pair, Prod.mk.injEq]; (try simp) <;> (try grind)

theorem sim_decr {s : St K} {ss : SSt K} {w : Int} (hr : Rel s ss) (hm : MInv s w) (hw : w < 2147483648)
    (sd : Side) (id k : K) :
    match (rcDecr s sd id k).2.2 with
    | none => ∃ ss', sstep ss (.decr sd id k) = some (ss', .int (rcDecr s sd id k).2.1) ∧
        Rel (rcDecr s sd id k).1 ss'
    | some _ => sstep ss (.decr sd id k) = none := by
  cases hex : exists? s (sd, id) with
  | false => rw [rcDecr_missing_local hex]; simp [sstep, ← hr.ents, hex]
  | true =>
    obtain ⟨h1, h2, h3, h4⟩ := rcDecr_ok (k := k) hm.c hw hex
    have e1 : (rcDecr s sd id k).2.2 = none := by rw [h1]
    have e2 : (rcDecr s sd id k).2.1 = decrRet (rcOf s (sd, id) k) := by rw [h1]
    rw [e1, e2]
    have hcount := count_eq hr hm.c sd id k
    have a1 : has ss (sd, id) = true := by rw [← hr.ents]; exact hex
    have hag := hm.c.1 sd id k
    cases hc : rcOf s (sd, id) k with
    | none =>
      have hs : sstep ss (.decr sd id k) = some (ss, .int (-1)) := by
        simp only [sstep, a1, if_true, hcount, hc]
      rw [hs]
      refine ⟨_, rfl, ?_, ?_, ?_⟩
      · intro r; rw [h4]; exact hr.ents r
      · intro a b; rw [h3]; exact hr.rel a b
      · intro a b
        rw [h2, hc]; simp only [decrValue]
        rw [← hr.cnt]
        rw [hc] at hag
        split
        · next hh => obtain ⟨x1, x2, x3⟩ := hh; subst x1; subst x2; subst x3; exact hc.symm
        · split
          · next hh => obtain ⟨x1, x2, x3⟩ := hh; rw [x1, x2, x3]; exact hag
          · rfl
    | some c =>
      by_cases hpos : c - 1 > 0
      · have hs : sstep ss (.decr sd id k) =
            some ({ ss with cnt := ss.cnt.put (pair sd id k) (c - 1) }, .int (c - 1)) := by
          simp only [sstep, a1, if_true, hcount, hc, hpos]
        rw [hs]
        refine ⟨_, rfl, ?_, ?_, ?_⟩
        · intro r; rw [h4]; exact hr.ents r
        · intro a b; rw [h3]; exact hr.rel a b
        · intro a b
          rw [h2, hc]; simp only [decrValue, hpos, if_true]; rw [get_put_pair, ← hr.cnt]
          cases sd with
          | A => simp only [Side.other, pair, Prod.mk.injEq]; (try simp) <;> (try grind)
          | B => simp only [Side.other, pair, Prod.mk.injEq]; (try simp) <;> (try grind)
      · have hs : sstep ss (.decr sd id k) =
            some ({ ss with cnt := ss.cnt.del (pair sd id k) }, .int (c - 1)) := by
          simp only [sstep, a1, if_true, hcount, hc, hpos, if_false]
        rw [hs]
        refine ⟨_, rfl, ?_, ?_, ?_⟩
        · intro r; rw [h4]; exact hr.ents r
        · intro a b; rw [h3]; exact hr.rel a b
        · intro a b
          rw [h2, hc]; simp only [decrValue, hpos, if_false]; rw [Map.get_del, ← hr.cnt]
          cases sd with
          | A => simp only [Side.other, pair, Prod.mk.injEq]; (try simp) <;> (try grind)
          | B => simp only [Side.other, pair, Prod.mk.injEq]; (try simp) <;> (try grind)

theorem bucketSet_ret (e : Ent K) (k : K) (c : Int) : (bucketSet e k c).2 = e.rc.get k := by
  unfold bucketSet
  cases e.rc.get k <;> (simp only; split <;> rfl)

theorem rcSet_ret {s : St K} {sd : Side} {id k : K} (c : Int) (hid : exists? s (sd, id) = true)
    (hk : exists? s (sd.other, k) = true) :
    (rcSet s sd id k c).2.1 = rcOf s (sd, id) k ∧ (rcSet s sd id k c).2.2.1 = rcOf s (sd.other, k) id := by
  obtain ⟨e, he, _⟩ := get_of_exists hid
  obtain ⟨o, ho, _⟩ := get_of_exists hk
  unfold rcSet; rw [he]; simp only; rw [get_put_other, ho]; simp only
  rw [bucketSet_ret, bucketSet_ret]
  simp [rcOf, he, ho]

theorem sim_setCount {s : St K} {ss : SSt K} {w : Int} (hr : Rel s ss) (hm : MInv s w) (c : Int) (hc0 : 0 ≤ c)
    (hc : c < 2147483648) (sd : Side) (id k : K) :
    match (rcSet s sd id k c).2.2.2 with
    | none => ∃ ss', sstep ss (.setCount sd id k c) =
          some (ss', .olds (rcSet s sd id k c).2.1 (rcSet s sd id k c).2.2.1) ∧
        Rel (rcSet s sd id k c).1 ss'
    | some _ => sstep ss (.setCount sd id k c) = none := by
  cases hex : exists? s (sd, id) with
  | false => rw [rcSet_missing_local c hex]; simp [sstep, ← hr.ents, hex]
  | true =>
    cases hk : exists? s (sd.other, k) with
    | false => rw [rcSet_missing_other c hex hk]; simp [sstep, ← hr.ents, hk]
    | true =>
      obtain ⟨h1, h2, h3, h4⟩ := rcSet_ok (s := s) (sd := sd) (id := id) (k := k) c hc0 hc hex hk
      obtain ⟨r1, r2⟩ := rcSet_ret c hex hk
      rw [h1, r1, r2]
      have hcount := count_eq hr hm.c sd id k
      have hag := hm.c.1 sd id k
      have a1 : has ss (sd, id) = true := by rw [← hr.ents]; exact hex
      have a2 : has ss (sd.other, k) = true := by rw [← hr.ents]; exact hk
      rw [← hag]
      by_cases hz : c = 0
      · have hs : sstep ss (.setCount sd id k c) =
            some ({ ss with cnt := ss.cnt.del (pair sd id k) }, .olds (rcOf s (sd, id) k) (rcOf s (sd, id) k)) := by
          simp only [sstep, a1, a2, Bool.and_self, if_true, hcount, hz]
        rw [hs]
        refine ⟨_, rfl, ?_, ?_, ?_⟩
        · intro r; rw [h4]; exact hr.ents r
        · intro a b; rw [h3]; exact hr.rel a b
        · intro a b
          rw [h2]; simp only [hz, if_true]; rw [Map.get_del, ← hr.cnt]
          cases sd with
          | A => simp only [Side.other, pair, Prod.mk.injEq]; (try simp) <;> (try grind)
          | B => simp only [Side.other, pair, Prod.mk.injEq]; (try simp) <;> (try grind)
      · have hs : sstep ss (.setCount sd id k c) =
            some ({ ss with cnt := ss.cnt.put (pair sd id k) c }, .olds (rcOf s (sd, id) k) (rcOf s (sd, id) k)) := by
          simp only [sstep, a1, a2, Bool.and_self, if_true, hcount, hz, if_false]
        rw [hs]
        refine ⟨_, rfl, ?_, ?_, ?_⟩
        · intro r; rw [h4]; exact hr.ents r
        · intro a b; rw [h3]; exact hr.rel a b
        · intro a b
          rw [h2]; simp only [hz, if_false]; rw [get_put_pair, ← hr.cnt]
          cases sd with
          | A => simp only [Side.other, pair, Prod.mk.injEq]; (try simp) <;> (try grind)
          | B => simp only [Side.other, pair, Prod.mk.injEq]; (try simp) <;> (try grind)

/-! ### reads -/

theorem partners_eq {s : St K} {ss : SSt K} (hr : Rel s ss) (hl : LInv s) (sd : Side) (id : K) :
    partners ss sd id = linksOf s (sd, id) := by
  apply ssorted_ext
  · unfold partners; cases sd <;> exact ssorted_dedup_sort _
  · exact hl.sorted (sd, id)
  · intro y
    rw [rel_side hr hl.sym sd id y]
    unfold partners
    cases sd with
    | A =>
      simp only [mem_dedup_sort, List.mem_map, List.mem_filter, decide_eq_true_eq, pair]
      constructor
      · rintro ⟨⟨a, b⟩, ⟨h1, h2⟩, h3⟩; simp only at h2 h3; subst h2; subst h3; exact h1
      · intro h; exact ⟨(id, y), ⟨h, rfl⟩, rfl⟩
    | B =>
      simp only [mem_dedup_sort, List.mem_map, List.mem_filter, decide_eq_true_eq, pair]
      constructor
      · rintro ⟨⟨a, b⟩, ⟨h1, h2⟩, h3⟩; simp only at h2 h3; subst h2; subst h3; exact h1
      · intro h; exact ⟨(y, id), ⟨h, rfl⟩, rfl⟩

/-! ### one operation, one transaction, one history -/

/-- **simulation of one operation**: inside the vocabulary, a successful model operation is a
    successful spec operation with the same return value landing in a related state, and a failing
    model operation is a failing spec operation -/
theorem step_sim {s : St K} {ss : SSt K} {w : Int} (hr : Rel s ss) (hm : MInv s w) (op : Op K) (hv : OpVocab op)
    (hw : w + weight op < 2147483648) (hw0 : 0 ≤ w) :
    match (step s op).err with
    | none => ∃ ss', sstep ss op = some (ss', (step s op).ret) ∧ Rel (step s op).st ss'
    | some _ => sstep ss op = none := by
  cases op with
  | create sd id blank links => exact sim_create hr hm sd id blank links
  | update sd id links p => exact sim_update hr hm sd id links p
  | delete sd id => exact sim_delete hr hm sd id
  | addLinks sd id keys => exact sim_addLinks hr hm sd id keys
  | removeLinks sd id keys => exact sim_removeLinks hr hm sd id keys
  | setLinks sd id keys =>
    have := sim_setLinks hr hm sd id keys
    simp only [step, sstep]
    cases hres : (setLinks s sd id keys).2 with
    | none =>
      rw [hres] at this
      obtain ⟨ss', h1, h2⟩ := this
      exact ⟨ss', by simp [h1], h2⟩
    | some e => rw [hres] at this; simp [this]
  | addLink sd id k => exact sim_addLink hr hm sd id k
  | removeLink sd id k => exact sim_removeLink hr hm sd id k
  | incr sd id k => simp only [weight] at hw; exact sim_incr hr hm hw sd id k
  | decr sd id k => simp only [weight, Int.add_zero] at hw; exact sim_decr hr hm hw sd id k
  | setCount sd id k c =>
    simp only [weight] at hw; simp only [OpVocab] at hv
    exact sim_setCount hr hm c hv (by omega) sd id k
  | getLinks sd id =>
    simp only [step, sstep]
    exact ⟨ss, by rw [partners_eq hr hm.l], hr⟩
  | isLinked sd id k =>
    simp only [step, sstep]
    exact ⟨ss, by rw [linked_iff hr hm.l.sym], hr⟩
  | getCounts sd id k =>
    simp only [step, sstep]
    refine ⟨ss, ?_, hr⟩
    rw [count_eq hr hm.c, ← hm.c.1 sd id k]

/-- the spec's reading of a transaction body and of a history -/
def srunOps : SSt K → List (Op K) → SSt K × Bool
  | ss, [] => (ss, false)
  | ss, op :: ops =>
    match sstep ss op with
    | some r => srunOps r.1 ops
    | none => (ss, true)

def scommitTx (ss : SSt K) (ops : List (Op K)) : SSt K :=
  let r := srunOps ss ops
  if r.2 then ss else r.1

def srunHist (ss : SSt K) (txs : List (List (Op K))) : SSt K := txs.foldl scommitTx ss

theorem step_mInv {s : St K} {w : Int} (hm : MInv s w) (hw0 : 0 ≤ w) (op : Op K) (hv : OpVocab op)
    (hw : w + weight op < 2147483648) (hok : (step s op).err = none) : MInv (step s op).st (w + weight op) :=
  ⟨step_lInv hm.l op hok, step_rcInv hm.c hw0 op hv hw hok⟩

theorem runOps_sim {s : St K} {ss : SSt K} {w : Int} (hr : Rel s ss) (hm : MInv s w) (hw0 : 0 ≤ w)
    (ops : List (Op K)) (hv : TxVocab ops) (hw : w + txWeight ops < 2147483648) :
    (runOps s ops).2 = (srunOps ss ops).2 ∧
    ((runOps s ops).2 = false → Rel (runOps s ops).1 (srunOps ss ops).1) := by
  induction ops generalizing s ss w with
  | nil => exact ⟨rfl, fun _ => hr⟩
  | cons op ops ih =>
    have hvo := hv op (by simp)
    have hvr : TxVocab ops := fun o ho => hv o (by simp [ho])
    have hwo := weight_nonneg hvo
    have hwr := txWeight_nonneg hvr
    have hsplit : txWeight (op :: ops) = weight op + txWeight ops := by simp [txWeight]
    rw [hsplit] at hw
    have hsim := step_sim hr hm op hvo (by omega) hw0
    cases he : (step s op).err with
    | some e =>
      rw [he] at hsim; simp only at hsim
      rw [runOps_cons_err he]
      simp [srunOps, hsim]
    | none =>
      rw [he] at hsim; simp only at hsim
      obtain ⟨ss', h1, h2⟩ := hsim
      rw [runOps_cons_ok he]
      simp only [srunOps, h1]
      exact ih h2 (step_mInv hm hw0 op hvo (by omega) he) (by omega) hvr (by omega)

theorem commitTx_sim {s : St K} {ss : SSt K} {w : Int} (hr : Rel s ss) (hm : MInv s w) (hw0 : 0 ≤ w)
    (ops : List (Op K)) (hv : TxVocab ops) (hw : w + txWeight ops < 2147483648) :
    Rel (commitTx s ops) (scommitTx ss ops) := by
  obtain ⟨h1, h2⟩ := runOps_sim hr hm hw0 ops hv hw
  cases hf : (runOps s ops).2 with
  | true =>
    rw [commitTx_failed hf]
    have : (srunOps ss ops).2 = true := by rw [← h1]; exact hf
    simp only [scommitTx, this, if_true]; exact hr
  | false =>
    rw [commitTx_ok hf]
    have : (srunOps ss ops).2 = false := by rw [← h1]; exact hf
    simp only [scommitTx, this, Bool.false_eq_true, if_false]; exact h2 hf

theorem commitTx_mInv {s : St K} {w : Int} (hm : MInv s w) (hw0 : 0 ≤ w) (ops : List (Op K)) (hv : TxVocab ops)
    (hw : w + txWeight ops < 2147483648) : MInv (commitTx s ops) (w + txWeight ops) :=
  ⟨commitTx_lInv hm.l ops, commitTx_rcInv hm.c hw0 ops hv hw⟩

theorem runHist_sim {s : St K} {ss : SSt K} {w : Int} (hr : Rel s ss) (hm : MInv s w) (hw0 : 0 ≤ w)
    (txs : List (List (Op K))) (hv : HistVocab txs) (hw : w + histWeight txs < 2147483648) :
    Rel (runHist s txs) (srunHist ss txs) := by
  induction txs generalizing s ss w with
  | nil => exact hr
  | cons tx txs ih =>
    have hvt := hv tx (by simp)
    have hvr : HistVocab txs := fun o ho => hv o (by simp [ho])
    have h1 := txWeight_nonneg hvt
    have h2 := histWeight_nonneg hvr
    have hsplit : histWeight (tx :: txs) = txWeight tx + histWeight txs := by simp [histWeight]
    rw [hsplit] at hw
    exact ih (commitTx_sim hr hm hw0 tx hvt (by omega)) (commitTx_mInv hm hw0 tx hvt (by omega)) (by omega) hvr
      (by omega)

end
end StorageModel.C05
