import StorageModel.C05.Schema
import StorageModel.C05.Spec
/-
  C05 — the specification for an arbitrary schema (C05/Schema.lean): what the property text says,
  collection by collection.

  Which store holds which id; and per declared collection ONE relation (`Spec.SSt.rel`, plain
  collections) or ONE count map (`Spec.SSt.cnt`, ref-counted ones) between the two stores of the
  collection, of which both sides' views are projections (C05/Spec.lean) — so symmetry / equal
  counts hold by construction.  Deleting an entity (through any store of its family) removes the
  id from the family's stores and every pair mentioning it from EVERY declared collection one of
  whose ends is a store of the family — no reference to registries, loops or their order.
  A self-referential collection is described by the model of C05/SelfW.lean, which is proved
  symmetric / exact / clean-after-delete for all histories (Properties/C05.lean).
  A failing operation fails the transaction, which then changes nothing.
-/
set_option linter.unusedSectionVars false
namespace StorageModel.C05.Schema

section
variable {K : Type} [KOrd K] [DecidableEq K]

structure GSSt (K : Type) where
  ents : Store → K → Bool := fun _ _ => false
  /-- relation / count map of the i-th collection (plain, ref-counted) -/
  rels : Nat → Spec.SSt K := fun _ => {}
  /-- a self-referential collection -/
  selfs : Nat → St K := fun _ => []

def GSSt.setRel (g : GSSt K) (i : Nat) (s : Spec.SSt K) : GSSt K :=
  { g with rels := fun j => if j = i then s else g.rels j }

def GSSt.setSelf (g : GSSt K) (i : Nat) (s : St K) : GSSt K :=
  { g with selfs := fun j => if j = i then s else g.selfs j }

/-- a new entity of store `x`: known to every collection one of whose ends is `x` -/
def specPut (sc : Schema) (g : GSSt K) (x : Store) (id : K) : GSSt K :=
  { ents := fun y k => if y = x ∧ k = id then true else g.ents y k
    rels := fun i =>
      match sc.colls[i]? with
      | some c =>
        match c.sideOf x with
        | some s => { g.rels i with ents := (s, id) :: (g.rels i).ents }
        | none => g.rels i
      | none => g.rels i
    selfs := fun i =>
      match sc.colls[i]? with
      | some c =>
        match c.sideOf x with
        | some _ => (g.selfs i).put (SelfW.R id) {}
        | none => g.selfs i
      | none => g.selfs i }

/-- the entity's row is replaced by the requested set; naming a missing entity fails -/
def specSetLinks (sc : Schema) (g : GSSt K) (x : Store) (i : Nat) (id : K) (keys : List K) : Option (GSSt K) :=
  match sc.colls[i]? with
  | some c =>
    match c, c.sideOf x with
    | .plain _ _, some sd => (Spec.setRow (g.rels i) sd id keys).map (g.setRel i)
    | .self _ _, some _ =>
      let r := SelfW.ssetLinks (g.selfs i) id keys
      match r.2 with
      | none => some (g.setSelf i r.1)
      | some _ => none
    | _, _ => none
  | none => none

/-- the id leaves the family's stores; every pair mentioning it leaves every collection -/
def specDrop (sc : Schema) (g : GSSt K) (sd : Side) (id : K) : GSSt K :=
  { ents := fun y k => if y.side = sd ∧ k = id then false else g.ents y k
    rels := fun i =>
      match sc.colls[i]? with
      | some c =>
        match c.famSide sd with
        | some s =>
          { ents := (g.rels i).ents.filter (· ≠ (s, id))
            rel := (g.rels i).rel.filter (fun p => !Spec.mentions s id p)
            cnt := (g.rels i).cnt.filter (fun e => !Spec.mentions s id e.1) }
        | none => g.rels i
      | none => g.rels i
    selfs := fun i =>
      match sc.colls[i]? with
      | some c =>
        match c.famSide sd with
        | some _ => (SelfW.sdelete (g.selfs i) id).1
        | none => g.selfs i
      | none => g.selfs i }

/-- one operation: `none` = it fails -/
def gsstep (sc : Schema) (g : GSSt K) : GOp K → Option (GSSt K × Ret K)
  | .create x id blank links =>
    if blank || g.ents x id then none
    else
      let g0 := if x.child && !g.ents ⟨x.side, false⟩ id then specPut sc g ⟨x.side, false⟩ id else g
      let g1 := specPut sc g0 x id
      match links with
      | none => some (g1, .unit)
      | some (i, keys) => (specSetLinks sc g1 x i id keys).map (·, .unit)
  | .update x id i keys proceed =>
    if !g.ents x id then none
    else if proceed then (specSetLinks sc g x i id keys).map (·, .unit) else some (g, .unit)
  | .delete x id =>
    if !g.ents ⟨x.side, false⟩ id then none else some (specDrop sc g x.side id, .unit)
  | .link i op =>
    match sc.colls[i]? with
    | some (.plain _ _) => (Spec.sstep (g.rels i) op.toOp).map fun r => (g.setRel i r.1, r.2)
    | some (.self _ _) =>
      let o := SelfW.sstepW (g.selfs i) op.toSOp
      match o.err with
      | some _ => none
      | none =>
        let ret := match op with
          | .isLinked _ id k => .bool ((SelfW.L (g.selfs i) id).contains k)
          | _ => o.ret
        some (g.setSelf i o.st, ret)
    | _ => none
  | .count i op =>
    match sc.colls[i]? with
    | some (.rc _ _) => (Spec.sstep (g.rels i) op.toOp).map fun r => (g.setRel i r.1, r.2)
    | _ => none

end
end StorageModel.C05.Schema
