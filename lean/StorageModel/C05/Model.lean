import StorageModel.C05.Order
/-
  C05 — executable model of boltz/link_collection.go, boltz/link_collection_rc.go and the
  link-count / list-entry functions of boltz/typed_bucket.go, plus the part of
  boltz/store_crud.go that touches links (Create/Update through PersistContext.SetLinkedIds,
  DeleteById → cleanupLinks → EntityDeleted).

  Universe: two stores (`Side.A`, `Side.B`) wired the way /repo/boltz/*_test.go wires
  employees/locations: each store has a link collection whose `otherField` is the other store's
  set symbol, and a ref-counted link collection likewise.  An entity is its link bucket (keys in
  key order) and its ref-count bucket (key ↦ int32 count).  Whether an *empty* field bucket
  exists is not modelled (no function of the modelled files behaves differently; the harness
  drops empty buckets from the dump).

  Every function returns the state reached *including partial writes* together with the Go
  error, exactly in the order the Go code writes (local entry first, then the other side);
  `commitTx` models `Db.Update`: the body's first error rolls everything back.
-/
set_option linter.unusedSectionVars false
namespace StorageModel.C05

inductive Side | A | B
  deriving DecidableEq, Repr

def Side.other : Side → Side
  | .A => .B
  | .B => .A

@[simp] theorem Side.other_other (s : Side) : s.other.other = s := by cases s <;> rfl
@[simp] theorem Side.other_ne (s : Side) : s.other ≠ s := by cases s <;> decide
@[simp] theorem Side.ne_other (s : Side) : s ≠ s.other := by cases s <;> decide

/-! ### association-list maps -/

abbrev Map (κ ν : Type) := List (κ × ν)

namespace Map
variable {κ ν : Type} [DecidableEq κ]

def get : Map κ ν → κ → Option ν
  | [], _ => none
  | (k', v) :: m, k => if k' = k then some v else get m k

def del (m : Map κ ν) (k : κ) : Map κ ν := m.filter (fun p => p.1 ≠ k)

def put (m : Map κ ν) (k : κ) (v : ν) : Map κ ν := (k, v) :: del m k

@[simp] theorem get_nil (k : κ) : get ([] : Map κ ν) k = none := rfl

theorem get_del (m : Map κ ν) (k k' : κ) : get (del m k) k' = if k = k' then none else get m k' := by
  induction m with
  | nil => simp [del, get]
  | cons p m ih =>
    obtain ⟨a, v⟩ := p
    unfold del at ih ⊢
    by_cases ha : a = k
    · subst ha
      simp only [List.filter, ne_eq, not_true_eq_false, decide_false]
      rw [ih]; by_cases h : a = k' <;> simp [get, h]
    · simp only [List.filter, ne_eq, ha, not_false_eq_true, decide_true, get]
      rw [ih]
      by_cases h : k = k'
      · subst h; simp [ha]
      · simp [h]

@[simp] theorem get_del_self (m : Map κ ν) (k : κ) : get (del m k) k = none := by simp [get_del]
theorem get_del_ne (m : Map κ ν) {k k' : κ} (h : k ≠ k') : get (del m k) k' = get m k' := by simp [get_del, h]

theorem get_put (m : Map κ ν) (k k' : κ) (v : ν) :
    get (put m k v) k' = if k = k' then some v else get m k' := by
  unfold put
  by_cases h : k = k'
  · simp [get, h]
  · simp [get, h, get_del]

@[simp] theorem get_put_self (m : Map κ ν) (k : κ) (v : ν) : get (put m k v) k = some v := by simp [get_put]
theorem get_put_ne (m : Map κ ν) {k k' : κ} (v : ν) (h : k ≠ k') : get (put m k v) k' = get m k' := by
  simp [get_put, h]

end Map

/-! ### Go `int32` -/

/-- two's-complement wrap to 32 bits: Go's `int32(x)` conversion and `int32` `+ 1` / `- 1` -/
def wrap32 (x : Int) : Int := (x + 2147483648) % 4294967296 - 2147483648

theorem wrap32_id {x : Int} (h1 : -2147483648 ≤ x) (h2 : x < 2147483648) : wrap32 x = x := by
  unfold wrap32; omega

/-! ### state -/

/-- one entity bucket: the link-set field bucket and the ref-counted field bucket -/
structure Ent (K : Type) where
  links : List K := []
  rc : Map K Int := []
  deriving Repr

abbrev Ref (K : Type) := Side × K
abbrev St (K : Type) := Map (Ref K) (Ent K)

inductive Err
  | missing    -- errors.Errorf("%v not found with id %v") from getFieldBucket (local entity absent)
  | notFound   -- *RecordNotFoundError (NewNotFoundError / entityNotFoundF)
  | mismatch   -- "unexpected mismatch when incrementing/decrementing reference counts"
  | exists     -- Create: "an entity of type … already exists"
  | blank      -- Create: "cannot create … with blank id"
  deriving DecidableEq, Repr

/-- what an operation hands back besides the error -/
inductive Ret (K : Type)
  | unit
  | bool (b : Bool)
  | int (i : Int)
  | olds (a b : Option Int)
  | keys (l : List K)
  deriving Repr

section
variable {K : Type} [KOrd K] [DecidableEq K]

def linksOf (s : St K) (r : Ref K) : List K :=
  match s.get r with
  | some e => e.links
  | none => []

def rcOf (s : St K) (r : Ref K) (k : K) : Option Int :=
  match s.get r with
  | some e => e.rc.get k
  | none => none

def exists? (s : St K) (r : Ref K) : Bool := (s.get r).isSome

/-- write through a bucket handle obtained earlier: the entity is there -/
def upd (s : St K) (r : Ref K) (f : Ent K → Ent K) : St K :=
  match s.get r with
  | some e => s.put r (f e)
  | none => s

/-! ### link_collection.go -/

/-- `LinkedSetSymbol.AddLink(tx, id, link)`: not-found when the entity is missing -/
def symAddLink (s : St K) (r : Ref K) (l : K) : St K × Option Err :=
  match s.get r with
  | none => (s, some .notFound)
  | some e => (s.put r { e with links := insertS l e.links }, none)

/-- `LinkedSetSymbol.RemoveLink(tx, id, link)`: nothing to do when the entity is missing -/
def symRemoveLink (s : St K) (r : Ref K) (l : K) : St K :=
  upd s r fun e => { e with links := eraseS l e.links }

/-- `linkCollectionImpl.link`: local entry first, then the other side -/
def link (s : St K) (sd : Side) (id k : K) : St K × Option Err :=
  symAddLink (upd s (sd, id) fun e => { e with links := insertS k e.links }) (sd.other, k) id

/-- `linkCollectionImpl.unlink` -/
def unlink (s : St K) (sd : Side) (id k : K) : St K :=
  symRemoveLink (upd s (sd, id) fun e => { e with links := eraseS k e.links }) (sd.other, k) id

def linkAll (sd : Side) (id : K) : List K → St K → St K × Option Err
  | [], s => (s, none)
  | k :: ks, s =>
    match link s sd id k with
    | (s', some e) => (s', some e)
    | (s', none) => linkAll sd id ks s'

def unlinkAll (sd : Side) (id : K) : List K → St K → St K
  | [], s => s
  | k :: ks, s => unlinkAll sd id ks (unlink s sd id k)

/-- `AddLinks(tx, id, keys...)` -/
def addLinks (s : St K) (sd : Side) (id : K) (keys : List K) : St K × Option Err :=
  match s.get (sd, id) with
  | none => (s, some .missing)
  | some _ => linkAll sd id keys s

/-- `RemoveLinks(tx, id, keys...)` -/
def removeLinks (s : St K) (sd : Side) (id : K) (keys : List K) : St K × Option Err :=
  match s.get (sd, id) with
  | none => (s, some .missing)
  | some _ => (unlinkAll sd id keys s, none)

/-- `AddLink(tx, id, key)` → `checkAndLink`: `changed` is returned even when the other side fails -/
def addLink (s : St K) (sd : Side) (id k : K) : St K × Bool × Option Err :=
  match s.get (sd, id) with
  | none => (s, false, some .missing)
  | some e =>
    let changed := !(e.links.contains k)
    let r := link s sd id k
    (r.1, changed, r.2)

/-- `RemoveLink(tx, id, key)` → `checkAndUnlink` -/
def removeLink (s : St K) (sd : Side) (id k : K) : St K × Bool × Option Err :=
  match s.get (sd, id) with
  | none => (s, false, some .missing)
  | some e => (unlink s sd id k, e.links.contains k, none)

/-- the inner `for len(keys) > 0` loop of `SetLinks` for one cursor row.
    `skip = some c` while the duplicates of a just-added smaller key `c` are being skipped.
    Returns the remaining keys, the extended `toAdd`, and whether the row goes to `toRemove`
    (`compare > cursorCurrent`, or keys exhausted: `!rowHandled`). -/
def mergeRow (row : K) : Option K → List K → List K → List K × List K × Bool
  | _, [], toAdd => ([], toAdd, true)
  | skip, k :: ks, toAdd =>
    if skip = some k then mergeRow row skip ks toAdd              -- skip over duplicate entries
    else if KOrd.lt k row then mergeRow row (some k) ks (toAdd ++ [k])   -- compare < cursorCurrent
    else if KOrd.lt row k then (k :: ks, toAdd, true)             -- compare > cursorCurrent
    else (ks, toAdd, false)                                       -- equal: consume one request

/-- the cursor walk of `SetLinks` over the existing rows -/
def mergeWalk : List K → List K → List K → List K → List K × List K × List K
  | [], keys, toAdd, toRemove => (keys, toAdd, toRemove)
  | row :: rows, keys, toAdd, toRemove =>
    let r := mergeRow row none keys toAdd
    mergeWalk rows r.1 r.2.1 (if r.2.2 then toRemove ++ [row] else toRemove)

/-- `SetLinks(tx, id, keys)`: sort, walk, removals before additions -/
def setLinks (s : St K) (sd : Side) (id : K) (keys : List K) : St K × Option Err :=
  match s.get (sd, id) with
  | none => (s, some .missing)
  | some e =>
    let w := mergeWalk e.links (sortK keys) [] []
    let s1 := unlinkAll sd id w.2.2 s
    linkAll sd id (w.2.1 ++ w.1) s1

/-- `linkCollectionImpl.EntityDeleted`: only the other sides are cleaned, the local bucket goes
    with the entity bucket -/
def linksEntityDeleted (s : St K) (sd : Side) (id : K) : St K :=
  (linksOf s (sd, id)).foldl (fun s k => symRemoveLink s (sd.other, k) id) s

/-! ### typed_bucket.go link counts -/

/-- `TypedBucket.IncrementLinkCount` -/
def bucketIncr (e : Ent K) (k : K) : Ent K × Int :=
  let next := match e.rc.get k with
    | some c => wrap32 (c + 1)
    | none => 1
  ({ e with rc := e.rc.put k next }, next)

/-- `TypedBucket.DecrementLinkCount` -/
def bucketDecr (e : Ent K) (k : K) : Ent K × Int :=
  match e.rc.get k with
  | none => (e, -1)
  | some c =>
    let next := wrap32 (c - 1)
    if next > 0 then ({ e with rc := e.rc.put k next }, next)
    else ({ e with rc := e.rc.del k }, next)

/-- `TypedBucket.SetLinkCount` (returns the previous count) -/
def bucketSet (e : Ent K) (k : K) (count : Int) : Ent K × Option Int :=
  match e.rc.get k with
  | none => if count = 0 then (e, none) else ({ e with rc := e.rc.put k (wrap32 count) }, none)
  | some c => if count = 0 then ({ e with rc := e.rc.del k }, some c)
              else ({ e with rc := e.rc.put k (wrap32 count) }, some c)

/-! ### link_collection_rc.go -/

/-- `IncrementLinkCount(tx, id, key)` -/
def rcIncr (s : St K) (sd : Side) (id k : K) : St K × Int × Option Err :=
  match s.get (sd, id) with
  | none => (s, 0, some .missing)
  | some e =>
    let l := bucketIncr e k
    let s1 := s.put (sd, id) l.1
    match s1.get (sd.other, k) with
    | none => (s1, 0, some .notFound)
    | some o =>
      let r := bucketIncr o id
      let s2 := s1.put (sd.other, k) r.1
      if l.2 ≠ r.2 then (s2, 0, some .mismatch) else (s2, l.2, none)

/-- `DecrementLinkCount(tx, id, key)` -/
def rcDecr (s : St K) (sd : Side) (id k : K) : St K × Int × Option Err :=
  match s.get (sd, id) with
  | none => (s, 0, some .missing)
  | some e =>
    let l := bucketDecr e k
    let s1 := s.put (sd, id) l.1
    match s1.get (sd.other, k) with
    | none => if l.2 ≠ -1 then (s1, 0, some .mismatch) else (s1, l.2, none)
    | some o =>
      let r := bucketDecr o id
      let s2 := s1.put (sd.other, k) r.1
      if l.2 ≠ r.2 then (s2, 0, some .mismatch) else (s2, l.2, none)

/-- `SetLinkCount(tx, id, key, count)` -/
def rcSet (s : St K) (sd : Side) (id k : K) (count : Int) : St K × Option Int × Option Int × Option Err :=
  match s.get (sd, id) with
  | none => (s, none, none, some .missing)
  | some e =>
    let l := bucketSet e k count
    let s1 := s.put (sd, id) l.1
    match s1.get (sd.other, k) with
    | none => (s1, none, none, some .notFound)
    | some o =>
      let r := bucketSet o id count
      (s1.put (sd.other, k) r.1, l.2, r.2, none)

/-- `RefCountedLinkedSetSymbol.unlink` -/
def rcSymUnlink (s : St K) (r : Ref K) (l : K) : St K :=
  upd s r fun e => { e with rc := e.rc.del l }

/-- `rcLinkCollectionImpl.EntityDeleted` -/
def rcEntityDeleted (s : St K) (sd : Side) (id : K) : St K :=
  match s.get (sd, id) with
  | none => s
  | some e => (e.rc.map (·.1)).foldl (fun s k => rcSymUnlink s (sd.other, k) id) s

/-! ### store_crud.go -/

/-- `DeleteById`: not found, else `cleanupLinks` (both kinds of collection), then the bucket -/
def deleteEntity (s : St K) (sd : Side) (id : K) : St K × Option Err :=
  match s.get (sd, id) with
  | none => (s, some .notFound)
  | some _ => ((rcEntityDeleted (linksEntityDeleted s sd id) sd id).del (sd, id), none)

/-- `Create` of an entity whose `PersistEntity` optionally calls `ctx.SetLinkedIds(field, links)` -/
def createEntity (s : St K) (sd : Side) (id : K) (blank : Bool) (links : Option (List K)) : St K × Option Err :=
  if blank then (s, some .blank)
  else match s.get (sd, id) with
  | some _ => (s, some .exists)
  | none =>
    let s1 := s.put (sd, id) {}
    match links with
    | none => (s1, none)
    | some ks => setLinks s1 sd id ks

/-- `Update` with a field checker: `SetLinkedIds` proceeds iff the checker is nil or lists the field -/
def updateEntity (s : St K) (sd : Side) (id : K) (links : List K) (proceed : Bool) : St K × Option Err :=
  match s.get (sd, id) with
  | none => (s, some .notFound)
  | some _ => if proceed then setLinks s sd id links else (s, none)

/-! ### operations, transactions, histories -/

inductive Op (K : Type)
  | create (sd : Side) (id : K) (blank : Bool) (links : Option (List K))
  | update (sd : Side) (id : K) (links : List K) (proceed : Bool)
  | delete (sd : Side) (id : K)
  | addLinks (sd : Side) (id : K) (keys : List K)
  | removeLinks (sd : Side) (id : K) (keys : List K)
  | setLinks (sd : Side) (id : K) (keys : List K)
  | addLink (sd : Side) (id k : K)
  | removeLink (sd : Side) (id k : K)
  | incr (sd : Side) (id k : K)
  | decr (sd : Side) (id k : K)
  | setCount (sd : Side) (id k : K) (count : Int)
  | getLinks (sd : Side) (id : K)
  | isLinked (sd : Side) (id k : K)
  | getCounts (sd : Side) (id k : K)
  deriving Repr

structure Out (K : Type) where
  st : St K
  ret : Ret K := .unit
  err : Option Err := none

def step (s : St K) : Op K → Out K
  | .create sd id blank links => let r := createEntity s sd id blank links; { st := r.1, err := r.2 }
  | .update sd id links p => let r := updateEntity s sd id links p; { st := r.1, err := r.2 }
  | .delete sd id => let r := deleteEntity s sd id; { st := r.1, err := r.2 }
  | .addLinks sd id keys => let r := addLinks s sd id keys; { st := r.1, err := r.2 }
  | .removeLinks sd id keys => let r := removeLinks s sd id keys; { st := r.1, err := r.2 }
  | .setLinks sd id keys => let r := setLinks s sd id keys; { st := r.1, err := r.2 }
  | .addLink sd id k => let r := addLink s sd id k; { st := r.1, ret := .bool r.2.1, err := r.2.2 }
  | .removeLink sd id k => let r := removeLink s sd id k; { st := r.1, ret := .bool r.2.1, err := r.2.2 }
  | .incr sd id k => let r := rcIncr s sd id k; { st := r.1, ret := .int r.2.1, err := r.2.2 }
  | .decr sd id k => let r := rcDecr s sd id k; { st := r.1, ret := .int r.2.1, err := r.2.2 }
  | .setCount sd id k c => let r := rcSet s sd id k c; { st := r.1, ret := .olds r.2.1 r.2.2.1, err := r.2.2.2 }
  | .getLinks sd id => { st := s, ret := .keys (linksOf s (sd, id)) }
  | .isLinked sd id k => { st := s, ret := .bool ((linksOf s (sd, id)).contains k) }
  | .getCounts sd id k => { st := s, ret := .olds (rcOf s (sd, id) k) (rcOf s (sd.other, k) id) }

/-- run the body of one `Db.Update`: stop at the first error.
    Returns the state reached (with partial writes) and whether the body failed. -/
def runOps : St K → List (Op K) → St K × Bool
  | s, [] => (s, false)
  | s, op :: ops =>
    let o := step s op
    match o.err with
    | some _ => (o.st, true)
    | none => runOps o.st ops

/-- `Db.Update`: commit iff the body returned nil -/
def commitTx (s : St K) (ops : List (Op K)) : St K :=
  let r := runOps s ops
  if r.2 then s else r.1

/-- a committed history -/
def runHist (s : St K) (txs : List (List (Op K))) : St K := txs.foldl commitTx s

end
end StorageModel.C05
