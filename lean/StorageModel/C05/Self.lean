import StorageModel.C05.Order
/-
  C05 — LEGACY model of the tree before fix b23d525 (kept to state why it violated the property;
  the model of the code that exists now is C05/SelfW.lean).

  The self-referential wiring: ONE store whose set symbol `peers` is linked with itself
  (`store.AddLinkCollection(peers, peers)`), so that an entity can be linked to itself.

  In this wiring `linkCollectionImpl.EntityDeleted` iterates the entity's own `peers` bucket with
  a bbolt cursor while `otherField.RemoveLink(key, id)` deletes from that SAME bucket when
  `key = id`.  A bbolt cursor that is positioned on an in-memory node (the bucket was created or
  written earlier in the same transaction) then skips the key that follows; a cursor positioned
  on a page (bucket untouched so far in this transaction) does not.  The model therefore tracks,
  per transaction, which `peers` buckets are materialised (`dirty`), and whether a `peers` bucket
  exists at all (`links : Option …`, because creating it materialises it).

  `ideal = true` switches the hazard off: that is the specification and the repaired code (delete
  removes the entity from every link set), `ideal = false` is the model of the old walk, which the
  correspondence harness matched on 56 000 random histories before the repair.
-/
set_option linter.unusedSectionVars false
namespace StorageModel.C05.Self

abbrev Map (κ ν : Type) := List (κ × ν)

section
variable {K : Type} [KOrd K] [DecidableEq K]

def mget (m : Map K (Option (List K))) (k : K) : Option (Option (List K)) :=
  match m with
  | [] => none
  | (k', v) :: m => if k' = k then some v else mget m k

def mdel (m : Map K (Option (List K))) (k : K) : Map K (Option (List K)) := m.filter (fun p => p.1 ≠ k)
def mput (m : Map K (Option (List K))) (k : K) (v : Option (List K)) : Map K (Option (List K)) := (k, v) :: mdel m k

/-- entity ↦ its `peers` bucket (`none` = the field bucket does not exist yet); `dirty` = ids whose
    `peers` bucket has been created or written in the current transaction -/
structure St (K : Type) where
  ents : Map K (Option (List K)) := []
  dirty : List K := []

inductive Err | missing | notFound | exists | blank
  deriving DecidableEq, Repr

def linksOf (s : St K) (id : K) : List K :=
  match mget s.ents id with
  | some (some l) => l
  | _ => []

def markDirty (s : St K) (id : K) : St K := if s.dirty.contains id then s else { s with dirty := id :: s.dirty }

/-- `GetOrCreatePath(field)`: creating the bucket materialises it -/
def touch (s : St K) (id : K) : St K :=
  match mget s.ents id with
  | some none => markDirty { s with ents := mput s.ents id (some []) } id
  | _ => s

/-- `bucket.Put(key)`: always materialises the node -/
def putKey (s : St K) (id k : K) : St K :=
  markDirty { s with ents := mput s.ents id (some (insertS k (linksOf s id))) } id

/-- `bucket.Delete(key)`: materialises the node only when the key is there -/
def delKey (s : St K) (id k : K) : St K :=
  if (linksOf s id).contains k then
    markDirty { s with ents := mput s.ents id (some (eraseS k (linksOf s id))) } id
  else s

/-- `LinkedSetSymbol.AddLink(id, link)` -/
def symAddLink (s : St K) (id l : K) : St K × Option Err :=
  match mget s.ents id with
  | none => (s, some .notFound)
  | some _ => (putKey (touch s id) id l, none)

/-- `LinkedSetSymbol.RemoveLink(id, link)`: `GetPath`, nothing is created -/
def symRemoveLink (s : St K) (id l : K) : St K :=
  match mget s.ents id with
  | some (some _) => delKey s id l
  | _ => s

def link (s : St K) (id k : K) : St K × Option Err := symAddLink (putKey s id k) k id
def unlink (s : St K) (id k : K) : St K := symRemoveLink (delKey s id k) k id

def linkAll (id : K) : List K → St K → St K × Option Err
  | [], s => (s, none)
  | k :: ks, s =>
    match link s id k with
    | (s', some e) => (s', some e)
    | (s', none) => linkAll id ks s'

def unlinkAll (id : K) : List K → St K → St K
  | [], s => s
  | k :: ks, s => unlinkAll id ks (unlink s id k)

def addLinks (s : St K) (id : K) (keys : List K) : St K × Option Err :=
  match mget s.ents id with
  | none => (s, some .missing)
  | some _ => linkAll id keys (touch s id)

def removeLinks (s : St K) (id : K) (keys : List K) : St K × Option Err :=
  match mget s.ents id with
  | none => (s, some .missing)
  | some _ => (unlinkAll id keys (touch s id), none)

def addLink (s : St K) (id k : K) : St K × Bool × Option Err :=
  match mget s.ents id with
  | none => (s, false, some .missing)
  | some _ =>
    let s0 := touch s id
    let present := (linksOf s0 id).contains k
    -- CheckAndSetListEntry puts only when the key is absent
    let s1 := if present then s0 else putKey s0 id k
    let r := symAddLink s1 k id
    (r.1, !present, r.2)

def removeLink (s : St K) (id k : K) : St K × Bool × Option Err :=
  match mget s.ents id with
  | none => (s, false, some .missing)
  | some _ =>
    let s0 := touch s id
    let present := (linksOf s0 id).contains k
    (symRemoveLink (delKey s0 id k) k id, present, none)

/-- the merge of `SetLinks` (same loop as in C05/Model.lean) -/
def mergeRow (row : K) : Option K → List K → List K → List K × List K × Bool
  | _, [], toAdd => ([], toAdd, true)
  | skip, k :: ks, toAdd =>
    if skip = some k then mergeRow row skip ks toAdd
    else if KOrd.lt k row then mergeRow row (some k) ks (toAdd ++ [k])
    else if KOrd.lt row k then (k :: ks, toAdd, true)
    else (ks, toAdd, false)

def mergeWalk : List K → List K → List K → List K → List K × List K × List K
  | [], keys, toAdd, toRemove => (keys, toAdd, toRemove)
  | row :: rows, keys, toAdd, toRemove =>
    let r := mergeRow row none keys toAdd
    mergeWalk rows r.1 r.2.1 (if r.2.2 then toRemove ++ [row] else toRemove)

def setLinks (s : St K) (id : K) (keys : List K) : St K × Option Err :=
  match mget s.ents id with
  | none => (s, some .missing)
  | some _ =>
    let s0 := touch s id
    let w := mergeWalk (linksOf s0 id) (sortK keys) [] []
    linkAll id (w.2.1 ++ w.1) (unlinkAll id w.2.2 s0)

/-- the cursor walk of `EntityDeleted` over the keys that were in the bucket when it started.
    `nodeBased`: the cursor sits on an in-memory node, so deleting the current key from this very
    bucket makes `Next` skip the following key (`skipNext`). -/
def deletedWalk (ideal nodeBased : Bool) (id : K) : Bool → List K → St K → St K
  | _, [], s => s
  | true, _ :: ks, s => deletedWalk ideal nodeBased id false ks s
  | false, k :: ks, s =>
    deletedWalk ideal nodeBased id (decide (k = id) && nodeBased && !ideal) ks (symRemoveLink s k id)

/-- `DeleteById` → `cleanupLinks` → `EntityDeleted` → entity bucket deleted -/
def deleteEntity (ideal : Bool) (s : St K) (id : K) : St K × Option Err :=
  match mget s.ents id with
  | none => (s, some .notFound)
  | some _ =>
    let s0 := touch s id
    let nodeBased := s0.dirty.contains id
    let s1 := deletedWalk ideal nodeBased id false (linksOf s0 id) s0
    ({ ents := mdel s1.ents id, dirty := s1.dirty.filter (· ≠ id) }, none)

def createEntity (s : St K) (id : K) (blank : Bool) (links : Option (List K)) : St K × Option Err :=
  if blank then (s, some .blank)
  else match mget s.ents id with
  | some _ => (s, some .exists)
  | none =>
    let s1 := { s with ents := mput s.ents id none }
    match links with
    | none => (s1, none)
    | some ks => setLinks s1 id ks

inductive Op (K : Type)
  | create (id : K) (blank : Bool) (links : Option (List K))
  | delete (id : K)
  | addLinks (id : K) (keys : List K)
  | removeLinks (id : K) (keys : List K)
  | setLinks (id : K) (keys : List K)
  | addLink (id k : K)
  | removeLink (id k : K)
  | getLinks (id : K)

inductive Ret (K : Type)
  | unit
  | bool (b : Bool)
  | keys (l : List K)

structure Out (K : Type) where
  st : St K
  ret : Ret K := .unit
  err : Option Err := none

def step (ideal : Bool) (s : St K) : Op K → Out K
  | .create id blank links => let r := createEntity s id blank links; { st := r.1, err := r.2 }
  | .delete id => let r := deleteEntity ideal s id; { st := r.1, err := r.2 }
  | .addLinks id keys => let r := addLinks s id keys; { st := r.1, err := r.2 }
  | .removeLinks id keys => let r := removeLinks s id keys; { st := r.1, err := r.2 }
  | .setLinks id keys => let r := setLinks s id keys; { st := r.1, err := r.2 }
  | .addLink id k => let r := addLink s id k; { st := r.1, ret := .bool r.2.1, err := r.2.2 }
  | .removeLink id k => let r := removeLink s id k; { st := r.1, ret := .bool r.2.1, err := r.2.2 }
  | .getLinks id =>
    match mget s.ents id with
    | none => { st := s, ret := .keys [] }
    | some _ => let s0 := touch s id; { st := s0, ret := .keys (linksOf s0 id) }

def runOps (ideal : Bool) : St K → List (Op K) → St K × Bool
  | s, [] => (s, false)
  | s, op :: ops =>
    let o := step ideal s op
    match o.err with
    | some _ => (o.st, true)
    | none => runOps ideal o.st ops

/-- `Db.Update`: commit iff the body returned nil; either way the next transaction starts with
    nothing materialised -/
def commitTx (ideal : Bool) (s : St K) (ops : List (Op K)) : St K :=
  let r := runOps ideal { s with dirty := [] } ops
  if r.2 then { s with dirty := [] } else { r.1 with dirty := [] }

def runHist (ideal : Bool) (s : St K) (txs : List (List (Op K))) : St K := txs.foldl (commitTx ideal) s

end

/-! ### the witness: the code that exists violates the property in this wiring

  one transaction: create a, b, c; `AddLinks(a, a, b, c)`; `DeleteById(a)`.  The bucket `a.peers` was
  written in this transaction, the walk removes `a` from `a.peers` while standing on it, skips `b`,
  and `b` keeps its link to the deleted `a`. -/

def witness : List (List (Op Nat)) :=
  [[.create 1 false none, .create 2 false none, .create 3 false none, .addLinks 1 [1, 2, 3], .delete 1]]

/-- the model of the code: entity 2 still lists the deleted entity 1 -/
example : linksOf (runHist false {} witness) 2 = [1] ∧ mget (runHist false {} witness).ents 1 = none := by decide
/-- entity 3 was cleaned: the asymmetry is the skipped key only -/
example : linksOf (runHist false {} witness) 3 = [] := by decide
/-- the specification (and the proposed patch): nobody lists the deleted entity -/
example : linksOf (runHist true {} witness) 2 = [] ∧ linksOf (runHist true {} witness) 3 = [] := by decide

end StorageModel.C05.Self
