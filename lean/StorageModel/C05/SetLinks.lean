import StorageModel.C05.Merge
/-
  C05 — `SetLinks` / `AddLinks` / `RemoveLinks` at the level of the state.
-/
set_option linter.unusedSectionVars false
namespace StorageModel.C05

section
variable {K : Type} [KOrd K] [DecidableEq K]

theorem get_of_exists {s : St K} {r : Ref K} (h : exists? s r = true) : ∃ e, s.get r = some e ∧ e.links = linksOf s r := by
  unfold exists? at h; unfold linksOf
  cases hg : s.get r with
  | none => simp [hg] at h
  | some e => exact ⟨e, rfl, rfl⟩

theorem setLinks_unfold {s : St K} {sd : Side} {id : K} (req : List K) (hid : exists? s (sd, id) = true) :
    setLinks s sd id req =
      linkAll sd id ((mergeWalk (linksOf s (sd, id)) (sortK req) [] []).2.1 ++ (mergeWalk (linksOf s (sd, id)) (sortK req) [] []).1)
        (unlinkAll sd id (mergeWalk (linksOf s (sd, id)) (sortK req) [] []).2.2 s) := by
  obtain ⟨e, hg, hl⟩ := get_of_exists hid
  unfold setLinks; rw [hg]; simp only [hl]

theorem setLinks_missing_local {s : St K} {sd : Side} {id : K} (req : List K) (hid : exists? s (sd, id) = false) :
    setLinks s sd id req = (s, some .missing) := by
  unfold setLinks; unfold exists? at hid
  cases hg : s.get (sd, id) <;> simp_all

/-- **SetLinks leaves exactly the requested set** (state level): for every state whose link
    buckets are in key order, every entity and every request list all of whose keys exist. -/
theorem setLinks_ok {s : St K} {sd : Side} {id : K} {req : List K} (hs : AllSorted s)
    (hid : exists? s (sd, id) = true) (hall : ∀ k ∈ req, exists? s (sd.other, k) = true) :
    (setLinks s sd id req).2 = none ∧
    linksOf (setLinks s sd id req).1 (sd, id) = dedupK (sortK req) ∧
    (∀ x, x ≠ id → ∀ y, y ∈ linksOf (setLinks s sd id req).1 (sd, x) ↔ y ∈ linksOf s (sd, x)) := by
  rw [setLinks_unfold req hid]
  obtain ⟨A, B, C⟩ := mergeWalk_sets (linksOf s (sd, id)) req (hs (sd, id))
  generalize hw : mergeWalk (linksOf s (sd, id)) (sortK req) [] [] = w at A B C
  have hid1 : exists? (unlinkAll sd id w.2.2 s) (sd, id) = true := by rw [exists_unlinkAll]; exact hid
  have hall1 : ∀ k ∈ w.2.1 ++ w.1, exists? (unlinkAll sd id w.2.2 s) (sd.other, k) = true := by
    intro k hk; rw [exists_unlinkAll]; exact hall k (B k hk)
  obtain ⟨hok, hmem⟩ := linkAll_ok sd id (w.2.1 ++ w.1) hid1 hall1
  refine ⟨hok, ?_, ?_⟩
  · apply ssorted_ext
    · exact allSorted_linkAll sd id _ (allSorted_unlinkAll sd id _ hs) (sd, id)
    · exact ssorted_dedup_sort req
    · intro y
      rw [hmem, mem_unlinkAll, mem_dedup_sort]
      simp only [true_and, Side.ne_other, false_and, or_false, not_false_eq_true, and_true]
      rw [A y]
      constructor
      · rintro (⟨h1, h2⟩ | h)
        · exact Classical.byContradiction fun hn => h2 ⟨h1, hn⟩
        · exact B y h
      · intro h
        rcases C y h with h' | h'
        · exact Or.inr h'
        · exact Or.inl ⟨h', fun hh => hh.2 h⟩
  · intro x hx y
    rw [hmem, mem_unlinkAll]
    simp [hx]

theorem setLinks_sym {s : St K} {sd : Side} {id : K} {req : List K} (h : Sym s)
    (hok : (setLinks s sd id req).2 = none) : Sym (setLinks s sd id req).1 := by
  cases hid : exists? s (sd, id) with
  | false => rw [setLinks_missing_local req hid]; exact h
  | true =>
    rw [setLinks_unfold req hid] at hok ⊢
    exact sym_linkAll sd id _ (sym_unlinkAll sd id _ h) (by rw [exists_unlinkAll]; exact hid) hok

theorem setLinks_exists (s : St K) (sd : Side) (id : K) (req : List K) (r : Ref K) :
    exists? (setLinks s sd id req).1 r = exists? s r := by
  cases hid : exists? s (sd, id) with
  | false => rw [setLinks_missing_local req hid]
  | true => rw [setLinks_unfold req hid, exists_linkAll, exists_unlinkAll]

theorem setLinks_rcOf (s : St K) (sd : Side) (id : K) (req : List K) (r : Ref K) (j : K) :
    rcOf (setLinks s sd id req).1 r j = rcOf s r j := by
  cases hid : exists? s (sd, id) with
  | false => rw [setLinks_missing_local req hid]
  | true => rw [setLinks_unfold req hid, rcOf_linkAll, rcOf_unlinkAll]

theorem setLinks_allSorted {s : St K} (h : AllSorted s) (sd : Side) (id : K) (req : List K) :
    AllSorted (setLinks s sd id req).1 := by
  cases hid : exists? s (sd, id) with
  | false => rw [setLinks_missing_local req hid]; exact h
  | true => rw [setLinks_unfold req hid]; exact allSorted_linkAll sd id _ (allSorted_unlinkAll sd id _ h)

/-- **linking to a missing entity fails**: a request naming an entity that does not exist makes
    `SetLinks` return not-found (the current links all point to existing entities, which symmetry
    guarantees) -/
theorem setLinks_missing {s : St K} {sd : Side} {id : K} {req : List K} (hs : AllSorted s)
    (hid : exists? s (sd, id) = true)
    (hcur : ∀ k ∈ linksOf s (sd, id), exists? s (sd.other, k) = true)
    (hmiss : ∃ k ∈ req, exists? s (sd.other, k) = false) :
    (setLinks s sd id req).2 = some .notFound := by
  rw [setLinks_unfold req hid]
  obtain ⟨_, _, C⟩ := mergeWalk_sets (linksOf s (sd, id)) req (hs (sd, id))
  apply linkAll_missing
  obtain ⟨k, hk, hm⟩ := hmiss
  refine ⟨k, ?_, by rw [exists_unlinkAll]; exact hm⟩
  rcases C k hk with h | h
  · exact h
  · rw [hcur k h] at hm; cases hm

theorem setLinks_err (s : St K) (sd : Side) (id : K) (req : List K) :
    (setLinks s sd id req).2 = none ∨ (setLinks s sd id req).2 = some .notFound ∨
      (setLinks s sd id req).2 = some .missing := by
  cases hid : exists? s (sd, id) with
  | false => rw [setLinks_missing_local req hid]; right; right; rfl
  | true =>
    rw [setLinks_unfold req hid]
    rcases linkAll_err sd id _ (unlinkAll sd id _ s) with h | h
    · left; exact h
    · right; left; exact h

/-! ### AddLinks / RemoveLinks / AddLink / RemoveLink -/

theorem addLinks_unfold {s : St K} {sd : Side} {id : K} (ks : List K) (hid : exists? s (sd, id) = true) :
    addLinks s sd id ks = linkAll sd id ks s := by
  obtain ⟨e, hg, _⟩ := get_of_exists hid
  unfold addLinks; rw [hg]

theorem addLinks_missing_local {s : St K} {sd : Side} {id : K} (ks : List K) (hid : exists? s (sd, id) = false) :
    addLinks s sd id ks = (s, some .missing) := by
  unfold addLinks; unfold exists? at hid
  cases hg : s.get (sd, id) <;> simp_all

theorem removeLinks_unfold {s : St K} {sd : Side} {id : K} (ks : List K) (hid : exists? s (sd, id) = true) :
    removeLinks s sd id ks = (unlinkAll sd id ks s, none) := by
  obtain ⟨e, hg, _⟩ := get_of_exists hid
  unfold removeLinks; rw [hg]

theorem removeLinks_missing_local {s : St K} {sd : Side} {id : K} (ks : List K) (hid : exists? s (sd, id) = false) :
    removeLinks s sd id ks = (s, some .missing) := by
  unfold removeLinks; unfold exists? at hid
  cases hg : s.get (sd, id) <;> simp_all

theorem addLink_unfold {s : St K} {sd : Side} {id : K} (k : K) (hid : exists? s (sd, id) = true) :
    (addLink s sd id k).1 = (link s sd id k).1 ∧ (addLink s sd id k).2.2 = (link s sd id k).2 := by
  obtain ⟨e, hg, _⟩ := get_of_exists hid
  unfold addLink; rw [hg]; exact ⟨rfl, rfl⟩

theorem addLink_missing_local {s : St K} {sd : Side} {id : K} (k : K) (hid : exists? s (sd, id) = false) :
    addLink s sd id k = (s, false, some .missing) := by
  unfold addLink; unfold exists? at hid
  cases hg : s.get (sd, id) <;> simp_all

theorem removeLink_unfold {s : St K} {sd : Side} {id : K} (k : K) (hid : exists? s (sd, id) = true) :
    (removeLink s sd id k).1 = unlink s sd id k ∧ (removeLink s sd id k).2.2 = none := by
  obtain ⟨e, hg, _⟩ := get_of_exists hid
  unfold removeLink; rw [hg]; exact ⟨rfl, rfl⟩

theorem removeLink_missing_local {s : St K} {sd : Side} {id : K} (k : K) (hid : exists? s (sd, id) = false) :
    removeLink s sd id k = (s, false, some .missing) := by
  unfold removeLink; unfold exists? at hid
  cases hg : s.get (sd, id) <;> simp_all

end
end StorageModel.C05
