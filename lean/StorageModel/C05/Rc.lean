import StorageModel.C05.SetLinks
/-
  C05 — reference-counted links: effect of Increment / Decrement / SetLinkCount on the count
  function, and the agreement invariant.
-/
set_option linter.unusedSectionVars false
namespace StorageModel.C05

section
variable {K : Type} [KOrd K] [DecidableEq K]

/-- both sides hold the same count, every stored count is positive and at most `w` -/
def RcInv (s : St K) (w : Int) : Prop :=
  (∀ sd a b, rcOf s (sd, a) b = rcOf s (sd.other, b) a) ∧
  (∀ r k c, rcOf s r k = some c → 0 < c ∧ c ≤ w)

theorem rcInv_nil (w : Int) : RcInv ([] : St K) w := by
  constructor
  · intro sd a b; simp [rcOf, Map.get]
  · intro r k c h; simp [rcOf, Map.get] at h

theorem rcInv_mono {s : St K} {w w' : Int} (h : RcInv s w) (hw : w ≤ w') : RcInv s w' :=
  ⟨h.1, fun r k c hc => ⟨(h.2 r k c hc).1, Int.le_trans (h.2 r k c hc).2 hw⟩⟩

/-- transport along any operation that leaves every count as it was -/
theorem rcInv_of_rcOf_eq {s s' : St K} {w : Int} (h : RcInv s w) (he : ∀ r k, rcOf s' r k = rcOf s r k) :
    RcInv s' w := by
  constructor
  · intro sd a b; rw [he, he]; exact h.1 sd a b
  · intro r k c hc; rw [he] at hc; exact h.2 r k c hc

/-- an entity bucket after a write of `v` (none = entry deleted / absent) under count key `k` -/
def BucketWrite (e e' : Ent K) (k : K) (v : Option Int) : Prop :=
  e'.links = e.links ∧ ∀ j, e'.rc.get j = if k = j then v else e.rc.get j

theorem bucketIncr_write (e : Ent K) (k : K) : BucketWrite e (bucketIncr e k).1 k (some (bucketIncr e k).2) := by
  refine ⟨rfl, fun j => ?_⟩
  simp only [bucketIncr]; rw [Map.get_put]

theorem bucketDecr_write (e : Ent K) (k : K) :
    BucketWrite e (bucketDecr e k).1 k
      (match e.rc.get k with
       | none => none
       | some c => if wrap32 (c - 1) > 0 then some (wrap32 (c - 1)) else none) := by
  refine ⟨?_, fun j => ?_⟩
  · unfold bucketDecr; cases e.rc.get k with
    | none => rfl
    | some c => simp only; split <;> rfl
  · unfold bucketDecr
    cases hg : e.rc.get k with
    | none =>
      simp only
      by_cases h : k = j
      · subst h; simp [hg]
      · simp [h]
    | some c =>
      simp only
      split
      · simp only; rw [Map.get_put]
      · simp only; rw [Map.get_del]

theorem bucketSet_write (e : Ent K) (k : K) (count : Int) :
    BucketWrite e (bucketSet e k count).1 k (if count = 0 then none else some (wrap32 count)) := by
  refine ⟨?_, fun j => ?_⟩
  · unfold bucketSet; cases e.rc.get k <;> (simp only; split <;> rfl)
  · unfold bucketSet
    cases hg : e.rc.get k with
    | none =>
      simp only
      by_cases hc : count = 0
      · simp only [hc, if_true]
        by_cases h : k = j
        · subst h; simp [hg]
        · simp [h]
      · simp only [hc, if_false]; rw [Map.get_put]
    | some c =>
      simp only
      by_cases hc : count = 0
      · simp only [hc, if_true]; rw [Map.get_del]
      · simp only [hc, if_false]; rw [Map.get_put]

/-- state after writing `v` on the local side and `v'` on the other side -/
theorem rcOf_paired {s : St K} {sd : Side} {id k : K} {e e' o o' : Ent K} {v v' : Option Int}
    (he : s.get (sd, id) = some e) (ho : s.get (sd.other, k) = some o)
    (we : BucketWrite e e' k v) (wo : BucketWrite o o' id v') (sd' : Side) (x j : K) :
    rcOf ((s.put (sd, id) e').put (sd.other, k) o') (sd', x) j =
      if sd' = sd ∧ x = id ∧ j = k then v
      else if sd' = sd.other ∧ x = k ∧ j = id then v'
      else rcOf s (sd', x) j := by
  rw [rcOf_put, rcOf_put]
  by_cases h1 : (sd.other, k) = (sd', x)
  · simp only [h1, if_true]
    obtain ⟨a, b⟩ := Prod.mk.inj h1
    subst a; subst b
    rw [wo.2 j]
    have : ¬ (sd.other = sd) := Side.other_ne sd
    by_cases hj : id = j
    · subst hj; simp [this]
    · have hj' : ¬ j = id := fun h => hj h.symm
      simp [this, hj, hj', rcOf, ho]
  · simp only [h1, if_false]
    by_cases h2 : (sd, id) = (sd', x)
    · simp only [h2, if_true]
      obtain ⟨a, b⟩ := Prod.mk.inj h2
      subst a; subst b
      rw [we.2 j]
      by_cases hj : k = j
      · subst hj; simp
      · have hj' : ¬ j = k := fun h => hj h.symm
        simp [hj, hj', rcOf, he]
    · simp only [h2, if_false]
      have n1 : ¬ (sd' = sd ∧ x = id ∧ j = k) := fun ⟨a, b, _⟩ => h2 (by rw [a, b])
      have n2 : ¬ (sd' = sd.other ∧ x = k ∧ j = id) := fun ⟨a, b, _⟩ => h1 (by rw [a, b])
      simp [n1, n2]

theorem linksOf_paired {s : St K} {sd : Side} {id k : K} {e e' o o' : Ent K} {v v' : Option Int}
    (he : s.get (sd, id) = some e) (ho : s.get (sd.other, k) = some o)
    (we : BucketWrite e e' k v) (wo : BucketWrite o o' id v') (r : Ref K) :
    linksOf ((s.put (sd, id) e').put (sd.other, k) o') r = linksOf s r := by
  rw [linksOf_put, linksOf_put]
  by_cases h1 : (sd.other, k) = r
  · subst h1; simp [wo.1, linksOf, ho]
  · by_cases h2 : (sd, id) = r
    · subst h2; simp [h1, we.1, linksOf, he]
    · simp [h1, h2]

theorem exists_paired {s : St K} {sd : Side} {id k : K} {e e' o o' : Ent K}
    (he : s.get (sd, id) = some e) (ho : s.get (sd.other, k) = some o) (r : Ref K) :
    exists? ((s.put (sd, id) e').put (sd.other, k) o') r = exists? s r := by
  rw [exists_put, exists_put]
  by_cases h1 : (sd.other, k) = r
  · subst h1; simp [exists?, ho]
  · by_cases h2 : (sd, id) = r
    · subst h2; simp [h1, exists?, he]
    · simp [h1, h2]

/-- a paired write of the same value keeps the invariant -/
theorem rcInv_paired {s s' : St K} {w w' : Int} {sd : Side} {id k : K} {v : Option Int}
    (h : RcInv s w) (hw : w ≤ w') (hv : ∀ c, v = some c → 0 < c ∧ c ≤ w')
    (hrc : ∀ sd' x j, rcOf s' (sd', x) j =
      if sd' = sd ∧ x = id ∧ j = k then v
      else if sd' = sd.other ∧ x = k ∧ j = id then v
      else rcOf s (sd', x) j) : RcInv s' w' := by
  have h' := rcInv_mono h hw
  constructor
  · intro sd' a b
    rw [hrc, hrc, h.1 sd' a b]
    cases sd <;> cases sd' <;> simp [Side.other] <;> grind
  · intro r j c hc
    obtain ⟨sd', x⟩ := r
    rw [hrc] at hc
    split at hc
    · exact hv c hc
    · split at hc
      · exact hv c hc
      · exact h'.2 _ _ _ hc

/-! ### IncrementLinkCount -/

theorem rcIncr_missing_local {s : St K} {sd : Side} {id k : K} (hid : exists? s (sd, id) = false) :
    rcIncr s sd id k = (s, 0, some .missing) := by
  unfold rcIncr; unfold exists? at hid
  cases hg : s.get (sd, id) <;> simp_all

theorem get_put_other {s : St K} {sd : Side} {id k : K} (e' : Ent K) :
    (s.put (sd, id) e').get (sd.other, k) = s.get (sd.other, k) := by
  apply Map.get_put_ne
  intro h; exact Side.ne_other sd (Prod.mk.inj h).1

theorem rcIncr_missing_other {s : St K} {sd : Side} {id k : K} (hid : exists? s (sd, id) = true)
    (hk : exists? s (sd.other, k) = false) : (rcIncr s sd id k).2.2 = some .notFound := by
  obtain ⟨e, he, _⟩ := get_of_exists hid
  unfold rcIncr; rw [he]; simp only
  rw [get_put_other]
  unfold exists? at hk
  cases hg : s.get (sd.other, k) <;> simp_all

/-- inside the vocabulary an increment succeeds on both sides with the same new count -/
theorem rcIncr_ok {s : St K} {w : Int} {sd : Side} {id k : K} (h : RcInv s w) (hw : w + 1 < 2147483648)
    (hid : exists? s (sd, id) = true) (hk : exists? s (sd.other, k) = true) :
    ∃ n, (rcIncr s sd id k).2 = (n, none) ∧
      n = (match rcOf s (sd, id) k with | some c => c + 1 | none => 1) ∧
      (∀ sd' x j, rcOf (rcIncr s sd id k).1 (sd', x) j =
        if sd' = sd ∧ x = id ∧ j = k then some n
        else if sd' = sd.other ∧ x = k ∧ j = id then some n
        else rcOf s (sd', x) j) ∧
      (∀ r, linksOf (rcIncr s sd id k).1 r = linksOf s r) ∧
      (∀ r, exists? (rcIncr s sd id k).1 r = exists? s r) := by
  obtain ⟨e, he, _⟩ := get_of_exists hid
  obtain ⟨o, ho, _⟩ := get_of_exists hk
  have hagree := h.1 sd id k
  have hloc : rcOf s (sd, id) k = e.rc.get k := by simp [rcOf, he]
  have hoth : rcOf s (sd.other, k) id = o.rc.get id := by simp [rcOf, ho]
  have heq : e.rc.get k = o.rc.get id := by rw [← hloc, ← hoth]; exact hagree
  have hnext : (bucketIncr e k).2 = (bucketIncr o id).2 := by simp only [bucketIncr]; rw [heq]
  have hval : (bucketIncr e k).2 = (match rcOf s (sd, id) k with | some c => c + 1 | none => 1) := by
    simp only [bucketIncr]; rw [hloc]
    cases hc : e.rc.get k with
    | none => rfl
    | some c =>
      have := h.2 (sd, id) k c (by rw [hloc]; exact hc)
      simp only; apply wrap32_id <;> omega
  refine ⟨(bucketIncr e k).2, ?_, hval, ?_, ?_, ?_⟩
  · unfold rcIncr; rw [he]; simp only; rw [get_put_other, ho]; simp only
    rw [if_neg (by rw [hnext]; simp)]
  · intro sd' x j
    have : (rcIncr s sd id k).1 = (s.put (sd, id) (bucketIncr e k).1).put (sd.other, k) (bucketIncr o id).1 := by
      unfold rcIncr; rw [he]; simp only; rw [get_put_other, ho]; simp only
      split <;> rfl
    rw [this, rcOf_paired he ho (bucketIncr_write e k) (bucketIncr_write o id), ← hnext]
  · intro r
    have : (rcIncr s sd id k).1 = (s.put (sd, id) (bucketIncr e k).1).put (sd.other, k) (bucketIncr o id).1 := by
      unfold rcIncr; rw [he]; simp only; rw [get_put_other, ho]; simp only
      split <;> rfl
    rw [this, linksOf_paired he ho (bucketIncr_write e k) (bucketIncr_write o id)]
  · intro r
    have : (rcIncr s sd id k).1 = (s.put (sd, id) (bucketIncr e k).1).put (sd.other, k) (bucketIncr o id).1 := by
      unfold rcIncr; rw [he]; simp only; rw [get_put_other, ho]; simp only
      split <;> rfl
    rw [this, exists_paired he ho]

theorem rcIncr_inv {s : St K} {w : Int} {sd : Side} {id k : K} (h : RcInv s w) (hw : w + 1 < 2147483648)
    (hw0 : 0 ≤ w) (hok : (rcIncr s sd id k).2.2 = none) : RcInv (rcIncr s sd id k).1 (w + 1) := by
  cases hid : exists? s (sd, id) with
  | false => rw [rcIncr_missing_local hid] at hok; cases hok
  | true =>
    cases hk : exists? s (sd.other, k) with
    | false => rw [rcIncr_missing_other hid hk] at hok; cases hok
    | true =>
      obtain ⟨n, _, hn, hrc, _, _⟩ := rcIncr_ok h hw hid hk
      apply rcInv_paired h (by omega) _ hrc
      intro c hc; cases hc
      rw [hn]
      cases hc : rcOf s (sd, id) k with
      | none => simp only; have := h.2; omega
      | some c => have := h.2 _ _ _ hc; simp only; omega

/-! ### DecrementLinkCount -/

theorem rcDecr_missing_local {s : St K} {sd : Side} {id k : K} (hid : exists? s (sd, id) = false) :
    rcDecr s sd id k = (s, 0, some .missing) := by
  unfold rcDecr; unfold exists? at hid
  cases hg : s.get (sd, id) <;> simp_all

/-- value left under the key by a decrement of `cur` -/
def decrValue (cur : Option Int) : Option Int :=
  match cur with
  | none => none
  | some c => if c - 1 > 0 then some (c - 1) else none

/-- what `DecrementLinkCount` returns -/
def decrRet (cur : Option Int) : Int :=
  match cur with
  | none => -1
  | some c => c - 1

theorem bucketDecr_ret (e : Ent K) (k : K) : (bucketDecr e k).2 =
    (match e.rc.get k with | none => -1 | some c => wrap32 (c - 1)) := by
  unfold bucketDecr
  cases e.rc.get k with
  | none => rfl
  | some c => simp only; split <;> rfl

/-- for every state satisfying the invariant a decrement succeeds, both sides end with the same
    value, and a count that reaches zero removes the entry on both sides -/
theorem rcDecr_ok {s : St K} {w : Int} {sd : Side} {id k : K} (h : RcInv s w) (hw : w < 2147483648)
    (hid : exists? s (sd, id) = true) :
    (rcDecr s sd id k).2 = (decrRet (rcOf s (sd, id) k), none) ∧
      (∀ sd' x j, rcOf (rcDecr s sd id k).1 (sd', x) j =
        if sd' = sd ∧ x = id ∧ j = k then decrValue (rcOf s (sd, id) k)
        else if sd' = sd.other ∧ x = k ∧ j = id then decrValue (rcOf s (sd, id) k)
        else rcOf s (sd', x) j) ∧
      (∀ r, linksOf (rcDecr s sd id k).1 r = linksOf s r) ∧
      (∀ r, exists? (rcDecr s sd id k).1 r = exists? s r) := by
  obtain ⟨e, he, _⟩ := get_of_exists hid
  have hagree := h.1 sd id k
  have hloc : rcOf s (sd, id) k = e.rc.get k := by simp [rcOf, he]
  have hwrap : ∀ c, e.rc.get k = some c → wrap32 (c - 1) = c - 1 := by
    intro c hc
    have := h.2 (sd, id) k c (by rw [hloc]; exact hc)
    apply wrap32_id <;> omega
  have hwv : BucketWrite e (bucketDecr e k).1 k (decrValue (e.rc.get k)) := by
    have := bucketDecr_write e k
    cases hc : e.rc.get k with
    | none => rw [hc] at this; exact this
    | some c => rw [hc] at this; simp only [decrValue]; simp only [hwrap c hc] at this; exact this
  have hret : (bucketDecr e k).2 = decrRet (e.rc.get k) := by
    rw [bucketDecr_ret]
    cases hc : e.rc.get k with
    | none => rfl
    | some c => simp only [decrRet]; exact hwrap c hc
  cases hk : exists? s (sd.other, k) with
  | false =>
    -- the other entity does not exist: by agreement there is no local entry either
    have hnone : e.rc.get k = none := by rw [← hloc, hagree]; exact rcOf_of_not_exists hk id
    have hgo : s.get (sd.other, k) = none := by
      unfold exists? at hk; cases hg : s.get (sd.other, k) <;> simp_all
    have hst : (rcDecr s sd id k).1 = s.put (sd, id) (bucketDecr e k).1 := by
      unfold rcDecr; rw [he]; simp only; rw [get_put_other, hgo]; simp only; split <;> rfl
    have hb : (bucketDecr e k).1 = e := by unfold bucketDecr; rw [hnone]
    refine ⟨?_, ?_, ?_, ?_⟩
    · unfold rcDecr; rw [he]; simp only; rw [get_put_other, hgo]; simp only
      rw [hret, hloc, hnone]; simp [decrRet]
    · intro sd' x j
      rw [hst, hb, rcOf_put, hloc, hnone]
      simp only [decrValue]
      by_cases h1 : (sd, id) = (sd', x)
      · obtain ⟨a, b⟩ := Prod.mk.inj h1; subst a; subst b
        simp only [if_true, true_and]
        by_cases hj : j = k
        · subst hj; simp [hnone]
        · simp [hj, rcOf, he]
      · have n1 : ¬ (sd' = sd ∧ x = id ∧ j = k) := fun ⟨a, b, _⟩ => h1 (by rw [a, b])
        simp only [h1, if_false, n1]
        split
        · next hh =>
          obtain ⟨a, b, c⟩ := hh; subst a; subst b; subst c
          exact rcOf_of_not_exists hk _
        · rfl
    · intro r; rw [hst, hb, linksOf_put]
      by_cases h1 : (sd, id) = r
      · subst h1; simp [linksOf, he]
      · simp [h1]
    · intro r; rw [hst, exists_put]
      by_cases h1 : (sd, id) = r
      · subst h1; simp [hid]
      · simp [h1]
  | true =>
    obtain ⟨o, ho, _⟩ := get_of_exists hk
    have hoth : rcOf s (sd.other, k) id = o.rc.get id := by simp [rcOf, ho]
    have heq : e.rc.get k = o.rc.get id := by rw [← hloc, ← hoth]; exact hagree
    have hwrap' : ∀ c, o.rc.get id = some c → wrap32 (c - 1) = c - 1 := by
      intro c hc; exact hwrap c (by rw [heq]; exact hc)
    have hwo : BucketWrite o (bucketDecr o id).1 id (decrValue (e.rc.get k)) := by
      have := bucketDecr_write o id
      rw [heq]
      cases hc : o.rc.get id with
      | none => rw [hc] at this; exact this
      | some c => rw [hc] at this; simp only [decrValue]; simp only [hwrap' c hc] at this; exact this
    have hreto : (bucketDecr o id).2 = decrRet (e.rc.get k) := by
      rw [bucketDecr_ret, heq]
      cases hc : o.rc.get id with
      | none => rfl
      | some c => simp only [decrRet]; exact hwrap' c hc
    have hst : (rcDecr s sd id k).1 = (s.put (sd, id) (bucketDecr e k).1).put (sd.other, k) (bucketDecr o id).1 := by
      unfold rcDecr; rw [he]; simp only; rw [get_put_other, ho]; simp only; split <;> rfl
    refine ⟨?_, ?_, ?_, ?_⟩
    · unfold rcDecr; rw [he]; simp only; rw [get_put_other, ho]; simp only
      rw [if_neg (by rw [hret, hreto]; simp), hret, hloc]
    · intro sd' x j; rw [hst, rcOf_paired he ho hwv hwo, hloc]
    · intro r; rw [hst, linksOf_paired he ho hwv hwo]
    · intro r; rw [hst, exists_paired he ho]

theorem rcDecr_inv {s : St K} {w : Int} {sd : Side} {id k : K} (h : RcInv s w) (hw : w < 2147483648)
    (hok : (rcDecr s sd id k).2.2 = none) : RcInv (rcDecr s sd id k).1 w := by
  cases hid : exists? s (sd, id) with
  | false => rw [rcDecr_missing_local hid] at hok; cases hok
  | true =>
    obtain ⟨_, hrc, _, _⟩ := rcDecr_ok (k := k) h hw hid
    apply rcInv_paired h (Int.le_refl _) _ hrc
    intro c hc
    cases hcur : rcOf s (sd, id) k with
    | none => rw [hcur] at hc; simp [decrValue] at hc
    | some c0 =>
      rw [hcur] at hc; simp only [decrValue] at hc
      have := h.2 _ _ _ hcur
      split at hc
      · cases hc; omega
      · cases hc

/-! ### SetLinkCount -/

theorem rcSet_missing_local {s : St K} {sd : Side} {id k : K} (c : Int) (hid : exists? s (sd, id) = false) :
    rcSet s sd id k c = (s, none, none, some .missing) := by
  unfold rcSet; unfold exists? at hid
  cases hg : s.get (sd, id) <;> simp_all

theorem rcSet_missing_other {s : St K} {sd : Side} {id k : K} (c : Int) (hid : exists? s (sd, id) = true)
    (hk : exists? s (sd.other, k) = false) : (rcSet s sd id k c).2.2.2 = some .notFound := by
  obtain ⟨e, he, _⟩ := get_of_exists hid
  unfold rcSet; rw [he]; simp only
  rw [get_put_other]
  unfold exists? at hk
  cases hg : s.get (sd.other, k) <;> simp_all

theorem rcSet_ok {s : St K} {sd : Side} {id k : K} (c : Int) (hc0 : 0 ≤ c) (hc : c < 2147483648)
    (hid : exists? s (sd, id) = true) (hk : exists? s (sd.other, k) = true) :
    (rcSet s sd id k c).2.2.2 = none ∧
      (∀ sd' x j, rcOf (rcSet s sd id k c).1 (sd', x) j =
        if sd' = sd ∧ x = id ∧ j = k then (if c = 0 then none else some c)
        else if sd' = sd.other ∧ x = k ∧ j = id then (if c = 0 then none else some c)
        else rcOf s (sd', x) j) ∧
      (∀ r, linksOf (rcSet s sd id k c).1 r = linksOf s r) ∧
      (∀ r, exists? (rcSet s sd id k c).1 r = exists? s r) := by
  obtain ⟨e, he, _⟩ := get_of_exists hid
  obtain ⟨o, ho, _⟩ := get_of_exists hk
  have hwr : wrap32 c = c := wrap32_id (by omega) hc
  have we := bucketSet_write e k c
  have wo := bucketSet_write o id c
  rw [hwr] at we wo
  have hst : (rcSet s sd id k c).1 = (s.put (sd, id) (bucketSet e k c).1).put (sd.other, k) (bucketSet o id c).1 := by
    unfold rcSet; rw [he]; simp only; rw [get_put_other, ho]
  refine ⟨?_, ?_, ?_, ?_⟩
  · unfold rcSet; rw [he]; simp only; rw [get_put_other, ho]
  · intro sd' x j; rw [hst, rcOf_paired he ho we wo]
  · intro r; rw [hst, linksOf_paired he ho we wo]
  · intro r; rw [hst, exists_paired he ho]

theorem rcSet_inv {s : St K} {w : Int} {sd : Side} {id k : K} (c : Int) (h : RcInv s w) (hc0 : 0 ≤ c)
    (hw : w + c < 2147483648) (hw0 : 0 ≤ w)
    (hok : (rcSet s sd id k c).2.2.2 = none) : RcInv (rcSet s sd id k c).1 (w + c) := by
  cases hid : exists? s (sd, id) with
  | false => rw [rcSet_missing_local c hid] at hok; cases hok
  | true =>
    cases hk : exists? s (sd.other, k) with
    | false => rw [rcSet_missing_other c hid hk] at hok; cases hok
    | true =>
      obtain ⟨_, hrc, _, _⟩ := rcSet_ok (s := s) (sd := sd) (id := id) (k := k) c hc0 (by omega) hid hk
      apply rcInv_paired h (by omega) _ hrc
      intro c' hc'
      split at hc'
      · cases hc'
      · cases hc'; omega

end
end StorageModel.C05
