import StorageModel.C05.SchemaSim
/-
  C05 — schema-parametrised model: every successful operation keeps `GInv` and moves every
  declared collection's slot by successful base-model operations; transactions and histories.
-/
set_option linter.unusedSectionVars false
namespace StorageModel.C05.Schema
open StorageModel.C05

section
variable {K : Type} [KOrd K] [DecidableEq K]

/-! ### rewriting one slot -/

theorem setSlot_ginv {sc : Schema} {g : GSt K} (h : GInv sc g) (i : Nat) (s' : St K)
    (hex : ∀ r, exists? s' r = exists? (g.slots i) r)
    (hrc : ∀ ca cb, sc.colls[i]? = some (.plain ca cb) → NoRc s')
    (hln : ∀ ca cb, sc.colls[i]? = some (.rc ca cb) → NoLinks s') : GInv sc (g.setSlot i s') := by
  refine ⟨?_, h.par, ?_, ?_⟩
  · intro j c hj sd id
    by_cases e : j = i
    · subst e; rw [setSlot_same, hex]; exact h.coh j c hj sd id
    · rw [setSlot_ne g s' e]; exact h.coh j c hj sd id
  · intro j ca cb hj
    by_cases e : j = i
    · subst e; rw [setSlot_same]; exact hrc ca cb hj
    · rw [setSlot_ne g s' e]; exact h.noRc j ca cb hj
  · intro j ca cb hj
    by_cases e : j = i
    · subst e; rw [setSlot_same]; exact hln ca cb hj
    · rw [setSlot_ne g s' e]; exact h.noLinks j ca cb hj

theorem setSlot_moves (g : GSt K) (i : Nat) (s' : St K) {j : Nat} {c : Coll} {w : Int} (hw : 0 ≤ w) (v : Prop)
    (hm : j = i → SlotMoves c (g.slots i) s' w v) : SlotMoves c (g.slots j) ((g.setSlot i s').slots j) w v := by
  by_cases e : j = i
  · subst e; rw [setSlot_same]; exact hm rfl
  · rw [setSlot_ne g s' e]; exact SlotMoves.refl c _ hw v

/-! ### SetLinkedIds -/

theorem gsetLinks_ents (sc : Schema) (g : GSt K) (x : Store) (i : Nat) (id : K) (keys : List K) :
    (gsetLinks sc g x i id keys).1.ents = g.ents := by
  unfold gsetLinks
  cases hsi : sc.colls[i]? with
  | none => rfl
  | some c =>
    cases c with
    | plain ca cb => cases hs : (Coll.plain ca cb).sideOf x <;> simp [hs, GSt.setSlot]
    | rc ca cb => cases hs : (Coll.rc ca cb).sideOf x <;> simp
    | self sd' c' => cases hs : (Coll.self sd' c').sideOf x <;> simp [hs, GSt.setSlot]

theorem gsetLinks_ginv {sc : Schema} {g : GSt K} (h : GInv sc g) (x : Store) (i : Nat) (id : K) (keys : List K) :
    GInv sc (gsetLinks sc g x i id keys).1 := by
  unfold gsetLinks
  cases hsi : sc.colls[i]? with
  | none => exact h
  | some c =>
    cases c with
    | plain ca cb =>
      cases hs : (Coll.plain ca cb).sideOf x with
      | none => simpa [hs] using h
      | some sd =>
        simp only [hs]
        refine setSlot_ginv h i _ (setLinks_exists _ sd id keys) ?_ ?_
        · intro ca' cb' _
          exact noRc_of_eq (h.noRc i ca cb hsi) (setLinks_rcOf _ sd id keys)
        · intro ca' cb' e; rw [hsi] at e; cases e
    | rc ca cb => cases hs : (Coll.rc ca cb).sideOf x <;> simpa [hs] using h
    | self sd' c' =>
      cases hs : (Coll.self sd' c').sideOf x with
      | none => simpa [hs] using h
      | some sd =>
        simp only [hs]
        refine setSlot_ginv h i _ (exists_ssetLinks _ id keys) ?_ ?_
        · intro ca' cb' e; rw [hsi] at e; cases e
        · intro ca' cb' e; rw [hsi] at e; cases e

theorem gsetLinks_moves (sc : Schema) (g : GSt K) (x : Store) (i : Nat) (id : K) (keys : List K)
    (hok : (gsetLinks sc g x i id keys).2 = none) {j : Nat} {c : Coll} (hj : sc.colls[j]? = some c) (v : Prop) :
    SlotMoves c (g.slots j) ((gsetLinks sc g x i id keys).1.slots j) 0 v := by
  unfold gsetLinks at hok ⊢
  cases hsi : sc.colls[i]? with
  | none => rw [hsi] at hok; cases hok
  | some c' =>
    rw [hsi] at hok
    cases c' with
    | plain ca cb =>
      cases hs : (Coll.plain ca cb).sideOf x with
      | none => simp [hs] at hok
      | some sd =>
        simp only [hs] at hok ⊢
        apply setSlot_moves g i _ (Int.le_refl 0) v
        intro e; subst e
        rw [hsi] at hj; cases hj
        exact Moves.single (bop := .setLinks sd id keys) (by simpa [step] using hok)
          (fun _ => ⟨trivial, by simp [weight]⟩)
    | rc ca cb => cases hs : (Coll.rc ca cb).sideOf x <;> simp at hok
    | self sd' c' =>
      cases hs : (Coll.self sd' c').sideOf x with
      | none => simp [hs] at hok
      | some sd =>
        simp only [hs] at hok ⊢
        apply setSlot_moves g i _ (Int.le_refl 0) v
        intro e; subst e
        rw [hsi] at hj; cases hj
        exact SMoves.single (sop := .setLinks id keys) (by simpa [SelfW.sstepW] using hok)

/-! ### Create -/

theorem gcreate_ok {sc : Schema} {g : GSt K} (h : GInv sc g) (x : Store) (id : K) (blank : Bool)
    (links : Option (Nat × List K)) (hok : (gcreate sc g x id blank links).2 = none) :
    GInv sc (gcreate sc g x id blank links).1 ∧
    ∀ j c, sc.colls[j]? = some c → ∀ v : Prop, SlotMoves c (g.slots j) ((gcreate sc g x id blank links).1.slots j) 0 v := by
  unfold gcreate at hok ⊢
  cases blank with
  | true => simp at hok
  | false =>
    simp only [Bool.false_eq_true, if_false] at hok ⊢
    cases hx : g.ents x id with
    | true => simp [hx] at hok
    | false =>
      simp only [hx, Bool.false_eq_true, if_false] at hok ⊢
      -- the root store's bucket
      have hroot : ∃ g0 : GSt K, (if (x.child && !g.ents ⟨x.side, false⟩ id) = true then putEntity sc g ⟨x.side, false⟩ id else g) = g0 ∧
          GInv sc g0 ∧ g0.ents x id = false ∧ (x.child = true → g0.ents ⟨x.side, false⟩ id = true) ∧
          ∀ j c, sc.colls[j]? = some c → ∀ v : Prop, SlotMoves c (g.slots j) (g0.slots j) 0 v := by
        by_cases hc : (x.child && !g.ents ⟨x.side, false⟩ id) = true
        · refine ⟨_, if_pos hc, ?_, ?_, ?_, ?_⟩
          · exact putEntity_ginv h (fun e => by cases e)
          · have hch : x.child = true := by
              cases hxc : x.child <;> simp [hxc] at hc ⊢
            rw [putEntity_ents_other]
            · exact hx
            · rintro ⟨e, _⟩
              rw [e] at hch; cases hch
          · intro _; exact putEntity_ents_self _ _ _ _
          · intro j c hj v
            have hr : g.ents ⟨x.side, false⟩ id = false := by
              cases hr : g.ents ⟨x.side, false⟩ id <;> simp [hr] at hc ⊢
            exact putEntity_moves h hr hj v
        · refine ⟨g, if_neg hc, h, hx, ?_, fun j c _ v => SlotMoves.refl c _ (Int.le_refl 0) v⟩
          intro hch
          cases hr : g.ents ⟨x.side, false⟩ id with
          | true => rfl
          | false => simp [hch, hr] at hc
      obtain ⟨g0, hg0, hinv0, hx0, hpar0, hm0⟩ := hroot
      rw [hg0] at hok ⊢
      have hinv1 : GInv sc (putEntity sc g0 x id) := putEntity_ginv hinv0 hpar0
      have hm1 : ∀ j c, sc.colls[j]? = some c → ∀ v : Prop, SlotMoves c (g.slots j) ((putEntity sc g0 x id).slots j) 0 v := by
        intro j c hj v
        have := SlotMoves.trans (hm0 j c hj v) (putEntity_moves hinv0 hx0 hj v)
        exact SlotMoves.weaken this (by omega) (fun hv => ⟨hv, hv⟩)
      cases links with
      | none => exact ⟨hinv1, hm1⟩
      | some p =>
        obtain ⟨i, keys⟩ := p
        simp only at hok ⊢
        refine ⟨gsetLinks_ginv hinv1 x i id keys, ?_⟩
        intro j c hj v
        have := SlotMoves.trans (hm1 j c hj v) (gsetLinks_moves sc _ x i id keys hok hj v)
        exact SlotMoves.weaken this (by omega) (fun hv => ⟨hv, hv⟩)

/-! ### Update -/

theorem gupdate_ok {sc : Schema} {g : GSt K} (h : GInv sc g) (x : Store) (id : K) (i : Nat) (keys : List K)
    (p : Bool) (hok : (gupdate sc g x id i keys p).2 = none) :
    GInv sc (gupdate sc g x id i keys p).1 ∧
    ∀ j c, sc.colls[j]? = some c → ∀ v : Prop, SlotMoves c (g.slots j) ((gupdate sc g x id i keys p).1.slots j) 0 v := by
  unfold gupdate at hok ⊢
  cases hx : g.ents x id with
  | false => simp [hx] at hok
  | true =>
    simp only [hx, Bool.true_eq_false, if_false] at hok ⊢
    cases p with
    | false => exact ⟨h, fun j c _ v => SlotMoves.refl c _ (Int.le_refl 0) v⟩
    | true =>
      simp only [if_true] at hok ⊢
      exact ⟨gsetLinks_ginv h x i id keys, fun j c hj v => gsetLinks_moves sc g x i id keys hok hj v⟩

/-! ### DeleteById -/

theorem cleanupLinks_ginv {sc : Schema} {g : GSt K} (h : GInv sc g) (x : Store) (id : K) :
    GInv sc (cleanupLinks sc g x id) := by
  refine ⟨?_, h.par, ?_, ?_⟩
  · intro j c hj sd id'
    rw [cleanupLinks_slot sc g x id hj, cleanupLinks_ents, ← h.coh j c hj sd id']
    cases c with
    | plain ca cb => cases hs : (Coll.plain ca cb).sideOf x <;> simp [cleanupSlot, hs, exists_linksEntityDeleted]
    | rc ca cb => cases hs : (Coll.rc ca cb).sideOf x <;> simp [cleanupSlot, hs, exists_rcEntityDeleted]
    | self sd' c' => cases hs : (Coll.self sd' c').sideOf x <;> simp [cleanupSlot, hs, exists_sEntityDeleted]
  · intro j ca cb hj
    rw [cleanupLinks_slot sc g x id hj]
    have := h.noRc j ca cb hj
    cases hs : (Coll.plain ca cb).sideOf x with
    | none => simpa [cleanupSlot, hs] using this
    | some sd => simp only [cleanupSlot, hs]; exact noRc_of_eq this (rcOf_linksEntityDeleted _ sd id)
  · intro j ca cb hj
    rw [cleanupLinks_slot sc g x id hj]
    have := h.noLinks j ca cb hj
    cases hs : (Coll.rc ca cb).sideOf x with
    | none => simpa [cleanupSlot, hs] using this
    | some sd => simp only [cleanupSlot, hs]; exact noLinks_of_eq this (linksOf_rcEntityDeleted _ sd id)

theorem dropEntity_ginv {sc : Schema} {g : GSt K} (h : GInv sc g) (sd : Side) (id : K) :
    GInv sc (dropEntity sc g sd id) := by
  refine ⟨?_, ?_, ?_, ?_⟩
  · intro j c hj sd' id'
    rw [dropEntity_slot sc g sd id hj]
    have hc := h.coh j c hj sd' id'
    cases hf : c.famSide sd with
    | none =>
      simp only
      rw [hc]
      cases hst : c.storeAt sd' with
      | none => rfl
      | some y =>
        have : y.side ≠ sd := by
          intro e
          refine (famSide_eq_none_iff c sd).mp hf sd' y.child ?_
          rw [hst, ← e]
        simp [dropEntity, this]
    | some s =>
      obtain ⟨ch, hs⟩ := (famSide_eq_some_iff c sd s).mp hf
      simp only
      rw [exists_del, hc]
      cases hst : c.storeAt sd' with
      | none =>
        simp only
        split <;> rfl
      | some y =>
        simp only [dropEntity]
        by_cases e : (s, id) = (sd', id')
        · obtain ⟨e1, e2⟩ := Prod.mk.inj e
          subst e1; subst e2
          rw [hs] at hst; cases hst
          simp
        · have : ¬ (y.side = sd ∧ id' = id) := by
            rintro ⟨e1, e2⟩
            subst e2
            obtain ⟨ys, yc⟩ := y
            simp only at e1; subst e1
            exact e (by rw [(storeAt_family_unique c hs hst).1])
          simp [e, this]
  · intro sd' id' hc
    simp only [dropEntity] at hc ⊢
    by_cases e : sd' = sd ∧ id' = id
    · simp [e] at hc
    · simp only [e, if_false] at hc ⊢
      exact h.par sd' id' hc
  · intro j ca cb hj
    rw [dropEntity_slot sc g sd id hj]
    have := h.noRc j ca cb hj
    cases (Coll.plain ca cb).famSide sd with
    | none => exact this
    | some s =>
      simp only
      intro r k; rw [rcOf_del]; split
      · rfl
      · exact this r k
  · intro j ca cb hj
    rw [dropEntity_slot sc g sd id hj]
    have := h.noLinks j ca cb hj
    cases (Coll.rc ca cb).famSide sd with
    | none => exact this
    | some s =>
      simp only
      intro r; rw [linksOf_del]; split
      · rfl
      · exact this r

/-- the clean-up of the one collection plus the bucket delete is the base model's `DeleteById` -/
theorem delete_slot_moves {sc : Schema} {g : GSt K} (h : GInv sc g) {j : Nat} {c : Coll} (hj : sc.colls[j]? = some c)
    {y : Store} {s : Side} (hs : c.sideOf y = some s) {id : K} (hy : g.ents y id = true) (v : Prop) :
    SlotMoves c (g.slots j) ((cleanupSlot c y id (g.slots j)).del (s, id)) 0 v := by
  have hex : exists? (g.slots j) (s, id) = true := by rw [coh_at h hj hs]; exact hy
  cases c with
  | plain ca cb =>
    have e := deleteEntity_plain (h.noRc j ca cb hj) hex
    have hst : step (g.slots j) (.delete s id) = { st := (linksEntityDeleted (g.slots j) s id).del (s, id), err := none } := by
      simp [step, e]
    have := Moves.single (s := g.slots j) (bop := .delete s id) (w := 0) (v := v) (by rw [hst])
      (fun _ => ⟨trivial, by simp [weight]⟩)
    rw [hst] at this
    simpa [cleanupSlot, hs, SlotMoves] using this
  | rc ca cb =>
    have e := deleteEntity_rc (h.noLinks j ca cb hj) hex
    have hst : step (g.slots j) (.delete s id) = { st := (rcEntityDeleted (g.slots j) s id).del (s, id), err := none } := by
      simp [step, e]
    have := Moves.single (s := g.slots j) (bop := .delete s id) (w := 0) (v := v) (by rw [hst])
      (fun _ => ⟨trivial, by simp [weight]⟩)
    rw [hst] at this
    simpa [cleanupSlot, hs, SlotMoves] using this
  | self sd' c' =>
    have hs' : s = .A := by
      have := (sideOf_eq_some_iff _ _ _).mp hs
      cases s with
      | A => rfl
      | B => simp [Coll.storeAt] at this
    subst hs'
    obtain ⟨e, he, _⟩ := get_of_exists hex
    have hst : SelfW.sstepW (g.slots j) (.delete id) =
        { st := (SelfW.sEntityDeleted (g.slots j) id).del (SelfW.R id), err := none } := by
      simp [SelfW.sstepW, SelfW.sdelete, he]
    have := SMoves.single (s := g.slots j) (sop := .delete id) (by rw [hst])
    rw [hst] at this
    simpa [cleanupSlot, hs, SlotMoves] using this

/-- when `DeleteById` succeeds -/
theorem gdelete_success {sc : Schema} {g : GSt K} {x : Store} {id : K} (hok : (gdelete sc g x id).2 = none) :
    g.ents ⟨x.side, false⟩ id = true ∧
    (gdelete sc g x id).1 = dropEntity sc (cleanupLinks sc
      (if g.ents ⟨x.side, true⟩ id then cleanupLinks sc g ⟨x.side, true⟩ id else g) ⟨x.side, false⟩ id) x.side id := by
  unfold gdelete childConstraints at hok ⊢
  cases hr : g.ents ⟨x.side, false⟩ id with
  | false => simp [hr] at hok
  | true => simp

/-- … and exactly when: the root store of the family holds the entity (whatever the schema, also
    when an extended child store declares collections and the entity has no extension data) -/
theorem gdelete_succeeds_iff (sc : Schema) (g : GSt K) (x : Store) (id : K) :
    (gdelete sc g x id).2 = none ↔ g.ents ⟨x.side, false⟩ id = true := by
  constructor
  · intro h; exact (gdelete_success h).1
  · intro hr
    unfold gdelete
    simp [hr]

/-- the only other outcome: not found, nothing written -/
theorem gdelete_failure {sc : Schema} {g : GSt K} {x : Store} {id : K} {e : Err} (h : (gdelete sc g x id).2 = some e) :
    (gdelete sc g x id).1 = g ∧ e = .notFound ∧ g.ents ⟨x.side, false⟩ id = false := by
  unfold gdelete at h ⊢
  cases hr : g.ents ⟨x.side, false⟩ id with
  | false => simp [hr] at h ⊢; exact h.symm
  | true => simp [hr] at h

/-- the slot of a declared collection after a successful `DeleteById` -/
theorem gdelete_slot {sc : Schema} {g : GSt K} (h : GInv sc g) (x : Store) (id : K)
    (hok : (gdelete sc g x id).2 = none) {j : Nat} {c : Coll} (hj : sc.colls[j]? = some c) :
    (c.famSide x.side = none ∧ (gdelete sc g x id).1.slots j = g.slots j) ∨
    (∃ s y, y.side = x.side ∧ c.sideOf y = some s ∧
      ((g.ents y id = false ∧ (gdelete sc g x id).1.slots j = g.slots j) ∨
       (g.ents y id = true ∧ (gdelete sc g x id).1.slots j = (cleanupSlot c y id (g.slots j)).del (s, id)))) := by
  obtain ⟨hroot, hst⟩ := gdelete_success hok
  rw [hst, dropEntity_slot sc _ x.side id hj, cleanupLinks_slot sc _ _ id hj]
  have h1 : (if g.ents ⟨x.side, true⟩ id then cleanupLinks sc g ⟨x.side, true⟩ id else g).slots j =
      if g.ents ⟨x.side, true⟩ id then cleanupSlot c ⟨x.side, true⟩ id (g.slots j) else g.slots j := by
    split
    · exact cleanupLinks_slot sc g _ id hj
    · rfl
  rw [h1]
  cases hf : c.famSide x.side with
  | none =>
    left
    have hn := (famSide_eq_none_iff c x.side).mp hf
    have r0 : c.sideOf ⟨x.side, false⟩ = none := (sideOf_eq_none_iff c _).mpr fun s => hn s false
    have r1 : c.sideOf ⟨x.side, true⟩ = none := (sideOf_eq_none_iff c _).mpr fun s => hn s true
    refine ⟨rfl, ?_⟩
    simp only [cleanupSlot_none r0, cleanupSlot_none r1, ite_self]
  | some s =>
    right
    obtain ⟨ch, hs⟩ := (famSide_eq_some_iff c x.side s).mp hf
    have hsy := (sideOf_eq_some_iff c ⟨x.side, ch⟩ s).mpr hs
    have hother : c.sideOf ⟨x.side, !ch⟩ = none := by
      refine (sideOf_eq_none_iff c _).mpr fun s' hs' => ?_
      have := (storeAt_family_unique c hs hs').2
      cases ch <;> simp at this
    refine ⟨s, ⟨x.side, ch⟩, rfl, hsy, ?_⟩
    cases ch with
    | false =>
      right
      simp only [Bool.not_false] at hother
      refine ⟨hroot, ?_⟩
      simp only [cleanupSlot_none hother, ite_self]
    | true =>
      simp only [Bool.not_true] at hother
      simp only [cleanupSlot_none hother]
      cases hc : g.ents ⟨x.side, true⟩ id with
      | true => right; exact ⟨rfl, by simp⟩
      | false =>
        left
        refine ⟨rfl, ?_⟩
        simp only [Bool.false_eq_true, if_false]
        apply del_of_not_exists
        rw [coh_at h hj hsy]; exact hc

theorem gdelete_ok {sc : Schema} {g : GSt K} (h : GInv sc g) (x : Store) (id : K)
    (hok : (gdelete sc g x id).2 = none) :
    GInv sc (gdelete sc g x id).1 ∧
    ∀ j c, sc.colls[j]? = some c → ∀ v : Prop, SlotMoves c (g.slots j) ((gdelete sc g x id).1.slots j) 0 v := by
  constructor
  · rw [(gdelete_success hok).2]
    apply dropEntity_ginv
    apply cleanupLinks_ginv
    split
    · exact cleanupLinks_ginv h _ id
    · exact h
  · intro j c hj v
    rcases gdelete_slot h x id hok hj with ⟨_, e⟩ | ⟨s, y, _, hs, ⟨_, e⟩ | ⟨hy, e⟩⟩
    · rw [e]; exact SlotMoves.refl c _ (Int.le_refl 0) v
    · rw [e]; exact SlotMoves.refl c _ (Int.le_refl 0) v
    · rw [e]; exact delete_slot_moves h hj hs hy v

/-! ### one operation -/

theorem plain_weight (op : PlainOp K) : weight op.toOp = 0 ∧ OpVocab op.toOp := by
  cases op <;> exact ⟨rfl, trivial⟩

theorem gstep_ok {sc : Schema} {g : GSt K} (h : GInv sc g) (op : GOp K) (hok : (gstep sc g op).err = none) :
    GInv sc (gstep sc g op).st ∧
    ∀ j c, sc.colls[j]? = some c → SlotMoves c (g.slots j) ((gstep sc g op).st.slots j) (gweight op) (GOpVocab op) := by
  cases op with
  | create x id blank links =>
    simp only [gstep] at hok ⊢
    obtain ⟨h1, h2⟩ := gcreate_ok h x id blank links hok
    exact ⟨h1, fun j c hj => h2 j c hj _⟩
  | update x id i keys p =>
    simp only [gstep] at hok ⊢
    obtain ⟨h1, h2⟩ := gupdate_ok h x id i keys p hok
    exact ⟨h1, fun j c hj => h2 j c hj _⟩
  | delete x id =>
    simp only [gstep] at hok ⊢
    obtain ⟨h1, h2⟩ := gdelete_ok h x id hok
    exact ⟨h1, fun j c hj => h2 j c hj _⟩
  | link i op =>
    simp only [gstep] at hok ⊢
    cases hsi : sc.colls[i]? with
    | none => simp [hsi] at hok
    | some c' =>
      cases c' with
      | plain ca cb =>
        simp only [hsi] at hok ⊢
        constructor
        · refine setSlot_ginv h i _ (exists_step_plain _ op) ?_ ?_
          · intro _ _ _; exact noRc_of_eq (h.noRc i ca cb hsi) (rcOf_step_plain _ op)
          · intro _ _ e; rw [hsi] at e; cases e
        · intro j c hj
          apply setSlot_moves g i _ (Int.le_refl 0)
          intro e; subst e
          rw [hsi] at hj; cases hj
          exact Moves.single hok (fun _ => ⟨(plain_weight op).2, by rw [(plain_weight op).1]; exact Int.le_refl 0⟩)
      | rc ca cb => simp [hsi] at hok
      | self sd' c'' =>
        simp only [hsi] at hok ⊢
        constructor
        · refine setSlot_ginv h i _ (exists_sstepW_link _ op) ?_ ?_
          · intro _ _ e; rw [hsi] at e; cases e
          · intro _ _ e; rw [hsi] at e; cases e
        · intro j c hj
          apply setSlot_moves g i _ (Int.le_refl 0)
          intro e; subst e
          rw [hsi] at hj; cases hj
          exact SMoves.single hok
  | count i op =>
    simp only [gstep] at hok ⊢
    cases hsi : sc.colls[i]? with
    | none => simp [hsi] at hok
    | some c' =>
      cases c' with
      | plain ca cb => simp [hsi] at hok
      | self sd' c'' => simp [hsi] at hok
      | rc ca cb =>
        simp only [hsi] at hok ⊢
        constructor
        · refine setSlot_ginv h i _ (exists_step_rc _ op) ?_ ?_
          · intro _ _ e; rw [hsi] at e; cases e
          · intro _ _ _; exact noLinks_of_eq (h.noLinks i ca cb hsi) (linksOf_step_rc _ op)
        · intro j c hj
          by_cases e : j = i
          · subst e
            rw [setSlot_same]
            rw [hsi] at hj; cases hj
            exact Moves.single hok (fun hv => ⟨hv, Int.le_refl _⟩)
          · rw [setSlot_ne g _ e]
            cases c with
            | self _ _ => exact SMoves.refl _
            | plain _ _ =>
              exact ⟨[], rfl, fun hv => ⟨fun _ hm => (by cases hm), by
                have := weight_nonneg (K := K) (op := op.toOp) hv
                simpa [txWeight, gweight] using this⟩⟩
            | rc _ _ =>
              exact ⟨[], rfl, fun hv => ⟨fun _ hm => (by cases hm), by
                have := weight_nonneg (K := K) (op := op.toOp) hv
                simpa [txWeight, gweight] using this⟩⟩

end
end StorageModel.C05.Schema
