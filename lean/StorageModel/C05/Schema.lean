import StorageModel.C05.SelfW
/-
  C05 — the model parametrised by the SCHEMA: which stores declare which link collections.

  `boltz.BaseStore` keeps two registries, `store.links` (AddLinkCollection) and
  `store.refCountedLinks` (AddRefCountedLinkCollection); `DeleteById` walks the child stores
  registered with the (root) store, runs `processDeleteConstraints → cleanupLinks` for every store
  of the family that holds the entity, and `cleanupLinks` runs `EntityDeleted` of every plain
  collection of the store and then of every ref-counted one.  Which collections exist is
  configuration, so the property has to hold for every configuration.

  The family of schemas: two root stores (`Side.A`, `Side.B`), each with one child
  store (plain or extended); a schema is any list of declared collections, each of them registered on BOTH of its
  stores (the `CheckIntegrity` precondition of a link collection):

    * `plain ca cb` — a many-to-many collection between a store of family A (the root, or its
      child store when `ca`) and a store of family B (`cb` likewise);
    * `rc ca cb`    — a reference-counted collection, same choice of stores;
    * `self sd c`   — a collection linking a store with itself through one set symbol.

  So a store may carry no collection at all, only plain ones, only reference-counted ones, both,
  several of each, a self-referential one, and any of them may live on a child store.  In addition
  the child store of either family may be an EXTENDED store (`Schema.ext`), and the symbol at each
  end of each collection may be declared with a bucket key different from its name and under a
  multi-segment path prefix (`Schema.naming`).

  State: the entity buckets (`ents`: which store holds which id; a child-store entity is a
  sub-bucket of the root store's entity bucket) and, per declared collection, the field buckets
  of that collection on its two stores — as a state of the two-store model (C05/Model.lean) whose
  side `A`/`B` refs are the entities of the collection's A-family / B-family store (one-sided
  for a self collection, as in C05/SelfW.lean).  The collection operations ARE the functions of
  Model.lean / SelfW.lean run on that slot; what this file adds is the store level:
  Create / Update / DeleteById / processDeleteConstraints / cleanupLinks over the registries.

  Found with this model and repaired in /repo (c784f90): when an extended child store declared a
  collection, `DeleteById` of an entity without extension data failed (see `childConstraints`).
-/
set_option linter.unusedSectionVars false
namespace StorageModel.C05.Schema
open StorageModel.C05

structure Store where
  side : Side
  child : Bool
  deriving DecidableEq, Repr

inductive Coll
  | plain (ca cb : Bool)
  | rc (ca cb : Bool)
  | self (sd : Side) (c : Bool)
  deriving DecidableEq, Repr

/-- how the symbol of one end of a collection is declared: `AddFkSymbolWithKey(name, key, linkedStore,
    pre...)`.  `name` is what the store's registries (`store.links[name]`), `SetLinkedIds(name, …)` and
    a `FieldChecker` speak about; the field bucket lives at `pre/key` inside the entity bucket of the
    symbol's store (`EntitySymbol.GetPath()`), which need not be named like the symbol. -/
structure Naming where
  name : String
  key : String
  pre : List String := []
  deriving DecidableEq, Repr

def Naming.path (n : Naming) : List String := n.pre ++ [n.key]

/-- the sub-bucket of a root entity bucket that holds a child store's data (`StoreDefinition.BasePath`) -/
def childPath : String := "ext"

/-- a schema: the declared collections; whether the child store of a family is an EXTENDED
    store (`StoreDefinition.Extended()`: its `FindById` finds every entity of the parent store,
    with or without extension data); and the NAMING of the set symbol at each end of each collection.
    Since fix c784f90 no modelled function depends on `ext` (see `childConstraints`), and none depends
    on `naming` (`naming_irrelevant`, C05/SchemaHist.lean): the link code reaches every field bucket
    through `GetPath()`, so for a well-formed naming (`Schema.wf`: different symbols of a store have
    different names and live in different, non-nested buckets) only WHERE the buckets are differs —
    which is what the rendered dump shows (`Schema.bucketPath`) and the correspondence compares. -/
structure Schema where
  colls : List Coll
  ext : Side → Bool := fun _ => false
  naming : Nat → Side → Naming := fun i _ => { name := "f" ++ toString i, key := "f" ++ toString i }

/-- the store whose entities are the side-`sd` refs of the collection's slot -/
def Coll.storeAt : Coll → Side → Option Store
  | .plain ca _, .A => some ⟨.A, ca⟩
  | .plain _ cb, .B => some ⟨.B, cb⟩
  | .rc ca _, .A => some ⟨.A, ca⟩
  | .rc _ cb, .B => some ⟨.B, cb⟩
  | .self sd c, .A => some ⟨sd, c⟩
  | .self _ _, .B => none

/-- is the collection registered on store `x` (`store.links[…]` / `store.refCountedLinks[…]`), and
    at which side of its slot do `x`'s entities sit -/
def Coll.sideOf (c : Coll) (x : Store) : Option Side :=
  if c.storeAt .A = some x then some .A
  else if c.storeAt .B = some x then some .B
  else none

/-- where the field bucket of collection `i`'s side-`sd` symbol sits inside the ROOT store's entity
    bucket (a child store's entity bucket is the sub-bucket `childPath`) -/
def Schema.bucketPath (sc : Schema) (i : Nat) (c : Coll) (sd : Side) : List String :=
  match c.storeAt sd with
  | some x => (if x.child then [childPath] else []) ++ (sc.naming i sd).path
  | none => []

/-- every declared collection end: its store, its naming, its bucket path -/
def Schema.ends (sc : Schema) : List (Store × Naming × List String) :=
  (List.range sc.colls.length).flatMap fun i =>
    match sc.colls[i]? with
    | some c => [Side.A, Side.B].filterMap fun sd => (c.storeAt sd).map fun x => (x, sc.naming i sd, sc.bucketPath i c sd)
    | none => []

def pairwiseB {α : Type} (p : α → α → Bool) : List α → Bool
  | [] => true
  | x :: xs => xs.all (p x) && pairwiseB p xs

/-- well-formed naming: names, keys and path segments are non-empty; a root store's symbol does not
    live inside the child store's sub-bucket; two symbols of one store have different names; the
    buckets of two symbols of one family are different and not nested in each other -/
def Schema.wf (sc : Schema) : Bool :=
  sc.ends.all (fun e => e.2.1.name != "" && e.2.1.key != "" && e.2.1.pre.all (· != "") &&
      (e.1.child || e.2.1.path.head? != some childPath)) &&
  pairwiseB (fun a b =>
      !(a.1.side == b.1.side && (a.2.2.isPrefixOf b.2.2 || b.2.2.isPrefixOf a.2.2)) &&
      !(a.1 == b.1 && a.2.1.name == b.2.1.name)) sc.ends

section
variable {K : Type} [KOrd K] [DecidableEq K]

structure GSt (K : Type) where
  /-- entity buckets: `ents x id` = store `x` holds `id` -/
  ents : Store → K → Bool := fun _ _ => false
  /-- field buckets of the i-th declared collection -/
  slots : Nat → St K := fun _ => []

def GSt.setSlot (g : GSt K) (i : Nat) (s : St K) : GSt K :=
  { g with slots := fun j => if j = i then s else g.slots j }

/-- rewrite the slot of every declared collection -/
def mapSlots (sc : Schema) (g : GSt K) (f : Coll → St K → St K) : GSt K :=
  { g with slots := fun i =>
      match sc.colls[i]? with
      | some c => f c (g.slots i)
      | none => g.slots i }

/-! ### store_crud.go: cleanupLinks -/

/-- `for _, val := range store.links { val.EntityDeleted(tx, id) }` -/
def cleanupPlain (sc : Schema) (g : GSt K) (x : Store) (id : K) : GSt K :=
  mapSlots sc g fun c s =>
    match c, c.sideOf x with
    | .plain _ _, some sd => linksEntityDeleted s sd id
    | .self _ _, some _ => SelfW.sEntityDeleted s id
    | _, _ => s

/-- `for _, val := range store.refCountedLinks { val.EntityDeleted(tx, id) }` -/
def cleanupRc (sc : Schema) (g : GSt K) (x : Store) (id : K) : GSt K :=
  mapSlots sc g fun c s =>
    match c, c.sideOf x with
    | .rc _ _, some sd => rcEntityDeleted s sd id
    | _, _ => s

/-- `cleanupLinks`: the plain collections of the store, then the ref-counted ones -/
def cleanupLinks (sc : Schema) (g : GSt K) (x : Store) (id : K) : GSt K :=
  cleanupRc sc (cleanupPlain sc g x id) x id

/-- the side of the slot at which the family `sd` (root or child store) sits -/
def Coll.famSide (c : Coll) (sd : Side) : Option Side :=
  match c.sideOf ⟨sd, false⟩ with
  | some s => some s
  | none => c.sideOf ⟨sd, true⟩

/-- `bucket.DeleteEntity(id)`: the root store's entity bucket goes, with the child store's
    sub-bucket and every field bucket inside -/
def dropEntity (sc : Schema) (g : GSt K) (sd : Side) (id : K) : GSt K :=
  { ents := fun y k => if y.side = sd ∧ k = id then false else g.ents y k
    slots := fun i =>
      match sc.colls[i]? with
      | some c =>
        match c.famSide sd with
        | some s => (g.slots i).del (s, id)
        | none => g.slots i
      | none => g.slots i }

/-- `processDeleteConstraints` of the registered child store.  `changeFlow.init → FindById`: a plain
    child store finds the entity iff it holds extension data; an EXTENDED child store finds every
    entity of its parent (`getEntityBucketForLoad` falls back to the parent's bucket).  When found,
    `cleanupLinks` runs `EntityDeleted` of every collection of the child store — which returns nil
    when the child store has no entity bucket for the id (nothing is linked through the collection;
    fix c784f90; before it `getFieldBucket` failed with "… not found with id …" and the entity
    could not be deleted).  So with or without the `Extended()` flag: the child store's collections
    are cleaned iff the entity has extension data. -/
def childConstraints (sc : Schema) (g : GSt K) (sd : Side) (id : K) : GSt K :=
  if g.ents ⟨sd, true⟩ id then cleanupLinks sc g ⟨sd, true⟩ id else g

/-- `DeleteById`: a child store forwards to its parent; not found; every registered child store
    runs `processDeleteConstraints` (→ `cleanupLinks` of the child store), then the store itself,
    then the entity bucket is deleted -/
def gdelete (sc : Schema) (g : GSt K) (x : Store) (id : K) : GSt K × Option Err :=
  if g.ents ⟨x.side, false⟩ id = false then (g, some .notFound)
  else
    let g1 := childConstraints sc g x.side id
    (dropEntity sc (cleanupLinks sc g1 ⟨x.side, false⟩ id) x.side id, none)

/-! ### Create / Update -/

/-- a new entity bucket of store `x`: it is what every collection registered on `x` sees -/
def putEntity (sc : Schema) (g : GSt K) (x : Store) (id : K) : GSt K :=
  { ents := fun y k => if y = x ∧ k = id then true else g.ents y k
    slots := fun i =>
      match sc.colls[i]? with
      | some c =>
        match c.sideOf x with
        | some s => (g.slots i).put (s, id) {}
        | none => g.slots i
      | none => g.slots i }

/-- `ctx.SetLinkedIds(field, keys)`: `ctx.Store.GetLinkCollection(field).SetLinks(tx, id, keys)`;
    a field that is not a link collection of the store is outside the vocabulary (`missing`) -/
def gsetLinks (sc : Schema) (g : GSt K) (x : Store) (i : Nat) (id : K) (keys : List K) : GSt K × Option Err :=
  match sc.colls[i]? with
  | some c =>
    match c, c.sideOf x with
    | .plain _ _, some sd => let r := setLinks (g.slots i) sd id keys; (g.setSlot i r.1, r.2)
    | .self _ _, some _ => let r := SelfW.ssetLinks (g.slots i) id keys; (g.setSlot i r.1, r.2)
    | _, _ => (g, some .missing)
  | none => (g, some .missing)

/-- `Create`: blank id, already exists (a child store only looks at its own data),
    `getOrCreateEntityBucket` (creates the root store's bucket too), `PersistEntity` -/
def gcreate (sc : Schema) (g : GSt K) (x : Store) (id : K) (blank : Bool) (links : Option (Nat × List K)) :
    GSt K × Option Err :=
  if blank then (g, some .blank)
  else if g.ents x id then (g, some .exists)
  else
    let g0 := if x.child && !g.ents ⟨x.side, false⟩ id then putEntity sc g ⟨x.side, false⟩ id else g
    let g1 := putEntity sc g0 x id
    match links with
    | none => (g1, none)
    | some (i, keys) => gsetLinks sc g1 x i id keys

/-- `Update` (no child-store strategy takes the update over): not found, else `PersistEntity` -/
def gupdate (sc : Schema) (g : GSt K) (x : Store) (id : K) (i : Nat) (keys : List K) (proceed : Bool) :
    GSt K × Option Err :=
  if g.ents x id = false then (g, some .notFound)
  else if proceed then gsetLinks sc g x i id keys else (g, none)

/-! ### the collection APIs -/

/-- `LinkCollection` methods; `sd` = from which of the collection's two stores -/
inductive PlainOp (K : Type)
  | addLinks (sd : Side) (id : K) (keys : List K)
  | removeLinks (sd : Side) (id : K) (keys : List K)
  | setLinks (sd : Side) (id : K) (keys : List K)
  | addLink (sd : Side) (id k : K)
  | removeLink (sd : Side) (id k : K)
  | getLinks (sd : Side) (id : K)
  | isLinked (sd : Side) (id k : K)
  deriving Repr

/-- `RefCountedLinkCollection` methods -/
inductive RcOp (K : Type)
  | incr (sd : Side) (id k : K)
  | decr (sd : Side) (id k : K)
  | setCount (sd : Side) (id k : K) (count : Int)
  | getCounts (sd : Side) (id k : K)
  deriving Repr

def PlainOp.toOp : PlainOp K → Op K
  | .addLinks sd id keys => .addLinks sd id keys
  | .removeLinks sd id keys => .removeLinks sd id keys
  | .setLinks sd id keys => .setLinks sd id keys
  | .addLink sd id k => .addLink sd id k
  | .removeLink sd id k => .removeLink sd id k
  | .getLinks sd id => .getLinks sd id
  | .isLinked sd id k => .isLinked sd id k

/-- the same call on a self-referential collection (one store: the side is immaterial) -/
def PlainOp.toSOp : PlainOp K → SelfW.SOp K
  | .addLinks _ id keys => .addLinks id keys
  | .removeLinks _ id keys => .removeLinks id keys
  | .setLinks _ id keys => .setLinks id keys
  | .addLink _ id k => .addLink id k
  | .removeLink _ id k => .removeLink id k
  | .getLinks _ id => .getLinks id
  | .isLinked _ id _ => .getLinks id

def RcOp.toOp : RcOp K → Op K
  | .incr sd id k => .incr sd id k
  | .decr sd id k => .decr sd id k
  | .setCount sd id k c => .setCount sd id k c
  | .getCounts sd id k => .getCounts sd id k

inductive GOp (K : Type)
  | create (x : Store) (id : K) (blank : Bool) (links : Option (Nat × List K))
  | update (x : Store) (id : K) (i : Nat) (keys : List K) (proceed : Bool)
  | delete (x : Store) (id : K)
  | link (i : Nat) (op : PlainOp K)
  | count (i : Nat) (op : RcOp K)
  deriving Repr

structure GOut (K : Type) where
  st : GSt K
  ret : Ret K := .unit
  err : Option Err := none

def gstep (sc : Schema) (g : GSt K) : GOp K → GOut K
  | .create x id blank links => let r := gcreate sc g x id blank links; { st := r.1, err := r.2 }
  | .update x id i keys p => let r := gupdate sc g x id i keys p; { st := r.1, err := r.2 }
  | .delete x id => let r := gdelete sc g x id; { st := r.1, err := r.2 }
  | .link i op =>
    match sc.colls[i]? with
    | some (.plain _ _) =>
      let o := step (g.slots i) op.toOp
      { st := g.setSlot i o.st, ret := o.ret, err := o.err }
    | some (.self _ _) =>
      let o := SelfW.sstepW (g.slots i) op.toSOp
      let ret := match op with
        | .isLinked _ id k => .bool ((SelfW.L (g.slots i) id).contains k)
        | _ => o.ret
      { st := g.setSlot i o.st, ret := ret, err := o.err }
    | _ => { st := g, err := some .missing }
  | .count i op =>
    match sc.colls[i]? with
    | some (.rc _ _) =>
      let o := step (g.slots i) op.toOp
      { st := g.setSlot i o.st, ret := o.ret, err := o.err }
    | _ => { st := g, err := some .missing }

/-- the body of one `Db.Update`: stop at the first error -/
def grunOps (sc : Schema) : GSt K → List (GOp K) → GSt K × Bool
  | g, [] => (g, false)
  | g, op :: ops =>
    let o := gstep sc g op
    match o.err with
    | some _ => (o.st, true)
    | none => grunOps sc o.st ops

/-- `Db.Update`: commit iff the body returned nil -/
def gcommitTx (sc : Schema) (g : GSt K) (ops : List (GOp K)) : GSt K :=
  let r := grunOps sc g ops
  if r.2 then g else r.1

def grunHist (sc : Schema) (g : GSt K) (txs : List (List (GOp K))) : GSt K := txs.foldl (gcommitTx sc) g

/-- the empty database -/
def g0 : GSt K := {}

/-! ### vocabulary and weight (as in C05/Hist.lean) -/

def GOpVocab : GOp K → Prop
  | .count _ op => OpVocab op.toOp
  | _ => True

def gweight : GOp K → Int
  | .count _ op => weight op.toOp
  | _ => 0

def gtxWeight (ops : List (GOp K)) : Int := (ops.map gweight).sum
def ghistWeight (txs : List (List (GOp K))) : Int := (txs.map gtxWeight).sum
def GTxVocab (ops : List (GOp K)) : Prop := ∀ op ∈ ops, GOpVocab op
def GHistVocab (txs : List (List (GOp K))) : Prop := ∀ tx ∈ txs, GTxVocab tx

end
end StorageModel.C05.Schema
