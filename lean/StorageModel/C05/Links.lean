import StorageModel.C05.Frame
/-
  C05 — link collections: effect of link / unlink / AddLinks / RemoveLinks / SetLinks /
  EntityDeleted on the membership relation, and the symmetry invariant.
-/
set_option linter.unusedSectionVars false
namespace StorageModel.C05

section
variable {K : Type} [KOrd K] [DecidableEq K]

/-- B is in A's link set iff A is in B's (for both orientations) -/
def Sym (s : St K) : Prop := ∀ sd a b, b ∈ linksOf s (sd, a) ↔ a ∈ linksOf s (sd.other, b)

theorem sym_nil : Sym ([] : St K) := by intro sd a b; simp [linksOf, Map.get]

theorem mem_updL_insert (s : St K) (r r' : Ref K) (l y : K) :
    y ∈ linksOf (upd s r fun e => { e with links := insertS l e.links }) r' ↔
      y ∈ linksOf s r' ∨ (r = r' ∧ exists? s r = true ∧ y = l) := by
  rw [linksOf_updL]
  by_cases h : r = r'
  · subst h
    cases he : exists? s r
    · simp
    · simp [mem_insertS]; constructor <;> (rintro (h | h) <;> simp [h])
  · simp [h]

theorem mem_updL_erase (s : St K) (r r' : Ref K) (l y : K) :
    y ∈ linksOf (upd s r fun e => { e with links := eraseS l e.links }) r' ↔
      y ∈ linksOf s r' ∧ ¬(r = r' ∧ y = l) := by
  rw [linksOf_updL]
  by_cases h : r = r'
  · subst h
    cases he : exists? s r
    · simp [linksOf_of_not_exists he]
    · simp [mem_eraseS]
  · simp [h]

theorem symAddLink_none {s : St K} {r : Ref K} (l : K) (h : exists? s r = false) :
    symAddLink s r l = (s, some .notFound) := by
  unfold symAddLink; unfold exists? at h
  cases hg : s.get r <;> simp_all

theorem symAddLink_some {s : St K} {r : Ref K} (l : K) (h : exists? s r = true) :
    symAddLink s r l = (upd s r (fun e => { e with links := insertS l e.links }), none) := by
  unfold symAddLink upd; unfold exists? at h
  cases hg : s.get r <;> simp_all

/-! ### link -/

theorem link_err {s : St K} {sd : Side} {id k : K} (h : exists? s (sd.other, k) = false) :
    (link s sd id k).2 = some .notFound := by
  unfold link
  rw [symAddLink_none]
  rw [exists_upd]; exact h

theorem link_ok {s : St K} {sd : Side} {id k : K} (h : exists? s (sd.other, k) = true) :
    link s sd id k = (upd (upd s (sd, id) fun e => { e with links := insertS k e.links }) (sd.other, k)
      (fun e => { e with links := insertS id e.links }), none) := by
  unfold link
  rw [symAddLink_some]
  rw [exists_upd]; exact h

theorem link_err_or_ok (s : St K) (sd : Side) (id k : K) :
    ((link s sd id k).2 = some .notFound ∧ exists? s (sd.other, k) = false) ∨
    ((link s sd id k).2 = none ∧ exists? s (sd.other, k) = true) := by
  cases h : exists? s (sd.other, k)
  · left; exact ⟨link_err h, rfl⟩
  · right; rw [link_ok h]; exact ⟨rfl, rfl⟩

theorem exists_link (s : St K) (sd : Side) (id k : K) (r : Ref K) :
    exists? (link s sd id k).1 r = exists? s r := by
  cases h : exists? s (sd.other, k)
  · unfold link; rw [symAddLink_none]
    · simp [exists_upd]
    · rw [exists_upd]; exact h
  · rw [link_ok h]; simp [exists_upd]

theorem mem_link {s : St K} {sd : Side} {id k : K} (hk : exists? s (sd.other, k) = true)
    (hid : exists? s (sd, id) = true) (sd' : Side) (x y : K) :
    y ∈ linksOf (link s sd id k).1 (sd', x) ↔
      y ∈ linksOf s (sd', x) ∨ (sd' = sd ∧ x = id ∧ y = k) ∨ (sd' = sd.other ∧ x = k ∧ y = id) := by
  rw [link_ok hk]
  simp only [mem_updL_insert, exists_upd, hk, hid, Prod.mk.injEq, true_and]
  constructor
  · rintro ((h | ⟨⟨h1, h2⟩, h3⟩) | ⟨⟨h1, h2⟩, h3⟩)
    · exact Or.inl h
    · exact Or.inr (Or.inl ⟨h1.symm, h2.symm, h3⟩)
    · exact Or.inr (Or.inr ⟨h1.symm, h2.symm, h3⟩)
  · rintro (h | ⟨h1, h2, h3⟩ | ⟨h1, h2, h3⟩)
    · exact Or.inl (Or.inl h)
    · exact Or.inl (Or.inr ⟨⟨h1.symm, h2.symm⟩, h3⟩)
    · exact Or.inr ⟨⟨h1.symm, h2.symm⟩, h3⟩

theorem rcOf_link (s : St K) (sd : Side) (id k : K) (r : Ref K) (j : K) :
    rcOf (link s sd id k).1 r j = rcOf s r j := by
  cases h : exists? s (sd.other, k)
  · unfold link; rw [symAddLink_none]
    · simp [rcOf_updL]
    · rw [exists_upd]; exact h
  · rw [link_ok h]; simp [rcOf_updL]

theorem allSorted_link {s : St K} (h : AllSorted s) (sd : Side) (id k : K) : AllSorted (link s sd id k).1 := by
  cases hk : exists? s (sd.other, k)
  · unfold link; rw [symAddLink_none]
    · exact allSorted_updL h _ _ (fun _ hl => ssorted_insertS hl)
    · rw [exists_upd]; exact hk
  · rw [link_ok hk]
    exact allSorted_updL (allSorted_updL h _ _ (fun _ hl => ssorted_insertS hl)) _ _ (fun _ hl => ssorted_insertS hl)

theorem sym_link {s : St K} (h : Sym s) {sd : Side} {id k : K} (hk : exists? s (sd.other, k) = true)
    (hid : exists? s (sd, id) = true) : Sym (link s sd id k).1 := by
  intro sd' a b
  rw [mem_link hk hid, mem_link hk hid, h sd' a b]
  cases sd <;> cases sd' <;> simp [Side.other] <;> grind

/-! ### unlink -/

theorem mem_unlink (s : St K) (sd : Side) (id k : K) (sd' : Side) (x y : K) :
    y ∈ linksOf (unlink s sd id k) (sd', x) ↔
      y ∈ linksOf s (sd', x) ∧ ¬(sd' = sd ∧ x = id ∧ y = k) ∧ ¬(sd' = sd.other ∧ x = k ∧ y = id) := by
  unfold unlink symRemoveLink
  simp only [mem_updL_erase, Prod.mk.injEq]
  constructor
  · rintro ⟨⟨h, h1⟩, h2⟩
    refine ⟨h, ?_, ?_⟩
    · rintro ⟨a, b, c⟩; exact h1 ⟨⟨a.symm, b.symm⟩, c⟩
    · rintro ⟨a, b, c⟩; exact h2 ⟨⟨a.symm, b.symm⟩, c⟩
  · rintro ⟨h, h1, h2⟩
    refine ⟨⟨h, ?_⟩, ?_⟩
    · rintro ⟨⟨a, b⟩, c⟩; exact h1 ⟨a.symm, b.symm, c⟩
    · rintro ⟨⟨a, b⟩, c⟩; exact h2 ⟨a.symm, b.symm, c⟩

theorem exists_unlink (s : St K) (sd : Side) (id k : K) (r : Ref K) :
    exists? (unlink s sd id k) r = exists? s r := by
  unfold unlink symRemoveLink; simp [exists_upd]

theorem rcOf_unlink (s : St K) (sd : Side) (id k : K) (r : Ref K) (j : K) :
    rcOf (unlink s sd id k) r j = rcOf s r j := by
  unfold unlink symRemoveLink; simp [rcOf_updL]

theorem allSorted_unlink {s : St K} (h : AllSorted s) (sd : Side) (id k : K) : AllSorted (unlink s sd id k) := by
  unfold unlink symRemoveLink
  exact allSorted_updL (allSorted_updL h _ _ (fun _ hl => ssorted_eraseS hl)) _ _ (fun _ hl => ssorted_eraseS hl)

theorem sym_unlink {s : St K} (h : Sym s) (sd : Side) (id k : K) : Sym (unlink s sd id k) := by
  intro sd' a b
  rw [mem_unlink, mem_unlink, h sd' a b]
  cases sd <;> cases sd' <;> simp [Side.other] <;> grind

/-! ### AddLinks / RemoveLinks loops -/

theorem exists_linkAll (sd : Side) (id : K) (ks : List K) (s : St K) (r : Ref K) :
    exists? (linkAll sd id ks s).1 r = exists? s r := by
  induction ks generalizing s with
  | nil => rfl
  | cons k ks ih =>
    unfold linkAll
    have hl := exists_link s sd id k r
    cases hr : link s sd id k with
    | mk s' e =>
      rw [hr] at hl
      cases e with
      | some e => simpa using hl
      | none => simp only; rw [ih]; exact hl

theorem rcOf_linkAll (sd : Side) (id : K) (ks : List K) (s : St K) (r : Ref K) (j : K) :
    rcOf (linkAll sd id ks s).1 r j = rcOf s r j := by
  induction ks generalizing s with
  | nil => rfl
  | cons k ks ih =>
    unfold linkAll
    have hl := rcOf_link s sd id k r j
    cases hr : link s sd id k with
    | mk s' e =>
      rw [hr] at hl
      cases e with
      | some e => simpa using hl
      | none => simp only; rw [ih]; exact hl

theorem allSorted_linkAll (sd : Side) (id : K) (ks : List K) {s : St K} (h : AllSorted s) :
    AllSorted (linkAll sd id ks s).1 := by
  induction ks generalizing s with
  | nil => exact h
  | cons k ks ih =>
    unfold linkAll
    have hl := allSorted_link h sd id k
    cases hr : link s sd id k with
    | mk s' e =>
      rw [hr] at hl
      cases e with
      | some e => exact hl
      | none => exact ih hl

/-- all requested keys exist: `AddLinks` succeeds and adds exactly the pairs (id, k) -/
theorem linkAll_ok (sd : Side) (id : K) (ks : List K) {s : St K} (hid : exists? s (sd, id) = true)
    (hall : ∀ k ∈ ks, exists? s (sd.other, k) = true) :
    (linkAll sd id ks s).2 = none ∧
    ∀ sd' x y, y ∈ linksOf (linkAll sd id ks s).1 (sd', x) ↔
      y ∈ linksOf s (sd', x) ∨ (sd' = sd ∧ x = id ∧ y ∈ ks) ∨ (sd' = sd.other ∧ x ∈ ks ∧ y = id) := by
  induction ks generalizing s with
  | nil => simp [linkAll]
  | cons k ks ih =>
    have hk := hall k (by simp)
    unfold linkAll
    have hm := mem_link hk hid
    have he := fun r => exists_link s sd id k r
    rw [link_ok hk] at hm he ⊢
    simp only
    have ih' := ih (s := _) (by rw [he]; exact hid) (fun k' hk' => by rw [he]; exact hall k' (by simp [hk']))
    refine ⟨ih'.1, ?_⟩
    intro sd' x y
    rw [ih'.2, hm]
    simp only [List.mem_cons]
    constructor
    · rintro ((h | ⟨a, b, c⟩ | ⟨a, b, c⟩) | ⟨a, b, c⟩ | ⟨a, b, c⟩)
      · exact Or.inl h
      · exact Or.inr (Or.inl ⟨a, b, Or.inl c⟩)
      · exact Or.inr (Or.inr ⟨a, Or.inl b, c⟩)
      · exact Or.inr (Or.inl ⟨a, b, Or.inr c⟩)
      · exact Or.inr (Or.inr ⟨a, Or.inr b, c⟩)
    · rintro (h | ⟨a, b, c | c⟩ | ⟨a, b | b, c⟩)
      · exact Or.inl (Or.inl h)
      · exact Or.inl (Or.inr (Or.inl ⟨a, b, c⟩))
      · exact Or.inr (Or.inl ⟨a, b, c⟩)
      · exact Or.inl (Or.inr (Or.inr ⟨a, b, c⟩))
      · exact Or.inr (Or.inr ⟨a, b, c⟩)

/-- some requested key names a missing entity: `AddLinks` fails with not-found -/
theorem linkAll_missing (sd : Side) (id : K) (ks : List K) (s : St K)
    (hmiss : ∃ k ∈ ks, exists? s (sd.other, k) = false) :
    (linkAll sd id ks s).2 = some .notFound := by
  induction ks generalizing s with
  | nil => obtain ⟨k, hk, _⟩ := hmiss; cases hk
  | cons k ks ih =>
    unfold linkAll
    rcases link_err_or_ok s sd id k with ⟨h1, _⟩ | ⟨h1, h2⟩
    · cases hr : link s sd id k with
      | mk s' e => rw [hr] at h1; simp at h1; subst h1; rfl
    · cases hr : link s sd id k with
      | mk s' e =>
        rw [hr] at h1; simp at h1; subst h1
        simp only
        apply ih
        obtain ⟨k', hk', hm⟩ := hmiss
        rcases List.mem_cons.mp hk' with rfl | hk'
        · rw [h2] at hm; cases hm
        · refine ⟨k', hk', ?_⟩
          have := exists_link s sd id k (sd.other, k')
          rw [hr] at this; rw [this]; exact hm

/-- the only error `AddLinks` can produce past the local check is not-found -/
theorem linkAll_err (sd : Side) (id : K) (ks : List K) (s : St K) :
    (linkAll sd id ks s).2 = none ∨ (linkAll sd id ks s).2 = some .notFound := by
  induction ks generalizing s with
  | nil => left; rfl
  | cons k ks ih =>
    unfold linkAll
    rcases link_err_or_ok s sd id k with ⟨h1, _⟩ | ⟨h1, _⟩
    · cases hr : link s sd id k with
      | mk s' e => rw [hr] at h1; simp at h1; subst h1; right; rfl
    · cases hr : link s sd id k with
      | mk s' e => rw [hr] at h1; simp at h1; subst h1; exact ih s'

theorem sym_linkAll (sd : Side) (id : K) (ks : List K) {s : St K} (h : Sym s) (hid : exists? s (sd, id) = true)
    (hok : (linkAll sd id ks s).2 = none) : Sym (linkAll sd id ks s).1 := by
  induction ks generalizing s with
  | nil => exact h
  | cons k ks ih =>
    unfold linkAll at hok ⊢
    rcases link_err_or_ok s sd id k with ⟨h1, _⟩ | ⟨h1, h2⟩
    · cases hr : link s sd id k with
      | mk s' e => rw [hr] at h1 hok; simp at h1; subst h1; simp at hok
    · have hs := sym_link h h2 hid
      have he := exists_link s sd id k (sd, id)
      cases hr : link s sd id k with
      | mk s' e =>
        rw [hr] at h1 hok hs he; simp at h1; subst h1
        simp only at hok ⊢
        exact ih hs (by rw [he]; exact hid) hok

theorem mem_unlinkAll (sd : Side) (id : K) (ks : List K) (s : St K) (sd' : Side) (x y : K) :
    y ∈ linksOf (unlinkAll sd id ks s) (sd', x) ↔
      y ∈ linksOf s (sd', x) ∧ ¬(sd' = sd ∧ x = id ∧ y ∈ ks) ∧ ¬(sd' = sd.other ∧ x ∈ ks ∧ y = id) := by
  induction ks generalizing s with
  | nil => simp [unlinkAll]
  | cons k ks ih =>
    unfold unlinkAll
    rw [ih, mem_unlink]
    simp only [List.mem_cons]
    constructor
    · rintro ⟨⟨h, h1, h2⟩, h3, h4⟩
      refine ⟨h, ?_, ?_⟩
      · rintro ⟨a, b, c | c⟩
        · exact h1 ⟨a, b, c⟩
        · exact h3 ⟨a, b, c⟩
      · rintro ⟨a, b | b, c⟩
        · exact h2 ⟨a, b, c⟩
        · exact h4 ⟨a, b, c⟩
    · rintro ⟨h, h1, h2⟩
      refine ⟨⟨h, ?_, ?_⟩, ?_, ?_⟩
      · rintro ⟨a, b, c⟩; exact h1 ⟨a, b, Or.inl c⟩
      · rintro ⟨a, b, c⟩; exact h2 ⟨a, Or.inl b, c⟩
      · rintro ⟨a, b, c⟩; exact h1 ⟨a, b, Or.inr c⟩
      · rintro ⟨a, b, c⟩; exact h2 ⟨a, Or.inr b, c⟩

theorem exists_unlinkAll (sd : Side) (id : K) (ks : List K) (s : St K) (r : Ref K) :
    exists? (unlinkAll sd id ks s) r = exists? s r := by
  induction ks generalizing s with
  | nil => rfl
  | cons k ks ih => unfold unlinkAll; rw [ih, exists_unlink]

theorem rcOf_unlinkAll (sd : Side) (id : K) (ks : List K) (s : St K) (r : Ref K) (j : K) :
    rcOf (unlinkAll sd id ks s) r j = rcOf s r j := by
  induction ks generalizing s with
  | nil => rfl
  | cons k ks ih => unfold unlinkAll; rw [ih, rcOf_unlink]

theorem allSorted_unlinkAll (sd : Side) (id : K) (ks : List K) {s : St K} (h : AllSorted s) :
    AllSorted (unlinkAll sd id ks s) := by
  induction ks generalizing s with
  | nil => exact h
  | cons k ks ih => unfold unlinkAll; exact ih (allSorted_unlink h sd id k)

theorem sym_unlinkAll (sd : Side) (id : K) (ks : List K) {s : St K} (h : Sym s) : Sym (unlinkAll sd id ks s) := by
  induction ks generalizing s with
  | nil => exact h
  | cons k ks ih => unfold unlinkAll; exact ih (sym_unlink h sd id k)

end
end StorageModel.C05
